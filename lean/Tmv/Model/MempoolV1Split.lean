import Tmv.Model.MempoolV1
/-! mempool/v1 `CheckTx` is NOT one critical section: its first phase (size / pre-check / cache, under
the read lock) and `addNewTransaction` (write lock) are separated by the call to the application
(`CheckTxSync`, no pool lock held). Here the two halves are separate steps, so block updates and other
submissions can happen while a call is in flight (any ABCI client, also the local one). The arrival
timestamp is taken after the application has answered, the height before. Rechecks are as in
`MempoolV1.update` (their answers are handled before the next step; they commute). -/
namespace Tmv.Mempool.V1
open Tmv Tmv.Mempool

/-- a `CheckTx` call between its first phase and `addNewTransaction` -/
structure Pending where
  tx : Bytes
  height : Int
  peer : Nat
deriving Repr

structure SState where
  s : State
  pending : List Pending

def sinit (cfg : Cfg) (h : Int) : SState := { s := init cfg h, pending := [] }

/-- first phase of `CheckTx` -/
def sbegin (a : SState) (tx : Bytes) (peer : Nat) : SState × CheckRes :=
  if (tx.length : Int) > a.s.cfg.maxTxBytes then (a, .tooLarge)
  else if preFails a.s.pre tx then (a, .pre)
  else
    let r := a.s.cache.push tx
    if !r.2 then ({ a with s := recordPeer { a.s with cache := r.1 } tx peer }, .inCache)
    else ({ s := { a.s with cache := r.1 }, pending := a.pending ++ [{ tx := tx, height := a.s.height, peer := peer }] },
          .ok .none)

/-- the application has answered the `i`-th call in flight: `addNewTransaction` -/
def sfinish (a : SState) (i : Nat) (v : Verdict) : SState × MemErr :=
  match a.pending[i]? with
  | none => (a, .none)
  | some p =>
    let s1 := { a.s with clock := a.s.clock + 1 }
    let w : WTx := { tx := p.tx, height := p.height, seq := a.s.clock, gas := 0, prio := 0, sender := "" }
    let r := addNewTransaction s1 w v
    let s2 := if accepted a.s.post v then recordPeer r.1 p.tx p.peer else r.1
    ({ s := s2, pending := a.pending.eraseIdx i }, r.2)

def supdate (a : SState) (h : Int) (block : List (Bytes × Nat)) (pre post : Option Int)
    (rv : Bytes → Verdict) (expired : WTx → Bool) : SState :=
  { a with s := update a.s h block pre post rv expired }

inductive SOp
  | begin (tx : Bytes) (peer : Nat)
  | finish (i : Nat) (v : Verdict)
  | update (h : Int) (block : List (Bytes × Nat)) (pre post : Option Int) (rv : Bytes → Verdict)
      (expired : WTx → Bool)

def sstep (a : SState) : SOp → SState
  | .begin tx peer => (sbegin a tx peer).1
  | .finish i v => (sfinish a i v).1
  | .update h b pre post rv ex => supdate a h b pre post rv ex

def srun (a : SState) (ops : List SOp) : SState := ops.foldl sstep a

end Tmv.Mempool.V1
