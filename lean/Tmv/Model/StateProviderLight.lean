import Tmv.Model.StateProvider
import Tmv.Model.Light
/-! The state provider of `Tmv.Model.StateProvider` with its parameter instantiated: every
`s.lc.VerifyLightBlockAtHeight` is C09's model `Tmv.Light.verifyLightBlockAtHeight` on a light
client state that is threaded through the calls (`lightClientStateProvider` holds one
`light.Client`, the mutex serialises the calls).

C09's light blocks carry abstract hashes (`Nat`); `enc` embeds them into the byte strings of the
provider model. What a C09 header does not carry explicitly — `Version.App` and the preimage of
`ConsensusHash` — is a function of the header hash (`hdrApp`, `hdrCons`: the hash commits to the
whole header). -/
namespace Tmv.StateSync
open Tmv.Light

structure LightView where
  enc : Nat → Bytes                 -- an abstract hash as bytes
  hdrApp : Nat → Nat                -- header hash ↦ header.Version.App
  hdrCons : Nat → Int × Int         -- header hash ↦ hashed params committed by ConsensusHash

/-- the provider's view of a C09 light block -/
def LightView.block (v : LightView) (b : Light.LightBlock) : LightBlock :=
  { height := b.height.toNat, hash := v.enc b.hash, appHash := v.enc b.hdr.appHash
    appVersion := v.hdrApp b.hash, vals := v.enc b.vals.hash, lastResults := v.enc b.hdr.resHash
    consHashed := v.hdrCons b.hash }

def LightView.res (v : LightView) : Except Light.Err Light.LightBlock → ProvRes LightBlock
  | .ok b => .ok (v.block b)
  | .error .noWitnesses => .noWitness
  | .error _ => .err

/-- `VerifyLightBlockAtHeight` with the witness-reply arrival order `sched` of this call -/
def vlb (c : Client) (sched : List Prov → List Nat) (h : Nat) (now : Int) :
    Client × Except Light.Err Light.LightBlock :=
  verifyLightBlockAtHeight { c with sched := sched } (h : Int) now

/-- one provider call's environment: the clock and the arrival orders of its (up to three)
light-client calls -/
structure CallEnv where
  now : Nat → Int
  sched : Nat → List Prov → List Nat

/-- `AppHash(height)`: verify `height+1`; on success verify `height+2` -/
def lightAppHash (v : LightView) (e : CallEnv) (c : Client) (h : Nat) : Client × ProvRes Bytes :=
  match vlb c (e.sched 0) (h + 1) (e.now 0) with
  | (c1, .ok b1) =>
    match vlb c1 (e.sched 1) (h + 2) (e.now 1) with
    | (c2, r2) => (c2, assembleAppHash (.ok (v.block b1)) (v.res r2))
  | (c1, r1) => (c1, assembleAppHash (v.res r1) .err)

/-- `Commit(height)` -/
def lightCommit (v : LightView) (e : CallEnv) (c : Client) (h : Nat) : Client × ProvRes LcCommit :=
  match vlb c (e.sched 0) h (e.now 0) with
  | (c1, r0) => (c1, assembleCommit (v.res r0))

/-- `State(height)`: verify `height`, `height+1`, `height+2` in this order, stopping at the first
failure; then the consensus parameters -/
def lightState (v : LightView) (maxBlock : Int) (rpc : Nat → ProvRes ParamsResp) (ih : Nat)
    (e : CallEnv) (c : Client) (h : Nat) : Client × ProvRes LcState :=
  match vlb c (e.sched 0) h (e.now 0) with
  | (c1, .ok b0) =>
    match vlb c1 (e.sched 1) (h + 1) (e.now 1) with
    | (c2, .ok b1) =>
      match vlb c2 (e.sched 2) (h + 2) (e.now 2) with
      | (c3, r2) => (c3, assembleState maxBlock rpc ih (.ok (v.block b0)) (.ok (v.block b1)) (v.res r2))
    | (c2, r1) => (c2, assembleState maxBlock rpc ih (.ok (v.block b0)) (v.res r1) .err)
  | (c1, r0) => (c1, assembleState maxBlock rpc ih (v.res r0) .err .err)

end Tmv.StateSync
