import Tmv.Model.BlockIndex
/-! Model of /repo state/txindex/indexer_service.go `OnStart`'s loop, one committed block per step:
the service reads the header and its `NumTxs` tx events (it is an unbuffered subscriber of the event
bus, so it sees every one of them, in order), then calls `blockIdxr.Index(header)` — on error the
block index is left as it was and (terminateOnError=false) the loop goes on — and then
`txIdxr.AddBatch(batch)` in every case. -/
namespace Tmv.IndexerService
open Tmv.Index

structure Block where
  height : Nat
  beginEvents : List Event
  endEvents : List Event
  txs : List (Bytes × List Event)      -- in block order: position = index
deriving Repr, DecidableEq

structure State where
  db : Index.DB := []
  bdb : BlockIndex.DB := []

/-- the `TxResult`s the service batches for a block (`PublishEventTx` carries height and index) -/
def blockResults (b : Block) : List TxResult :=
  b.txs.zipIdx.map fun (p, i) => { height := b.height, index := i, tx := p.1, events := p.2 }

/-- does the block index accept the block's own events? -/
def accepted (s : State) (b : Block) : Bool :=
  (BlockIndex.index s.bdb b.height b.beginEvents b.endEvents).isSome

variable (H : Bytes → Bytes)

def step (s : State) (b : Block) : State :=
  { db := addBatch H s.db (blockResults b),
    bdb := (BlockIndex.index s.bdb b.height b.beginEvents b.endEvents).getD s.bdb }

def run (s : State) (bs : List Block) : State := bs.foldl (step H) s

end Tmv.IndexerService
