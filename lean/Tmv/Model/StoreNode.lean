import Tmv.Model.BlockStore
import Tmv.Model.StateStoreRange
/-! The two stores driven the way `consensus/state.go finalizeCommit` drives them:
`SaveBlock` (unless already stored), `ApplyBlock` (`SaveABCIResponses`, `updateState`, `Save`),
then `pruneBlocks(retainHeight)` = `PruneBlocks` followed by `PruneStates(base, retain)`.
One global sequence of crash units over both databases (every group of writes to one database ends
with a synced write before the other database is touched, so the reachable crash states are the
global prefixes). -/
namespace Tmv.StoreNode
open Tmv

inductive U where
  | b (ws : List BlockStore.Write)
  | s (ws : List StateStore.Write)

structure Node where
  bdb : BlockStore.DB
  sdb : StateStore.DB
  bs : BlockStore.Store
  st : StateStore.St

def applyU (d : BlockStore.DB × StateStore.DB) : U → BlockStore.DB × StateStore.DB
  | .b ws => (BlockStore.applyAll d.1 ws, d.2)
  | .s ws => (d.1, StateStore.applyAll d.2 ws)

def applyUs (d : BlockStore.DB × StateStore.DB) (us : List U) : BlockStore.DB × StateStore.DB :=
  us.foldl applyU d

/-- audit of both stores: first failing height and what fails there -/
def auditFrom (bdb : BlockStore.DB) (sdb : StateStore.DB) (H : Int) : Nat → Int → Option (Int × String)
  | 0, _ => none
  | fuel + 1, h =>
    match BlockStore.checkAt bdb H h with
    | some f => some (h, (reprStr f).replace "Tmv.BlockStore.Fault." "")
    | none =>
      if !StateStore.valsLoadable sdb h then some (h, "noVals")
      else if !StateStore.paramsLoadable sdb h then some (h, "noParams")
      else auditFrom bdb sdb H fuel (h + 1)

def audit (bdb : BlockStore.DB) (sdb : StateStore.DB) : Option (Int × String) :=
  let (B, H) := BlockStore.loadRange bdb
  if H = 0 ∧ B = 0 then none
  else if B ≤ 0 ∨ B > H then some (B, "range")
  else auditFrom bdb sdb H (H + 1 - B).toNat B

def showVerdict : Option (Int × String) → String
  | none => "ok"
  | some (h, f) => s!"{h}:{f}"

/-- genesis state as `MakeGenesisState` + the handshake's `Save` -/
def genesis (ih : Int) : StateStore.St :=
  { lastBlockHeight := 0, lastBlockHash := 0, initialHeight := ih, lhcVals := ih, lhcParams := ih }

def newNode (ih : Int) : Node :=
  let st := genesis ih
  let us := (StateStore.save st).1
  { bdb := {}, sdb := StateStore.applyAll {} us.flatten, bs := BlockStore.openStore {}, st := st }

/-- restart on what is on disk -/
def reopen (d : BlockStore.DB × StateStore.DB) (fallback : StateStore.St) : Node :=
  { bdb := d.1, sdb := d.2, bs := BlockStore.openStore d.1,
    st := (StateStore.loadState d.2).getD fallback }

def nextHeight (st : StateStore.St) : Int :=
  if st.lastBlockHeight + 1 = 1 then st.initialHeight else st.lastBlockHeight + 1

/-- result of the pruning glue `State.pruneBlocks` -/
structure PruneOut where
  units : List U
  bs : BlockStore.Store
  blocks : String   -- "<n>" | "err:<class>" | "noop"
  states : String   -- "ok" | "err:<class>" | "skip"

def showBErr : BlockStore.PruneErr → String
  | .nonPositive => "nonPositive" | .beyondHeight => "beyondHeight" | .belowBase => "belowBase"

def showSErr : StateStore.PruneErr → String
  | .nonPositive => "nonPositive" | .fromNotBelowTo => "fromNotBelowTo" | .noValsAtTo => "noValsAtTo"
  | .noParamsAtTo => "noParamsAtTo" | .keptValsNotLoadable => "keptVals"
  | .keptParamsMissing => "keptParams" | .keptParamsNotLoadable => "keptParams"

/-- `State.pruneBlocks(retainHeight)` -/
def pruneGlue (bdb : BlockStore.DB) (sdb : StateStore.DB) (bs : BlockStore.Store) (retain : Int) : PruneOut :=
  let base := bs.base
  if retain ≤ base then { units := [], bs := bs, blocks := "noop", states := "skip" }
  else
    match BlockStore.pruneBlocks bs bdb retain with
    | .error e => { units := [], bs := bs, blocks := "err:" ++ showBErr e, states := "skip" }
    | .ok (bs', n, bus) =>
      let r := StateStore.pruneStates sdb base retain
      { units := bus.map U.b ++ r.1.map U.s, bs := bs', blocks := toString n,
        states := match r.2 with | none => "ok" | some e => "err:" ++ showSErr e }

/-- label of the block id that hostile commits are made for (ids given by ops are smaller) -/
def bogusHash : Nat := 4008636142

structure StepIn where
  id : Nat
  parts : Nat
  vu : Bool
  pu : Bool
  retain : Int
  badlc : Bool := false
  badsc : Bool := false
  incomplete : Bool := false

structure StepOut where
  node : Node          -- after the whole step (no crash)
  units : List U
  h : Int
  saved : String       -- "1" | "0" | "panic:<why>"
  applied : String     -- "ok" | "err:<why>" | "skip"
  blocks : String
  states : String

/-- the proposal of height `H`: LastCommit is the seen commit of the previous height -/
def proposal (n : Node) (i : StepIn) : BlockStore.Block × BlockStore.Commit :=
  let H := nextHeight n.st
  let lc : BlockStore.Commit :=
    if i.badlc then { height := H - 1, blockHash := bogusHash }
    else (BlockStore.loadSeen n.bdb (H - 1)).getD { height := 0, blockHash := 0 }
  ({ height := H, hash := i.id, total := i.parts, lastCommit := lc, vu := i.vu, pu := i.pu, retain := i.retain },
   { height := H, blockHash := if i.badsc then bogusHash else i.id })

/-- `validateBlock` as far as the stores are concerned: the LastCommit is for the state's last
block; empty at the initial height -/
def lastCommitOK (st : StateStore.St) (H : Int) (b : BlockStore.Block) : Bool :=
  if H = st.initialHeight then b.lastCommit = { height := 0, blockHash := 0 }
  else b.lastCommit = { height := H - 1, blockHash := st.lastBlockHash }

/-- 1. `finalizeCommit` validates the block (panic if invalid), then SaveBlock — unless the store
already has the height (then the stored block is applied) -/
def phase1 (n : Node) (i : StepIn) :
    Except String (Option BlockStore.Block × BlockStore.Store × List U × String) :=
  let H := nextHeight n.st
  if n.bs.height < H then
    if !lastCommitOK n.st H (proposal n i).1 then .error "panic:invalid" else
    match BlockStore.saveBlock n.bs (proposal n i).1 (!i.incomplete) (proposal n i).2 with
    | .error .notContiguous => .error "panic:notContiguous"
    | .error .incomplete => .error "panic:incomplete"
    | .ok (bs', us) => .ok (some (proposal n i).1, bs', us.map U.b, "1")
  else .ok (BlockStore.loadBlock n.bdb H, n.bs, [], "0")

structure Applied where
  units : List U
  st : StateStore.St
  verdict : String    -- "ok" | "err:validate" | "panic:noLastVals" | "err:save"

/-- 2. ApplyBlock: validateBlock (the LastCommit must be for the state's last block; empty at the
initial height), BeginBlock needs the validators of the previous height, then
`SaveABCIResponses`, `updateState`, `Save` -/
def applyBlock (sdb : StateStore.DB) (st : StateStore.St) (H : Int) (b : BlockStore.Block) : Applied :=
  if !lastCommitOK st H b then { units := [], st := st, verdict := "err:validate" }
  else if H > st.initialHeight ∧ !StateStore.valsLoadable sdb (H - 1) then
    { units := [], st := st, verdict := "panic:noLastVals" }
  else
    let st' := StateStore.updateState st H b.hash b.vu b.pu
    let sv := StateStore.save st'
    let us := (StateStore.saveAbci H).map U.s ++ sv.1.map U.s
    if !sv.2 then { units := us, st := st, verdict := "err:save" }
    else { units := us, st := st', verdict := "ok" }

/-- one height of `finalizeCommit` -/
def step (n : Node) (i : StepIn) : StepOut :=
  let H := nextHeight n.st
  let stop (saved applied : String) (us : List U) (nd : Node) : StepOut :=
    { node := nd, units := us, h := H, saved := saved, applied := applied, blocks := "none", states := "skip" }
  match phase1 n i with
  | .error e => stop e "skip" [] n
  | .ok (none, _, _, _) => stop "panic:noStoredBlock" "skip" [] n
  | .ok (some b, bs1, us1, saved) =>
    let d1 := applyUs (n.bdb, n.sdb) us1
    let a := applyBlock n.sdb n.st H b
    let d3 := applyUs d1 a.units
    if a.verdict ≠ "ok" then
      stop saved a.verdict (us1 ++ a.units) { bdb := d3.1, sdb := d3.2, bs := bs1, st := a.st }
    else
      -- 3. prune if the application asked for it
      if b.retain > 0 then
        let p := pruneGlue d3.1 d3.2 bs1 b.retain
        let d4 := applyUs d3 p.units
        { node := { bdb := d4.1, sdb := d4.2, bs := p.bs, st := a.st },
          units := us1 ++ a.units ++ p.units, h := H, saved := saved, applied := "ok",
          blocks := p.blocks, states := p.states }
      else
        { node := { bdb := d3.1, sdb := d3.2, bs := bs1, st := a.st },
          units := us1 ++ a.units, h := H, saved := saved, applied := "ok",
          blocks := "none", states := "skip" }

end Tmv.StoreNode
