import Tmv.Model.BlockSync
/-! Model of /repo blockchain/v2/scheduler.go (`scheduler.handle`): which peer is asked for which
height, which peers are dropped, when the sync is declared finished. Maps are association lists
(the code's decisions do not depend on map order: `selectPeer` and `prunablePeers` sort by id;
peer ids are compared as numbers here and the stream uses single-character ids). Times are
integers (seconds relative to the wall clock at which the events are handled): `time.Since(x) > d`
is `x < -d`; a peer that was never touched has the zero `lastTouched` and is always "timed out". -/
namespace Tmv.BlockSync.V2S

inductive BState | new | pending | received
deriving DecidableEq, Repr

inductive PState | new | ready | removed
deriving DecidableEq, Repr

structure Peer where
  id : Nat
  state : PState
  base : Int
  height : Int
  lastTouched : Option Int
deriving DecidableEq, Repr

structure Sched where
  height : Int
  peers : List Peer
  blockStates : List (Int × BState)
  pending : List (Int × Nat × Int)      -- height ↦ (peer, time asked)
  received : List (Int × Nat)
deriving DecidableEq, Repr

/-- `targetPending: 10` in `newScheduler` (anchored by fact `c13_v2_targetPending_10`) -/
def targetPending : Int := 10
def peerTimeout : Int := 15

def Sched.new (h : Int) : Sched := ⟨h, [], [], [], []⟩

inductive Out
  | noOp | peerError (p : Nat) | blockReceived (p : Nat) (h : Int) | finished
  | blockRequest (p : Nat) (h : Int) | fail | pruned (ps : List Nat) | panicHeight
deriving DecidableEq, Repr

def Sched.peer? (s : Sched) (id : Nat) : Option Peer := s.peers.find? (·.id = id)
def Sched.setPeer (s : Sched) (q : Peer) : Sched :=
  { s with peers := s.peers.map fun x => if x.id = q.id then q else x }

def Sched.ensurePeer (s : Sched) (id : Nat) : Sched :=
  if (s.peer? id).isSome then s else { s with peers := s.peers ++ [⟨id, .new, -1, -1, none⟩] }

/-- `getStateAtHeight`: `none` = Unknown, below `height` = Processed (reported as `none` too,
callers only compare with New / Pending) -/
def Sched.stateAt (s : Sched) (h : Int) : Option BState :=
  if h < s.height then none else (s.blockStates.find? (·.1 = h)).map (·.2)

def Sched.setState (s : Sched) (h : Int) (b : BState) : Sched :=
  { s with blockStates := s.blockStates.filter (·.1 ≠ h) ++ [(h, b)] }

/-- `maxHeight` -/
def Sched.maxHeight (s : Sched) : Int :=
  s.peers.foldl (fun m q => if q.state = .ready ∧ m < q.height then q.height else m) (s.height - 1)

/-- `removePeer` -/
def Sched.removePeer (s : Sched) (id : Nat) : Sched :=
  match s.peer? id with
  | none => s
  | some q =>
    if q.state = .removed then s else
    let back := (s.pending.filter (·.2.1 = id)).map (·.1) ++ (s.received.filter (·.2 = id)).map (·.1)
    let s1 := back.foldl (fun acc h => acc.setState h .new) s
    let s2 := { s1 with pending := s1.pending.filter (·.2.1 ≠ id), received := s1.received.filter (·.2 ≠ id) }
    let s3 := s2.setPeer { q with state := .removed }
    let maxPeer := s3.peers.foldl (fun m o => if o.state = .ready ∧ o.id ≠ id ∧ o.height > m then o.height else m) 0
    { s3 with blockStates := s3.blockStates.filter (·.1 ≤ maxPeer) }

/-- `addNewBlocks` (fuel = `targetPending`) -/
def Sched.addNewBlocks (s : Sched) : Sched :=
  if (s.blockStates.length : Int) ≥ targetPending then s else
  let mx := s.maxHeight
  (List.range targetPending.toNat).foldl (fun acc (k : Nat) =>
    let i : Int := s.height + (k : Int)
    if i > mx then acc
    else if i ≥ acc.height ∧ (acc.blockStates.find? (·.1 = i)).isNone then acc.setState i .new else acc) s

/-- `setPeerRange`; the flag says an error is returned -/
def Sched.setPeerRange (s : Sched) (id : Nat) (base height : Int) : Sched × Bool :=
  let s0 := s.ensurePeer id
  match s0.peer? id with
  | none => (s0, false)
  | some q =>
    if q.state = .removed then (s0, false)
    else if height < q.height then (s0.removePeer id, true)
    else if base > height then (s0.removePeer id, true)
    else ((s0.setPeer { q with base := base, height := height, state := .ready }).addNewBlocks, false)

def insertNat (x : Nat) : List Nat → List Nat
  | [] => [x]
  | a :: t => if x < a then x :: a :: t else if x = a then a :: t else a :: insertNat x t
def sortNats (l : List Nat) : List Nat := l.foldl (fun acc x => insertNat x acc) []

/-- `selectPeer`: a Ready peer that has the height, fewest pending requests, smallest id -/
def Sched.selectPeer (s : Sched) (h : Int) : Option Nat :=
  let cands := (s.peers.filter fun q => q.state = .ready ∧ q.base ≤ h ∧ q.height ≥ h).map (·.id)
  let npend (id : Nat) : Nat := (s.pending.filter (·.2.1 = id)).length
  match cands with
  | [] => none
  | c :: cs =>
    let minP := cs.foldl (fun m id => if npend id < m then npend id else m) (npend c)
    (sortNats (cands.filter fun id => npend id = minP)).head?

/-- `nextHeightToSchedule` -/
def Sched.nextHeight (s : Sched) : Option Int :=
  let news := (s.blockStates.filter (·.2 = .new)).map (·.1)
  match news with
  | [] => none
  | a :: t => some (t.foldl (fun m h => if h < m then h else m) a)

/-- `allBlocksProcessed` -/
def Sched.allProcessed (s : Sched) : Bool :=
  if s.peers.length = 0 then false else s.height ≥ s.maxHeight

inductive Ev
  | statusResponse (id : Nat) (base height : Int)
  | blockResponse (id : Nat) (h : Int) (t : Int)
  | noBlockResponse (id : Nat)
  | trySchedule (t : Int)
  | addNewPeer (id : Nat)
  | removePeer (id : Nat)
  | tryPrune (t : Int)
  | blockProcessed (h : Int)
  | processError (p1 p2 : Nat)
deriving Repr

/-- `scheduler.handle` -/
def Sched.handle (s : Sched) : Ev → Sched × Out
  | .statusResponse id b h =>
    let (s', err) := s.setPeerRange id b h
    (s', if err then .peerError id else .noOp)
  | .blockResponse id h t =>
    -- touchPeer
    match s.peer? id with
    | none => (s, .noOp)
    | some q =>
      if q.state ≠ .ready then (s, .noOp) else
      let s1 := s.setPeer { q with lastTouched := some t }
      -- markReceived
      match s1.pending.find? (·.1 = h) with
      | some (_, pid, asked) =>
        if s1.stateAt h ≠ some .pending ∨ pid ≠ id then (s1.removePeer id, .peerError id)
        else if t - asked ≤ 0 then (s1.removePeer id, .peerError id)
        else
          let s2 := s1.setState h .received
          ({ s2 with pending := s2.pending.filter (·.1 ≠ h),
                     received := s2.received.filter (·.1 ≠ h) ++ [(h, id)] }, .blockReceived id h)
      | none => (s1.removePeer id, .peerError id)
  | .noBlockResponse id =>
    match s.peer? id with
    | none => (s, .noOp)
    | some q => if q.state = .removed then (s, .noOp) else (s.removePeer id, .peerError id)
  | .trySchedule t =>
    match s.nextHeight with
    | none => (s, .noOp)
    | some h =>
      match s.selectPeer h with
      | none => (s, .fail)
      | some id =>
        -- markPending (its checks hold for a selected peer and a New height)
        let s1 := s.setState h .pending
        ({ s1 with pending := s1.pending.filter (·.1 ≠ h) ++ [(h, id, t)] }, .blockRequest id h)
  | .addNewPeer id => (s.ensurePeer id, .noOp)
  | .removePeer id =>
    let s' := s.removePeer id
    (s', if s'.allProcessed then .finished else .peerError id)
  | .tryPrune t =>
    let s0 := match s.pending.find? (·.1 = s.height) with
      | some (_, pid, asked) => if asked < -peerTimeout then s.removePeer pid else s
      | none => s
    let prunable := sortNats ((s0.peers.filter fun q => decide (q.state = .ready) &&
      (match q.lastTouched with | none => true | some lt => decide (t - lt > peerTimeout))).map (·.id))
    if prunable.isEmpty then (s0, .noOp) else
    let s1 := prunable.foldl (fun acc id => acc.removePeer id) s0
    (s1, if s1.allProcessed then .finished else .pruned prunable)
  | .blockProcessed h =>
    if h ≠ s.height then (s, .panicHeight) else
    let s1 : Sched := { s with height := h + 1, pending := s.pending.filter (·.1 ≠ h),
                               received := s.received.filter (·.1 ≠ h),
                               blockStates := s.blockStates.filter (·.1 ≠ h) }
    let s2 := s1.addNewBlocks
    (s2, if s2.allProcessed then .finished else .noOp)
  | .processError p1 p2 =>
    let s1 := s.removePeer p1
    let s2 := if p1 ≠ p2 then s1.removePeer p2 else s1
    (s2, if s2.allProcessed then .finished else .noOp)

def Sched.run (s : Sched) (es : List Ev) : Sched := es.foldl (fun a e => (a.handle e).1) s

end Tmv.BlockSync.V2S
