import Tmv.Model.CommitVerify
/-! Model of the decoding / validation glue in front of commit verification (/repo types/block.go
`CommitSig.ValidateBasic`, `CommitSig.FromProto`, `Commit.ValidateBasic`, `CommitFromProto`,
`BlockID.ValidateBasic`, `BlockID.IsComplete`, `BlockIDFromProto`; types/validator.go
`Validator.ValidateBasic`; types/validator_set.go `ValidatorSet.ValidateBasic`,
`ValidatorSetFromProto`).

The wire forms are the decoded protobuf structs (byte-level protobuf parsing is not modelled); a
public key is an identity (`key : Nat`), so "nil / undecodable public key" does not occur.
Signatures are abstract (`σ`), their byte length is the parameter `sigLen`. -/
namespace Tmv.CommitVerify

/-- `crypto.AddressSize` (= tmhash.TruncatedSize), from the regenerated fact -/
def addressSize : Nat := Facts.c07_AddressSize.toNat
/-- `MaxSignatureSize` = max(ed25519.SignatureSize, 64) -/
def maxSignatureSize : Nat := 64

/-- Go's zero `time.Time` (0001-01-01T00:00:00Z) in nanoseconds since the Unix epoch -/
def zeroTime : Int := -62135596800000000000

/-- `BlockID.IsComplete` -/
def BlockID.isComplete (b : BlockID) : Bool :=
  b.hash.length == 32 && (b.total > 0 && b.psHash.length == 32)

inductive SigErr
  | unknownFlag | absentAddr | absentTime | absentSig | addrSize | sigMissing | sigTooBig
deriving DecidableEq, Repr

/-- `CommitSig.ValidateBasic` -/
def sigValidateBasic {σ : Type} (sigLen : σ → Nat) (s : CommitSig σ) : Option SigErr :=
  if ¬ (s.flag = flagAbsent ∨ s.flag = flagCommit ∨ s.flag = flagNil) then some .unknownFlag
  else if s.flag = flagAbsent then
    if s.addr.length ≠ 0 then some .absentAddr
    else if s.ts ≠ zeroTime then some .absentTime
    else if sigLen s.sig ≠ 0 then some .absentSig
    else none
  else
    if s.addr.length ≠ addressSize then some .addrSize
    else if sigLen s.sig = 0 then some .sigMissing
    else if sigLen s.sig > maxSignatureSize then some .sigTooBig
    else none

inductive CommitErr
  | blockID                 -- BlockIDFromProto: PartSetHeader / BlockID ValidateBasic
  | sig (e : SigErr)        -- CommitSig.FromProto / ValidateBasic of the first offending slot
  | negHeight | negRound | nilBlock | noSigs
deriving DecidableEq, Repr

/-- first slot error, in slot order -/
def firstSigErr {σ : Type} (sigLen : σ → Nat) : List (CommitSig σ) → Option SigErr
  | [] => none
  | s :: ss =>
    match sigValidateBasic sigLen s with
    | some e => some e
    | none => firstSigErr sigLen ss

/-- `Commit.ValidateBasic` -/
def commitValidateBasic {σ : Type} (sigLen : σ → Nat) (c : Commit σ) : Option CommitErr :=
  if c.height < 0 then some .negHeight
  else if c.round < 0 then some .negRound
  else if c.height ≥ 1 then
    if c.blockID.isZero then some .nilBlock
    else if c.sigs.length = 0 then some .noSigs
    else (firstSigErr sigLen c.sigs).map .sig
  else none

/-- `CommitFromProto` on the decoded protobuf struct: block id first, then every slot's
`FromProto` (which validates the slot, also for height 0), then `Commit.ValidateBasic`; on success
the commit is the wire commit -/
def commitFromProto {σ : Type} (sigLen : σ → Nat) (w : Commit σ) : Except CommitErr (Commit σ) :=
  if !w.blockID.validBasic then .error .blockID
  else match firstSigErr sigLen w.sigs with
    | some e => .error (.sig e)
    | none =>
      match commitValidateBasic sigLen w with
      | some e => .error e
      | none => .ok w

inductive ValErr
  | negPower | addrSize
deriving DecidableEq, Repr

/-- `Validator.ValidateBasic` -/
def valValidateBasic (v : Validator) : Option ValErr :=
  if v.power < 0 then some .negPower
  else if v.addr.length ≠ addressSize then some .addrSize
  else none

/-- the decoded protobuf `ValidatorSet` -/
structure WireValSet where
  validators : List Validator
  proposer : Option Validator
  total : Int                      -- total_voting_power as sent
deriving Repr

inductive SetErr
  | nilProposer | empty | validator (idx : Nat) (e : ValErr) | proposer (e : ValErr)
  | panicTotal
deriving DecidableEq, Repr

def firstValErr : List Validator → Nat → Option (Nat × ValErr)
  | [], _ => none
  | v :: vs, i =>
    match valValidateBasic v with
    | some e => some (i, e)
    | none => firstValErr vs (i + 1)

/-- `ValidatorSet.ValidateBasic` (validators and proposer) -/
def setValidateBasic (vs : List Validator) (p : Validator) : Option SetErr :=
  if vs.length = 0 then some .empty
  else match firstValErr vs 0 with
    | some (i, e) => some (.validator i e)
    | none => (valValidateBasic p).map .proposer

/-- `ValidatorSetFromProto`: the validators as sent, the proposer must be present, the total is
RECOMPUTED from the validators (the total on the wire is ignored; a sum above
`MaxTotalVotingPower` is the panic of `updateTotalVotingPower`), then `ValidateBasic` -/
def valSetFromProto (w : WireValSet) : Except SetErr (List Validator) :=
  match w.proposer with
  | none => .error .nilProposer
  | some p =>
    match totalVotingPower w.validators with
    | none => .error .panicTotal
    | some _ =>
      match setValidateBasic w.validators p with
      | some e => .error e
      | none => .ok w.validators

end Tmv.CommitVerify
