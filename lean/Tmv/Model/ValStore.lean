import Tmv.Model.ValSet
/-! Executable model of the validator part of `state/store.go` (`save`, `saveValidatorsInfo`,
`LoadValidators`, `lastStoredHeightFor`, `PruneStates`) and of the validator part of
`state/execution.go updateState` / `state/state.go MakeGenesisState`.  Core Lean only.

The database is an association list keyed by height (one list for `validatorsKey:h` records and
one for `consensusParamsKey:h` records, which `PruneStates` also consults).  A `ValidatorsInfo`
record is `(LastHeightChanged, optional set)`; the protobuf round trip of a set is the identity
on non-empty sets with a proposer and an error otherwise. -/
namespace Tmv.ValStore
open Tmv.ValSet

/-- `valSetCheckpointInterval`, from the regenerated fact -/
def interval : Int := Facts.c08_valSetCheckpointInterval

structure Info where
  lhc : Int
  set : Option VSet
deriving DecidableEq, Repr

abbrev Tbl (α : Type) := List (Int × α)

def Tbl.get {α} (t : Tbl α) (h : Int) : Option α :=
  match t with
  | [] => none
  | (k, v) :: r => if k = h then some v else Tbl.get r h

def Tbl.del {α} (t : Tbl α) (h : Int) : Tbl α := t.filter (fun kv => kv.1 ≠ h)
def Tbl.put {α} (t : Tbl α) (h : Int) (v : α) : Tbl α := (h, v) :: Tbl.del t h

/-- validator records and consensus-param records (`some c` = LastHeightChanged c; the full
params are present iff `c = h`) -/
structure DB where
  vals : Tbl Info
  params : Tbl Int
deriving Repr

def DB.empty : DB := ⟨[], []⟩

/-- `ValidatorSetFromProto` ∘ `ToProto`: fails for an empty set or a nil proposer -/
def fromProto (p : VSet) : Option VSet :=
  if p.vals = [] ∨ p.proposer = none then none else some p

/-- `ToProto`: an empty set is written as the empty message; a non-empty set with nil proposer
is an error -/
def toProto (s : VSet) : Option VSet :=
  if s.vals = [] then some VSet.empty
  else if s.proposer = none then none
  else some s

/-- `saveValidatorsInfo(height, lastHeightChanged, valSet)`; `none` = error -/
def saveValidatorsInfo (t : Tbl Info) (height lhc : Int) (set : VSet) : Option (Tbl Info) :=
  if lhc > height then none
  else if height = lhc ∨ height.tmod interval = 0 then
    match toProto set with
    | none => none
    | some p => some (t.put height ⟨lhc, some p⟩)
  else some (t.put height ⟨lhc, none⟩)

/-- `saveConsensusParamsInfo(nextHeight, changeHeight, params)` (only the pointer matters here) -/
def saveParamsInfo (t : Tbl Int) (height lhc : Int) : Tbl Int := t.put height lhc

/-- `lastStoredHeightFor` (Go `%` = `Int.tmod`) -/
def lastStoredHeightFor (height lhc : Int) : Int :=
  let checkpoint := height - height.tmod interval
  if checkpoint ≥ lhc then checkpoint else lhc

inductive LoadRes
  | ok (s : VSet)
  | noValSet      -- ErrNoValSetForHeight
  | notFound      -- "couldn't find validators at height"
  | protoErr
  | panic
deriving DecidableEq, Repr

/-- `n` times `IncrementProposerPriority(1)`; `none` = Go panics (empty set) -/
def incrTimes : Nat → VSet → Option VSet
  | 0, s => some s
  | n+1, s =>
    match increment s 1 with
    | none => none
    | some s' => incrTimes n s'

/-- `LoadValidators(height)`: a record without the full set is rebuilt from the last stored one
by replaying one `IncrementProposerPriority(1)` per height (`for h := lastStoredHeight; h < height; h++`) -/
def loadValidators (t : Tbl Info) (height : Int) : LoadRes :=
  match t.get height with
  | none => .noValSet
  | some info =>
    match info.set with
    | some p =>
      match fromProto p with
      | some s => .ok s
      | none => .protoErr
    | none =>
      let ls := lastStoredHeightFor height info.lhc
      match t.get ls with
      | none => .notFound
      | some info2 =>
        match info2.set with
        | none => .notFound
        | some p2 =>
          match fromProto p2 with
          | none => .protoErr
          | some vs =>
            match incrTimes (height - ls).toNat vs with
            | none => .panic
            | some vs' => .ok vs'

/-- the validator-related fields of `state.State` -/
structure State where
  initialHeight : Int
  lastBlockHeight : Int
  lastValidators : VSet
  validators : VSet
  nextValidators : VSet
  lhvc : Int          -- LastHeightValidatorsChanged
  lhpc : Int          -- LastHeightConsensusParamsChanged
deriving Repr

/-- `store.save(state)` -/
def save (db : DB) (st : State) : Option DB :=
  let next0 := st.lastBlockHeight + 1
  let step1 : Option (Int × Tbl Info) :=
    if next0 = 1 then
      match saveValidatorsInfo db.vals st.initialHeight st.initialHeight st.validators with
      | none => none
      | some t => some (st.initialHeight, t)
    else some (next0, db.vals)
  match step1 with
  | none => none
  | some (nextHeight, t1) =>
    match saveValidatorsInfo t1 (nextHeight + 1) st.lhvc st.nextValidators with
    | none => none
    | some t2 => some ⟨t2, saveParamsInfo db.params nextHeight st.lhpc⟩

/-- `MakeGenesisState` (validator part; `ValidateAndComplete` rejects zero-power entries first) -/
def genesisState (initialHeight : Int) (valz : List Val) : Except UpdErr State :=
  if valz.any (fun v => v.power = 0) then .error .zeroPower else
  match newValidatorSet valz with
  | .error e => .error e
  | .ok vs =>
    let nxt := match increment vs 1 with | some s => s | none => vs
    .ok { initialHeight := initialHeight, lastBlockHeight := 0, lastValidators := VSet.empty,
          validators := vs,
          nextValidators := nxt, lhvc := initialHeight, lhpc := initialHeight }

inductive HsRes
  | ok (st : State)
  | panic (e : UpdErr)     -- NewValidatorSet panics on the app's list
  | noValidators           -- "validator set is nil in genesis and still empty after InitChain"
deriving Repr

/-- `Handshaker.ReplayBlocks`, genesis branch (app height 0, state height 0), validator part: a
non-empty validator list returned by InitChain replaces the genesis sets:
`Validators = NewValidatorSet(vals)`, `NextValidators = NewValidatorSet(vals).CopyIncrementProposerPriority(1)` -/
def handshakeInit (st : State) (genesisVals iv : List Val) : HsRes :=
  if iv ≠ [] then
    match newValidatorSet iv with
    | .error e => .panic e
    | .ok vs =>
      match increment vs 1 with
      | none => .panic .empty
      | some nx => .ok { st with validators := vs, nextValidators := nx }
  else if genesisVals = [] then .noValidators
  else .ok st

/-- `store.Bootstrap(state)` (state sync): full records for height-1, height, height+1 -/
def bootstrap (st : State) : Option DB :=
  let height := if st.lastBlockHeight + 1 = 1 then st.initialHeight else st.lastBlockHeight + 1
  let t0 : Option (Tbl Info) :=
    if height > 1 ∧ st.lastValidators.vals ≠ [] then
      saveValidatorsInfo [] (height - 1) (height - 1) st.lastValidators
    else some []
  match t0 with
  | none => none
  | some t0 =>
    match saveValidatorsInfo t0 height height st.validators with
    | none => none
    | some t1 =>
      match saveValidatorsInfo t1 (height + 1) (height + 1) st.nextValidators with
      | none => none
      | some t2 => some ⟨t2, saveParamsInfo [] height st.lhpc⟩

inductive StepRes
  | ok (st : State)
  | err (e : UpdErr)
  | panic
deriving Repr

/-- `updateState` (validator part) for a block at `height` carrying `updates` -/
def updateState (st : State) (height : Int) (updates : List Val) : StepRes :=
  -- `if len(validatorUpdates) > 0 { err := nValSet.UpdateWithChangeSet(..); lastHeightValsChanged = height+1+1 }`
  let u : VSet × Option UpdErr :=
    if updates ≠ [] then updateWithChangeSet st.nextValidators updates true
    else (st.nextValidators, none)
  let lhvc := if updates ≠ [] then height + 1 + 1 else st.lhvc
  match u.2 with
  | some e => .err e
  | none =>
    match increment u.1 1 with
    | none => .panic
    | some nv' =>
      .ok { st with lastBlockHeight := height, nextValidators := nv',
                    validators := st.nextValidators, lastValidators := st.validators, lhvc := lhvc }

/-! ### the `/validators` RPC -/

/-- `rpc/core getHeight(latestUncommittedHeight(), heightPtr)`: the block store is at the state's
height; the latest height is one above it unless the node is catching up; explicit heights must be
within `[base, latest]` (`none` = the RPC answers with an error) -/
def rpcHeight (st : State) (syncing : Bool) (h : Option Int) : Option Int :=
  let latest := if syncing then st.lastBlockHeight else st.lastBlockHeight + 1
  match h with
  | none => some latest
  | some x => if x ≤ 0 ∨ x > latest ∨ x < st.initialHeight then none else some x

/-- `rpc/core.Validators`: the set is `StateStore.LoadValidators(height)`, reported under `height` -/
def rpcValidators (db : DB) (st : State) (syncing : Bool) (h : Option Int) : Option (Int × LoadRes) :=
  (rpcHeight st syncing h).map fun x => (x, loadValidators db.vals x)

/-! ### Rollback -/

inductive RbRes
  | ok (db : DB) (st : State)
  | errNoBlock     -- "block at height %d not found"
  | errLoad        -- LoadValidators(rollbackHeight) failed
  | errParams      -- LoadConsensusParams(rollbackHeight+1) failed
  | errSave
  | panic
deriving Repr

/-- `state.Rollback(bs, ss)` (validator and consensus-param part) when the block store is at the
state's height: the state of height n is overwritten by the state of height n-1 rebuilt from the
invalid state's own fields and `LoadValidators(n-1)`.  Blocks exist from the initial height on.
`valChangeHeight`/`paramsChangeHeight` are clamped to `rollbackHeight + 1` as in the source. -/
def rollback (db : DB) (st : State) : RbRes :=
  let rh := st.lastBlockHeight - 1
  if rh < st.initialHeight then .errNoBlock else
  match loadValidators db.vals rh with
  | .ok prevLast =>
    match db.params.get (rh + 1) with
    | none => .errParams
    | some c =>
      if c ≠ rh + 1 ∧ (db.params.get c).isNone then .errParams else
      let vch := if st.lhvc > rh then rh + 1 else st.lhvc
      let pch := if st.lhpc > rh then rh + 1 else st.lhpc
      let st' : State :=
        { st with lastBlockHeight := rh, nextValidators := st.validators,
                  validators := st.lastValidators, lastValidators := prevLast,
                  lhvc := vch, lhpc := pch }
      match save db st' with
      | none => .errSave
      | some db' => .ok db' st'
  | .panic => .panic
  | _ => .errLoad

/-! ### PruneStates -/

inductive PruneRes
  | ok
  | errArgs
  | errNoVals      -- validators at `to` not found
  | errNoParams    -- consensus params at `to` not found
  | errLoad        -- a kept height could not be reconstructed / loaded
  | panic
deriving DecidableEq, Repr

structure PruneSt where
  committed : DB     -- store.db (what reads see)
  batch : DB         -- committed + pending batch operations
  pruned : Nat

/-- `err == nil && v.ValidatorSet != nil` for the record read by `loadValidatorsInfo` -/
def hasSet : Option Info → Bool
  | some i => i.set.isSome
  | none => false

/-- one iteration of the descending loop of `PruneStates` for height `h` -/
def pruneOne (keepVals keepParams : List Int) (s : PruneSt) (h : Int) : Except PruneRes PruneSt :=
  -- validators
  let r1 : Except PruneRes (Tbl Info) :=
    if keepVals.contains h then
      if hasSet (s.committed.vals.get h) then .ok s.batch.vals
      else
        match loadValidators s.committed.vals h with
        | .ok vs =>
          (match s.committed.vals.get h with
           | none => .error .panic  -- `v` is nil: `v.ValidatorSet = pvi` dereferences nil
           | some _ =>
             match toProto vs with
             | none => .error .errLoad
             | some p => .ok (s.batch.vals.put h ⟨h, some p⟩))
        | .panic => .error .panic
        | _ => .error .errLoad
    else .ok (s.batch.vals.del h)
  match r1 with
  | .error e => .error e
  | .ok bv =>
    let r2 : Except PruneRes (Tbl Int) :=
      if keepParams.contains h then
        match s.committed.params.get h with
        | none => .error .errLoad
        | some c =>
          if c = h then .ok s.batch.params
          else
            -- LoadConsensusParams(h): needs the record at c with full params
            match s.committed.params.get c with
            | some c2 => if c2 = c then .ok (s.batch.params.put h h) else .error .errLoad
            | none => .error .errLoad
      else .ok (s.batch.params.del h)
    match r2 with
    | .error e => .error e
    | .ok bp =>
      let b : DB := ⟨bv, bp⟩
      let pruned := s.pruned + 1
      if pruned % 1000 = 0 then .ok ⟨b, b, pruned⟩ else .ok ⟨s.committed, b, pruned⟩

/-- the loop `for h := to-1; h >= from; h--`, `n` = remaining iterations, `h` = current height;
on error the store keeps what was flushed so far -/
def pruneLoop (keepVals keepParams : List Int) : Nat → Int → PruneSt → DB × PruneRes
  | 0, _, s => (s.batch, .ok)
  | n+1, h, s =>
    match pruneOne keepVals keepParams s h with
    | .error e => (s.committed, e)
    | .ok s' => pruneLoop keepVals keepParams n (h - 1) s'

/-- `PruneStates(from, to)` -/
def pruneStates (db : DB) (frm to : Int) : DB × PruneRes :=
  if frm ≤ 0 ∨ to ≤ 0 then (db, .errArgs)
  else if frm ≥ to then (db, .errArgs)
  else
    match db.vals.get to with
    | none => (db, .errNoVals)
    | some valInfo =>
      match db.params.get to with
      | none => (db, .errNoParams)
      | some pc =>
        let keepVals : List Int :=
          if valInfo.set = none then [valInfo.lhc, lastStoredHeightFor to valInfo.lhc] else []
        let keepParams : List Int := if pc ≠ to then [pc] else []
        pruneLoop keepVals keepParams (to - frm).toNat (to - 1) ⟨db, db, 0⟩

end Tmv.ValStore
