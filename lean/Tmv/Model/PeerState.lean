import Tmv.Model.PeerMsgs
/-! Model of the consensus reactor's per-peer state (`PeerState` / `cstypes.PeerRoundState`,
consensus/reactor.go) and of every transition a peer's validated messages and the node's own
gossip routines drive, with each index/size use of `libs/bits.BitArray` explicit. Core-only.

Bit arrays are modelled by their sizes (`bits`, `len(Elems)`): no guard, index or allocation in the
modelled code depends on bit CONTENTS except `PickRandom`, whose result is an input of the
transition (`any index the function could return`). Aliasing between arrays of the peer state is
harmless for this abstraction because no operation changes the size of an existing array.

A function returns `none` where the Go code would panic (index out of range / negative `make`). -/
namespace Tmv.PeerState
open Tmv.PeerMsgs

/-! ### bit-array operations (sizes, panics) -/

/-- `(bits+63)/64` with Go's truncating division -/
def numElems (bits : Int) : Int := Int.tdiv (bits + 63) 64

/-- `SetIndex` / `GetIndex`: `none` = panic -/
def setIndex (b : Option BitArr) (i : Int) : Option Unit :=
  if indexPanics b i then none else some ()

/-- `copyBits(bits)`: `make` panics on a negative length -/
def copyBits (bits : Int) : Option BitArr :=
  if numElems bits < 0 then none else some { bits := bits, elems := (numElems bits).toNat }

/-- the loop of `Sub`, `for i := 0; i < bound; i++ { c.Elems[i] &^= o.Elems[i] }`, indexes the
words of the RESULT and of the ARGUMENT: in range iff `bound ≤ len(c.Elems)` and
`bound ≤ len(o.Elems)` -/
def subLoopOk (bound cElems oElems : Nat) : Bool := decide (bound ≤ cElems) && decide (bound ≤ oElems)

/-- `a.Sub(o)` with the loop bound as a parameter (a function of `len(a.Elems)`, `len(o.Elems)`,
`len(c.Elems)`): nil if either is nil; the result `c = a.copyBits(a.Bits)` has `a`'s bits -/
def subWith (bound : Nat → Nat → Nat → Nat) (a o : Option BitArr) : Option (Option BitArr) :=
  match a, o with
  | none, _ => some none
  | _, none => some none
  | some x, some y =>
    match copyBits x.bits with
    | none => none
    | some c => if subLoopOk (bound x.elems y.elems c.elems) c.elems y.elems then some (some c) else none

/-- `a.Sub(o)`: the code's bound is `smaller := MinInt(len(bA.Elems), len(o.Elems))`, which is what
makes arrays of DIFFERENT sizes safe in both directions -/
def sub (a o : Option BitArr) : Option (Option BitArr) := subWith (fun ae oe _ => min ae oe) a o

/-- `a.Or(o)` -/
def or (a o : Option BitArr) : Option (Option BitArr) :=
  match a, o with
  | none, none => some none
  | none, some y => some (some y)
  | some x, none => some (some x)
  | some x, some y =>
    match copyBits (max x.bits y.bits) with
    | none => none
    | some c => if min x.elems y.elems > c.elems then none else some (some c)

/-- `a.Not()` (a copy) -/
def not (a : Option BitArr) : Option BitArr := a

/-- can `PickRandom` run on `a` without a panic? (`make([]int, 0, Bits)` needs `Bits ≥ 0`,
`Elems[len-1]` needs an element) -/
def pickRandomOk (a : Option BitArr) : Bool :=
  match a with
  | none => true
  | some x => decide (0 ≤ x.bits) && decide (0 < x.elems)

/-! ### peer round state -/

structure PRS where
  height : Int := 0
  round : Int := -1
  step : Nat := 0
  proposal : Bool := false
  pbpTotal : Nat := 0                 -- ProposalBlockPartSetHeader.Total
  pbp : Option BitArr := none         -- ProposalBlockParts
  polRound : Int := -1
  pol : Option BitArr := none
  prevotes : Option BitArr := none
  precommits : Option BitArr := none
  lastCommitRound : Int := -1
  lastCommit : Option BitArr := none
  catchupRound : Int := -1
  catchup : Option BitArr := none
deriving Repr, DecidableEq

/-- `CompareHRS` -/
def compareHRS (h1 r1 : Int) (s1 : Nat) (h2 r2 : Int) (s2 : Nat) : Int :=
  if h1 < h2 then -1 else if h1 > h2 then 1
  else if r1 < r2 then -1 else if r1 > r2 then 1
  else if s1 < s2 then -1 else if s1 > s2 then 1 else 0

/-- `getVoteBitArray` (`t`: 1 prevote, 2 precommit) -/
def getVoteBitArray (p : PRS) (height round t : Int) : Option BitArr :=
  if ¬ voteTypeValid t then none
  else if p.height = height then
    if p.round = round then (if t = 1 then p.prevotes else p.precommits)
    else if p.catchupRound = round then (if t = 1 then none else p.catchup)
    else if p.polRound = round then (if t = 1 then p.pol else none)
    else none
  else if p.height = height + 1 then
    if p.lastCommitRound = round then (if t = 1 then none else p.lastCommit) else none
  else none

/-- `ensureCatchupCommitRound` -/
def ensureCatchupCommitRound (p : PRS) (height round numValidators : Int) : PRS :=
  if p.height ≠ height then p
  else if p.catchupRound = round then p
  else
    { p with catchupRound := round,
             catchup := if round = p.round then p.precommits else newBitArray numValidators }

/-- `ensureVoteBitArrays` -/
def ensureVoteBitArrays (p : PRS) (height numValidators : Int) : PRS :=
  if p.height = height then
    { p with prevotes := if p.prevotes.isNone then newBitArray numValidators else p.prevotes,
             precommits := if p.precommits.isNone then newBitArray numValidators else p.precommits,
             catchup := if p.catchup.isNone then newBitArray numValidators else p.catchup,
             pol := if p.pol.isNone then newBitArray numValidators else p.pol }
  else if p.height = height + 1 then
    { p with lastCommit := if p.lastCommit.isNone then newBitArray numValidators else p.lastCommit }
  else p

/-- `setHasVote`: `none` = panic -/
def setHasVote (p : PRS) (height round t index : Int) : Option PRS :=
  match getVoteBitArray p height round t with
  | none => some p
  | some b => (setIndex (some b) index).map fun _ => p

/-- `ApplyNewRoundStepMessage` -/
def applyNewRoundStep (p : PRS) (m : NewRoundStep) : PRS :=
  let step := m.step % 256
  if compareHRS m.height m.round step p.height p.round p.step ≤ 0 then p
  else
    let psHeight := p.height
    let psRound := p.round
    let psCatchupRound := p.catchupRound
    let psCatchup := p.catchup
    let p1 := { p with height := m.height, round := m.round, step := step }
    let p2 :=
      if psHeight ≠ m.height ∨ psRound ≠ m.round then
        { p1 with proposal := false, pbpTotal := 0, pbp := none, polRound := -1, pol := none,
                  prevotes := none, precommits := none }
      else p1
    let p3 :=
      if psHeight = m.height ∧ psRound ≠ m.round ∧ m.round = psCatchupRound then
        { p2 with precommits := psCatchup }
      else p2
    if psHeight ≠ m.height then
      let p4 :=
        if psHeight + 1 = m.height ∧ psRound = m.lastCommitRound then
          { p3 with lastCommitRound := m.lastCommitRound, lastCommit := p3.precommits }
        else
          { p3 with lastCommitRound := m.lastCommitRound, lastCommit := none }
      { p4 with catchupRound := -1, catchup := none }
    else p3

/-- `ApplyNewValidBlockMessage` -/
def applyNewValidBlock (p : PRS) (m : NewValidBlock) (isCommit : Bool) : PRS :=
  if p.height ≠ m.height then p
  else if p.round ≠ m.round ∧ ¬ isCommit then p
  else { p with pbpTotal := m.total, pbp := m.parts }

/-- `ApplyProposalPOLMessage` -/
def applyProposalPOL (p : PRS) (m : ProposalPOL) : PRS :=
  if p.height ≠ m.height then p
  else if p.polRound ≠ m.polRound then p
  else { p with pol := m.pol }

/-- `ApplyHasVoteMessage`: `none` = panic -/
def applyHasVote (p : PRS) (m : HasVote) : Option PRS :=
  if p.height ≠ m.height then some p
  else setHasVote p m.height m.round m.type m.index

/-- `ApplyVoteSetBitsMessage` (`t`: the message's vote type, `ourVotes`: what the node found for the
block id, nil if it is at another height): `none` = panic. No size in the peer state changes. -/
def applyVoteSetBits (p : PRS) (m : VoteSetBits) (t : Int) (ourVotes : Option BitArr) : Option PRS :=
  match getVoteBitArray p m.height m.round t with
  | none => some p
  | some v =>
    match ourVotes with
    | none => some p                                   -- votes.Update(msg.Votes): a bounded copy
    | some _ =>
      match sub (some v) ourVotes with
      | none => none
      | some other =>
        match or other m.votes with
        | none => none
        | some _ => some p                             -- votes.Update(hasVotes)

/-- `SetHasProposal` (height, round, POL round and part-set total of a validated proposal) -/
def setHasProposal (p : PRS) (height round polRound : Int) (total : Nat) : PRS :=
  if p.height ≠ height ∨ p.round ≠ round then p
  else if p.proposal then p
  else
    let p1 := { p with proposal := true }
    if p1.pbp.isSome then p1
    else { p1 with pbpTotal := total, pbp := newBitArray total, polRound := polRound, pol := none }

/-- `InitProposalBlockParts` (called by `gossipDataRoutine` with a header from the block store) -/
def initProposalBlockParts (p : PRS) (total : Nat) : PRS :=
  if p.pbp.isSome then p else { p with pbpTotal := total, pbp := newBitArray total }

/-- `SetHasProposalBlockPart`: `none` = panic -/
def setHasProposalBlockPart (p : PRS) (height round index : Int) : Option PRS :=
  if p.height ≠ height ∨ p.round ≠ round then some p
  else (setIndex p.pbp index).map fun _ => p

/-- the reactor's handling of a validated `VoteMessage` (`EnsureVoteBitArrays` twice with the node's
height, validator count and last-commit size, then `SetHasVote`): `none` = panic -/
def receiveVote (p : PRS) (nodeHeight valSize lastCommitSize : Int) (vh vr vt vidx : Int) : Option PRS :=
  let p1 := ensureVoteBitArrays p nodeHeight valSize
  let p2 := ensureVoteBitArrays p1 (nodeHeight - 1) lastCommitSize
  setHasVote p2 vh vr vt vidx

/-- one of the node's vote sets (or commits) as `PickVoteToSend` sees it -/
structure OurVotes where
  height : Int
  round : Int
  type : Int            -- 1 prevote, 2 precommit
  size : Int            -- votes.Size() = number of validators
  isCommit : Bool
deriving Repr

/-- `PickSendVote` / `PickVoteToSend` followed by `SetHasVote` of the picked vote. `pick` is the
index `votes.BitArray().Sub(psVotes).PickRandom()` returned, if any. `none` = panic. -/
def pickSendVote (p : PRS) (v : OurVotes) (pick : Option Int) : Option PRS :=
  if v.size = 0 then some p
  else
    let p1 := if v.isCommit then ensureCatchupCommitRound p v.height v.round v.size else p
    let p2 := ensureVoteBitArrays p1 v.height v.size
    match getVoteBitArray p2 v.height v.round v.type with
    | none => some p2
    | some psVotes =>
      match sub (newBitArray v.size) (some psVotes) with
      | none => none
      | some d =>
        if ¬ pickRandomOk d then none
        else
          match pick with
          | none => some p2
          | some i => setHasVote p2 v.height v.round v.type i

/-- the two lines of `gossipDataRoutine` that use the peer's part array: `ours.Sub(prs.pbp.Copy())
.PickRandom()` on the node's part set of `ourTotal` parts, then `SetHasProposalBlockPart`.
`none` = panic. -/
def gossipPart (p : PRS) (ourTotal : Int) (pick : Option Int) : Option PRS :=
  match sub (newBitArray ourTotal) p.pbp with
  | none => none
  | some d =>
    if ¬ pickRandomOk d then none
    else
      match pick with
      | none => some p
      | some i => setHasProposalBlockPart p p.height p.round i

/-- `gossipDataForCatchup`: `prs.ProposalBlockParts.Not().PickRandom()` then
`SetHasProposalBlockPart`. `none` = panic. -/
def gossipCatchupPart (p : PRS) (pick : Option Int) : Option PRS :=
  if ¬ pickRandomOk (not p.pbp) then none
  else
    match pick with
    | none => some p
    | some i => setHasProposalBlockPart p p.height p.round i

end Tmv.PeerState
