import Tmv.Model.Merkle
import Tmv.Model.TxProof
import Tmv.Gen.Facts
/-! Model of /repo light/rpc/client.go (the verifying RPC client), with the pieces of
types/block.go, types/block_meta.go, types/params.go, types/results.go, types/tx.go and
crypto/merkle/proof_op.go, proof_value.go, proof_key_path.go that its checks go through.

`H` is the hash function (tmhash.Sum = SHA-256 in the code; nothing is assumed about it here).
Protobuf encodings that feed a hash (header fields, deterministic DeliverTx results, HashedParams,
the KV leaf of a ValueOp) are modelled byte-exactly so that the driver's hashes are comparable with
the Go code; the *content* of a commit signature and of a piece of evidence is an opaque byte string
(its protobuf encoding), which is what the code hashes. -/
namespace Tmv.LightRpc
open Tmv.Merkle

/-! ## protobuf pieces -/

/-- base-128 varint of a value `< 2^64` (at most 10 bytes) -/
def uvarintF : Nat → Nat → Bytes
  | 0, _ => []
  | f+1, n => if n < 128 then [UInt8.ofNat n] else UInt8.ofNat (n % 128 + 128) :: uvarintF f (n / 128)

def uvarint (n : Nat) : Bytes := uvarintF 10 n

/-- int64 → its two's-complement uint64 (what protobuf varint-encodes for int64/int32 fields) -/
def u64 (v : Int) : Nat := if v < 0 then 2 ^ 64 - v.natAbs else v.toNat

/-- scalar field: omitted when zero (proto3) -/
def fVarint (tag : UInt8) (n : Nat) : Bytes := if n = 0 then [] else tag :: uvarint n
/-- bytes/string field: omitted when empty -/
def fBytes (tag : UInt8) (b : Bytes) : Bytes := if b = [] then [] else tag :: (uvarint b.length ++ b)
/-- embedded non-nullable message: always emitted -/
def fMsg (tag : UInt8) (b : Bytes) : Bytes := tag :: (uvarint b.length ++ b)

/-- `encodeByteSlice` of crypto/merkle/types.go -/
def encBS (b : Bytes) : Bytes := uvarint b.length ++ b

/-! ## constants: taken from the facts regenerated from /repo on every run (Tmv.Gen.Facts), so a
changed constant flows into the model and the theorems -/
def hashSize : Nat := 32            -- tmhash.Size = sha256.Size (not a literal in the source)
def addressSize : Nat := Facts.c20_addressSize.toNat
def blockProtocol : Nat := Facts.c20_BlockProtocol.toNat
def maxChainIDLen : Nat := Facts.c20_MaxChainIDLen.toNat
def maxBlockSizeBytes : Int := Facts.c20_MaxBlockSizeBytes
def maxAunts : Nat := Facts.merkle_MaxAunts.toNat
def defaultPerPage : Int := Facts.c20_defaultPerPage
def maxPerPage : Int := Facts.c20_maxPerPage

/-- `types.ValidateHash` -/
def validateHash (h : Bytes) : Bool := h.length = 0 || h.length = hashSize

/-! ## BlockID, Header -/

structure BlockID where
  hash : Bytes
  total : Nat          -- PartSetHeader.Total (uint32)
  psHash : Bytes       -- PartSetHeader.Hash
deriving Repr, DecidableEq

/-- `BlockID.ValidateBasic` (with `PartSetHeader.ValidateBasic`) -/
def BlockID.validateBasic (b : BlockID) : Bool := validateHash b.hash && validateHash b.psHash

/-- proto bytes of a BlockID (`part_set_header` is non-nullable: always emitted) -/
def BlockID.enc (b : BlockID) : Bytes :=
  fBytes 0x0a b.hash ++ fMsg 0x12 (fVarint 0x08 b.total ++ fBytes 0x12 b.psHash)

structure Header where
  versionBlock : Nat
  versionApp : Nat
  chainID : Bytes
  height : Int
  timeSec : Int
  timeNanos : Int
  lastBlockID : BlockID
  lastCommitHash : Bytes
  dataHash : Bytes
  validatorsHash : Bytes
  nextValidatorsHash : Bytes
  consensusHash : Bytes
  appHash : Bytes
  lastResultsHash : Bytes
  evidenceHash : Bytes
  proposer : Bytes
deriving Repr, DecidableEq

/-- the 14 byte strings `Header.Hash` puts in the tree, in order
(`cdcEncode` = wrapper message with field 1; empty/zero values encode to nothing) -/
def Header.fields (h : Header) : List Bytes :=
  [ fVarint 0x08 h.versionBlock ++ fVarint 0x10 h.versionApp,
    fBytes 0x0a h.chainID,
    fVarint 0x08 (u64 h.height),
    fVarint 0x08 (u64 h.timeSec) ++ fVarint 0x10 (u64 h.timeNanos),
    h.lastBlockID.enc,
    fBytes 0x0a h.lastCommitHash,
    fBytes 0x0a h.dataHash,
    fBytes 0x0a h.validatorsHash,
    fBytes 0x0a h.nextValidatorsHash,
    fBytes 0x0a h.consensusHash,
    fBytes 0x0a h.appHash,
    fBytes 0x0a h.lastResultsHash,
    fBytes 0x0a h.evidenceHash,
    fBytes 0x0a h.proposer ]

variable (H : Bytes → Bytes)

/-- `Header.Hash`: nil (= empty) when `ValidatorsHash` is missing -/
def Header.hash (h : Header) : Bytes :=
  if h.validatorsHash = [] then [] else root H h.fields

/-- `Header.ValidateBasic` (which error comes first is not observable here: one class) -/
def Header.validateBasic (h : Header) : Bool :=
  h.versionBlock = blockProtocol && h.chainID.length ≤ maxChainIDLen && decide (0 < h.height) &&
  h.lastBlockID.validateBasic && validateHash h.lastCommitHash && validateHash h.dataHash &&
  validateHash h.evidenceHash && h.proposer.length = addressSize && validateHash h.validatorsHash &&
  validateHash h.nextValidatorsHash && validateHash h.consensusHash && validateHash h.lastResultsHash

/-! ## what the light client holds -/

structure Validator where
  address : Bytes
  power : Int
deriving Repr, DecidableEq

structure LightBlock where
  header : Header
  commitBlockID : BlockID      -- `Commit.BlockID`, signed by +2/3 of the validators
  vals : List Validator
deriving Repr

/-- The light client as seen through the `LightClient` interface against honest providers:
`chain[i]` is the light block of height `i+1` (what the providers serve); `stored` are the heights
in the trusted store. Verifying a height stores THAT height only (intermediate and pivot blocks are
not saved, see `verifyLightBlock`/`updateTrustedLightBlock`). -/
structure LC where
  chain : List LightBlock
  stored : List Int
deriving Repr

def LC.tip (lc : LC) : Int := lc.chain.length
def LC.latest (lc : LC) : Int := lc.stored.foldl (fun a b => if a < b then b else a) 0
def LC.at? (lc : LC) (h : Int) : Option LightBlock :=
  if h ≤ 0 then none else lc.chain[(h - 1).toNat]?

/-- `TrustedLightBlock(h)`: `h = 0` means the latest; above the latest or negative is an error; so
is a height that was never stored. -/
def LC.trusted? (lc : LC) (h : Int) : Option LightBlock :=
  if h > lc.latest ∨ h < 0 then none
  else
    let h' := if h = 0 then lc.latest else h
    if lc.stored.contains h' then lc.at? h' else none

/-- `VerifyLightBlockAtHeight`: fails for `h ≤ 0` and above the provider's latest block;
otherwise returns the block, which is then in the trusted store. -/
def LC.verifyAt (lc : LC) (h : Int) : Option (LightBlock × LC) :=
  match lc.at? h with
  | none => none
  | some b => some (b, if lc.stored.contains h then lc else { lc with stored := h :: lc.stored })

/-- `Update`: the newest block if it is newer than the last trusted one, otherwise `nil` (and no
error) -/
def LC.update (lc : LC) : Option (LightBlock × LC) :=
  if lc.latest < lc.tip then
    match lc.at? lc.tip with
    | some b => some (b, { lc with stored := lc.tip :: lc.stored })
    | none => none
  else none

inductive Upd
  | ok (b : LightBlock) (lc : LC)
  | err                    -- "failed to update light client"

/-- `updateLightClientIfNeededTo` (as repaired: when `Update` has nothing newer, the latest trusted
block is used) -/
def updateTo (lc : LC) (height : Option Int) : Upd :=
  match height with
  | none =>
    match lc.update with
    | some (b, lc') => .ok b lc'
    | none =>
      match lc.trusted? 0 with
      | some b => .ok b lc
      | none => .err
  | some h =>
    match lc.verifyAt h with
    | some (b, lc') => .ok b lc'
    | none => .err

/-! ## Block / BlockByHash -/

structure Block where
  header : Header
  txs : List Bytes
  evidence : List Bytes      -- `ev.Bytes()` of each piece of evidence
  evidenceOK : Bool          -- every `ev.ValidateBasic()` passes (content not modelled)
  lastCommitNil : Bool
  lastCommitSigs : List Bytes  -- proto bytes of each CommitSig (what `Commit.Hash` hashes)
  lastCommitOK : Bool        -- `LastCommit.ValidateBasic()` passes (content not modelled)
deriving Repr

structure ResultBlock where
  blockID : BlockID
  block : Option Block       -- none = nil block
deriving Repr

inductive Verdict
  | ok
  | errNext          -- the backend returned an error (relayed)
  | errBlockID       -- BlockID.ValidateBasic
  | errBlock         -- Block.ValidateBasic
  | errIDMismatch    -- BlockID.Hash ≠ Block.Hash()
  | errLC            -- light client could not be advanced
  | errUntrusted     -- hash differs from the trusted header's
  | errHeight        -- negative or zero height
  | errParams        -- ValidateConsensusParams
  | errMeta          -- nil / invalid block meta
  | errHeightMismatch -- the answer is labelled with another height than requested
  | errRequest        -- a (possibly genuine) answer for another height / hash / range than requested
  | errTxMismatch     -- the proof is for other bytes than the returned transaction
  | errHashMismatch   -- the transaction / its label does not hash to the requested hash
  | errPage
  | errCode | errKey | errNoOps | errKeyPath | errProof
  | errProofDataHash | errProofIndex | errProofTotal | errProofInconsistent
deriving Repr, DecidableEq

def commitHash (sigs : List Bytes) : Bytes := root H sigs
def evidenceHash (evs : List Bytes) : Bytes := root H evs

/-- `Block.ValidateBasic` -/
def Block.validateBasic (b : Block) : Bool :=
  b.header.validateBasic && !b.lastCommitNil && b.lastCommitOK &&
  b.header.lastCommitHash = commitHash H b.lastCommitSigs &&
  b.header.dataHash = TxProof.txsHash H b.txs &&
  b.evidenceOK && b.header.evidenceHash = evidenceHash H b.evidence

/-- what the caller asked for: `Block(height)` (none = latest) or `BlockByHash(hash)` -/
inductive BlockReq
  | height (h : Option Int)
  | hash (x : Bytes)
deriving Repr

/-- the request-binding guard of the repaired `Block` / `BlockByHash` -/
def BlockReq.matches (req : BlockReq) (res : ResultBlock) (b : Block) : Bool :=
  match req with
  | .height none => true
  | .height (some h) => b.header.height = h
  | .hash x => res.blockID.hash = x

/-- `Client.Block` / `Client.BlockByHash` after the backend answered `res` (as repaired: the answer
must be for the requested height / hash).
(`Block.Hash()` is `Header.Hash()` here: `fillHeader` only fills hashes that `ValidateBasic`
has just compared with the computed ones.) -/
def verifyBlock (lc : LC) (req : BlockReq) (res : ResultBlock) : Verdict × LC :=
  if !res.blockID.validateBasic then (.errBlockID, lc) else
  match res.block with
  | none => (.errBlock, lc)
  | some b =>
    if !b.validateBasic H then (.errBlock, lc) else
    if res.blockID.hash ≠ b.header.hash H then (.errIDMismatch, lc) else
    if !req.matches res b then (.errRequest, lc) else
    match updateTo lc (some b.header.height) with
    | .err => (.errLC, lc)
    | .ok l lc' =>
      if b.header.hash H ≠ l.header.hash H then (.errUntrusted, lc') else (.ok, lc')

/-! ## BlockchainInfo -/

structure BlockMeta where
  blockID : BlockID
  blockSize : Int
  header : Header
  numTxs : Int
deriving Repr

/-- `BlockMeta.ValidateBasic` -/
def BlockMeta.validateBasic (m : BlockMeta) : Bool :=
  m.blockID.validateBasic && m.blockID.hash = m.header.hash H

/-- the verification loop of `Client.BlockchainInfo` (as repaired: every listed height is verified
through `updateLightClientIfNeededTo`, which returns stored blocks immediately) -/
def verifyMetas (lc : LC) : List (Option BlockMeta) → Verdict × LC
  | [] => (.ok, lc)
  | none :: _ => (.errMeta, lc)
  | some m :: rest =>
    match updateTo lc (some m.header.height) with
    | .err => (.errLC, lc)
    | .ok t lc' =>
      if m.header.hash H ≠ t.header.hash H then (.errUntrusted, lc') else verifyMetas lc' rest

/-- the first loop of `Client.BlockchainInfo` (as repaired), per meta in order: nil, `ValidateBasic`,
and the height must lie in the requested range (`0` = that bound was not given) -/
def checkMetas (minH maxH : Int) : List (Option BlockMeta) → Option Verdict
  | [] => none
  | none :: _ => some .errMeta
  | some m :: rest =>
    if !m.validateBasic H then some .errMeta
    else if (minH > 0 ∧ m.header.height < minH) ∨ (maxH > 0 ∧ m.header.height > maxH) then some .errRequest
    else checkMetas minH maxH rest

/-- `Client.BlockchainInfo`; `none` in the list = nil meta. First every meta is validated, then the
LAST meta's height (the lowest: the backend lists heights downwards) is verified, then each. -/
def verifyBlockchainInfo (lc : LC) (minH maxH : Int) (metas : List (Option BlockMeta)) : Verdict × LC :=
  match checkMetas H minH maxH metas with
  | some v => (v, lc)
  | none =>
    match metas.getLast? with
    | some (some m) =>
      match updateTo lc (some m.header.height) with
      | .ok _ lc' => verifyMetas H lc' metas
      | .err => (.errLC, lc)
    | _ => verifyMetas H lc metas

/-! ## Commit, Validators (served from the light client alone) -/

/-- `Client.Commit`: the trusted signed header -/
def commit (lc : LC) (height : Option Int) : (Verdict × Option LightBlock) × LC :=
  match updateTo lc height with
  | .err => ((.errLC, none), lc)
  | .ok l lc' => ((.ok, some l), lc')

/-- `validatePerPage` -/
def validatePerPage (perPage : Option Int) : Int :=
  match perPage with
  | none => defaultPerPage
  | some p => if p < 1 then defaultPerPage else if p > maxPerPage then maxPerPage else p

/-- `validatePage` (perPage ≥ 1 always holds after `validatePerPage`) -/
def validatePage (page : Option Int) (perPage totalCount : Int) : Option Int :=
  match page with
  | none => some 1
  | some p =>
    let pages0 := Int.tdiv (totalCount - 1) perPage + 1
    let pages := if pages0 = 0 then 1 else pages0
    if p ≤ 0 ∨ p > pages then none else some p

def validateSkipCount (page perPage : Int) : Int :=
  let s := (page - 1) * perPage
  if s < 0 then 0 else s

structure ResultValidators where
  height : Int
  vals : List Validator
  count : Int
  total : Int
deriving Repr

/-- `Client.Validators` -/
def validators (lc : LC) (height : Option Int) (page perPage : Option Int) :
    (Verdict × Option ResultValidators) × LC :=
  match updateTo lc height with
  | .err => ((.errLC, none), lc)
  | .ok l lc' =>
    let total : Int := l.vals.length
    let pp := validatePerPage perPage
    match validatePage page pp total with
    | none => ((.errPage, none), lc')
    | some p =>
      let skip := validateSkipCount p pp
      let n := if pp < total - skip then pp else total - skip
      let v := (l.vals.drop skip.toNat).take n.toNat
      ((.ok, some { height := l.header.height, vals := v, count := v.length, total := total }), lc')

/-! ## Tx (with proof) -/

structure ResultTx where
  hash : Bytes
  height : Int
  index : Nat
  tx : Bytes
  resultCode : Nat
  resultData : Bytes
  proof : TxProof.TxProof
deriving Repr

/-- `Client.Tx` with `prove = true` (without `prove` the answer is relayed unverified), as repaired:
after the proof validates, the returned bytes must be the proven ones and hash to the requested hash,
which the answer must also be labelled with. `res.index` is not compared with anything. -/
def verifyTx (lc : LC) (reqHash : Bytes) (res : ResultTx) : Verdict × LC :=
  if res.height ≤ 0 then (.errHeight, lc) else
  match updateTo lc (some res.height) with
  | .err => (.errLC, lc)
  | .ok l lc' =>
    match TxProof.validate H l.header.dataHash res.proof with
    | .error .dataHash => (.errProofDataHash, lc')
    | .error .index => (.errProofIndex, lc')
    | .error .total => (.errProofTotal, lc')
    | .error .inconsistent => (.errProofInconsistent, lc')
    | .ok _ =>
      if res.proof.data ≠ res.tx then (.errTxMismatch, lc')
      else if H res.tx ≠ reqHash ∨ res.hash ≠ reqHash then (.errHashMismatch, lc')
      else (.ok, lc')

/-- `Client.TxSearch` with `prove = true` (as repaired): every returned transaction, in order, is
verified like the answer of `Tx` — against the header of the height IT names; `none` = nil element.
Which transactions are returned (and `TotalCount`) is not, and cannot be, verified. -/
def verifyTxSearch (lc : LC) : List (Option ResultTx) → Verdict × LC
  | [] => (.ok, lc)
  | none :: _ => (.errMeta, lc)
  | some res :: rest =>
    if res.height ≤ 0 then (.errHeight, lc) else
    match updateTo lc (some res.height) with
    | .err => (.errLC, lc)
    | .ok l lc' =>
      match TxProof.validate H l.header.dataHash res.proof with
      | .error .dataHash => (.errProofDataHash, lc')
      | .error .index => (.errProofIndex, lc')
      | .error .total => (.errProofTotal, lc')
      | .error .inconsistent => (.errProofInconsistent, lc')
      | .ok _ =>
        if res.proof.data ≠ res.tx ∨ H res.tx ≠ res.hash then (.errTxMismatch, lc')
        else verifyTxSearch lc' rest

/-! ## ConsensusParams -/

structure Params where
  maxBytes : Int
  maxGas : Int
  timeIotaMs : Int
  evMaxAgeBlocks : Int
  evMaxAgeDuration : Int
  evMaxBytes : Int
  pubKeyTypes : Nat        -- number of key types
  pubKeyTypesKnown : Bool  -- all of them are known ABCI key types
deriving Repr, DecidableEq

/-- `ValidateConsensusParams` -/
def Params.validate (p : Params) : Bool :=
  !(p.maxBytes ≤ 0) && !(p.maxBytes > maxBlockSizeBytes) && !(p.maxGas < -1) &&
  !(p.timeIotaMs ≤ 0) && !(p.evMaxAgeBlocks ≤ 0) && !(p.evMaxAgeDuration ≤ 0) &&
  !(p.evMaxBytes > p.maxBytes) && !(p.evMaxBytes < 0) && !(p.pubKeyTypes = 0) && p.pubKeyTypesKnown

/-- `HashConsensusParams`: only Block.MaxBytes and Block.MaxGas are hashed -/
def Params.hash (p : Params) : Bytes :=
  H (fVarint 0x08 (u64 p.maxBytes) ++ fVarint 0x10 (u64 p.maxGas))

/-- `Client.ConsensusParams` (as repaired: the answer must be for the requested height, if one was given) -/
def verifyParams (lc : LC) (req : Option Int) (blockHeight : Int) (p : Params) : Verdict × LC :=
  if !p.validate then (.errParams, lc) else
  if blockHeight ≤ 0 then (.errHeight, lc) else
  if req.any (fun h => blockHeight ≠ h) then (.errRequest, lc) else
  match updateTo lc (some blockHeight) with
  | .err => (.errLC, lc)
  | .ok l lc' => if p.hash H ≠ l.header.consensusHash then (.errUntrusted, lc') else (.ok, lc')

/-! ## BlockResults -/

structure TxResult where
  code : Nat
  data : Bytes
  gasWanted : Int
  gasUsed : Int
deriving Repr, DecidableEq

/-- proto bytes of the deterministic part of a ResponseDeliverTx (`deterministicResponseDeliverTx`) -/
def TxResult.enc (r : TxResult) : Bytes :=
  fVarint 0x08 r.code ++ fBytes 0x12 r.data ++ fVarint 0x28 (u64 r.gasWanted) ++ fVarint 0x30 (u64 r.gasUsed)

/-- `types.NewResults(rs).Hash()` = `state.ABCIResponsesResultsHash`: what `updateState` puts in
the next header's `LastResultsHash` -/
def resultsHash (rs : List TxResult) : Bytes := root H (rs.map TxResult.enc)

/-- `Client.BlockResults` (as repaired: the answer must be labelled with the requested height, and
the DeliverTx results root is compared with the next header's `LastResultsHash`). `h` is the height asked from the backend: the caller's, or the
backend's own `Status().LatestBlockHeight - 1` when the caller gave none. -/
def verifyBlockResults (lc : LC) (h : Int) (resHeight : Int) (rs : List TxResult) : Verdict × LC :=
  if resHeight ≤ 0 then (.errHeight, lc) else
  if resHeight ≠ h then (.errHeightMismatch, lc) else
  match updateTo lc (some (h + 1)) with
  | .err => (.errLC, lc)
  | .ok l lc' => if resultsHash H rs ≠ l.header.lastResultsHash then (.errUntrusted, lc') else (.ok, lc')

/-! ## ABCIQuery (default proof runtime: only `simple:v` ValueOps) -/

structure ProofOp where
  typeOK : Bool          -- ProofOp.Type = "simple:v" (anything else: no decoder)
  key : Bytes
  dataOK : Bool          -- ProofOp.Data unmarshals to a ValueOp with a non-nil proof
  proof : Proof
deriving Repr

/-- `Proof.ValidateBasic` (called by `ProofFromProto` while decoding the op) -/
def proofValidateBasic (p : Proof) : Bool :=
  !(p.total < 0) && !(p.index < 0) && p.leafHash.length = hashSize &&
  !(p.aunts.length > maxAunts) && p.aunts.all (fun a => a.length = hashSize)

def ProofOp.decodes (o : ProofOp) : Bool := o.typeOK && o.dataOK && proofValidateBasic o.proof

/-- the KV leaf a ValueOp hashes: `leafHash(encodeByteSlice(key) ++ encodeByteSlice(H value))` -/
def kvLeaf (key value : Bytes) : Bytes := leafHash H (encBS key ++ encBS (H value))

/-- `ValueOp.Run` on a single argument (as repaired: a proof that computes no root is an error) -/
def runOp (o : ProofOp) (value : Bytes) : Option Bytes :=
  if kvLeaf H o.key value ≠ o.proof.leafHash then none
  else computeRoot H o.proof

/-- the loop of `ProofOperators.Verify` (keys are consumed from the END of the key path) -/
def runOps : List ProofOp → List Bytes → Bytes → Option (List Bytes × Bytes)
  | [], keys, arg => some (keys, arg)
  | o :: rest, keys, arg =>
    let keys? : Option (List Bytes) :=
      if o.key ≠ [] then
        match keys.getLast? with
        | none => none
        | some k => if k ≠ o.key then none else some keys.dropLast
      else some keys
    match keys? with
    | none => none
    | some keys' =>
      match runOp H o arg with
      | none => none
      | some out => runOps rest keys' out

/-- `ProofRuntime.VerifyValue` after the key path was parsed into `keys` -/
def verifyValue (ops : List ProofOp) (rootHash : Bytes) (keys : List Bytes) (value : Bytes) : Bool :=
  ops.all ProofOp.decodes &&
  match runOps H ops keys value with
  | none => false
  | some (keys', out) => rootHash = out && keys' = []

def isHexChar (c : UInt8) : Bool :=
  (0x30 ≤ c && c ≤ 0x39) || (0x61 ≤ c && c ≤ 0x66) || (0x41 ≤ c && c ≤ 0x46)

def hexNib (c : UInt8) : UInt8 :=
  if c ≤ 0x39 then c - 0x30 else if c ≤ 0x46 then c - 0x37 else c - 0x57

def unhexBytes : Bytes → Bytes
  | a :: b :: rest => (hexNib a * 16 + hexNib b) :: unhexBytes rest
  | _ => []

/-- `KeyPath.String()` (URL encoding) followed by `KeyPathToKeys`: the identity except that a part
whose text starts with `x:` is read back as HEX (and fails unless the rest is an even number of hex
digits). `none` = the key path does not parse. -/
def keyRoundTrip (k : Bytes) : Option Bytes :=
  if k.take 2 = [0x78, 0x3a] then
    let r := k.drop 2
    if r.all isHexChar && r.length % 2 = 0 then some (unhexBytes r) else none
  else some k

structure ABCIResp where
  code : Nat
  key : Bytes
  value : Option Bytes       -- none = nil
  height : Int
  opsNil : Bool              -- ProofOps == nil
  ops : List ProofOp
deriving Repr

/-- `Client.ABCIQueryWithOptions` with `DefaultMerkleKeyPathFn`: `store` is the store name the
path regexp extracts (none = no match). The header consulted is the one at `height + 1`. -/
def verifyABCI (lc : LC) (store : Option Bytes) (r : ABCIResp) : Verdict × LC :=
  if r.code ≠ 0 then (.errCode, lc) else
  if r.key = [] then (.errKey, lc) else
  if r.opsNil ∨ r.ops = [] then (.errNoOps, lc) else
  if r.height ≤ 0 then (.errHeight, lc) else
  match updateTo lc (some (r.height + 1)) with
  | .err => (.errLC, lc)
  | .ok l lc' =>
    match r.value with
    | some v =>
      match store with
      | none => (.errKeyPath, lc')
      | some s =>
        match keyRoundTrip s, keyRoundTrip r.key with
        | some s', some k' =>
          if verifyValue H r.ops l.header.appHash [s', k'] v then (.ok, lc') else (.errProof, lc')
        | _, _ => (.errProof, lc')
    | none =>
      -- VerifyAbsence passes no argument; a ValueOp needs exactly one: always an error
      (.errProof, lc')

/-! ## what a full node's RPC serves: `rpc/core` Tx / TxSearch with `prove` -/

/-- one index hit: where the transaction sits -/
structure Hit where
  height : Int
  index : Nat
deriving Repr, DecidableEq

def hitBefore (desc : Bool) (a b : Hit) : Bool :=
  if desc then (if a.height = b.height then decide (a.index > b.index) else decide (a.height > b.height))
  else (if a.height = b.height then decide (a.index < b.index) else decide (a.height < b.height))

def insertHit (desc : Bool) (x : Hit) : List Hit → List Hit
  | [] => [x]
  | y :: ys => if hitBefore desc x y then x :: y :: ys else y :: insertHit desc x ys

/-- the `sort.Slice` of `TxSearch` ((height, index) keys are distinct, so stability is irrelevant) -/
def sortHits (desc : Bool) (l : List Hit) : List Hit := l.foldr (insertHit desc) []

inductive SearchErr | order | page
deriving Repr, DecidableEq

/-- `rpc/core.TxSearch` after the index lookup returned `hits`: sort (`desc`, or `asc`/empty; anything
else is an error), paginate (`validatePerPage`, `validatePage`, `validateSkipCount`), and for every
result of the page build the proof FROM THE BLOCK AT THAT RESULT'S HEIGHT (`txsAt`): `Txs.Proof(index)`.
Without `prove` the proof is absent (`none`). -/
def txSearch (txsAt : Int → List Bytes) (hits : List Hit) (order : String) (prove : Bool)
    (page perPage : Option Int) : Except SearchErr (Nat × List (Hit × Option TxProof.TxProof)) :=
  if order ≠ "desc" ∧ order ≠ "asc" ∧ order ≠ "" then .error .order else
  let sorted := sortHits (order = "desc") hits
  let total : Int := sorted.length
  let pp := validatePerPage perPage
  match validatePage page pp total with
  | none => .error .page
  | some p =>
    let skip := validateSkipCount p pp
    let n := if pp < total - skip then pp else total - skip
    let pageHits := (sorted.drop skip.toNat).take n.toNat
    .ok (sorted.length, pageHits.map fun h =>
      (h, if prove then some (TxProof.proofFor H (txsAt h.height) h.index) else none))

/-! ## every route of light/proxy/routes.go -/

inductive RouteClass
  | verified      -- the backend's answer is checked against light-verified headers (see `committed`)
  | lightClient   -- answered from the light client's verified blocks alone, the backend is not asked
  | relayed       -- the backend's answer is passed on unchanged, the light client is not consulted
  | websocket     -- event subscriptions, relayed (marked UNSAFE in the source)
deriving Repr, DecidableEq

/-- What the verifying client does for each route the proxy registers. The relayed routes return
node-local state no header commits to (status, net_info, health, consensus state dumps, mempool
contents, abci_info), submit something (broadcast_*), or return data whose COMPLETENESS no header
can prove (block_search; genesis is committed to only through the chain the caller already trusts).
`tx` and `tx_search` are verified only with `prove=true`, and for `tx_search` only what IS returned. -/
def routeClass : String → Option RouteClass
  | "block" | "block_by_hash" | "blockchain" | "block_results" | "tx" | "abci_query"
  | "consensus_params" => some .verified
  | "commit" | "validators" => some .lightClient
  | "tx_search" => some .verified
  | "status" | "net_info" | "health" | "genesis" | "genesis_chunked" | "abci_info"
  | "dump_consensus_state" | "consensus_state" | "unconfirmed_txs" | "num_unconfirmed_txs"
  | "broadcast_tx_commit" | "broadcast_tx_sync" | "broadcast_tx_async" | "broadcast_evidence"
  | "block_search" => some .relayed
  | "subscribe" | "unsubscribe" | "unsubscribe_all" => some .websocket
  | _ => none

/-- the routes the proxy registers (compared with `RPCRoutes` on every run) -/
def routeNames : List String :=
  ["abci_info", "abci_query", "block", "block_by_hash", "block_results", "block_search", "blockchain",
   "broadcast_evidence", "broadcast_tx_async", "broadcast_tx_commit", "broadcast_tx_sync", "commit",
   "consensus_params", "consensus_state", "dump_consensus_state", "genesis", "genesis_chunked", "health",
   "net_info", "num_unconfirmed_txs", "status", "subscribe", "tx", "tx_search", "unconfirmed_txs",
   "unsubscribe", "unsubscribe_all", "validators"]

/-! ## which trusted hash binds which field of an answer -/

inductive Binding
  | headerHash          -- through the trusted header's hash
  | dataHash            -- header.DataHash
  | lastCommitHash      -- header.LastCommitHash
  | evidenceHash        -- header.EvidenceHash
  | consensusHash       -- header.ConsensusHash
  | appHashNext         -- AppHash of header height+1
  | lastResultsHashNext -- LastResultsHash of header height+1
  | commitBlockID       -- the BlockID the trusted commit signs
  | fromLightClient     -- the field is produced from the trusted light block itself
  | derivedFromProof    -- restates something the (bound) proof contains
  | none                -- no verified header commits to it
deriving Repr, DecidableEq

/-- `Committed kind field` -/
def committed : String → String → Option Binding
  | "block", "BlockID.Hash" => some .headerHash
  | "block", "BlockID.PartSetHeader" => some .commitBlockID
  | "block", "Block.Header" => some .headerHash
  | "block", "Block.Data.Txs" => some .dataHash
  | "block", "Block.Evidence" => some .evidenceHash
  | "block", "Block.LastCommit.Signatures" => some .lastCommitHash
  | "block", "Block.LastCommit.Height" => some .none
  | "block", "Block.LastCommit.Round" => some .none
  | "block", "Block.LastCommit.BlockID" => some .none
  | "bcinfo", "LastHeight" => some .none
  | "bcinfo", "BlockMeta.BlockID.Hash" => some .headerHash
  | "bcinfo", "BlockMeta.BlockID.PartSetHeader" => some .commitBlockID
  | "bcinfo", "BlockMeta.Header" => some .headerHash
  | "bcinfo", "BlockMeta.BlockSize" => some .none
  | "bcinfo", "BlockMeta.NumTxs" => some .none
  | "commit", "SignedHeader" => some .fromLightClient
  | "validators", "Validators" => some .fromLightClient
  | "tx", "Proof.Data" => some .dataHash
  | "tx", "Proof.RootHash" => some .dataHash
  | "tx", "Proof.Proof" => some .none
  | "tx", "Height" => some .dataHash
  | "tx", "Tx" => some .dataHash
  | "tx", "Hash" => some .dataHash
  | "tx", "Index" => some .derivedFromProof
  | "tx", "TxResult" => some .none
  | "cparams", "BlockHeight" => some .consensusHash
  | "cparams", "Block.MaxBytes" => some .consensusHash
  | "cparams", "Block.MaxGas" => some .consensusHash
  | "cparams", "Block.TimeIotaMs" => some .none
  | "cparams", "Evidence" => some .none
  | "cparams", "Validator" => some .none
  | "cparams", "Version" => some .none
  | "bresults", "Height" => some .derivedFromProof
  | "bresults", "TxsResults.Code" => some .lastResultsHashNext
  | "bresults", "TxsResults.Data" => some .lastResultsHashNext
  | "bresults", "TxsResults.GasWanted" => some .lastResultsHashNext
  | "bresults", "TxsResults.GasUsed" => some .lastResultsHashNext
  | "bresults", "TxsResults.Log" => some .none
  | "bresults", "TxsResults.Info" => some .none
  | "bresults", "TxsResults.Events" => some .none
  | "bresults", "TxsResults.Codespace" => some .none
  | "bresults", "BeginBlockEvents" => some .none
  | "bresults", "EndBlockEvents" => some .none
  | "bresults", "ValidatorUpdates" => some .none
  | "bresults", "ConsensusParamUpdates" => some .none
  | "abci", "Code" => some .none
  | "abci", "Key" => some .appHashNext
  | "abci", "Value" => some .appHashNext
  | "abci", "Height" => some .appHashNext
  | "abci", "ProofOps" => some .none
  | "abci", "Log" => some .none
  | "abci", "Info" => some .none
  | "abci", "Index" => some .none
  | "abci", "Codespace" => some .none
  | _, _ => Option.none

end Tmv.LightRpc
