import Tmv.Gen.Facts
import Tmv.Model.CommitVerify
/-! Model of /repo light/verifier.go, light/client.go, light/detector.go, light/store/db/db.go
(core Lean only).

Abstractions (see DESIGN.md §5 C09):
* hashes are abstract values (`Hash := Nat`) carried by headers and validator sets; the code only
  ever compares them, so nothing about SHA-256 is used (theorems speak about equal hashes);
* commits and their verification are C07's model (`Tmv.CommitVerify`): a light block carries a
  `Commit` (slots with flag, address, timestamp, signature token) and `VerifyCommitLight` /
  `VerifyCommitLightTrusting` are C07's `verifyCommitLight` / `verifyCommitLightTrusting` with the
  signature predicate `cfg.sigOK` (arbitrary in the theorems);
* a provider is an arbitrary function of (number of earlier calls, requested height);
* goroutine rounds (witness cross-check, primary replacement) are functions of the ARRIVAL ORDER of
  the witnesses' replies, given by an arbitrary scheduler `sched`;
* times are integers (milliseconds in the driver). -/
namespace Tmv.Light

abbrev Hash := Nat

structure ValSet where
  vals : List (Nat × Nat)      -- (validator id, voting power > 0)
  hash : Hash
deriving Repr, DecidableEq, Inhabited

/-- the validator set in C07's form (in set order): address = the id byte, key = id -/
def ValSet.validators (v : ValSet) : List CommitVerify.Validator :=
  v.vals.map fun p => { addr := [UInt8.ofNat p.1], key := p.1, power := (p.2 : Int) }

def chainStr (n : Nat) : String := "chain-" ++ toString n

deriving instance DecidableEq, Repr for CommitVerify.CommitSig
deriving instance DecidableEq, Repr for CommitVerify.Commit

instance : Inhabited (CommitVerify.Commit Nat) := ⟨⟨0, 0, CommitVerify.BlockID.zero, []⟩⟩

structure Header where
  chain : Nat
  height : Int
  time : Int
  valsHash : Hash
  nextValsHash : Hash
  lastBlockHash : Hash
  appHash : Nat
  consHash : Nat
  resHash : Nat
  basicOK : Bool               -- Header.ValidateBasic()
  hash : Hash                  -- Header.Hash()
deriving Repr, DecidableEq, Inhabited

structure LightBlock where
  hdr : Header
  commitOK : Bool              -- Commit.ValidateBasic ∧ commit.Height = Height ∧ commit.BlockID.Hash = Hash()
  commit : CommitVerify.Commit Nat
  vals : ValSet
deriving Repr, DecidableEq, Inhabited

abbrev LightBlock.height (b : LightBlock) : Int := b.hdr.height
abbrev LightBlock.time (b : LightBlock) : Int := b.hdr.time
abbrev LightBlock.hash (b : LightBlock) : Hash := b.hdr.hash

structure Fraction where
  num : Nat
  den : Nat
deriving Repr, DecidableEq, Inhabited

inductive PErr | noResponse | notFound | tooHigh | bad
deriving Repr, DecidableEq, Inhabited

inductive Err
  | notAdjacent | notNonAdjacent | expired | invalidHeader | cantBeTrusted | nextValsMismatch
  | commitOther
  | prov (e : PErr)
  | noWitnesses | crossRef | attack
  | conflicting (idx : Nat)
  | vfail (frm to : Int) (reason : Err)
  | msg (tag : String)
  | panic | fuel
deriving Repr, DecidableEq, Inhabited

/-! ## light/verifier.go -/

/-- `ValidateTrustLevel`; the uint64 multiplication wraps -/
def validateTrustLevel (l : Fraction) : Bool :=
  !((l.num * 3) % 2 ^ 64 < l.den || l.num > l.den || l.den = 0)

def headerExpired (h : LightBlock) (period now : Int) : Bool :=
  !(h.time + period > now)

/-- `SignedHeader.ValidateBasic(chainID)` -/
def signedHeaderBasic (b : LightBlock) (chain : Nat) : Bool :=
  b.hdr.basicOK && b.commitOK && b.hdr.chain == chain

/-- `verifyNewHeaderAndVals` -/
def verifyNewHeaderAndVals (u t : LightBlock) (now drift : Int) : Bool :=
  signedHeaderBasic u t.hdr.chain &&
  !(u.height ≤ t.height) &&
  (u.time > t.time) &&
  (u.time < now + drift) &&
  (u.hdr.valsHash == u.vals.hash)

abbrev SigOK := Nat → CommitVerify.SignBytes → Nat → Bool

/-- `untrustedVals.VerifyCommitLight(chainID, commit.BlockID, header.Height, commit)` (C07's model) -/
def commitLightOK (sigOK : SigOK) (chain : Nat) (b : LightBlock) : Bool :=
  CommitVerify.verifyCommitLight sigOK b.vals.validators (chainStr chain) b.commit.blockID b.height
    b.commit == .ok

/-- `trustedVals.VerifyCommitLightTrusting(chainID, commit, trustLevel)` (C07's model) and the
verifier's switch on the error type -/
def commitTrusting (sigOK : SigOK) (chain : Nat) (tv : ValSet) (u : LightBlock) (l : Fraction) :
    Except Err Unit :=
  match CommitVerify.verifyCommitLightTrusting sigOK tv.validators (chainStr chain) u.commit l.num l.den with
  | .ok => .ok ()
  | .notEnough _ _ => .error .cantBeTrusted
  | .panicFlag | .panicBlockID | .panicTotal | .panicIndex => .error .panic
  | _ => .error .commitOther

structure Config where
  chain : Nat
  period : Int
  sequential : Bool
  level : Fraction
  drift : Int
  pruning : Nat
  fuel : Nat
  sigOK : SigOK

instance : Inhabited Config := ⟨⟨0, 0, false, ⟨1, 3⟩, 0, 0, 0, fun _ _ _ => false⟩⟩

def verifyNonAdjacent (cfg : Config) (t u : LightBlock) (now : Int) : Except Err Unit :=
  if u.height = t.height + 1 then .error .notNonAdjacent
  else if headerExpired t cfg.period now then .error .expired
  else if !verifyNewHeaderAndVals u t now cfg.drift then .error .invalidHeader
  else match commitTrusting cfg.sigOK t.hdr.chain t.vals u cfg.level with
    | .error e => .error e
    | .ok _ => if !commitLightOK cfg.sigOK t.hdr.chain u then .error .invalidHeader else .ok ()

def verifyAdjacent (cfg : Config) (t u : LightBlock) (now : Int) : Except Err Unit :=
  if u.height ≠ t.height + 1 then .error .notAdjacent
  else if headerExpired t cfg.period now then .error .expired
  else if !verifyNewHeaderAndVals u t now cfg.drift then .error .invalidHeader
  else if u.hdr.valsHash ≠ t.hdr.nextValsHash then .error .nextValsMismatch
  else if !commitLightOK cfg.sigOK t.hdr.chain u then .error .invalidHeader else .ok ()

def verify (cfg : Config) (t u : LightBlock) (now : Int) : Except Err Unit :=
  if u.height ≠ t.height + 1 then verifyNonAdjacent cfg t u now else verifyAdjacent cfg t u now

/-- `VerifyBackwards(untrusted, trusted)` on headers -/
def verifyBackwards (u t : LightBlock) : Bool :=
  u.hdr.basicOK && u.hdr.chain == t.hdr.chain && (u.time < t.time) &&
  (u.hash == t.hdr.lastBlockHash)

/-! ## providers -/

inductive Resp
  | ok (b : LightBlock)
  | err (e : PErr)
deriving Repr, Inhabited

structure Prov where
  id : Nat
  chain : Nat
  script : Nat → Int → Resp      -- (number of earlier calls to this provider, requested height)

instance : Inhabited Prov := ⟨⟨0, 0, fun _ _ => .err .noResponse⟩⟩

/-- calls made so far, per provider id (one provider object may sit in several roles, e.g. primary
and witness after a failed witness removal, and then shares its state) -/
abbrev Calls := Nat → Nat

def ask (k : Calls) (p : Prov) (h : Int) : Calls × Resp :=
  (fun i => if i = p.id then k i + 1 else k i, p.script (k p.id) h)

/-! ## light/store/db -/

structure Store where
  blocks : List LightBlock      -- ascending, one per height
  size : Nat                    -- the store's own uint16 counter
deriving Repr, Inhabited

def insertBlock (b : LightBlock) : List LightBlock → List LightBlock
  | [] => [b]
  | x :: r =>
    if b.height < x.height then b :: x :: r
    else if b.height = x.height then b :: r
    else x :: insertBlock b r

def Store.save (s : Store) (b : LightBlock) : Store :=
  { blocks := insertBlock b s.blocks, size := (s.size + 1) % 65536 }

def Store.prune (s : Store) (n : Nat) : Store :=
  if s.size ≤ n then s
  else
    let k := min (s.size - n) s.blocks.length
    { blocks := s.blocks.drop k, size := (s.size + 65536 - k % 65536) % 65536 }

def Store.get (s : Store) (h : Int) : Option LightBlock := s.blocks.find? fun b => b.height == h
def Store.lastHeight (s : Store) : Int := match s.blocks.getLast? with | some b => b.height | none => -1
def Store.firstHeight (s : Store) : Int := match s.blocks.head? with | some b => b.height | none => -1
def Store.before (s : Store) (h : Int) : Option LightBlock :=
  (s.blocks.filter fun b => b.height < h).getLast?

/-! ## light/client.go -/

structure Evidence where
  conflicting : Hash
  commonHeight : Int
  totalPower : Int                 -- TotalVotingPower
  timestamp : Int                  -- Timestamp
  byzantine : List (Nat × Nat)     -- ByzantineValidators as (id, power), in collection order
deriving Repr, DecidableEq, Inhabited

structure Client where
  cfg : Config
  primary : Prov
  witnesses : List Prov
  calls : Calls
  store : Store
  latest : Option LightBlock
  evidence : List (Nat × Evidence)        -- (receiving provider id, evidence), in sending order
  sched : List Prov → List Nat            -- arrival order (witness indices) of a goroutine round

def eraseIdxs (ws : List Prov) : List Nat → List Prov
  | [] => ws
  | i :: r =>
    -- c.witnesses[i] = c.witnesses[len-1]; c.witnesses = c.witnesses[:len-1]
    let ws' := (ws.set i (ws.getLastD default)).dropLast
    eraseIdxs ws' r

def insertDesc (x : Nat) : List Nat → List Nat
  | [] => [x]
  | y :: r => if x ≥ y then x :: y :: r else y :: insertDesc x r

def sortDesc (l : List Nat) : List Nat := l.foldr insertDesc []

/-- `removeWitnesses` -/
def removeWitnesses (ws : List Prov) (idxs : List Nat) : Option (List Prov) :=
  if ws.length ≤ idxs.length then none else some (eraseIdxs ws (sortDesc idxs))

def isBenign : PErr → Bool
  | .noResponse | .notFound | .tooHigh => true
  | .bad => false

/-- the receive loop of `findNewPrimary` over the arrival order -/
def findLoop (remove : Bool) (height : Int) :
    List Nat → Client → List Nat → Option PErr → Client × Except Err LightBlock
  | [], c, rm, last =>
    let c' := match removeWitnesses c.witnesses rm with
      | some ws => { c with witnesses := ws }
      | none => c
    (c', match last with | some e => .error (.prov e) | none => .error .panic)
  | i :: rest, c, rm, last =>
    match c.witnesses[i]? with
    | none => findLoop remove height rest c rm last
    | some w =>
      let (k, r) := ask c.calls w height
      let c1 := { c with calls := k }
      match r with
      | .ok lb =>
        let ws := if remove then c1.witnesses else c1.witnesses ++ [c1.primary]
        let c2 := { c1 with witnesses := ws, primary := w }
        match removeWitnesses ws (rm ++ [i]) with
        | none => ({ c2 with witnesses := [] }, .error .noWitnesses)   -- nobody is left as a witness
        | some ws' => ({ c2 with witnesses := ws' }, .ok lb)
      | .err e =>
        if isBenign e then findLoop remove height rest c1 rm (some e)
        else findLoop remove height rest c1 (rm ++ [i]) (some e)

def findNewPrimary (c : Client) (height : Int) (remove : Bool) : Client × Except Err LightBlock :=
  if c.witnesses.isEmpty then (c, .error .noWitnesses)
  else findLoop remove height (c.sched c.witnesses) c [] none

def lightBlockFromPrimary (c : Client) (height : Int) : Client × Except Err LightBlock :=
  let (k, r) := ask c.calls c.primary height
  let c1 := { c with calls := k }
  match r with
  | .ok lb => (c1, .ok lb)
  | .err e => findNewPrimary c1 height (!isBenign e)

/-! ### light/detector.go -/

inductive Msg
  | matched
  | conflict (b : LightBlock) (idx : Nat)
  | badWitness (idx : Nat)
  | benign
deriving Repr, Inhabited

/-- `getTargetBlockOrLatest` -/
def getTargetBlockOrLatest (k : Calls) (w : Prov) (height : Int) :
    Calls × Except PErr (Bool × LightBlock) :=
  let (w1, r) := ask k w 0
  match r with
  | .err e => (w1, .error e)
  | .ok lb =>
    if lb.height = height then (w1, .ok (true, lb))
    else if lb.height > height then
      let (w2, r2) := ask w1 w height
      match r2 with
      | .ok lb2 => (w2, .ok (true, lb2))
      | .err e => (w2, .error e)
    else (w1, .ok (false, lb))

def hashCompare (h lb : LightBlock) (idx : Nat) : Msg :=
  if h.hash ≠ lb.hash then .conflict lb idx else .matched

/-- `compareNewHeaderWithWitness`: exactly one message per witness (after the `fix:` commit that
adds the missing `return` behind the conflicting-headers send). -/
def compareNewHeaderWithWitness (k : Calls) (h : LightBlock) (w : Prov) (idx : Nat) : Calls × Msg :=
  let (w1, r) := ask k w h.height
  match r with
  | .ok lb => (w1, hashCompare h lb idx)
  | .err .noResponse => (w1, .benign)
  | .err .notFound => (w1, .benign)
  | .err .bad => (w1, .badWitness idx)
  | .err .tooHigh =>
    let (w2, r2) := getTargetBlockOrLatest w1 w h.height
    match r2 with
    | .error _ => (w2, .benign)                       -- raw provider error: ignored by the receivers
    | .ok (true, lb) => (w2, hashCompare h lb idx)
    | .ok (false, lb) =>
      if !(lb.time < h.time) then (w2, .conflict lb idx)
      else
        -- time.Sleep(2*maxClockDrift + maxBlockLag)
        let (w3, r3) := getTargetBlockOrLatest w2 w h.height
        match r3 with
        | .error _ => (w3, .badWitness idx)
        | .ok (true, lb') => (w3, hashCompare h lb' idx)
        | .ok (false, lb') =>
          if !(lb'.time < h.time) then (w3, .conflict lb' idx) else (w3, .benign)

/-- the bisection fraction 9/16, taken from the regenerated source facts -/
def skipNum : Int := Tmv.Facts.c09_skipNum
def skipDen : Int := Tmv.Facts.c09_skipDen

/-- the loop of `verifySkipping` (block cache with the duplicated `append`) -/
def skipLoop (cfg : Config) (now : Int) (src : Prov) :
    Nat → Calls → LightBlock → List LightBlock → Nat → List LightBlock →
      Calls × Except Err (List LightBlock)
  | 0, k, _, _, _, _ => (k, .error .fuel)
  | f + 1, k, verified, cache, depth, trace =>
    match cache[depth]? with
    | none => (k, .error .panic)
    | some cur =>
      match verify cfg verified cur now with
      | .ok _ =>
        if depth = 0 then (k, .ok (trace ++ [cur]))
        else skipLoop cfg now src f k cur (cache.take depth) 0 (trace ++ [cur])
      | .error .cantBeTrusted =>
        if depth = cache.length - 1 then
          let pivot := verified.height + ((cur.height - verified.height) * skipNum).tdiv skipDen
          let (k', r) := ask k src pivot
          match r with
          | .ok interim => skipLoop cfg now src f k' verified (cache ++ [interim, interim]) (depth + 1) trace
          | .err e =>
            if isBenign e then (k', .error .cantBeTrusted)
            else (k', .error (.vfail verified.height pivot (.prov e)))
        else skipLoop cfg now src f k verified cache (depth + 1) trace
      | .error e => (k, .error (.vfail verified.height cur.height e))

def verifySkipping (cfg : Config) (k : Calls) (src : Prov) (trusted new : LightBlock) (now : Int) :
    Calls × Except Err (List LightBlock) :=
  skipLoop cfg now src cfg.fuel k trusted [new] 0 [trusted]

/-- `ConflictingHeaderIsInvalid` -/
def conflictingHeaderIsInvalid (trusted conflicting : Header) : Bool :=
  trusted.valsHash ≠ conflicting.valsHash || trusted.nextValsHash ≠ conflicting.nextValsHash ||
  trusted.consHash ≠ conflicting.consHash || trusted.appHash ≠ conflicting.appHash ||
  trusted.resHash ≠ conflicting.resHash

def ValSet.totalPower (v : ValSet) : Int := (v.vals.map fun p => (p.2 : Int)).sum

def ValSet.byAddr (v : ValSet) (addr : Bytes) : Option (Nat × Nat) :=
  v.vals.find? fun p => [UInt8.ofNat p.1] == addr

/-- `GetByzantineValidators(commonVals, trusted)` before the final sort by voting power (the order
is not modelled; the driver prints the set). Lunatic: the members of the common set with a for-block
slot in the conflicting commit. Equivocation (same round): the validators of the conflicting block
whose slot is non-absent in both commits (the code indexes the trusted commit with the conflicting
commit's positions; both commits passed verification against sets of one hash, `zip` = same length).
Amnesia (different rounds): none. -/
def byzantineValidators (conflicted trusted common : LightBlock) : List (Nat × Nat) :=
  if conflictingHeaderIsInvalid trusted.hdr conflicted.hdr then
    conflicted.commit.sigs.filterMap fun s =>
      if s.flag = CommitVerify.flagCommit then common.vals.byAddr s.addr else none
  else if trusted.commit.round = conflicted.commit.round then
    (conflicted.commit.sigs.zip trusted.commit.sigs).filterMap fun (a, b) =>
      if a.flag = CommitVerify.flagAbsent then none
      else if b.flag = CommitVerify.flagAbsent then none
      else conflicted.vals.byAddr a.addr
  else []

/-- `newLightClientAttackEvidence`: for a lunatic attack (the conflicting header's validator / app /
consensus / results hashes differ from the trusted header's) height, time and total power are the
COMMON block's; for equivocation and amnesia they are the TRUSTED block's at the attack height -/
def mkEvidence (conflicted trusted common : LightBlock) : Evidence :=
  let lunatic := conflictingHeaderIsInvalid trusted.hdr conflicted.hdr
  { conflicting := conflicted.hash,
    commonHeight := if lunatic then common.height else trusted.height,
    totalPower := if lunatic then common.vals.totalPower else trusted.vals.totalPower,
    timestamp := if lunatic then common.time else trusted.time,
    byzantine := byzantineValidators conflicted trusted common }

/-- the `for idx, traceBlock := range trace` loop of `examineConflictingHeaderAgainstTrace`;
`none` = any of its error returns -/
def examineLoop (cfg : Config) (now : Int) (target : LightBlock) (src : Prov) :
    List LightBlock → Bool → Calls → Option LightBlock → List LightBlock →
      Calls × Option (List LightBlock × LightBlock)
  | [], _, k, _, _ => (k, none)                                     -- errNoDivergence
  | tb :: rest, first, k, prev, st =>
    if tb.height > target.height then
      if tb.time > target.time then (k, none)
      else match prev with
        | none => (k, none)                                            -- unreachable (guard before the loop)
        | some pv =>
          if pv.height ≠ target.height then
            match verifySkipping cfg k src pv target now with
            | (k', .error _) => (k', none)
            | (k', .ok tr) => (k', some (tr, tb))
          else (k, some (st, tb))
    else
      let (k1, sb) : Calls × Option LightBlock :=
        if tb.height = target.height then (k, some target)
        else match ask k src tb.height with
          | (k', .ok b) => (k', some b)
          | (k', .err _) => (k', none)
      match sb with
      | none => (k1, none)
      | some sourceBlock =>
        if first then
          if sourceBlock.hash ≠ tb.hash then (k1, none)
          else examineLoop cfg now target src rest false k1 (some sourceBlock) st
        else match prev with
          | none => (k1, none)
          | some pv =>
            match verifySkipping cfg k1 src pv sourceBlock now with
            | (k2, .error _) => (k2, none)
            | (k2, .ok tr) =>
              if sourceBlock.hash ≠ tb.hash then (k2, some (tr, tb))
              else examineLoop cfg now target src rest false k2 (some sourceBlock) tr

def examine (cfg : Config) (now : Int) (trace : List LightBlock) (target : LightBlock) (k : Calls)
    (src : Prov) : Calls × Option (List LightBlock × LightBlock) :=
  match trace with
  | [] => (k, none)
  | t0 :: _ =>
    if target.height < t0.height then (k, none)
    else examineLoop cfg now target src trace true k none []

/-- `handleConflictingHeaders`; `some e` = the error it returns -/
def handleConflictingHeaders (c : Client) (trace : List LightBlock) (challenging : LightBlock)
    (idx : Nat) (now : Int) : Client × Option Err :=
  match c.witnesses[idx]? with
  | none => (c, some .panic)
  | some sup =>
    let (k1, r) := examine c.cfg now trace challenging c.calls sup
    let c1 := { c with calls := k1 }
    match r with
    | none => (c1, none)
    | some (wtrace, primaryBlock) =>
      match wtrace.head?, wtrace.getLast? with
      | some common, some trusted =>
        let ev1 := mkEvidence primaryBlock trusted common
        let c2 := { c1 with evidence := c1.evidence ++ [(sup.id, ev1)] }
        let (k2, r2) := examine c.cfg now wtrace primaryBlock c2.calls c2.primary
        let c3 := { c2 with calls := k2 }
        match r2 with
        | none => (c3, some .attack)
        | some (ptrace, witnessBlock) =>
          match ptrace.head?, ptrace.getLast? with
          | some common2, some trusted2 =>
            let ev2 := mkEvidence witnessBlock trusted2 common2
            ({ c3 with evidence := c3.evidence ++ [(c3.primary.id, ev2)] }, some .attack)
          | _, _ => (c3, some .panic)
      | _, _ => (c1, some .panic)

/-- receive loop of `detectDivergence` over the arrival order -/
def detectLoop (trace : List LightBlock) (h : LightBlock) (now : Int) :
    List Nat → Client → Bool → List Nat → Client × Except Err Unit
  | [], c, matched, rm =>
    match removeWitnesses c.witnesses rm with
    | none => (c, .error .noWitnesses)
    | some ws =>
      ({ c with witnesses := ws }, if matched then .ok () else .error .crossRef)
  | i :: rest, c, matched, rm =>
    match c.witnesses[i]? with
    | none => detectLoop trace h now rest c matched rm
    | some w =>
      let (k, m) := compareNewHeaderWithWitness c.calls h w i
      let c1 := { c with calls := k }
      match m with
      | .matched => detectLoop trace h now rest c1 true rm
      | .conflict b idx =>
        match handleConflictingHeaders c1 trace b idx now with
        | (c2, some e) => (c2, .error e)
        | (c2, none) => detectLoop trace h now rest c2 matched (rm ++ [idx])
      | .badWitness idx => detectLoop trace h now rest c1 matched (rm ++ [idx])
      | .benign => detectLoop trace h now rest c1 matched rm

def detectDivergence (c : Client) (trace : List LightBlock) (now : Int) : Client × Except Err Unit :=
  if trace.length < 2 then (c, .error (.msg "trace"))
  else match trace.getLast? with
    | none => (c, .error (.msg "trace"))
    | some h =>
      if c.witnesses.isEmpty then (c, .error .noWitnesses)
      else detectLoop trace h now (c.sched c.witnesses) c false []

/-- receive loop of `compareFirstHeaderWithWitnesses` -/
def firstLoop (h : LightBlock) : List Nat → Client → List Nat → Client × Except Err Unit
  | [], c, rm =>
    (match removeWitnesses c.witnesses rm with
      | some ws => { c with witnesses := ws }
      | none => c, .ok ())
  | i :: rest, c, rm =>
    match c.witnesses[i]? with
    | none => firstLoop h rest c rm
    | some w =>
      let (k, m) := compareNewHeaderWithWitness c.calls h w i
      let c1 := { c with calls := k }
      match m with
      | .matched => firstLoop h rest c1 rm
      | .conflict _ idx => (c1, .error (.conflicting idx))
      | .badWitness idx => firstLoop h rest c1 (rm ++ [idx])
      | .benign => firstLoop h rest c1 rm

def compareFirstHeaderWithWitnesses (c : Client) (h : LightBlock) : Client × Except Err Unit :=
  if c.witnesses.isEmpty then (c, .error .noWitnesses)
  else firstLoop h (c.sched c.witnesses) c []

/-- `updateTrustedLightBlock` -/
def updateTrustedLightBlock (c : Client) (l : LightBlock) : Client :=
  let s1 := c.store.save l
  let s2 := if c.cfg.pruning > 0 then s1.prune c.cfg.pruning else s1
  let latest := match c.latest with
    | none => some l
    | some t => if l.height > t.height then some l else some t
  { c with store := s2, latest := latest }

def isInvalidHeader : Err → Bool
  | .invalidHeader => true
  | _ => false

/-- loop of `verifySequential` -/
def seqLoop (now : Int) (new : LightBlock) :
    Nat → Client → LightBlock → Int → List LightBlock → Client × Except Err (List LightBlock)
  | 0, c, _, _, _ => (c, .error .fuel)
  | f + 1, c, verified, height, trace =>
    if !(height ≤ new.height) then (c, .ok trace)
    else
      let (c1, ir) : Client × Except Err LightBlock :=
        if height = new.height then (c, .ok new) else lightBlockFromPrimary c height
      match ir with
      | .error e => (c1, .error (.vfail verified.height height e))
      | .ok interim =>
        match verifyAdjacent c1.cfg verified interim now with
        | .ok _ => seqLoop now new f c1 interim (height + 1) (trace ++ [interim])
        | .error e =>
          let err := Err.vfail verified.height interim.height e
          if isInvalidHeader e then
            if interim.height = new.height then (c1, .error err)
            else match findNewPrimary c1 new.height true with
              | (c2, .error _) => (c2, .error err)
              | (c2, .ok repl) =>
                if repl.hash ≠ new.hash then (c2, .error err)
                else seqLoop now new f c2 verified height trace
          else (c1, .error err)

def verifySequential (c : Client) (trusted new : LightBlock) (now : Int) : Client × Except Err Unit :=
  match seqLoop now new c.cfg.fuel c trusted (trusted.height + 1) [trusted] with
  | (c1, .error e) => (c1, .error e)
  | (c1, .ok trace) => detectDivergence c1 trace now

/-- `verifySkippingAgainstPrimary` (recursion on the replacement primary) -/
def verifySkippingAgainstPrimary (now : Int) (trusted : LightBlock) :
    Nat → Client → LightBlock → Client × Except Err Unit
  | 0, c, _ => (c, .error .fuel)
  | f + 1, c, new =>
    let (k, r) := verifySkipping c.cfg c.calls c.primary trusted new now
    let c1 := { c with calls := k }
    match r with
    | .ok trace => detectDivergence c1 trace now
    | .error (.vfail frm to reason) =>
      let err := Err.vfail frm to reason
      if isInvalidHeader reason then
        if to = new.height then (c1, .error err)
        else match findNewPrimary c1 new.height true with
          | (c2, .error _) => (c2, .error err)
          | (c2, .ok repl) =>
            if repl.hash ≠ new.hash then (c2, .error err)
            else verifySkippingAgainstPrimary now trusted f c2 repl
      else (c1, .error err)
    | .error _ =>
      -- `errors.Unwrap` of an error that wraps nothing is nil: the code falls into `case nil`
      -- and runs the detector on the nil trace, which rejects it
      detectDivergence c1 [] now

/-- `backwards` (after the `fix:` commit: the chain of hash links must end in the header that is
going to be stored) -/
def backwards : Nat → Client → LightBlock → LightBlock → Client × Except Err Unit
  | 0, c, _, _ => (c, .error .fuel)
  | f + 1, c, verified, new =>
    if !(verified.height > new.height) then
      (c, if verified.hash ≠ new.hash then .error .invalidHeader else .ok ())
    else
      match lightBlockFromPrimary c (verified.height - 1) with
      | (c1, .error e) => (c1, .error e)
      | (c1, .ok interim) =>
        if !verifyBackwards interim verified then
          match findNewPrimary c1 new.height true with
          | (c2, .error _) => (c2, .error .invalidHeader)
          | (c2, .ok np) =>
            if np.hash ≠ new.hash then (c2, .error .invalidHeader)
            else backwards f c2 verified np
        else backwards f c1 interim new

/-- `verifyLightBlock` -/
def verifyLightBlock (c : Client) (new : LightBlock) (now : Int) : Client × Except Err Unit :=
  match c.latest with
  | none => (c, .error .panic)
  | some latest =>
    let first := c.store.firstHeight
    let (c1, r) : Client × Except Err Unit :=
      if new.height ≥ latest.height then
        if c.cfg.sequential then verifySequential c latest new now
        else verifySkippingAgainstPrimary now latest c.cfg.fuel c new
      else if new.height < first then
        match c.store.get first with
        | none => (c, .error (.msg "first"))
        | some fb => backwards c.cfg.fuel c fb new
      else
        match c.store.before new.height with
        | none => (c, .error (.msg "before"))
        | some cb =>
          if c.cfg.sequential then verifySequential c cb new now
          else verifySkippingAgainstPrimary now cb c.cfg.fuel c new
    match r with
    | .error e => (c1, .error e)
    | .ok _ => (updateTrustedLightBlock c1 new, .ok ())

/-- `VerifyLightBlockAtHeight` -/
def verifyLightBlockAtHeight (c : Client) (height now : Int) : Client × Except Err LightBlock :=
  if height ≤ 0 then (c, .error (.msg "height"))
  else
    let last := c.store.lastHeight
    let stored : Option LightBlock :=
      if last = -1 then none else if height > last then none else c.store.get height
    match stored with
    | some b => (c, .ok b)
    | none =>
      match lightBlockFromPrimary c height with
      | (c1, .error e) => (c1, .error e)
      | (c1, .ok l) =>
        match verifyLightBlock c1 l now with
        | (c2, .error e) => (c2, .error e)
        | (c2, .ok _) => (c2, .ok l)

/-- `Update`; `none` = nothing newer -/
def update (c : Client) (now : Int) : Client × Except Err (Option LightBlock) :=
  let last := c.store.lastHeight
  if last = -1 then (c, .ok none)
  else match lightBlockFromPrimary c 0 with
    | (c1, .error e) => (c1, .error e)
    | (c1, .ok l) =>
      if l.height > last then
        match verifyLightBlock c1 l now with
        | (c2, .error e) => (c2, .error e)
        | (c2, .ok _) => (c2, .ok (some l))
      else (c1, .ok none)

/-- `LightBlock.ValidateBasic(chainID)` (validator sets are non-empty by construction) -/
def lightBlockBasic (b : LightBlock) (chain : Nat) : Bool :=
  signedHeaderBasic b chain && (b.hdr.valsHash == b.vals.hash)

/-- `NewClient` on an empty store: `NewClientFromTrustedStore` + `initializeWithTrustOptions` -/
def newClient (cfg : Config) (primary : Prov) (witnesses : List Prov) (sched : List Prov → List Nat)
    (optPeriod optHeight : Int) (optHash : Hash) : Except Err Client :=
  if optPeriod ≤ 0 ∨ optHeight ≤ 0 then .error (.msg "options")
  else if witnesses.isEmpty then .error .noWitnesses
  else if witnesses.any (fun w => w.chain != cfg.chain) then .error (.msg "witness-chain")
  else if !validateTrustLevel cfg.level then .error (.msg "trust-level")
  else
    let c : Client := { cfg := cfg, primary := primary, witnesses := witnesses, calls := fun _ => 0,
                        store := { blocks := [], size := 0 }, latest := none, evidence := [],
                        sched := sched }
    match lightBlockFromPrimary c optHeight with
    | (_, .error e) => .error e
    | (c1, .ok l) =>
      if !lightBlockBasic l cfg.chain then .error (.msg "basic")
      else if l.hash ≠ optHash then .error (.msg "hash")
      else if !commitLightOK cfg.sigOK cfg.chain l then .error (.msg "commit")
      else match compareFirstHeaderWithWitnesses c1 l with
        | (_, .error e) => .error e
        | (c2, .ok _) => .ok (updateTrustedLightBlock c2 l)

/-! ### restart, rollback, cleanup, `VerifyHeader` -/

/-- `DeleteLightBlock` -/
def Store.delete (s : Store) (h : Int) : Store :=
  { blocks := s.blocks.filter (fun b => b.height != h), size := (s.size + 65535) % 65536 }

/-- `restoreTrustedLightBlock` -/
def restore (c : Client) : Client :=
  let last := c.store.lastHeight
  if last > 0 then
    match c.store.get last with
    | some b => { c with latest := some b }
    | none => c
  else c

/-- the loop of `cleanupAfter`: walks down from the block BEFORE the latest one and deletes what is
above `height` — the latest block itself is never deleted -/
def cleanupAfterLoop (height : Int) : Nat → Store → Int → Store
  | 0, s, _ => s
  | f + 1, s, prev =>
    match s.before prev with
    | none => s
    | some h => if h.height ≤ height then s else cleanupAfterLoop height f (s.delete h.height) h.height

def cleanupAfter (c : Client) (height : Int) : Client :=
  match c.latest with
  | none => c
  | some l =>
    restore { c with store := cleanupAfterLoop height (c.store.blocks.length + 1) c.store l.height,
                     latest := none }

/-- `Cleanup` -/
def cleanup (c : Client) : Client := { c with latest := none, store := c.store.prune 0 }

/-- `checkTrustedHeaderUsingOptions` (the confirmation function always agrees) -/
def checkTrustedHeaderUsingOptions (c : Client) (height : Int) (hash : Hash) : Client × Option Err :=
  match c.latest with
  | none => (c, some .panic)
  | some latest =>
    let (c1, ph) : Client × Except Err Hash :=
      if height > latest.height then
        match lightBlockFromPrimary c latest.height with
        | (c1, .error e) => (c1, .error e)
        | (c1, .ok lb) => (c1, .ok lb.hash)
      else if height = latest.height then (c, .ok hash)
      else (cleanupAfter c height, .ok hash)
    match ph with
    | .error e => (c1, some e)
    | .ok primaryHash =>
      match c1.latest with
      | none => (c1, some .panic)
      | some l1 => if primaryHash ≠ l1.hash then (cleanup c1, none) else (c1, none)

/-- `initializeWithTrustOptions` -/
def initializeWithOptions (c : Client) (height : Int) (hash : Hash) : Client × Option Err :=
  match lightBlockFromPrimary c height with
  | (c1, .error e) => (c1, some e)
  | (c1, .ok l) =>
    if !lightBlockBasic l c1.cfg.chain then (c1, some (.msg "basic"))
    else if l.hash ≠ hash then (c1, some (.msg "hash"))
    else if !commitLightOK c1.cfg.sigOK c1.cfg.chain l then (c1, some (.msg "commit"))
    else match compareFirstHeaderWithWitnesses c1 l with
      | (c2, .error e) => (c2, some e)
      | (c2, .ok _) => (updateTrustedLightBlock c2 l, none)

/-- the client object `NewClientFromTrustedStore` builds around the existing store -/
def clientOn (base : Client) (cfg : Config) (primary : Prov) (witnesses : List Prov)
    (sched : List Prov → List Nat) : Client :=
  { cfg := cfg, primary := primary, witnesses := witnesses, calls := base.calls, store := base.store,
    latest := none, evidence := base.evidence, sched := sched }

/-- `NewClientFromTrustedStore` (`withOptions = false`) / `NewClient` (`withOptions = true`) on the
store, provider call state and evidence log carried by `base`; `some e` = the constructor failed
(the store may already have been changed) -/
def newClientOn (base : Client) (cfg : Config) (primary : Prov) (witnesses : List Prov)
    (sched : List Prov → List Nat) (withOptions : Bool) (optPeriod optHeight : Int) (optHash : Hash) :
    Client × Option Err :=
  if withOptions ∧ (optPeriod ≤ 0 ∨ optHeight ≤ 0) then (base, some (.msg "options"))
  else if witnesses.isEmpty then (base, some .noWitnesses)
  else if witnesses.any (fun w => w.chain != cfg.chain) then (base, some (.msg "witness-chain"))
  else if !validateTrustLevel cfg.level then (base, some (.msg "trust-level"))
  else
    let c := restore (clientOn base cfg primary witnesses sched)
    if !withOptions then (c, none)
    else
      let (c1, e1) : Client × Option Err :=
        if c.latest.isSome then checkTrustedHeaderUsingOptions c optHeight optHash else (c, none)
      match e1 with
      | some e => (c1, some e)
      | none =>
        let need : Bool := match c1.latest with
          | none => true
          | some l => l.height < optHeight
        if need then initializeWithOptions c1 optHeight optHash else (c1, none)

/-- `VerifyHeader` (the header is given by its hash and height) -/
def verifyHeader (c : Client) (hash : Hash) (height now : Int) : Client × Except Err Unit :=
  if height ≤ 0 then (c, .error (.msg "height"))
  else
    let last := c.store.lastHeight
    let stored : Option LightBlock :=
      if last = -1 then none else if height > last then none else c.store.get height
    match stored with
    | some b => (c, if b.hash ≠ hash then .error (.msg "existing") else .ok ())
    | none =>
      match lightBlockFromPrimary c height with
      | (c1, .error e) => (c1, .error e)
      | (c1, .ok l) =>
        if l.hash ≠ hash then (c1, .error (.msg "mismatch")) else verifyLightBlock c1 l now

end Tmv.Light
