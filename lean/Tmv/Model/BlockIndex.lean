import Tmv.Model.Index
/-! Model of /repo state/indexer/block/kv/kv.go + util.go (`Index`, `Has`, `Search`, `match`,
`matchRange`).  Keys are built with google/orderedcode, a prefix-free, injective tuple encoding:
the model keeps the tuple itself (`BKey`) and reads "rows with prefix `Append(nil, k)`" as "rows
whose first component is `k`", "prefix `Append(nil, k, v)`" as "event rows with components
`k`, `v`" (a string encoding never is a prefix of the encoding of a non-negative int64, whose
first byte has the high bit set).  orderedcode itself is trusted, not modelled.
HYPOTHESIS of every block-index theorem (explicit): `orderedcode.Append` is an injective,
prefix-free, order-preserving encoding of typed tuples, so that a database of encoded keys with
prefix iteration behaves as this database of tuples with component-wise selection. -/
namespace Tmv.BlockIndex
open Tmv.Query Tmv.Index

inductive BKey
  | primary (h : Nat)                          -- ("block.height", height)
  | event (k v : Str) (h : Nat) (typ : Str)    -- (compositeKey, value, height, begin_block|end_block)
deriving Repr, DecidableEq

abbrev DB := List (BKey × Nat)     -- value: the height (varint bytes in the code)

def blockHeightKey : Str := [98, 108, 111, 99, 107, 46, 104, 101, 105, 103, 104, 116]   -- "block.height"

def dbSet (db : DB) (k : BKey) (v : Nat) : DB :=
  if db.any (·.1 == k) then db.map (fun p => if p.1 == k then (k, v) else p) else db ++ [(k, v)]

def has (db : DB) (h : Nat) : Bool := db.any (·.1 == .primary h)

def firstComp : BKey → Str
  | .primary _ => blockHeightKey
  | .event k _ _ _ => k

/-- one attribute of `indexEvents`: `none` = the reserved-key error -/
def indexAttr (e : Index.Event) (typ : Str) (h : Nat) (d : DB) (a : Index.Attr) : Option DB :=
  if a.key.isEmpty then some d
  else
    let ck := e.type ++ dot :: a.key
    if ck == blockHeightKey then none
    else if a.index then some (dbSet d (.event ck a.value h typ) h) else some d

/-- one event of `indexEvents` (events with an empty type are skipped) -/
def indexEvent (typ : Str) (h : Nat) (d : DB) (e : Index.Event) : Option DB :=
  if e.type.isEmpty then some d else e.attrs.foldlM (indexAttr e typ h) d

/-- `indexEvents`: `none` = the reserved-key error (the batch is then never written) -/
def indexEvents (db : DB) (events : List Index.Event) (typ : Str) (h : Nat) : Option DB :=
  events.foldlM (indexEvent typ h) db

def beginBlock : Str := "begin_block".toUTF8.toList
def endBlock : Str := "end_block".toUTF8.toList

/-- `Index` -/
def index (db : DB) (h : Nat) (b e : List Index.Event) : Option DB := do
  let d1 := dbSet db (.primary h) h
  let d2 ← indexEvents d1 b beginBlock h
  indexEvents d2 e endBlock h

inductive Res
  | heights (hs : List Nat)
  | err
  | panic
deriving Repr, DecidableEq

/-- `lookForHeight`: the first `block.height = <number>` condition (`fix:` commit: string operands
no longer panic, they are skipped) -/
def lookForHeight (q : Query) : Option Nat :=
  q.findSome? fun c => if c.key == blockHeightKey && c.op == .eq then operandNat c.operand else none

/-- the value `matchRange` parses out of a row: primary rows give their height under the
`block.height` range and fail to parse otherwise; event rows the other way round -/
def rangeValue (rkey : Str) : BKey → Option Str
  | .primary h => if rkey == blockHeightKey then some (dec h) else none
  | .event _ v _ _ => if rkey == blockHeightKey then none else some v

def inRange (r : QRange) (v : Int) : Bool :=
  (match lowerBoundValue r with | some lo => decide (lo ≤ v) | none => true) &&
  (match upperBoundValue r with | some hi => decide (v ≤ hi) | none => true)

def rangeRows (db : DB) (r : QRange) : DB :=
  (db.filter fun row => firstComp row.1 == r.key).filter fun row =>
    match (rangeValue r.key row.1).bind parseInt with
    | none => false
    | some v => inRange r v

inductive Scan | rows (d : DB) | panic | err

def condRows (db : DB) (c : Cond) : Scan :=
  match c.op with
  | .eq => .rows (db.filter fun row => match row.1 with
      | .event k v _ _ => k == c.key && v == operandStr c.operand
      | .primary _ => false)
  | .exists => .rows (db.filter fun row => firstComp row.1 == c.key)
  | .contains =>
    match c.operand with
    | .str s => .rows (db.filter fun row => match row.1 with
        | .event k v _ _ => k == c.key && isInfix s v
        | .primary _ => false)
    | _ => .panic
  | _ => .err

def scanStep (st : Except Res (Option (List Nat))) (rows : Scan) : Except Res (Option (List Nat)) :=
  match st with
  | .error e => .error e
  | .ok s =>
    if s == some [] then .ok s else
    match rows with
    | .panic => .error .panic
    | .err => .error .err
    | .rows rs => .ok (applyScan s (rs.map (·.2)))

/-- `sort.Slice(results, func(i, j) bool { return results[i] < results[j] })` -/
def insertNat (x : Nat) : List Nat → List Nat
  | [] => [x]
  | y :: ys => if x ≤ y then x :: y :: ys else y :: insertNat x ys

def sortNat (l : List Nat) : List Nat := l.foldr insertNat []

/-- `Search` -/
def search (db : DB) (q : Query) : Res :=
  if !conditionsOK q then .err else
  match lookForHeight q with
  | some h => if has db h then .heights [h] else .heights []
  | none =>
    let st1 := (lookForRanges q).foldl (fun st r => scanStep st (.rows (rangeRows db r))) (.ok none)
    match (q.filter (fun c => !isRangeOp c.op)).foldl (fun st c => scanStep st (condRows db c)) st1 with
    | .error e => e
    | .ok none => .heights []
    | .ok (some hs) => .heights (sortNat (hs.filter (has db)))

end Tmv.BlockIndex
