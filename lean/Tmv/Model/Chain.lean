import Tmv.Model.Net
/-! Heights composed (C01): every height is one instance of the network model `Tmv.Net`; what links
the heights is the replicated state. A node enters height `h` only after it has committed at every
height below, and the configuration it runs height `h` with (validator set, powers, proposer table,
block validity, its own proposal block) is a function `net` of the state IT holds — genesis with its
own committed blocks applied by `apply` (the state transition; deterministic: C06). Nothing in the
model makes two nodes hold the same state: that is the theorem (`Tmv.Props.C01.agreement_all_heights`).
The faulty validators of each height are given per height (`faulty h`), independent of any state.
Core Lean only. -/
namespace Tmv.Chain
open Tmv.Cons Tmv.Net

structure ChainCfg (σ : Type) where
  genesis : σ
  /-- the state after executing the block with this id on this state -/
  apply : σ → Nat → σ
  /-- the consensus configuration of the height that starts from this state (its `faulty` field is
  not used) -/
  net : σ → NetCfg
  /-- height ↦ the faulty validators (indices in that height's validator set) -/
  faulty : Nat → Nat → Bool

variable {σ : Type}

/-- the configuration of height `h` as seen from state `S` -/
def ChainCfg.netAt (C : ChainCfg σ) (S : σ) (h : Nat) : NetCfg := { C.net S with faulty := C.faulty h }

/-- one network per height -/
structure World where
  nets : Nat → Net

def World.init : World := ⟨fun _ => Net.init⟩

def World.set (W : World) (h : Nat) (N : Net) : World := ⟨fun k => if k = h then N else W.nets k⟩

/-- the block node `p` committed at height `h` -/
def World.decided (W : World) (p h : Nat) : Option Nat := (W.nets h).decided p

/-- node `p` has committed at every height below `h` -/
def World.entered (W : World) (p h : Nat) : Prop := ∀ h', h' < h → W.decided p h' ≠ none

/-- the state node `p` holds at height `h`: genesis with its own decisions applied -/
def World.st (C : ChainCfg σ) (W : World) (p : Nat) : Nat → σ
  | 0 => C.genesis
  | h + 1 =>
    match W.decided p h with
    | some b => C.apply (W.st C p h) b
    | none => W.st C p h

/-- `p` is a correct validator of every height up to `h`, each seen from the state `p` itself holds -/
def World.good (C : ChainCfg σ) (W : World) (p h : Nat) : Prop :=
  ∀ h', h' ≤ h → (C.netAt (W.st C p h') h').correct p

/-- the moves of ONE node `p` in a one-height network under configuration `nc` (the node
constructors of `NetStep`) -/
inductive NodeStep (nc : NetCfg) (p : Nat) : Net → Net → Prop
  | deliver (s : Net) (k : Nat) (peer : Peer) (hk : k < s.log.length) :
      NodeStep nc p s (s.feed nc p (.ext (toInput nc s.log[k] peer)))
  | block (s : Net) (b : Nat) : NodeStep nc p s (s.feed nc p (.ext (.blockComplete b)))
  | claim (s : Net) (r : Nat) (t : VType) (peer : Peer) (bid : Bid) :
      NodeStep nc p s (s.feed nc p (.ext (.peerMaj23 r t peer bid)))
  | fire (s : Net) (r : Nat) (st : Step)
      (hs : (r = 0 ∧ st = .newHeight) ∨ Output.schedule r st ∈ (s.nodes p).out) :
      NodeStep nc p s (s.feed nc p (.ext (.timeout r st)))
  | txs (s : Net) : NodeStep nc p s (s.feed nc p (.ext .txsAvailable))
  | own (s : Net) (k : Nat) : NodeStep nc p s (s.feed nc p (.own k))

inductive WStep (C : ChainCfg σ) : World → World → Prop
  /-- a node that has committed all lower heights and has been correct so far makes a move at height
  `h`, under the configuration derived from the state IT holds -/
  | node (W : World) (h p : Nat) (N' : Net) (hent : W.entered p h) (hgood : W.good C p h)
      (hs : NodeStep (C.netAt (W.st C p h) h) p (W.nets h) N') : WStep C W (W.set h N')
  /-- a validator that is faulty at height `h` signs anything for that height; anybody sends
  non-verifying messages -/
  | byz (W : World) (h : Nat) (m : Msg) (hm : C.faulty h m.sender = true ∨ m.ok = false) :
      WStep C W (W.set h ((W.nets h).append m))

inductive WReachable (C : ChainCfg σ) : World → Prop
  | init : WReachable C World.init
  | step {W W' : World} : WReachable C W → WStep C W W' → WReachable C W'

/-- less than one third of the power of the validator set of height `h` (as seen from `S`) is faulty -/
def ChainCfg.bound (C : ChainCfg σ) (S : σ) (h : Nat) : Prop :=
  3 * (C.netAt S h).powers.wt (C.faulty h) < (C.netAt S h).powers.total

/-! ### executable transitions (for kernel-evaluated example runs) -/

instance (C : ChainCfg σ) (S : σ) (h : Nat) : Decidable (C.bound S h) := by
  unfold ChainCfg.bound; infer_instance

instance (W : World) (p h : Nat) : Decidable (W.entered p h) := by
  unfold World.entered; exact Nat.decidableBallLT _ _

instance (C : ChainCfg σ) (W : World) (p h : Nat) : Decidable (W.good C p h) := by
  unfold World.good
  exact decidable_of_iff (∀ h', h' < h + 1 → (C.netAt (W.st C p h') h').correct p)
    ⟨fun f h' hh => f h' (Nat.lt_succ_of_le hh), fun f h' hh => f h' (Nat.le_of_lt_succ hh)⟩

/-- the node an op moves -/
def opNode : Op → Option Nat
  | .deliver p _ _ => some p | .block p _ => some p | .claim p _ _ _ _ => some p
  | .fire p _ _ => some p | .txs p => some p | .own p _ => some p | .byz _ => none
  | .restart _ => none

/-- apply an op of the one-height model at height `h` (`drain`: FIFO schedule for own messages);
`none` = not a transition of the world -/
def World.applyOp (C : ChainCfg σ) (W : World) (h : Nat) (drain : Bool) (op : Op) : Option World :=
  match opNode op with
  | some p =>
    if W.entered p h ∧ W.good C p h then
      ((W.nets h).apply (C.netAt (W.st C p h) h) drain op).map (W.set h)
    else none
  | none =>
    match op with
    | .byz m => if C.faulty h m.sender = true ∨ m.ok = false then some (W.set h ((W.nets h).append m)) else none
    | _ => none

/-- run a list of (height, op) pairs with the FIFO schedule (ops that are not transitions are skipped) -/
def World.run (C : ChainCfg σ) (W : World) (ops : List (Nat × Op)) : World :=
  ops.foldl (fun W ho => (W.applyOp C ho.1 true ho.2).getD W) W

end Tmv.Chain
