import Tmv.Model.Query
/-! Model of /repo libs/pubsub/pubsub.go + subscription.go (the `Server`, its command loop and
`state`), as repaired by the `fix:` commit (a query whose comparison does not fit an event's value
type no longer ends `state.send` for the remaining subscribers).

Data refinement used (stated, not hidden): the code keeps `Server.subscriptions`
(client → query strings; consulted by Subscribe/Unsubscribe before the command is queued) and the
loop's `state.subscriptions` (query string → client → *Subscription).  The model keeps `registry`
(the former) and one record per (client, query string) holding the *latest* Subscription object
the client was handed, with `status = active` iff it is still in `state.subscriptions`.  A
Subscribe succeeds only when the pair is not in the registry, and the pair leaves the registry
only through Unsubscribe/UnsubscribeAll, which cancel the active subscription — so an older
Subscription object of the same pair is always already cancelled when it is replaced.
`state.queries[qStr].q` is the query object of the first subscriber of that string; a query's
string determines its conditions, so each record carries its own parsed query.
Ops are the atomic steps of the command loop (one `cmd` each); `read` is a non-blocking receive on
`Out()` followed, when nothing is buffered, by a look at `Cancelled()`/`Err()`.
An unbuffered subscription (capacity 0) blocks the loop until its reader takes the message: the
reader is assumed always ready, its log is the record's `queue`. -/
namespace Tmv.PubSub
open Tmv.Query

abbrev Msg := Nat × Events      -- (publication id, event map)

inductive Reason | unsubscribed | outOfCapacity
deriving Repr, DecidableEq

inductive Status | active | cancelled (r : Reason)
deriving Repr, DecidableEq

structure Rec where
  client : Str
  qstr : Str
  query : Query
  cap : Nat                 -- 0 = SubscribeUnbuffered
  queue : List Msg          -- buffered in `out` (cap 0: handed to the always-ready reader)
  taken : List Msg          -- already received by the client through `read` (oldest first)
  status : Status
deriving Repr, DecidableEq

structure State where
  registry : List (Str × Str)    -- Server.subscriptions as (client, query string) pairs
  recs : List Rec
deriving Repr

def State.init : State := { registry := [], recs := [] }

inductive PsOp
  | sub (c q : Str) (ast : Query) (cap : Nat)
  | unsub (c q : Str)
  | unsubAll (c : Str)
  | pub (m : Msg)
  | read (c q : Str)
deriving Repr

inductive Out
  | ok | okErr            -- publish: `okErr` = the loop logged "Error querying for events"
  | errAlready | errNotFound
  | msg (id : Nat) | empty | cancelled (r : Reason) | noSub
deriving Repr, DecidableEq

def Rec.isFor (r : Rec) (c q : Str) : Bool := r.client == c && r.qstr == q

def cancel (why : Reason) (r : Rec) : Rec :=
  if r.status = .active then { r with status := .cancelled why } else r

/-- `state.send` for one subscription: push, or cancel with ErrOutOfCapacity when the buffer is
full; an unbuffered subscription always gets the message (blocking send). -/
def deliver (m : Msg) (r : Rec) : Rec :=
  if r.status ≠ .active then r
  else match «matches» r.query m.2 with
    | .ok true =>
      if r.cap = 0 then { r with queue := r.queue ++ [m] }
      else if r.queue.length < r.cap then { r with queue := r.queue ++ [m] }
      else { r with status := .cancelled .outOfCapacity }
    | _ => r

def matchErr (m : Msg) (r : Rec) : Bool :=
  r.status = .active && match «matches» r.query m.2 with | .error _ => true | .ok _ => false

/-- `read`: non-blocking receive, then the cancellation reason -/
def readRec (r : Rec) : Rec × Out :=
  match r.queue with
  | m :: rest => ({ r with queue := rest, taken := r.taken ++ [m] }, .msg m.1)
  | [] => match r.status with
    | .active => (r, .empty)
    | .cancelled why => (r, .cancelled why)

def mapFirst (p : Rec → Bool) (f : Rec → Rec × Out) : List Rec → List Rec × Out
  | [] => ([], .noSub)
  | r :: rest =>
    if p r then ((f r).1 :: rest, (f r).2)
    else ((mapFirst p f rest).1.cons r, (mapFirst p f rest).2)

def step (s : State) : PsOp → State × Out
  | .sub c q ast cap =>
    if s.registry.contains (c, q) then (s, .errAlready)
    else
      ({ registry := s.registry ++ [(c, q)],
         recs := s.recs.filter (fun r => !r.isFor c q) ++
           [{ client := c, qstr := q, query := ast, cap := cap, queue := [], taken := [],
              status := .active }] }, .ok)
  | .unsub c q =>
    if !s.registry.contains (c, q) then (s, .errNotFound)
    else
      ({ registry := s.registry.filter (· != (c, q)),
         recs := s.recs.map fun r => if r.isFor c q then cancel .unsubscribed r else r }, .ok)
  | .unsubAll c =>
    if !s.registry.any (·.1 == c) then (s, .errNotFound)
    else
      ({ registry := s.registry.filter (·.1 != c),
         recs := s.recs.map fun r => if r.client == c then cancel .unsubscribed r else r }, .ok)
  | .pub m =>
    ({ s with recs := s.recs.map (deliver m) }, if s.recs.any (matchErr m) then .okErr else .ok)
  | .read c q =>
    let (recs, o) := mapFirst (·.isFor c q) readRec s.recs
    ({ s with recs := recs }, o)

def run (s : State) : List PsOp → State
  | [] => s
  | o :: rest => run (step s o).1 rest

/-- `NumClients`, `NumClientSubscriptions` (used by rpc/core/events.go for its limits) -/
def numClients (s : State) : Nat := (s.registry.map (·.1)).eraseDups.length
def numClientSubs (s : State) (c : Str) : Nat := (s.registry.filter (·.1 == c)).length

end Tmv.PubSub
