import Tmv.Util
import Tmv.Gen.Facts
/-! Model of the data phase of `p2p/conn/secret_connection.go` (`Write`, `Read`, `incrNonce`).

The AEAD of one direction (key fixed by the handshake) is a pair of PARAMETERS
`enc : nonce-counter → plaintext → ciphertext` and `dec : nonce-counter → ciphertext → Option plaintext`;
nothing is assumed about them here. A nonce is modelled by its 64-bit counter (`nonceBytes`
gives the 12-byte encoding the code passes to the cipher).

Statement by statement:
* `Write`: `for 0 < len(data)`: chunk = first `dataMaxSize` bytes (or everything), frame =
  `le32(len chunk) ‖ chunk ‖ whatever the pooled buffer held` (the pool does not zero buffers, so
  the padding is an arbitrary `junk`), `Seal` under the send counter, `incrNonce` (panics at
  `MaxUint64` BEFORE the sealed frame is handed to the conn), `conn.Write` (an error returns with
  the counter already incremented), `n += len(chunk)`.
* `Read`: non-empty `recvBuffer` is served first (and nothing else happens); otherwise
  `io.ReadFull` of one sealed frame (`io.EOF` on an empty conn, `io.ErrUnexpectedEOF` on a short
  one, which consumes what was there), `Open` under the receive counter (failure: counter NOT
  incremented, frame consumed), `incrNonce`, length field `> dataMaxSize` ⇒ error (counter
  already incremented), copy, remainder to `recvBuffer`. -/
namespace Tmv.SecretFrames
open Tmv

def dataLenSize : Nat := Facts.c16_dataLenSize.toNat
def dataMaxSize : Nat := Facts.c16_dataMaxSize.toNat
def totalFrameSize : Nat := Facts.c16_totalFrameSize.toNat
def aeadSizeOverhead : Nat := Facts.c16_aeadSizeOverhead.toNat
/-- size of one sealed frame on the wire -/
def sealedFrameSize : Nat := totalFrameSize + aeadSizeOverhead

/-- `math.MaxUint64` -/
def maxU64 : Nat := 2 ^ 64 - 1

/-- `binary.LittleEndian.PutUint32` -/
def le32 (n : Nat) : Bytes :=
  [UInt8.ofNat (n % 256), UInt8.ofNat (n / 256 % 256), UInt8.ofNat (n / 65536 % 256),
   UInt8.ofNat (n / 16777216 % 256)]

/-- `binary.LittleEndian.Uint32(frame)` (first four bytes) -/
def unle32 (b : Bytes) : Nat :=
  (b.getD 0 0).toNat + 256 * (b.getD 1 0).toNat + 65536 * (b.getD 2 0).toNat
    + 16777216 * (b.getD 3 0).toNat

def le64 (n : Nat) : Bytes :=
  (List.range 8).map fun i => UInt8.ofNat (n / 256 ^ i % 256)

/-- the 12-byte nonce handed to the cipher: four unused zero bytes, then the counter
little-endian -/
def nonceBytes (c : Nat) : Bytes := [0, 0, 0, 0] ++ le64 c

/-- `incrNonce`: `none` = panic (`counter == math.MaxUint64`), never wraps -/
def incrNonce (c : Nat) : Option Nat := if c = maxU64 then none else some (c + 1)

/-- the plaintext frame: length, chunk, then the stale content of the pooled buffer -/
def mkFrame (chunk junk : Bytes) : Bytes :=
  le32 chunk.length ++ chunk ++ (junk ++ List.replicate dataMaxSize 0).take (dataMaxSize - chunk.length)

inductive WOutcome | ok | panic | connErr
  deriving DecidableEq, Repr

structure WResult where
  nonce : Nat                      -- send counter afterwards
  frames : List (Nat × Bytes)      -- (counter used, sealed frame) handed to the conn, in order
  n : Nat                          -- bytes reported written
  outcome : WOutcome
  deriving Repr

section
variable (enc : Nat → Bytes → Bytes) (junk : Nat → Bytes)

/-- the loop of `Write`; `connOk = false` models a conn whose `Write` fails -/
def writeLoop : Nat → Nat → Bytes → Bool → Nat → List (Nat × Bytes) → WResult
  | 0, nonce, _, _, n, acc => ⟨nonce, acc, n, .ok⟩
  | fuel + 1, nonce, data, connOk, n, acc =>
    if ¬ (0 < data.length) then ⟨nonce, acc, n, .ok⟩ else
    let chunk := if dataMaxSize < data.length then data.take dataMaxSize else data
    let rest := if dataMaxSize < data.length then data.drop dataMaxSize else []
    let sealed := enc nonce (mkFrame chunk (junk nonce))
    match incrNonce nonce with
    | none => ⟨nonce, acc, n, .panic⟩
    | some nonce' =>
      if ¬ connOk then ⟨nonce', acc, n, .connErr⟩ else
      writeLoop fuel nonce' rest connOk (n + chunk.length) (acc ++ [(nonce, sealed)])

/-- `SecretConnection.Write(data)` from send counter `nonce` -/
def write (nonce : Nat) (data : Bytes) (connOk : Bool) : WResult :=
  writeLoop enc junk data.length nonce data connOk 0 []

/-- a sequence of `Write` calls (each with its own conn condition); a panic leaves the counter
where it is, later calls run all the same -/
def writeAll : Nat → List (Bytes × Bool) → Nat × List (Nat × Bytes)
  | nonce, [] => (nonce, [])
  | nonce, (d, ok) :: rest =>
    let r := write enc junk nonce d ok
    let (nf, fs) := writeAll r.nonce rest
    (nf, r.frames ++ fs)

/-- how `Write` cuts its argument -/
def chunksF : Nat → Bytes → List Bytes
  | 0, _ => []
  | fuel + 1, data =>
    if ¬ (0 < data.length) then []
    else if dataMaxSize < data.length then data.take dataMaxSize :: chunksF fuel (data.drop dataMaxSize)
    else [data]

def chunks (data : Bytes) : List Bytes := chunksF data.length data

/-- the sealed frames an undisturbed sender produces for a list of chunks from counter `c` -/
def sealFrom : Nat → List Bytes → List (Nat × Bytes)
  | _, [] => []
  | c, ch :: cs => (c, enc c (mkFrame ch (junk c))) :: sealFrom (c + 1) cs

/-- bytes on the wire -/
def wireOf (fs : List (Nat × Bytes)) : Bytes := (fs.map (·.2)).flatten
end

inductive RErr | eof | ueof | decrypt | tooLong | panic
  deriving DecidableEq, Repr

structure RState where
  buf : Bytes      -- recvBuffer
  nonce : Nat      -- receive counter
  wire : Bytes     -- bytes the conn will still deliver
  deriving Repr

abbrev RResult := Except RErr Bytes

section
variable (dec : Nat → Bytes → Option Bytes)

/-- `SecretConnection.Read(data)` with `len(data) = k`; the result is the bytes copied -/
def read (s : RState) (k : Nat) : RState × RResult :=
  if 0 < s.buf.length then
    ({ s with buf := s.buf.drop k }, .ok (s.buf.take k))
  else if s.wire.length = 0 then (s, .error .eof)
  else if s.wire.length < sealedFrameSize then ({ s with wire := [] }, .error .ueof)
  else
    let sealed := s.wire.take sealedFrameSize
    let s1 : RState := { s with wire := s.wire.drop sealedFrameSize }
    match dec s.nonce sealed with
    | none => (s1, .error .decrypt)
    | some frame =>
      match incrNonce s.nonce with
      | none => (s1, .error .panic)
      | some n' =>
        let s2 : RState := { s1 with nonce := n' }
        let chunkLength := unle32 frame
        if chunkLength > dataMaxSize then (s2, .error .tooLong)
        else
          let chunk := (frame.drop dataLenSize).take chunkLength
          ({ s2 with buf := chunk.drop k }, .ok (chunk.take k))

/-- a schedule of `Read` calls with the given buffer sizes -/
def runReads : RState → List Nat → List RResult × RState
  | s, [] => ([], s)
  | s, k :: ks =>
    let (s', r) := read dec s k
    let (rs, sf) := runReads s' ks
    (r :: rs, sf)
end

/-- everything the reader was handed -/
def okBytes : List RResult → Bytes
  | [] => []
  | .ok b :: rs => b ++ okBytes rs
  | .error _ :: rs => okBytes rs

def isOk : RResult → Bool
  | .ok _ => true
  | .error _ => false

end Tmv.SecretFrames
