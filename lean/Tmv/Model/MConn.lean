import Tmv.Util
import Tmv.Gen.Facts
/-! Model of /repo p2p/conn/connection.go (multiplexed connection), core-only.

Sender side: `Channel.trySendBytes`, `isSendPending`, `nextPacketMsg`, `MConnection.sendPacketMsg`
(the choice of the channel with the least recentlySent/priority ratio is abstracted to an arbitrary
pick among the pending channels: every theorem quantifies over all picks).
Receiver side: one iteration of `recvRoutine` (frame length check of the delimited reader, packet
kinds, channel lookup, `Channel.recvPacketMsg` with the `RecvMessageCapacity` check, EOF delivery).

A Go `[]byte` that may be nil is an `Option Bytes` where the code distinguishes nil (`sending`).
Channel ids are bytes (`Nat`), the id on the wire is an int32 (`Int`). Channel ids of one
connection are assumed distinct (`Switch.AddReactor` panics on a duplicate id). -/
namespace Tmv.MConn

/-! ### configuration -/

def defaultMaxPacketMsgPayloadSize : Nat := Facts.mconn_defaultMaxPacketMsgPayloadSize.toNat
def defaultSendQueueCapacity : Nat := Facts.mconn_defaultSendQueueCapacity.toNat
def defaultRecvMessageCapacity : Nat := Facts.mconn_defaultRecvMessageCapacity.toNat

/-- `ChannelDescriptor` (the fields the modelled code reads) -/
structure Desc where
  id : Nat
  sendQueueCapacity : Nat
  recvMessageCapacity : Nat
deriving Repr, DecidableEq

/-- `ChannelDescriptor.FillDefaults` -/
def Desc.fillDefaults (d : Desc) : Desc :=
  { d with
    sendQueueCapacity := if d.sendQueueCapacity = 0 then defaultSendQueueCapacity else d.sendQueueCapacity
    recvMessageCapacity := if d.recvMessageCapacity = 0 then defaultRecvMessageCapacity else d.recvMessageCapacity }

/-- `tmp2p.PacketMsg` -/
structure PacketMsg where
  chId : Int
  eof : Bool
  data : Bytes
deriving Repr, DecidableEq

/-! ### size of the largest packet (`maxPacketMsgSize`) -/

def varintLenF : Nat → Nat → Nat
  | 0, _ => 1
  | fuel+1, n => if n < 128 then 1 else 1 + varintLenF fuel (n / 128)

/-- number of bytes of the protobuf varint encoding of `n` (`n < 2^64`) -/
def varintLen (n : Nat) : Nat := varintLenF 10 n

/-- encoded size of `Packet{PacketMsg{chId, eof, data}}` (proto3: zero values are omitted),
`0 ≤ chId` (a byte on the sending side) -/
def packetSize (chId : Nat) (eof : Bool) (dataLen : Nat) : Nat :=
  let inner := (if chId = 0 then 0 else 1 + varintLen chId) + (if eof then 2 else 0) +
    (if dataLen = 0 then 0 else 1 + varintLen dataLen + dataLen)
  1 + varintLen inner + inner

/-- `MConnection.maxPacketMsgSize` (repaired code): encoded size of
`Packet{PacketMsg{ChannelID: 0xff, EOF: true, Data: payload zero bytes}}` -/
def maxPacketMsgSize (payload : Nat) : Nat := packetSize 255 true payload

/-! ### sender -/

/-- the sending half of a `Channel` -/
structure SChan where
  id : Nat
  cap : Nat                    -- cap(sendQueue) after FillDefaults
  queue : List Bytes           -- sendQueue, oldest first
  sending : Option Bytes       -- `none` = nil = no message in progress
deriving Repr, DecidableEq

def SChan.new (d : Desc) : SChan :=
  { id := d.id, cap := d.fillDefaults.sendQueueCapacity, queue := [], sending := none }

/-- `trySendBytes`: non-blocking enqueue; `true` = accepted for sending -/
def trySendBytes (c : SChan) (m : Bytes) : SChan × Bool :=
  if c.queue.length < c.cap then ({ c with queue := c.queue ++ [m] }, true) else (c, false)

/-- `loadSendQueueSize` (incremented on enqueue, decremented with the EOF packet) -/
def sendQueueSize (c : SChan) : Nat := c.queue.length + (if c.sending.isSome then 1 else 0)

/-- `isSendPending` (repaired code: "nothing in progress" is `sending == nil`, a dequeued nil
message becomes the empty non-nil message) -/
def isSendPending (c : SChan) : SChan × Bool :=
  match c.sending with
  | some _ => (c, true)
  | none =>
    match c.queue with
    | [] => (c, false)
    | m :: q => ({ c with queue := q, sending := some m }, true)

/-- `nextPacketMsg` (called after `isSendPending` answered true; on a nil `sending` the Go code
would emit an empty EOF packet, which is what the model does too) -/
def nextPacketMsg (maxSize : Nat) (c : SChan) : SChan × PacketMsg :=
  let s := c.sending.getD []
  if s.length ≤ maxSize then
    ({ c with sending := none }, { chId := c.id, eof := true, data := s.take (min maxSize s.length) })
  else
    ({ c with sending := some (s.drop (min maxSize s.length)) },
     { chId := c.id, eof := false, data := s.take (min maxSize s.length) })

structure Sender where
  maxSize : Nat                -- config.MaxPacketMsgPayloadSize
  chans : List SChan
deriving Repr

def Sender.new (maxSize : Nat) (ds : List Desc) : Sender :=
  { maxSize := maxSize, chans := ds.map SChan.new }

/-- `TrySend` past the `IsRunning` guard: channel lookup, then `trySendBytes` -/
def trySend (s : Sender) (ch : Nat) (m : Bytes) : Sender × Bool :=
  match s.chans.find? (·.id = ch) with
  | none => (s, false)
  | some c =>
    let (c', ok) := trySendBytes c m
    ({ s with chans := s.chans.map fun x => if x.id = ch then c' else x }, ok)

/-- `sendPacketMsg`: `isSendPending` on EVERY channel (it dequeues), then a packet from one of the
pending channels. `pick` stands for the least-ratio choice; if it does not name a pending channel
the first pending one is taken. `none` = nothing to send (the Go function returns true). -/
def sendPacketMsg (s : Sender) (pick : Nat) : Sender × Option PacketMsg :=
  let cs := s.chans.map fun c => (isSendPending c).1
  let pend := cs.filter (·.sending.isSome)
  match pend with
  | [] => ({ s with chans := cs }, none)
  | c0 :: _ =>
    let id := if pend.any (·.id = pick) then pick else c0.id
    match cs.find? (·.id = id) with
    | none => ({ s with chans := cs }, none)     -- unreachable
    | some c =>
      let (c', p) := nextPacketMsg s.maxSize c
      ({ s with chans := cs.map fun x => if x.id = id then c' else x }, some p)

/-- is `pick` a channel that `sendPacketMsg` may choose in state `s`? (driver-side sanity) -/
def pickIsPending (s : Sender) (pick : Nat) : Bool :=
  (s.chans.map fun c => (isSendPending c).1).any fun c => c.sending.isSome && c.id = pick

/-- the packets a message is cut into: `(eof, data)`; fuel = length suffices when `maxSize > 0` -/
def packetizeF (maxSize : Nat) : Nat → Bytes → List (Bool × Bytes)
  | 0, b => [(true, b)]
  | fuel+1, b =>
    if b.length ≤ maxSize then [(true, b)]
    else (false, b.take maxSize) :: packetizeF maxSize fuel (b.drop maxSize)

def packetize (maxSize : Nat) (b : Bytes) : List (Bool × Bytes) := packetizeF maxSize b.length b

/-! ### receiver -/

/-- the receiving half of a `Channel` -/
structure RChan where
  id : Nat
  cap : Nat                    -- RecvMessageCapacity after FillDefaults
  recving : Bytes
deriving Repr, DecidableEq

def RChan.new (d : Desc) : RChan :=
  { id := d.id, cap := d.fillDefaults.recvMessageCapacity, recving := [] }

/-- `Channel.recvPacketMsg`: capacity check first, then append, then EOF delivery -/
def recvPacketMsg (c : RChan) (eof : Bool) (data : Bytes) : Option (RChan × Option Bytes) :=
  if c.cap < c.recving.length + data.length then none
  else
    let buf := c.recving ++ data
    if eof then some ({ c with recving := [] }, some buf)
    else some ({ c with recving := buf }, none)

inductive Err | badVarint | badLength | tooBig | undecodable | unknownType | unknownChannel | overCapacity
deriving Repr, DecidableEq

/-- what the protobuf decoder made of a frame's payload (the decoder itself is not modelled) -/
inductive Packet
  | ping | pong
  | msg (p : PacketMsg)
  | nosum                -- decodes, `Sum` is nil: "unknown message type"
  | bad                  -- proto.Unmarshal fails
deriving Repr, DecidableEq

/-- a length-delimited frame as `recvRoutine` sees it: declared length, decoded payload -/
structure Frame where
  len : Nat
  pkt : Packet
deriving Repr

structure Receiver where
  maxPacket : Nat              -- _maxPacketMsgSize
  chans : List RChan
  stopped : Option Err         -- recvRoutine left its loop (`stopForError`)
  pongs : Nat                  -- pings answered (requests to the send routine)
deriving Repr

def Receiver.new (maxSize : Nat) (ds : List Desc) : Receiver :=
  { maxPacket := maxPacketMsgSize maxSize, chans := ds.map RChan.new, stopped := none, pongs := 0 }

/-- outcome of one loop iteration -/
inductive Out
  | nothing
  | deliver (ch : Nat) (m : Bytes)     -- onReceive(ch, m)
  | error (e : Err)                    -- stopForError; loop left
  | closed                             -- loop already left: the frame is never read
deriving Repr, DecidableEq

def Receiver.fail (r : Receiver) (e : Err) : Receiver × Out := ({ r with stopped := some e }, .error e)

/-- one iteration of `recvRoutine` on a complete frame -/
def recvFrame (r : Receiver) (f : Frame) : Receiver × Out :=
  if r.stopped.isSome then (r, .closed)
  else if f.len > r.maxPacket then r.fail .tooBig
  else
    match f.pkt with
    | .bad => r.fail .undecodable
    | .nosum => r.fail .unknownType
    | .ping => ({ r with pongs := r.pongs + 1 }, .nothing)
    | .pong => (r, .nothing)
    | .msg p =>
      if p.chId < 0 ∨ p.chId > 255 then r.fail .unknownChannel
      else
        match r.chans.find? (·.id = p.chId.toNat) with
        | none => r.fail .unknownChannel
        | some c =>
          match recvPacketMsg c p.eof p.data with
          | none => r.fail .overCapacity
          | some (c', del) =>
            let r' := { r with chans := r.chans.map fun x => if x.id = c.id then c' else x }
            match del with
            | some m => (r', .deliver c.id m)
            | none => (r', .nothing)

/-- the receive loop over a list of frames: final state and the `onReceive` log -/
def recvAll (r : Receiver) : List Frame → Receiver × List (Nat × Bytes)
  | [] => (r, [])
  | f :: fs =>
    let (r1, o) := recvFrame r f
    let (r2, log) := recvAll r1 fs
    match o with
    | .deliver ch m => (r2, (ch, m) :: log)
    | _ => (r2, log)

/-! ### the length prefix (`binary.ReadUvarint` + the reader's range checks) -/

inductive Uvarint
  | ok (v : Nat) (rest : Bytes)
  | overflow
  | truncated
deriving Repr, DecidableEq

/-- `binary.ReadUvarint`: at most 10 bytes, the 10th at most 1 -/
def readUvarintF : Nat → Nat → Nat → Bytes → Uvarint
  | 0, _, _, _ => .overflow
  | _+1, _, _, [] => .truncated
  | fuel+1, i, acc, b :: rest =>
    if b.toNat < 128 then
      if i = 9 ∧ b.toNat > 1 then .overflow
      else .ok (acc + b.toNat * 2 ^ (7 * i)) rest
    else readUvarintF fuel (i + 1) (acc + (b.toNat - 128) * 2 ^ (7 * i)) rest

def readUvarint (b : Bytes) : Uvarint := readUvarintF 10 0 0 b

end Tmv.MConn

namespace Tmv.MConn

/-- one loop iteration on the raw bytes of a frame (`prefix ++ payload`); `pkt` is what the
protobuf decoder makes of the payload. `none`: the bytes are not a complete frame (the reader
would block for more input; not a case the driver accepts). -/
def recvRaw (r : Receiver) (bytes : Bytes) (pkt : Packet) : Option (Receiver × Out) :=
  if r.stopped.isSome then some (r, .closed)
  else
    match readUvarint bytes with
    | .truncated => none
    | .overflow => some (r.fail .badVarint)
    | .ok v rest =>
      if v ≥ 2 ^ 63 - 1 then some (r.fail .badLength)
      else if v > r.maxPacket then some (r.fail .tooBig)
      else if rest.length ≠ v then none
      else some (recvFrame r { len := v, pkt := pkt })

end Tmv.MConn

namespace Tmv.MConn

/-! ### the send routine's channel choice (`sendPacketMsg`, least `recentlySent / priority`) -/

/-- what the choice reads of a channel -/
structure PCh where
  id : Nat
  prio : Nat              -- `desc.Priority` (> 0, `newChannel` panics otherwise)
  recentlySent : Nat      -- bytes written recently (decayed by `updateStats`)
deriving Repr, DecidableEq

/-- `ratio_a < ratio_b` with `ratio = recentlySent / priority`, compared exactly (the code divides
in float32; for the magnitudes involved between two decays the comparison agrees) -/
def better (a b : PCh) : Bool := a.recentlySent * b.prio < b.recentlySent * a.prio

/-- the loop of `sendPacketMsg` over the PENDING channels in channel order: the first pending
channel starts as the least (`leastRatio = MaxFloat32`), a later one replaces it only with a
strictly smaller ratio -/
def pickLeast (pending : List PCh) : Option PCh :=
  pending.foldl (fun best ch =>
    match best with
    | none => some ch
    | some b => if better ch b then some ch else some b) none

/-- after the packet is written: `recentlySent += n` on the chosen channel -/
def creditSent (chans : List PCh) (id n : Nat) : List PCh :=
  chans.map fun c => if c.id = id then { c with recentlySent := c.recentlySent + n } else c

/-- one send step: `pending` tells which channels have something to send; the least-ratio pending
channel is charged `n` bytes -/
def schedStep (chans : List PCh) (pending : Nat → Bool) (n : Nat) : List PCh × Option Nat :=
  match pickLeast (chans.filter fun c => pending c.id) with
  | none => (chans, none)
  | some d => (creditSent chans d.id n, some d.id)

/-- `updateStats`: `recentlySent = int64(float64(recentlySent) * 0.8)` on every channel -/
def decay (chans : List PCh) : List PCh :=
  chans.map fun c => { c with recentlySent := c.recentlySent * 4 / 5 }

end Tmv.MConn
