import Tmv.Model.MempoolV0
/-! Model of mempool/v0 `CListMempool` over an ASYNCHRONOUS, FIFO ABCI client (socket / grpc
discipline, `abci/client/socket_client.go didRecvResponse`): `CheckTxAsync` only queues the
request; a response is handled later — first the global callback (`globalCb`, which runs
`resCbRecheck` whenever `recheckCursor != nil`, whatever the request was), then the request's own
callback (`reqResCb` → `resCbFirstTime`, which panics when `recheckCursor != nil`).
`Update` is called as state/execution.go `Commit` does: `Lock; FlushAppConn (all pending
responses are handled); Update; Unlock`, so `recheckTxs` only queues its requests and the recheck
responses are handled after `Update` has returned, interleaved with new `CheckTx` calls and reaps.

Here `resCbRecheck` is modelled with its mismatch-skipping loop. Pool entries are identified by
their transaction (unique, `Props.C12.v0_no_duplicates`); the recheck cursor / end are the
transactions of the entries they point to. `Flush` and `RemoveTxByKey` while a recheck is in flight
are outside this model (documented unsafe; see the `hazard` stream). -/
namespace Tmv.Mempool.V0
open Tmv Tmv.Mempool

inductive Req
  | first (tx : Bytes) (v : Verdict)     -- CheckTxType_New with the verdict the app will give
  | recheck (tx : Bytes)                 -- CheckTxType_Recheck
deriving Repr, DecidableEq

structure AState where
  s : State
  queue : List Req               -- sent, not yet answered (FIFO)
  cursor : Option Bytes          -- recheckCursor
  endTx : Option Bytes           -- recheckEnd
  rv : Bytes → Verdict           -- the application's recheck verdicts for the current height
  panicked : Bool                -- a panic of the code under the modelled discipline

def ainit (cfg : Cfg) (h : Int) : AState :=
  { s := init cfg h, queue := [], cursor := none, endTx := none, rv := fun _ => {}, panicked := false }

/-- `CheckTx` up to and including `CheckTxAsync` (the part that runs in the caller) -/
def checkTxFront (s : State) (tx : Bytes) : State × CheckRes :=
  if isFull s tx.length then (s, .full)
  else if (tx.length : Int) > s.cfg.maxTxBytes then (s, .tooLarge)
  else if preFails s.pre tx then (s, .pre)
  else
    let r := s.cache.push tx
    if !r.2 then ({ s with cache := r.1 }, .inCache)
    else ({ s with cache := r.1 }, .ok)

def asend (a : AState) (tx : Bytes) (v : Verdict) : AState × CheckRes :=
  let r := checkTxFront a.s tx
  match r.2 with
  | .ok => ({ a with s := r.1, queue := a.queue ++ [.first tx v] }, .ok)
  | res => ({ a with s := r.1 }, res)

/-- outcome of the mismatch-skipping search of `resCbRecheck` over the entries from the cursor on -/
inductive Seek
  | found (next : Option Bytes)   -- the matching entry; `next` = its successor
  | gaveUp                        -- reached recheckEnd without a match
  | nilDeref                      -- ran off the list (cursor.Next() == nil): nil dereference

def seek (tx : Bytes) (endTx : Option Bytes) : List MemTx → Seek
  | [] => .nilDeref
  | e :: rest =>
    if e.tx = tx then .found (rest.head?.map (·.tx))
    else if some e.tx = endTx then .gaveUp
    else seek tx endTx rest

/-- `resCbRecheck(req, res)` with `recheckCursor = some c` -/
def resCbRecheckA (a : AState) (c : Bytes) (tx : Bytes) (v : Verdict) : AState :=
  match seek tx a.endTx (a.s.txs.dropWhile (fun e => e.tx ≠ c)) with
  | .nilDeref => { a with panicked := true }
  | .gaveUp => { a with cursor := none }
  | .found next =>
    let s' := if accepted a.s.post v then a.s else removeTx a.s tx (!a.s.cfg.keepInvalid)
    let cur := if some tx = a.endTx then none else next
    { a with s := s', cursor := cur }

/-- one response handled: `globalCb` then the request's callback -/
def adeliver (a : AState) : AState :=
  match a.queue with
  | [] => a
  | r :: q =>
    let a := { a with queue := q }
    let tx := match r with | .first tx _ => tx | .recheck tx => tx
    let v := match r with | .first _ v => v | .recheck tx => a.rv tx
    let a := match a.cursor with
      | none => a
      | some c => resCbRecheckA a c tx v
    match r with
    | .recheck _ => a
    | .first tx v =>
      if a.cursor.isSome then { a with panicked := true }
      else { a with s := resCbFirstTime a.s tx v }

def adrain : Nat → AState → AState
  | 0, a => a
  | n+1, a => if a.queue = [] then a else adrain n (adeliver a)

/-- `FlushAppConn; Update(...)`: the recheck requests are queued, not answered -/
def aupdate (a : AState) (h : Int) (block : List (Bytes × Nat)) (pre post : Option Int)
    (rv : Bytes → Verdict) : AState :=
  let a := adrain a.queue.length a
  let s := { a.s with height := h, pre := newFilter pre a.s.pre, post := newFilter post a.s.post }
  let s := block.foldl commitOne s
  if s.txs.length > 0 ∧ s.cfg.recheck then
    { a with s := s, rv := rv, cursor := s.txs.head?.map (·.tx), endTx := s.txs.getLast?.map (·.tx),
             queue := a.queue ++ s.txs.map (fun e => .recheck e.tx) }
  else { a with s := s, rv := rv }

/-- what may happen between two block updates -/
inductive AOp
  | send (tx : Bytes) (v : Verdict)
  | deliver

def astep (a : AState) : AOp → AState
  | .send tx v => (asend a tx v).1
  | .deliver => adeliver a

def arun (a : AState) (ops : List AOp) : AState := ops.foldl astep a

/-- `RemoveTxByKey(key)` — public, takes no lock, leaves the recheck cursor alone. Faithful as long
as the removed entry is not the one under the cursor (a removed element under the cursor dangles,
which this representation cannot express; excluded by `Allowed`). -/
def aremoveByKey (a : AState) (tx : Bytes) : AState :=
  if tx ∈ a.s.txsMap then { a with s := removeTx a.s tx false } else a

/-- `Flush()` — leaves queue and recheck cursor alone (faithful only when no recheck answer is
pending: otherwise the cursor dangles; excluded by `Allowed`) -/
def aflush (a : AState) : AState := { a with s := flush a.s }

/-- every operation on the pool over the asynchronous client -/
inductive AOpG
  | send (tx : Bytes) (v : Verdict)
  | deliver
  | update (h : Int) (block : List (Bytes × Nat)) (pre post : Option Int) (rv : Bytes → Verdict)
  | removeByKey (tx : Bytes)
  | flush

def astepG (a : AState) : AOpG → AState
  | .send tx v => (asend a tx v).1
  | .deliver => adeliver a
  | .update h b pre post rv => aupdate a h b pre post rv
  | .removeByKey tx => aremoveByKey a tx
  | .flush => aflush a

def Req.isRecheckOf (tx : Bytes) : Req → Bool
  | .recheck t => decide (t = tx)
  | .first _ _ => false

/-- THE DISCIPLINE: `RemoveTxByKey(k)` only while no recheck answer for `k` is pending, `Flush` only
while no recheck answer at all is pending; everything else is free. -/
def Allowed (a : AState) : AOpG → Prop
  | .removeByKey tx => ∀ r ∈ a.queue, r.isRecheckOf tx = false
  | .flush => ∀ r ∈ a.queue, (match r with | .recheck _ => False | .first _ _ => True)
  | _ => True

/-- a history that respects the discipline at every step -/
def Disciplined : AState → List AOpG → Prop
  | _, [] => True
  | a, o :: r => Allowed a o ∧ Disciplined (astepG a o) r

def arunG (a : AState) (ops : List AOpG) : AState := ops.foldl astepG a

/-- the scenario of the `hazard kind=remove` stream: entries a,b,c admitted, `Update` queues their
rechecks (c will be rejected), `RemoveTxByKey(b)`, then all answers are handled -/
def hazardRemove : AState :=
  let cfg : Cfg := { size := 10, maxTxsBytes := 1000, maxTxBytes := 100, cacheSize := 10,
                     keepInvalid := false, recheck := true }
  let a := ainit cfg 1
  let a := (asend a [0xa1] {}).1
  let a := (asend a [0xb1] {}).1
  let a := (asend a [0xc1] {}).1
  let a := aupdate a 2 [] none none (fun t => if t = [0xc1] then { code := 1 } else {})
  let a := aremoveByKey a [0xb1]
  adrain a.queue.length a

end Tmv.Mempool.V0
