import Tmv.Model.Merkle
/-! Model of /repo types/tx.go: `Txs.Hash`, `Txs.Proof`, `TxProof.Validate`. -/
namespace Tmv.TxProof
open Tmv.Merkle
variable (H : Bytes → Bytes)

/-- `Txs.Hash`: the leaves are the hashes of the txs -/
def txsHash (txs : List Bytes) : Bytes := root H (txs.map H)

structure TxProof where
  rootHash : Bytes
  data : Bytes
  proof : Proof
deriving Repr, DecidableEq

/-- `Txs.Proof(i)` (panics for i out of range in Go; callers guard) -/
def proofFor (txs : List Bytes) (i : Nat) : TxProof :=
  { rootHash := root H (txs.map H), data := txs.getD i [], proof := proofOf H (txs.map H) i }

inductive ValErr | dataHash | index | total | inconsistent
deriving Repr, DecidableEq

/-- `TxProof.Validate(dataHash)` -/
def validate (dataHash : Bytes) (tp : TxProof) : Except ValErr Unit :=
  if dataHash ≠ tp.rootHash then .error .dataHash
  else if tp.proof.index < 0 then .error .index
  else if tp.proof.total ≤ 0 then .error .total
  else
    match verify H tp.rootHash (H tp.data) tp.proof with
    | .ok _ => .ok ()
    | .error _ => .error .inconsistent

end Tmv.TxProof
