import Tmv.Model.SnapshotPool
/-! Model of /repo statesync/syncer.go: `AddChunk`, `AddSnapshot`, `SyncAny`, `Sync`,
`offerSnapshot`, `applyChunks`, `verifyApp`.

Environment (all universally quantified in the theorems):
* the state provider is three functions of the height (`Env`);
* the ABCI application is a script: the verdict it gives to the k-th `OfferSnapshot`,
  `ApplySnapshotChunk`, `Info` call (`Script.offers/applies/infos`; an exhausted script answers
  ACCEPT / the matching Info);
* peers: messages (`Msg`) arrive (a) while the application handles a call (`pre` of the verdict),
  (b) at every other gap between two atomic steps of the syncer (`Script.gap`, indexed by a step
  counter), (c) while `Next` is blocked waiting for a chunk (`Script.late`, then `fallback`, else
  the wait ends in `errTimeout`).
The chunk fetcher goroutines only send requests and are part of the environment (whatever they
cause to arrive is an arrival). `discoveryTime = 0` (no sleeping/re-discovery loop). -/
namespace Tmv.StateSync

inductive ProvRes (α : Type)
  | ok (a : α)
  | noWitness        -- light.ErrNoWitnesses
  | err              -- any other error
deriving Repr

/-- what the state provider hands out; `tag` stands for all the other fields of `sm.State` -/
structure PState where
  tag : Nat
  appVersion : Nat
deriving DecidableEq, Repr

structure PCommit where
  tag : Nat
deriving DecidableEq, Repr

structure Env where
  appHash : Nat → ProvRes Bytes
  state : Nat → ProvRes PState
  commit : Nat → ProvRes PCommit

inductive Msg
  | chunk (c : Chunk)                       -- ChunkResponse; `c.sender` is the peer it came from
  | snap (peer : String) (s : Snapshot)     -- SnapshotsResponse
  | stop (peer : String)                    -- an invalid message: the switch stops the peer, the
                                            -- reactor's RemovePeer reaches `syncer.RemovePeer`
deriving DecidableEq, Repr

inductive OfferRes | accept | abort | reject | rejectFormat | rejectSender | unknown | error
  | deadline    -- the ABCI call fails with context.DeadlineExceeded
deriving DecidableEq, Repr

structure OfferV where
  result : OfferRes
  pre : List Msg
deriving Repr

inductive ApplyRes | accept | abort | retry | retrySnapshot | rejectSnapshot | unknown | error
  | deadline
deriving DecidableEq, Repr

structure ApplyV where
  result : ApplyRes
  refetch : List Nat
  rejectSenders : List String
  pre : List Msg
  /-- chunks whose `AddChunk` (another goroutine) overlaps with the processing of this verdict -/
  conc : List Chunk := []
deriving Repr

inductive InfoV
  | error
  | echo                                             -- the application reports exactly what is expected
  | info (appVersion : Nat) (hash : Bytes) (height : Int)   -- LastBlockHeight is an int64
  | deadline                                         -- the call fails with context.DeadlineExceeded
deriving DecidableEq, Repr

structure Script where
  offers : List OfferV
  applies : List ApplyV
  infos : List InfoV
  late : List Msg
  fallback : Option String
  gap : Nat → List Msg
  tick : Nat

inductive ArriveRes | added | ignored | noSync | rejectedSender | errNil | errHeight | errFormat | errIndex
deriving DecidableEq, Repr

inductive Ev
  | provAppHash (h : Nat)
  | provState (h : Nat)
  | provCommit (h : Nat)
  | offer (s : Snapshot) (appHash : Bytes) (r : OfferRes)
  | apply (index : Nat) (body : Bytes) (sender : String) (r : ApplyRes) (refetch : List Nat)
      (rejectSenders : List String)
  | info (v : InfoV)
  | arriveChunk (c : Chunk) (r : ArriveRes)
  | arriveSnap (peer : String) (s : Snapshot) (added : Bool)
  | raceChunk (c : Chunk)       -- an `AddChunk` racing with the rejection of its sender
  | peerStopped (peer : String)
deriving DecidableEq, Repr

/-- the syncer: pool, `SyncAny`'s chunk queue, whether `s.chunks` points to it, and the journal
(ghost) of everything that crossed the ABCI / provider / p2p boundary -/
structure Sy where
  pool : Pool
  queue : Option Queue
  active : Bool
  journal : List Ev

inductive SyncErr
  | abort | retrySnapshot | rejectSnapshot | rejectFormat | rejectSender | verifyFailed | timeout
  | noWitness | other
  | deadline     -- an ABCI error wrapping context.DeadlineExceeded: `SyncAny` rejects the snapshot
deriving DecidableEq, Repr

variable (recent : Nat)

/-- `syncer.AddChunk`: refused when no sync is in progress or when the sender has been rejected,
else `chunkQueue.Add` -/
def addChunk (sy : Sy) (c : Chunk) : Sy × ArriveRes :=
  match sy.active, sy.queue with
  | true, some q =>
    if sy.pool.blPeer.contains c.sender then (sy, .rejectedSender) else
    let (q', r) := q.add c
    let r' := match r with
      | .added => ArriveRes.added | .ignored => .ignored | .errNil => .errNil
      | .errHeight => .errHeight | .errFormat => .errFormat | .errIndex => .errIndex
    ({ sy with queue := some q' }, r')
  | _, _ => (sy, .noSync)

/-- one arriving message -/
def deliver (sy : Sy) (m : Msg) : Sy :=
  match m with
  | .chunk c =>
    let (sy', r) := addChunk sy c
    { sy' with journal := sy'.journal ++ [.arriveChunk c r] }
  | .snap peer s =>
    let (p', added) := sy.pool.add recent peer s
    { sy with pool := p', journal := sy.journal ++ [.arriveSnap peer s added] }
  | .stop peer => { sy with pool := sy.pool.removePeer peer, journal := sy.journal ++ [.peerStopped peer] }

def deliverAll (sy : Sy) (ms : List Msg) : Sy := ms.foldl (deliver recent) sy

/-- arrivals at a gap between two atomic steps -/
def gapStep (sy : Sy) (sc : Script) : Sy × Script :=
  (deliverAll recent sy (sc.gap sc.tick), { sc with tick := sc.tick + 1 })

def log (sy : Sy) (e : Ev) : Sy := { sy with journal := sy.journal ++ [e] }

/-- `uint64(resp.LastBlockHeight)` -/
def toU64 (h : Int) : Nat := (h % 18446744073709551616).toNat

/-- `verifyApp` on the answer of `Info` -/
def verifyApp (snap : Snapshot) (trusted : Bytes) (appVersion : Nat) (v : InfoV) : Except SyncErr Unit :=
  match v with
  | .error => .error .other
  | .echo => .ok ()
  | .info ver hash height =>
    if ver ≠ appVersion then .error .other
    else if hash ≠ trusted then .error .verifyFailed
    else if toU64 height ≠ snap.height then .error .verifyFailed
    else .ok ()
  | .deadline => .error .deadline

/-- the standard bytes the fallback peer serves for chunk `i` -/
def stdBody (i : Nat) : Bytes := [UInt8.ofNat (i % 256), 0xfb]

/-- `Next` blocked on chunk `i`: messages keep arriving one at a time until chunk `i` is there;
when nothing more is in flight the fallback peer (if any) serves it; else the wait times out. -/
def starve (snap : Snapshot) (i : Nat) : Nat → Sy → Script → Sy × Script × Bool
  | 0, sy, sc => (sy, sc, false)
  | fuel+1, sy, sc =>
    match sy.queue with
    | none => (sy, sc, false)
    | some q =>
      if q.has i then (sy, sc, true)
      else
        match sc.late with
        | m :: rest => starve snap i fuel (deliver recent sy m) { sc with late := rest }
        | [] =>
          match sc.fallback with
          | none => (sy, sc, false)
          | some p =>
            let c : Chunk :=
              { height := snap.height, format := snap.format, index := i, body := some (stdBody i), sender := p }
            let sy' := deliver recent sy (.chunk c)
            match sy'.queue with
            | some q' => (sy', sc, q'.has i)
            | none => (sy', sc, false)

/-- processing of `resp.RefetchChunks` -/
def doRefetch : List Nat → Sy → Script → Sy × Script
  | [], sy, sc => (sy, sc)
  | i :: rest, sy, sc =>
    let sy1 := { sy with queue := sy.queue.map (·.discard i) }
    let (sy2, sc2) := gapStep recent sy1 sc
    doRefetch rest sy2 sc2

/-- processing of `resp.RejectSenders` -/
def doRejectSenders : List String → Sy → Script → Sy × Script
  | [], sy, sc => (sy, sc)
  | p :: rest, sy, sc =>
    if p = "" then doRejectSenders rest sy sc
    else
      -- one atomic step (write lock of `s.mtx`, which `AddChunk` holds for reading)
      let sy1 := { sy with pool := sy.pool.rejectPeer p, queue := sy.queue.map (·.discardSender p) }
      let (sy2, sc2) := gapStep recent sy1 sc
      doRejectSenders rest sy2 sc2

/-- the application's verdict on the next `OfferSnapshot` (exhausted script: ACCEPT) -/
def popOffer (sc : Script) : OfferV × Script :=
  match sc.offers with
  | v :: rest => (v, { sc with offers := rest })
  | [] => ({ result := .accept, pre := [] }, sc)

/-- the application's verdict on the next `ApplySnapshotChunk` (exhausted script: ACCEPT) -/
def popApply (sc : Script) : ApplyV × Script :=
  match sc.applies with
  | v :: rest => (v, { sc with applies := rest })
  | [] => ({ result := .accept, refetch := [], rejectSenders := [], pre := [] }, sc)

/-- `.echo` stands for the answer that matches -/
def resolveInfo (raw : InfoV) (appVersion : Nat) (appHash : Bytes) (height : Nat) : InfoV :=
  match raw with
  | .echo => .info appVersion appHash (height : Int)
  | v => v

/-- the application's answer to the next `Info` (exhausted script: the matching answer) -/
def popInfo (sc : Script) : InfoV × Script :=
  match sc.infos with
  | v :: rest => (v, { sc with infos := rest })
  | [] => (.echo, sc)

/-- the racing chunks of a verdict that the model can answer for: sent by a (non-empty) sender
this very verdict rejects. `AddChunk` holds the read lock of `s.mtx` from the blacklist check to the
`Add`, the rejection holds the write lock from `RejectPeer` to `DiscardSender`, so either the chunk
is queued before the rejection and `DiscardSender` removes it again (it is unreturned), or it is
refused after: in both linearisations it is not in the queue afterwards
(`Props.C14.racing_chunk_linearisations_agree`). -/
def racing (v : ApplyV) : List Chunk :=
  v.conc.filter fun c => c.sender ≠ "" && v.rejectSenders.contains c.sender

def logAll (sy : Sy) (es : List Ev) : Sy := { sy with journal := sy.journal ++ es }

/-- the body of the `applyChunks` loop for one chunk handed out by `Next`: the ABCI call, the
arrivals during it, then `RefetchChunks` and `RejectSenders`; the verdict decides how the loop
goes on -/
def applyOne (c : Chunk) (sy : Sy) (sc : Script) : ApplyRes × Sy × Script :=
  let (v, sc) := popApply sc
  let sy := log sy (.apply c.index (c.body.getD []) c.sender v.result v.refetch v.rejectSenders)
  let sy := deliverAll recent sy v.pre
  if v.result = .error ∨ v.result = .deadline then (v.result, sy, sc)
  else
    let sy := logAll sy ((racing v).map .raceChunk)
    let (sy, sc) := doRefetch recent v.refetch sy sc
    let (sy, sc) := doRejectSenders recent v.rejectSenders sy sc
    (v.result, sy, sc)

/-- `applyChunks` -/
def applyChunks (snap : Snapshot) : Nat → Sy → Script → Except SyncErr Unit × Sy × Script
  | 0, sy, sc => (.error .other, sy, sc)
  | fuel+1, sy, sc =>
    let (sy, sc) := gapStep recent sy sc
    match sy.queue with
    | none => (.error .other, sy, sc)
    | some q =>
      match q.next with
      | .done => (.ok (), sy, sc)
      | .wait i =>
        let (sy1, sc1, ok) := starve recent snap i (sc.late.length + 2) sy sc
        if ok then applyChunks snap fuel sy1 sc1 else (.error .timeout, sy1, sc1)
      | .chunk c q' =>
        match applyOne recent c { sy with queue := some q' } sc with
        | (.accept, sy, sc) => applyChunks snap fuel sy sc
        | (.abort, sy, sc) => (.error .abort, sy, sc)
        | (.retry, sy, sc) => applyChunks snap fuel { sy with queue := sy.queue.map (·.retry c.index) } sc
        | (.retrySnapshot, sy, sc) => (.error .retrySnapshot, sy, sc)
        | (.rejectSnapshot, sy, sc) => (.error .rejectSnapshot, sy, sc)
        | (.unknown, sy, sc) => (.error .other, sy, sc)
        | (.error, sy, sc) => (.error .other, sy, sc)
        | (.deadline, sy, sc) => (.error .deadline, sy, sc)

def provErr {α : Type} : ProvRes α → SyncErr
  | .noWitness => .noWitness
  | _ => .rejectSnapshot

/-- `Sync` between setting and clearing `s.chunks` -/
def syncBody (env : Env) (snap : Snapshot) (fuel : Nat) (sy : Sy) (sc : Script) :
    Except SyncErr (PState × PCommit) × Sy × Script :=
  let sy := log sy (.provAppHash snap.height)
  match env.appHash snap.height with
  | .ok appHash =>
    let (sy, sc) := gapStep recent sy sc
    -- offerSnapshot
    let (ov, sc) := popOffer sc
    let sy := log sy (.offer snap appHash ov.result)
    let sy := deliverAll recent sy ov.pre
    match ov.result with
    | .abort => (.error .abort, sy, sc)
    | .reject => (.error .rejectSnapshot, sy, sc)
    | .rejectFormat => (.error .rejectFormat, sy, sc)
    | .rejectSender => (.error .rejectSender, sy, sc)
    | .unknown => (.error .other, sy, sc)
    | .error => (.error .other, sy, sc)
    | .deadline => (.error .deadline, sy, sc)
    | .accept =>
      let (sy, sc) := gapStep recent sy sc
      let sy := log sy (.provState snap.height)
      match env.state snap.height with
      | .ok st =>
        let (sy, sc) := gapStep recent sy sc
        let sy := log sy (.provCommit snap.height)
        match env.commit snap.height with
        | .ok cm =>
          match applyChunks recent snap fuel sy sc with
          | (.error e, sy, sc) => (.error e, sy, sc)
          | (.ok (), sy, sc) =>
            -- verifyApp
            let (raw, sc) := popInfo sc
            let iv := resolveInfo raw st.appVersion appHash snap.height
            let sy := log sy (.info iv)
            match verifyApp snap appHash st.appVersion iv with
            | .error e => (.error e, sy, sc)
            | .ok () => (.ok (st, cm), sy, sc)
        | r => (.error (provErr r), sy, sc)
      | r => (.error (provErr r), sy, sc)
  | r => (.error (provErr r), sy, sc)

/-- `Sync` -/
def sync (env : Env) (snap : Snapshot) (fuel : Nat) (sy : Sy) (sc : Script) :
    Except SyncErr (PState × PCommit) × Sy × Script :=
  if sy.active then (.error .other, sy, sc)
  else
    let (r, sy', sc') := syncBody recent env snap fuel { sy with active := true } sc
    (r, { sy' with active := false }, sc')

inductive AnyRes
  | ok (snap : Snapshot) (st : PState) (cm : PCommit)
  | noSnapshots
  | abort
  | failed (e : SyncErr)     -- "snapshot restoration failed" / chunk queue creation failed
  | outOfFuel
deriving DecidableEq, Repr

/-- `SyncAny` (discoveryTime = 0). `choose` is `snapshotPool.Best`: the code's choice among tied
candidates depends on map order, so it is a parameter. `retrying = true` keeps snapshot and queue. -/
def syncAny (choose : Pool → Option Snapshot) (env : Env) (fuel : Nat) :
    Nat → Option Snapshot → Sy → Script → AnyRes × Sy × Script
  | 0, _, sy, sc => (.outOfFuel, sy, sc)
  | n+1, cur, sy, sc =>
    let (sy, sc) := gapStep recent sy sc
    let pick : Option (Snapshot × Sy) :=
      match cur with
      | some s => some (s, sy)
      | none => (choose sy.pool).map fun s => (s, { sy with queue := none })
    match pick with
    | none => (.noSnapshots, sy, sc)
    | some (snap, sy) =>
      let mk : Option Sy :=
        match sy.queue with
        | some _ => some sy
        | none => (Queue.new snap).map fun q => { sy with queue := some q }
      match mk with
      | none => (.failed .other, sy, sc)
      | some sy =>
        match sync recent env snap fuel sy sc with
        | (.ok (st, cm), sy, sc) => (.ok snap st cm, { sy with queue := sy.queue.map (·.close) }, sc)
        | (.error e, sy, sc) =>
          let closeQ (sy : Sy) : Sy := { sy with queue := none }
          match e with
          | .abort => (.abort, { sy with queue := sy.queue.map (·.close) }, sc)
          | .retrySnapshot =>
            syncAny choose env fuel n (some snap) { sy with queue := sy.queue.map (·.retryAll) } sc
          | .timeout => syncAny choose env fuel n none (closeQ { sy with pool := sy.pool.reject snap }) sc
          | .rejectSnapshot => syncAny choose env fuel n none (closeQ { sy with pool := sy.pool.reject snap }) sc
          | .rejectFormat =>
            syncAny choose env fuel n none (closeQ { sy with pool := sy.pool.rejectFormat snap.format }) sc
          | .rejectSender =>
            syncAny choose env fuel n none
              (closeQ { sy with pool := (sy.pool.getPeers snap).foldl Pool.rejectPeer sy.pool }) sc
          | .deadline => syncAny choose env fuel n none (closeQ { sy with pool := sy.pool.reject snap }) sc
          | e => (.failed e, { sy with queue := sy.queue.map (·.close) }, sc)

end Tmv.StateSync
