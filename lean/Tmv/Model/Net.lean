import Tmv.Model.Cons
import Tmv.Model.VoteLog
/-! Network of consensus nodes at one height (C01): every correct validator runs the node model
`Tmv.Cons.step` (the model of `consensus/state.go` that the C02 stream ties to the real
`consensus.State`); the network is nothing but **the log of every signed message ever sent** — a
message, once in the log, can be delivered to any correct node, any number of times, in any order, or
never (duplication, reordering, delay, loss and partitions are all just delivery choices). A faulty
validator appends any message carrying its own sender id; anybody appends messages whose signature
does not verify (`ok = false`); a message whose sender is a correct validator and whose signature
verifies enters the log only as an output of that validator's `step`. Timeouts fire only if the node
scheduled them (`Output.schedule` in its outputs; the round-0 `NewHeight` timeout is scheduled by
`OnStart`), any time later, any number of times. A node hears its OWN proposal, block part and votes
through its internal queue: any queued own message, at any later time, in any order (`Item.own`). Block bodies
and `VoteSetMaj23` claims are unsigned: any block id / any claim may be handed to any node at any
time. Core Lean only. -/
namespace Tmv.Net
open Tmv.Cons

structure NetCfg where
  n : Nat
  power : Nat → Nat
  faulty : Nat → Bool
  proposer : Nat → Nat         -- number of priority increments ↦ proposer index (same table at every node)
  valid : Nat → Bool           -- ValidateBlock verdict per block id (same state at every node)
  ownBlock : Nat → Nat         -- the block validator `p` creates when it proposes with no valid block
  waitForTxs : Bool
  needProofBlock : Bool
  emptyInterval : Bool
  checkHRS : Bool

/-- the configuration of the node run by validator `p` -/
def NetCfg.node (nc : NetCfg) (p : Nat) : Cfg :=
  { n := nc.n, power := nc.power, self := some p, proposer := nc.proposer, valid := nc.valid,
    ownBlock := nc.ownBlock p, waitForTxs := nc.waitForTxs, needProofBlock := nc.needProofBlock,
    emptyInterval := nc.emptyInterval, checkHRS := nc.checkHRS }

def NetCfg.powers (nc : NetCfg) : VoteLog.Powers := ⟨nc.n, nc.power⟩

inductive Body
  | proposal (round bid : Nat) (pol : Int)
  | vote (t : VType) (round : Nat) (bid : Bid)
  deriving DecidableEq, Repr, Inhabited

/-- a signed message: `sender` is the validator index (slot) it claims, `ok` whether it verifies for
that validator: it carries that validator's address and an intact signature by that validator's key.
(A vote whose address / index / signer do not belong together is a message with `ok = false` for
the slot it claims: `VoteSet.addVote` rejects it — `Tmv.Cons.VoteSet.addVote` checks address and
signer against the index separately; the sign bytes contain neither index nor address.) -/
structure Msg where
  sender : Nat
  body : Body
  ok : Bool
  deriving DecidableEq, Repr, Inhabited

/-- what a correct validator's output puts on the wire -/
def outMsg (p : Nat) : Output → Option Msg
  | .signProposal r b pol => some ⟨p, .proposal r b pol, true⟩
  | .signVote t r bid => some ⟨p, .vote t r bid, true⟩
  | _ => none

/-- a logged message as the input a receiving node sees (via `peer`); a proposal whose signature does
not verify is signed by nobody's key (`signer = n` is no validator) -/
def toInput (nc : NetCfg) (m : Msg) (peer : Peer) : Input :=
  match m.body with
  | .proposal r b pol => .proposal { round := r, bid := b, pol := pol, signer := if m.ok then m.sender else nc.n }
  | .vote t r bid => .vote ⟨t, r, bid, m.sender, m.ok, m.sender, m.sender⟩ peer

structure Net where
  nodes : Nat → NodeState
  log : List Msg

def Net.init : Net := ⟨fun _ => NodeState.init, []⟩

def upd (f : Nat → NodeState) (p : Nat) (s : NodeState) : Nat → NodeState :=
  fun q => if q = p then s else f q

/-- one item of work of a node's receive routine: an external input, or ONE of the node's own
messages waiting in its internal queue — any one of them, at any later time. (`receiveRoutine`
selects among the peer queue, the internal queue and the ticker; `sendInternalMessage` falls back to a
goroutine when the 1000-slot internal queue is full, so own messages can overtake each other: the
model therefore lets a node hear its own proposal / block part / votes in any order and arbitrarily
late. The FIFO-right-after-the-input schedule of `Tmv.Cons.step` is the special case `ext` followed
by `own 0` until the queue is empty.) -/
inductive Item
  | ext (i : Input)
  | own (k : Nat)

/-- take the `k`-th own message off the internal queue and handle it -/
def handleOwn (c : Cfg) (s : NodeState) (k : Nat) : NodeState :=
  match s.queue[k]? with
  | some m => handleInternal c { s with queue := s.queue.eraseIdx k } m
  | none => s

/-- a halted node or one that has committed does nothing more at this height -/
def stepItem (c : Cfg) (s : NodeState) (it : Item) : NodeState :=
  if s.halted ∨ s.decided.isSome then s else
  match it with
  | .ext i => handleInput c s i
  | .own k => handleOwn c s k

/-- node `p` handles one item; whatever it signs while handling it is appended to the log, in order -/
def Net.feed (nc : NetCfg) (s : Net) (p : Nat) (it : Item) : Net :=
  let old := s.nodes p
  let new := stepItem (nc.node p) old it
  { nodes := upd s.nodes p new, log := s.log ++ (new.out.drop old.out.length).filterMap (outMsg p) }

def Net.append (s : Net) (m : Msg) : Net := { s with log := s.log ++ [m] }

/-- `p` is one of the validators and is not faulty -/
def NetCfg.correct (nc : NetCfg) (p : Nat) : Prop := p < nc.n ∧ nc.faulty p = false

instance (nc : NetCfg) (p : Nat) : Decidable (nc.correct p) := by unfold NetCfg.correct; infer_instance

inductive NetStep (nc : NetCfg) : Net → Net → Prop
  /-- any logged message reaches any correct node through any peer -/
  | deliver (s : Net) (p k : Nat) (peer : Peer) (hp : nc.correct p) (hk : k < s.log.length) :
      NetStep nc s (s.feed nc p (.ext (toInput nc s.log[k] peer)))
  /-- any block body reaches any correct node -/
  | block (s : Net) (p b : Nat) (hp : nc.correct p) : NetStep nc s (s.feed nc p (.ext (.blockComplete b)))
  /-- any peer claims any majority to any correct node -/
  | claim (s : Net) (p r : Nat) (t : VType) (peer : Peer) (bid : Bid) (hp : nc.correct p) :
      NetStep nc s (s.feed nc p (.ext (.peerMaj23 r t peer bid)))
  /-- a timeout the node scheduled fires (`OnStart` schedules the round-0 `NewHeight` timeout) -/
  | fire (s : Net) (p r : Nat) (st : Step) (hp : nc.correct p)
      (hs : (r = 0 ∧ st = .newHeight) ∨ Output.schedule r st ∈ (s.nodes p).out) :
      NetStep nc s (s.feed nc p (.ext (.timeout r st)))
  /-- the mempool reports transactions -/
  | txs (s : Net) (p : Nat) (hp : nc.correct p) : NetStep nc s (s.feed nc p (.ext .txsAvailable))
  /-- the node hears one of its own queued messages (any one) -/
  | own (s : Net) (p k : Nat) (hp : nc.correct p) : NetStep nc s (s.feed nc p (.own k))
  /-- a faulty validator signs anything; anybody sends messages whose signature does not verify -/
  | byz (s : Net) (m : Msg) (hm : nc.faulty m.sender = true ∨ m.ok = false) : NetStep nc s (s.append m)

inductive Reachable (nc : NetCfg) : Net → Prop
  | init : Reachable nc Net.init
  | step {s s' : Net} : Reachable nc s → NetStep nc s s' → Reachable nc s'

/-- the block node `p` has committed at this height -/
def Net.decided (s : Net) (p : Nat) : Option Nat := (s.nodes p).decided.map (·.1)

/-! ### the commit a node produces (`VoteSet.MakeCommit` of the precommits of the commit round) -/

/-- `BlockIDFlag` of validator `i` in `MakeCommit`: 2 = commit (its stored vote is for the majority
block), 3 = nil, 1 = absent (no stored vote, or a stored vote for another block) -/
def commitFlag (vs : VoteSet) (i : Nat) : Nat :=
  match alookup vs.votes i with
  | none => 1
  | some none => 3
  | some (some b) => if vs.maj23 = some (some b) then 2 else 1

/-- the seen commit of a node that has decided: one flag per validator -/
def seenCommit (c : Cfg) (s : NodeState) : Option (List Nat) :=
  (s.votes.precommits s.commitRound).map fun vs => (List.range c.n).map (commitFlag vs)

/-- the power `VerifyCommit` tallies: the validators whose flag is "commit" -/
def commitPower (c : Cfg) (flags : List Nat) : Nat :=
  ((List.range c.n).map fun i => if flags.getD i 1 = 2 then c.power i else 0).sum

/-- `ValidatorSet.VerifyCommit` as far as the tally is concerned: more than two thirds for the block -/
def commitVerifies (c : Cfg) (flags : List Nat) : Bool := 3 * commitPower c flags > 2 * c.total

/-- the verified votes of the log, as the abstract vote log of `Tmv.VoteLog` -/
def voteOf (m : Msg) : Option VoteLog.VoteMsg :=
  match m.body, m.ok with
  | .vote t r bid, true => some ⟨m.sender, t == VType.precommit, r, bid⟩
  | _, _ => none

def voteLog (log : List Msg) : VoteLog.Log := log.filterMap voteOf

/-! ### executable transitions for the driver: an op is applied only if it is a `NetStep`
(or, with `drain`, a `NetStep` followed by the node hearing its own messages in FIFO order until its
queue is empty — the schedule of `Tmv.Cons.step`) -/

inductive Op
  | deliver (p k : Nat) (peer : Peer)
  | block (p b : Nat)
  | claim (p r : Nat) (t : VType) (peer : Peer) (bid : Bid)
  | fire (p r : Nat) (st : Step)
  | txs (p : Nat)
  | own (p k : Nat)
  | byz (m : Msg)
  /-- the node process stops and comes back (through the fast-sync hand-over with nothing to sync).
  NOT a transition of the model: every item a node handles is in its write-ahead log before it is
  handled and `SwitchToConsensus(state, skipWAL = blocksSynced > 0 || stateSynced)` makes the
  consensus state replay that log, so the node is back in the state it was in — the model's node
  state simply persists. The restart stream of the c01 harness checks exactly this on real nodes. -/
  | restart (p : Nat)

/-- node `p` hears its own queued messages in FIFO order until none is left (at most `fuel`) -/
def Net.drainOwn (nc : NetCfg) (p : Nat) : Nat → Net → Net
  | 0, s => s
  | fuel + 1, s =>
    if (s.nodes p).halted ∨ (s.nodes p).decided.isSome ∨ (s.nodes p).queue.isEmpty then s
    else Net.drainOwn nc p fuel (s.feed nc p (.own 0))

def Net.feedD (nc : NetCfg) (s : Net) (p : Nat) (i : Input) (drain : Bool) : Net :=
  let s' := s.feed nc p (.ext i)
  if drain then s'.drainOwn nc p drainFuel else s'

/-- `none` = the op is not a transition of the network in this state -/
def Net.apply (nc : NetCfg) (s : Net) (drain : Bool) : Op → Option Net
  | .deliver p k peer =>
    if nc.correct p then
      match s.log[k]? with
      | some m => some (s.feedD nc p (toInput nc m peer) drain)
      | none => none
    else none
  | .block p b => if nc.correct p then some (s.feedD nc p (.blockComplete b) drain) else none
  -- (the reactor applies a `VoteSetMaj23` claim directly, outside the receive routine: never drains)
  | .claim p r t peer bid => if nc.correct p then some (s.feedD nc p (.peerMaj23 r t peer bid) false) else none
  | .fire p r st =>
    if nc.correct p ∧ ((r = 0 ∧ st = .newHeight) ∨ Output.schedule r st ∈ (s.nodes p).out) then
      some (s.feedD nc p (.timeout r st) drain) else none
  | .txs p => if nc.correct p then some (s.feedD nc p .txsAvailable drain) else none
  | .own p k => if nc.correct p then some (s.feed nc p (.own k)) else none
  | .byz m => if nc.faulty m.sender = true ∨ m.ok = false then some (s.append m) else none
  | .restart p => if nc.correct p then some s else none

end Tmv.Net
