/-! # Commit pipeline and ABCI handshake (C05), core-only executable model

What survives a crash (`Disk`): block store height, the WAL's last `#ENDHEIGHT`, the saved
`sm.State` (height + app hash), the `lastABCIResponseKey` record of `state/store.go`, and the
application (its own committed height, its hash, a call journal that is fsynced per call).
What does not: the application's open (uncommitted) block execution and the node being up.

`finalizeCommit` (consensus/state.go) and `ApplyBlock` (state/execution.go) are the code's ordered
effect lists; a crash keeps any prefix (every `fail.Fail()` sits between two effects).
`Handshaker.ReplayBlocks` (consensus/replay.go) is the case analysis on (app, store, state)
heights including its error and panic branches; what it does is again an effect list, so a crash
during recovery is a prefix of it.

The application hash is *ideal*: the list of (header height, delivered txs) of the blocks it has
committed, so "same hash" means "same committed history" and nothing is assumed about a digest. -/
namespace Tmv.Pipeline

abbrev Tx := Nat
/-- ideal application hash: committed history -/
abbrev Hist := List (Nat × List Tx)

/-- calls seen on the consensus connection (plus the process-restart marker the recording
application writes when it is re-opened) -/
inductive Call
  | initChain
  | begin (h : Nat)
  | deliver (tx : Tx)
  | endBlock (h : Nat)
  | commit
  | restart
  /-- the application's data was replaced by an older snapshot of itself, taken at height `h`
  (written by the operator/application, not by Tendermint) -/
  | restored (h : Nat)
  deriving DecidableEq, Repr, Inhabited

/-- open block execution of the application: header height, txs delivered so far, EndBlock seen -/
structure Pending where
  h : Nat
  txs : List Tx
  ended : Bool
  deriving DecidableEq, Repr

structure App where
  height : Nat := 0
  hash : Hist := []
  journal : List Call := []
  pending : Option Pending := none
  deriving Repr

structure Disk where
  storeH : Nat := 0
  /-- block store base: the lowest height still stored (0 = empty store) -/
  storeBase : Nat := 0
  /-- state store: validator sets are loadable for heights ≥ `statesBase`, and below it only for
  `keptVal` (`PruneStates` keeps the entry the pruned-to height's set points to) -/
  statesBase : Nat := 0
  keptVal : Nat := 0
  walEnd : Nat := 0
  stateH : Nat := 0
  stateHash : Hist := []
  lastResp : Option Nat := none
  /-- privval: height of the last vote this validator signed; the vote's WAL record is written
  (fsynced) with it — the fail point of the receive routine sits after that write -/
  pvH : Nat := 0
  /-- how many of its two round-0 votes (prevote, precommit) of height `pvH` are signed and logged -/
  pvVotes : Nat := 0
  /-- privval: the last step signed at height `pvH` (1 = prevote, 2 = precommit); it can be ahead
  of the WAL when the process dies between signing and logging -/
  pvStep : Nat := 0
  /-- the genesis state has been completed and saved by the first handshake (InitChain response
  applied, `LastResultsHash` set to the empty-tree hash); block 1 validates only against that -/
  genesisSaved : Bool := false
  app : App := {}
  deriving Repr

/-- the chain being decided: the genesis document's `InitialHeight` (≥ 1; the first block has
this height) and the txs of the block at each height (validator updates, parameter changes are part
of the opaque block content) -/
structure Chain where
  /-- `InitialHeight - 1` (so that the initial height is ≥ 1 by construction, as
  `GenesisDoc.ValidateAndComplete` guarantees) -/
  ihPred : Nat := 0
  txs : Nat → List Tx
  /-- the `RetainHeight` the application answers to the Commit of the block at each height
  (0 = keep everything); chosen freely by the application -/
  retain : Nat → Nat := fun _ => 0
  /-- `LastHeightValidatorsChanged` of the validator set in force at each height (part of the opaque
  chain content; the genesis InitialHeight for a chain without validator updates) -/
  valLHC : Nat → Nat := fun _ => ihPred + 1

/-- the genesis `InitialHeight` -/
def Chain.ih (c : Chain) : Nat := c.ihPred + 1

instance : CoeFun Chain (fun _ => Nat → List Tx) := ⟨Chain.txs⟩

/-- the height after `n`: `LastBlockHeight + 1`, except that the first block has `InitialHeight`
(consensus/state.go updateToState, state/validation.go) -/
def nxt (c : Chain) (n : Nat) : Nat := if n = 0 then c.ih else n + 1

/-- history after committing the blocks `InitialHeight..n` of the chain (empty for `n < ih`) -/
def hist (c : Chain) (n : Nat) : Hist := (List.range (n + 1 - c.ih)).map fun i => (c.ih + i, c (c.ih + i))

/-! ## the recording application (accepts every call, records it) -/

def App.call (a : App) (k : Call) : App :=
  let a := { a with journal := a.journal ++ [k] }
  match k with
  | .initChain => { a with pending := none }
  | .begin h => { a with pending := some { h := h, txs := [], ended := false } }
  | .deliver tx =>
    { a with pending := a.pending.map fun p => { p with txs := p.txs ++ [tx] } }
  | .endBlock _ => { a with pending := a.pending.map fun p => { p with ended := true } }
  | .commit =>
    -- the application reports the header height of the block it committed
    match a.pending with
    | some p => { a with height := p.h, hash := a.hash ++ [(p.h, p.txs)], pending := none }
    | none => { a with height := a.height + 1, hash := a.hash ++ [(0, [a.height + 1])], pending := none }
  | .restart => { a with pending := none }
  | .restored _ => { a with pending := none }

/-- height reported by an application whose committed history is `hs` -/
def reportedHeight (hs : Hist) : Nat :=
  match hs.getLast? with
  | some e => if e.1 = 0 then e.2.headD 0 else e.1
  | none => 0

/-- the application comes back (in a new process) with a snapshot of itself `j` commits older -/
def App.restore (a : App) (j : Nat) : App :=
  let hs := a.hash.take (a.hash.length - j)
  { (a.call (.restored (reportedHeight hs))) with height := reportedHeight hs, hash := hs }

/-! ## effects -/

inductive Eff
  | initChain                 -- InitChainSync on the consensus connection
  | saveGenesis               -- stateStore.Save(state) at height 0 after InitChain
  | signVote (h : Nat) (v : Nat)  -- own vote (v = 1 prevote, 2 precommit) of height h signed (privval state) and logged (WAL WriteSync)
  | pvSign (h : Nat) (v : Nat)    -- privval signs vote v of height h while the WAL is being replayed (logged later, or never)
  | saveBlock (h : Nat)       -- blockStore.SaveBlock
  | walEnd (h : Nat)          -- wal.WriteSync(EndHeightMessage{h})
  | begin (h : Nat)
  | deliver (h : Nat) (tx : Tx)
  | endBlock (h : Nat)
  | saveResp (h : Nat)        -- stateStore.SaveABCIResponses(h, …)
  | appCommit                 -- CommitSync (under the mempool lock)
  | saveState (h : Nat)       -- state.AppHash = appHash; stateStore.Save(state)
  | pruneBlocks (r : Nat)     -- finalizeCommit → pruneBlocks: blockStore.PruneBlocks(retainHeight)
  | pruneStates (r kept : Nat) -- … then stateStore.PruneStates(base, retainHeight); `kept` = the validator entry it keeps below r
  deriving DecidableEq, Repr

def applyEff (d : Disk) : Eff → Disk
  | .initChain => { d with app := d.app.call .initChain }
  | .saveGenesis => { d with genesisSaved := true }
  | .signVote h v =>
    if d.pvH = h then { d with pvVotes := max d.pvVotes v, pvStep := max d.pvStep v }
    else { d with pvH := h, pvVotes := v, pvStep := v }
  | .pvSign h v =>
    if d.pvH = h then { d with pvStep := max d.pvStep v } else { d with pvH := h, pvVotes := 0, pvStep := v }
  | .saveBlock h => { d with storeH := h, storeBase := if d.storeBase = 0 then h else d.storeBase }
  | .walEnd h => { d with walEnd := h }
  | .begin h => { d with app := d.app.call (.begin h) }
  | .deliver _ tx => { d with app := d.app.call (.deliver tx) }
  | .endBlock h => { d with app := d.app.call (.endBlock h) }
  | .saveResp h => { d with lastResp := some h }
  | .appCommit => { d with app := d.app.call .commit }
  | .saveState h => { d with stateH := h, stateHash := d.app.hash }
  -- PruneBlocks refuses heights beyond the store ("cannot prune beyond the latest height") and below the base
  | .pruneBlocks r => if d.storeBase < r ∧ r ≤ d.storeH then { d with storeBase := r } else d
  | .pruneStates r kept => { d with statesBase := r, keptVal := kept }

def applyEffs (d : Disk) (es : List Eff) : Disk := es.foldl applyEff d

/-- process death: volatile application state is gone, the re-opened application notes it -/
def crash (d : Disk) : Disk := { d with app := d.app.call .restart }

/-- `execBlockOnProxyApp` -/
def execEffs (c : Chain) (h : Nat) : List Eff :=
  [.begin h] ++ (c h).map (.deliver h) ++ [.endBlock h]

/-- `validateBlock` as far as the pipeline is concerned: the block extends the state and carries
the state's app hash, and block 1 carries the `LastResultsHash` of the *completed* genesis state
(everything else in the header is fixed by the chain) -/
def validBlock (c : Chain) (d : Disk) (h : Nat) : Bool :=
  h == nxt c d.stateH && hist c (h - 1) == d.stateHash && (decide (0 < d.stateH) || d.genesisSaved)

/-- `getBeginBlockValidatorInfo` (first thing `execBlockOnProxyApp` does, real or mock application):
for a block above the initial height the validator set of `h - 1` is loaded from the state store —
a panic if `PruneStates` has removed it -/
def valsOK (c : Chain) (d : Disk) (h : Nat) : Bool :=
  decide (h ≤ c.ih) || decide (d.statesBase ≤ h - 1) || decide (h - 1 = d.keptVal)

/-- `BlockExecutor.ApplyBlock` on the real application, after validation -/
def applyBlockReal (c : Chain) (h : Nat) : List Eff :=
  execEffs c h ++ [.saveResp h, .appCommit, .saveState h]

/-- `ApplyBlock` on `mockProxyApp`: the application is not touched, the saved responses are
written again, the state is saved with the application hash read at the start -/
def applyBlockMock (h : Nat) : List Eff := [.saveResp h, .saveState h]

/-- `sm.ExecCommitBlock` -/
def execCommit (c : Chain) (h : Nat) : List Eff := execEffs c h ++ [.appCommit]

/-- `cs.pruneBlocks(retainHeight)` after `ApplyBlock` returned the application's RetainHeight:
nothing if it is 0 or not above the block store's base; else `PruneBlocks` and — unless that
fails because the height is beyond the store — `PruneStates`. The base is read after `SaveBlock`. -/
def pruneList (c : Chain) (r h : Nat) : List Eff :=
  if r ≤ h then [.pruneBlocks r, .pruneStates r (c.valLHC r)] else [.pruneBlocks r]

/-- `retainHeight > 0` and above the block store's base (read after `SaveBlock`) -/
def pruneCond (c : Chain) (d : Disk) (h : Nat) : Bool :=
  decide (0 < c.retain h) &&
    decide ((if d.storeBase = 0 ∧ d.storeH < h then h else d.storeBase) < c.retain h)

def pruneEffs (c : Chain) (d : Disk) (h : Nat) : List Eff :=
  if pruneCond c d h then pruneList c (c.retain h) h else []

/-- deciding height `h` on a running node: the validator signs (and logs) its prevote and its
precommit (a node that replayed some of them from the WAL after a restart signs only the rest; the
pipeline position is the same), then
`finalizeCommit(h)`: SaveBlock (unless stored), #ENDHEIGHT, ApplyBlock.
`none` = the `ValidateBlock` panic before anything is written. -/
def finalizeEffs (c : Chain) (d : Disk) (h : Nat) : Option (List Eff) :=
  if validBlock c d h then
    some ([.signVote h 1, .signVote h 2] ++ (if d.storeH < h then [.saveBlock h] else []) ++ [.walEnd h] ++
      applyBlockReal c h ++ pruneEffs c d h)
  else none

/-! ## handshake -/

inductive Outcome
  | ok
  | errAppTooHigh      -- ErrAppBlockHeightTooHigh
  | errAppTooLow       -- ErrAppBlockHeightTooLow (application below the block store's base)
  | panicStateAhead    -- "StateBlockHeight > StoreBlockHeight"
  | panicStoreAhead    -- "StoreBlockHeight > StateBlockHeight + 1" (as repaired: > the height after the state, InitialHeight for an empty state)
  | errNoResp          -- LoadLastABCIResponse fails
  | errInvalidBlock    -- ApplyBlock: validateBlock fails
  | panicHashBlock     -- assertAppHashEqualsOneFromBlock
  | panicHashState     -- assertAppHashEqualsOneFromState
  | panicUncovered
  | panicValsPruned    -- getBeginBlockValidatorInfo: "could not find validator set for height"
  deriving DecidableEq, Repr

inductive Branch
  | storeEmpty | appTooHigh | appTooLow | stateAhead | storeAhead
  | replayNoMutate | synced | replayMutate | lastReal | lastMock | uncovered
  deriving DecidableEq, Repr

structure HsResult where
  effs : List Eff
  branch : Branch
  outcome : Outcome
  nBlocks : Nat
  deriving Repr

/-- the `for i := firstBlock; i <= finalBlock; i++` loop of `replayBlocks`: `hs` are the heights
still to do, `acc` the effects so far, `appHash` the local variable (nil = []) -/
def replayLoop (c : Chain) (d0 : Disk) : List Nat → List Eff → Hist → Nat →
    Except (List Eff × Nat × Bool) (List Eff × Hist × Nat)
  | [], acc, appHash, n => .ok (acc, appHash, n)
  | i :: rest, acc, appHash, n =>
    if appHash ≠ [] ∧ appHash ≠ hist c (i - 1) then .error (acc, n, false)
    else if !valsOK c d0 i then .error (acc, n, true)
    else
      let acc' := acc ++ execCommit c i
      replayLoop c d0 rest acc' (applyEffs d0 acc').app.hash (n + 1)

/-- `replayBlocks(state, proxyApp, appBlockHeight, storeBlockHeight, mutateState)`; `pre` are
the effects already done (InitChain) -/
def replayBlocks (c : Chain) (d0 : Disk) (pre : List Eff) (appH storeH : Nat) (mutate : Bool)
    (br : Branch) : HsResult :=
  let final := if mutate then storeH - 1 else storeH
  let first := if appH + 1 = 1 then c.ih else appH + 1
  match replayLoop c d0 ((List.range' first (final + 1 - first))) pre [] 0 with
  | .error (acc, n, vals) => ⟨acc, br, if vals then .panicValsPruned else .panicHashBlock, n⟩
  | .ok (acc, appHash, n) =>
    if mutate then
      let d := applyEffs d0 acc
      if validBlock c d storeH then
        if valsOK c d storeH then
          let acc' := acc ++ applyBlockReal c storeH
          -- appHash = state.AppHash, the closing assertion compares the state with itself
          ⟨acc', br, .ok, n + 1⟩
        else ⟨acc, br, .panicValsPruned, n⟩
      else ⟨acc, br, .errInvalidBlock, n⟩
    else
      if appHash = (applyEffs d0 acc).stateHash then ⟨acc, br, .ok, n⟩
      else ⟨acc, br, .panicHashState, n⟩

/-- `Handshaker.Handshake` + `ReplayBlocks`; `storeBase` is the block store's base (the first
block's height until the application's RetainHeight made the node prune) -/
def handshake (c : Chain) (d0 : Disk) : HsResult :=
  let appH := d0.app.height
  let storeH := d0.storeH
  let stateH := d0.stateH
  let pre : List Eff :=
    if appH = 0 then [.initChain] ++ (if stateH = 0 then [.saveGenesis] else []) else []
  -- appHash: from Info, or InitChain's response (the application's hash either way)
  let appHash := d0.app.hash
  if storeH = 0 then
    if appHash = d0.stateHash then ⟨pre, .storeEmpty, .ok, 0⟩
    else ⟨pre, .storeEmpty, .panicHashState, 0⟩
  else if appH = 0 ∧ c.ih < d0.storeBase then ⟨pre, .appTooLow, .errAppTooLow, 0⟩
  else if 0 < appH ∧ appH < d0.storeBase - 1 then ⟨pre, .appTooLow, .errAppTooLow, 0⟩
  else if storeH < appH then ⟨pre, .appTooHigh, .errAppTooHigh, 0⟩
  else if storeH < stateH then ⟨pre, .stateAhead, .panicStateAhead, 0⟩
  else if storeH > nxt c stateH then ⟨pre, .storeAhead, .panicStoreAhead, 0⟩
  else if storeH = stateH then
    if appH < storeH then replayBlocks c d0 pre appH storeH false .replayNoMutate
    else if appH = storeH then
      if appHash = d0.stateHash then ⟨pre, .synced, .ok, 0⟩
      else ⟨pre, .synced, .panicHashState, 0⟩
    else ⟨pre, .uncovered, .panicUncovered, 0⟩
  else if storeH = nxt c stateH then
    if appH < stateH then replayBlocks c d0 pre appH storeH true .replayMutate
    else if appH = stateH then
      if validBlock c (applyEffs d0 pre) storeH then
        if valsOK c d0 storeH then ⟨pre ++ applyBlockReal c storeH, .lastReal, .ok, 1⟩
        else ⟨pre, .lastReal, .panicValsPruned, 0⟩
      else ⟨pre, .lastReal, .errInvalidBlock, 0⟩
    else if appH = storeH then
      if d0.lastResp = some storeH then
        if validBlock c (applyEffs d0 pre) storeH then
          if valsOK c d0 storeH then ⟨pre ++ applyBlockMock storeH, .lastMock, .ok, 1⟩
          else ⟨pre, .lastMock, .panicValsPruned, 0⟩
        else ⟨pre, .lastMock, .errInvalidBlock, 0⟩
      else ⟨pre, .lastMock, .errNoResp, 0⟩
    else ⟨pre, .uncovered, .panicUncovered, 0⟩
  else ⟨pre, .uncovered, .panicUncovered, 0⟩

/-! ## the node as a system: operations between which the disk is observed -/

structure Sys where
  disk : Disk := {}
  up : Bool := false
  /-- the running node can decide the next height: it has not yet signed in it, or what it signed
  is replayed from the WAL (which needs the previous height's #ENDHEIGHT) -/
  live : Bool := false
  deriving Repr

inductive Op
  /-- (re)start: handshake; `some k` = the process dies after the first `k` effects -/
  | start (crashAt : Option Nat)
  /-- `finalizeCommit` of the next height on a running node -/
  | commit (crashAt : Option Nat)
  /-- the node is stopped and the application's data is replaced by an older snapshot of itself
  (`j` commits back); Tendermint's own stores are untouched -/
  | rollback (j : Nat)
  deriving Repr

/-- run a program with an optional crash point; `some k` with `k ≥ length` = dies after the last
effect (e.g. at the `fail.Fail()` after `store.Save`) -/
def runProg (d : Disk) (es : List Eff) : Option Nat → Disk × Bool
  | none => (applyEffs d es, true)
  | some k => (crash (applyEffs d (es.take k)), false)

/-- a (re)start: the ABCI handshake, then `State.OnStart` → `catchupReplay(stateH+1)`, which (as
repaired, fe30a5c + 2666f71) writes the previous height's #ENDHEIGHT when the WAL lacks it. Before
writing, a strict `SearchForEndHeight` pass looks for a damaged tail: if it finds one,
`catchupReplay` returns the corruption error, `OnStart` repairs the WAL file and calls it again
(and refuses to start if a rotated file is damaged). In this model a crash never tears a WAL
record (that is C15's subject), so the strict pass finds nothing and the marker is written. -/
def startEffs (c : Chain) (d : Disk) : List Eff :=
  let r := handshake c d
  if r.outcome = .ok then
    let d' := applyEffs d r.effs
    r.effs ++ (if d'.walEnd ≠ d'.stateH then [.walEnd d'.stateH] else [])
  else r.effs

/-- can the started node decide the next height? Either the WAL had the marker (its messages of
the height in progress, our own votes among them, are replayed) or nothing was signed yet -/
def liveAfter (c : Chain) (d : Disk) : Bool :=
  let d' := applyEffs d (handshake c d).effs
  decide (d'.walEnd = d'.stateH) || decide (d'.pvH ≤ d'.stateH)

def stepSys (c : Chain) (s : Sys) : Op → Sys
  | .start k =>
    let r := handshake c s.disk
    let (d, completed) := runProg s.disk (startEffs c s.disk) k
    -- an error / panic of the handshake terminates the process: same as dying after its effects
    if completed ∧ r.outcome = .ok then ⟨d, true, liveAfter c s.disk⟩
    else if completed then ⟨crash d, false, false⟩ else ⟨d, false, false⟩
  | .commit k =>
    if s.up ∧ s.live then
      match finalizeEffs c s.disk (nxt c s.disk.stateH) with
      | some es =>
        let (d, completed) := runProg s.disk es k
        ⟨d, completed, completed⟩
      | none => ⟨crash s.disk, false, false⟩
    else s
  | .rollback j =>
    -- a snapshot older than the block store's base - 1 cannot be caught up: the node refuses to
    -- start (ErrAppBlockHeightTooLow, `too_old_snapshot_refused`); the operator has to take a newer one
    -- … and (what `ReplayBlocks` does not check, `replay_at_base_panics`) the validator set needed to
    -- replay the next block must not have been pruned from the state store
    if s.disk.storeBase ≤ nxt c (s.disk.app.restore j).height ∧ s.disk.statesBase ≤ (s.disk.app.restore j).height then
      ⟨{ s.disk with app := s.disk.app.restore j }, false, false⟩
    else ⟨s.disk, false, false⟩

def runSys (c : Chain) (s : Sys) (ops : List Op) : Sys := ops.foldl (stepSys c) s

/-- the fresh node: empty stores, application at height 0, not yet started -/
def genesis : Sys := {}

/-! ## fail points: one process incarnation as effects interleaved with the `fail.Fail()` call
sites of the code (state/execution.go ApplyBlock: after exec, after SaveABCIResponses, after Commit,
after Save; consensus/state.go finalizeCommit: at entry, after SaveBlock, after the #ENDHEIGHT
write, after ApplyBlock, after updateToState; receiveRoutine: after an own vote was logged).
`FAIL_TEST_INDEX = i` kills the process at the (i+1)-th call. -/

inductive Item
  | eff (e : Eff)
  | fail
  /-- `cs.pruneBlocks` of height `h`: which effects it has depends on the block store's base then -/
  | prune (h : Nat)
  deriving Repr

def planApplyReal (c : Chain) (h : Nat) : List Item :=
  (execEffs c h).map .eff ++
    [.fail, .eff (.saveResp h), .fail, .eff .appCommit, .fail, .eff (.saveState h), .fail]

/-- `ApplyBlock` on the mock application: same call sites, the application's effects missing -/
def planApplyMock (h : Nat) : List Item :=
  [.fail, .eff (.saveResp h), .fail, .fail, .eff (.saveState h), .fail]

/-- `ApplyBlock`'s fail points woven into its effects: after the execution (EndBlock), after
`SaveABCIResponses`, after `Commit`, after `Save` -/
def realItems (e : Eff) : List Item :=
  match e with
  | .endBlock _ => [.eff e, .fail]
  | .saveResp _ => [.eff e, .fail]
  | .appCommit => [.eff e, .fail]
  | .saveState _ => [.eff e, .fail]
  | _ => [.eff e]

def weaveReal (es : List Eff) : List Item := es.flatMap realItems

/-- the same call sites with the mock application (its execution and Commit have no effects) -/
def mockItems (e : Eff) : List Item :=
  match e with
  | .saveResp _ => [.eff e, .fail, .fail]
  | .saveState _ => [.eff e, .fail]
  | _ => [.eff e]

def weaveMock (es : List Eff) : List Item := [.fail] ++ es.flatMap mockItems

/-- where the `ApplyBlock` that replays the last block starts in the handshake's effects -/
def hsSplit (c : Chain) (d : Disk) (r : HsResult) : Nat :=
  match r.branch with
  | .lastReal => r.effs.length - (applyBlockReal c d.storeH).length
  | .replayMutate => r.effs.length - (applyBlockReal c d.storeH).length
  | .lastMock => r.effs.length - (applyBlockMock d.storeH).length
  | _ => r.effs.length

def hsTail (r : HsResult) (es : List Eff) : List Item :=
  match r.branch with
  | .lastMock => weaveMock es
  | _ => weaveReal es

/-- the (re)start: the handshake's effects with fail points only inside the `ApplyBlock` that
replays the last block (real or mock application; `ExecCommitBlock` has none), then the marker
write of `catchupReplay` -/
def planStart (c : Chain) (d : Disk) : List Item :=
  let r := handshake c d
  if r.outcome = .ok then
    let p := hsSplit c d r
    let d' := applyEffs d r.effs
    (r.effs.take p).map .eff ++ hsTail r (r.effs.drop p) ++
      (if d'.walEnd ≠ d'.stateH then [.eff (.walEnd d'.stateH)] else [])
  else r.effs.map .eff

/-- deciding height `h` in this incarnation. `w` = how many of the own votes of `h` are in the WAL
(replayed by `catchupReplay`), `s` = the last step the privval signed at `h`.
* `w = 2`: the replay reaches `finalizeCommit` while still replaying; of the votes the node tries to
  sign again, the prevote is refused by the privval (step regression) and the precommit is returned
  with its old signature and queued: it passes the receive routine's fail point afterwards, stale.
* `w = 1`: the prevote is signed again only if the privval has not yet signed the precommit
  (`s = 1`); the replayed prevote makes the node sign its precommit while replaying; what was
  queued then goes through the receive routine (WAL write, fail point) before the commit.
* `w = 0`: a fresh height. -/
def finItems (c : Chain) (storeH h : Nat) : List Item :=
  [.fail] ++ (if storeH < h then [.eff (.saveBlock h)] else []) ++ [.fail, .eff (.walEnd h), .fail] ++
    planApplyReal c h ++ [.fail, .prune h, .fail]

def voteItems (w s h : Nat) : List Item :=
  match w with
  | 0 => [.eff (.signVote h 1), .fail, .eff (.signVote h 2), .fail]
  | _ => if s ≤ 1 then [.eff (.pvSign h 2), .eff (.signVote h 1), .fail, .eff (.signVote h 2), .fail]
         else [.eff (.pvSign h 2), .eff (.signVote h 2), .fail]

def planHeight (c : Chain) (storeH : Nat) (w s : Nat) (h : Nat) : List Item :=
  if 2 ≤ w then finItems c storeH h ++ [.fail] else voteItems w s h ++ finItems c storeH h

/-- `n` successive heights from `h` on -/
def planHeights (c : Chain) (storeH w s : Nat) (h : Nat) : Nat → List Item
  | 0 => []
  | n + 1 => planHeight c storeH w s h ++ planHeights c 0 0 0 (nxt c h) n

/-- run items until the `(i+1)`-th fail point (`failAt = some i`) or until BeginBlock of `exitH`
would be sent (the test application stops the process there); returns the disk at death, whether
the handshake part (the first `nHs` items) was completed, and whether it was the clean stop -/
def runItems (c : Chain) (exitH : Nat) : List Item → Disk → Option Nat → Nat → Nat → Disk × Nat × Bool
  | [], d, _, _, done => (d, done, false)
  | .fail :: rest, d, some 0, _, done => (d, done, false)
  | .fail :: rest, d, some (i + 1), nHs, done => runItems c exitH rest d (some i) nHs (done + 1)
  | .fail :: rest, d, none, nHs, done => runItems c exitH rest d none nHs (done + 1)
  | .prune h :: rest, d, f, nHs, done => runItems c exitH rest (applyEffs d (pruneEffs c d h)) f nHs (done + 1)
  | .eff e :: rest, d, f, nHs, done =>
    if e = .begin exitH then (d, done, true)
    else runItems c exitH rest (applyEff d e) f nHs (done + 1)

/-- the disk reported right after the handshake, if the incarnation got that far -/
def postOf (reached : Bool) (dHs : Disk) : Option Disk := if reached then some dHs else none

/-- one incarnation of the node under `FAIL_TEST_INDEX = failAt`, deciding heights until the
application's clean stop at BeginBlock `exitH`: the disk it leaves (before the restart marker), the
disk right after its handshake if that completed, and whether it stopped cleanly -/
def incarnation (c : Chain) (d : Disk) (failAt : Option Nat) (exitH : Nat) (maxHeights : Nat) :
    Disk × Option Disk × Bool :=
  let r := handshake c d
  let hsItems : List Item := (planStart c d).take ((planStart c d).length -
    (if r.outcome = .ok ∧ (applyEffs d r.effs).walEnd ≠ (applyEffs d r.effs).stateH then 1 else 0))
  let dHs := applyEffs d r.effs
  let dSt := applyEffs d (startEffs c d)
  let h0 := nxt c dSt.stateH
  let hadMarker := decide (dHs.walEnd = dHs.stateH)
  let w := if dSt.pvH = h0 ∧ hadMarker then dSt.pvVotes else 0
  let sgn := if dSt.pvH = h0 then dSt.pvStep else 0
  -- heights decided by this incarnation (store height and replayed votes only matter for the first)
  let items := planStart c d ++ planHeights c dSt.storeH w sgn h0 maxHeights
  let res := runItems c exitH items d failAt hsItems.length 0
  (res.1, postOf (decide (res.2.1 ≥ hsItems.length ∧ r.outcome = .ok)) dHs, res.2.2)

/-- a whole node-stream case: one incarnation per fail index (`none` = no FAIL_TEST_INDEX), each
followed by the restart (the recording application notes it); a clean stop ends the sequence -/
def runIncs (c : Chain) (exitH maxHeights : Nat) : List (Option Nat) → Disk → Disk
  | [], d => d
  | f :: fs, d =>
    let r := incarnation c d f exitH maxHeights
    if r.2.2 then crash r.1 else runIncs c exitH maxHeights fs (crash r.1)

/-! ## the journal grammar (the property's reading of the call journal) -/

/-- journal automaton state: heights committed so far, the open execution -/
structure JState where
  committed : Nat
  opn : Option Pending
  deriving DecidableEq, Repr

/-- one call; `none` = the journal is ill-formed at this call. `committed` is the height the
application reports (its last commit, or the snapshot it was restored from). InitChain only while
nothing is committed; Begin only for the next height and only when no execution is open (an execution
abandoned by a process death is closed by the restart marker); txs in block order; End only after
all txs; Commit only after End. -/
def jstep (c : Chain) (s : JState) : Call → Option JState
  | .initChain => if s.committed = 0 ∧ s.opn = none then some s else none
  | .begin h => if h = nxt c s.committed ∧ s.opn = none
      then some { s with opn := some { h := h, txs := [], ended := false } } else none
  | .deliver tx =>
    match s.opn with
    | some p => if p.ended = false ∧ (c p.h)[p.txs.length]? = some tx
        then some { s with opn := some { p with txs := p.txs ++ [tx] } } else none
    | none => none
  | .endBlock h =>
    match s.opn with
    | some p => if p.ended = false ∧ p.h = h ∧ p.txs = c p.h
        then some { s with opn := some { p with ended := true } } else none
    | none => none
  | .commit =>
    match s.opn with
    | some p => if p.ended then some { committed := p.h, opn := none } else none
    | none => none
  | .restart => some { s with opn := none }
  | .restored h => some { committed := h, opn := none }

def jrun (c : Chain) : JState → List Call → Option JState
  | s, [] => some s
  | s, k :: ks => match jstep c s k with
    | some s' => jrun c s' ks
    | none => none

def journalWF (c : Chain) (j : List Call) : Bool := (jrun c ⟨0, none⟩ j).isSome

end Tmv.Pipeline
