import Tmv.Model.MempoolCache
/-! The byte accounting of the pools with an EXPLICIT key function (`TxKey = sha256(tx)` in the
code), instead of identifying a transaction with its key as `MempoolV0/V1.lean` do.
Only what the counter depends on is kept: the pooled transactions, the key index and the counter. -/
namespace Tmv.Mempool.Keyed
open Tmv Tmv.Mempool

structure Acc where
  entries : List Bytes     -- pooled transactions, in order
  index : List Bytes       -- domain of txsMap / txByKey (keys)
  bytes : Int              -- txsBytes
deriving Repr

def empty : Acc := { entries := [], index := [], bytes := 0 }

variable (key : Bytes → Bytes)

/-- admission behind the "already in the pool" guard (v0 `addTx`, v1 `insertTx`) -/
def admitTx (a : Acc) (tx : Bytes) : Acc :=
  if key tx ∈ a.index then a
  else { entries := a.entries ++ [tx], index := a.index ++ [key tx], bytes := a.bytes + (tx.length : Int) }

/-- v0 `removeTx(tx, txsMap[tx.Key()], _)` as `Update` calls it: the element the index points to is
unlinked and the counter is reduced by `len(tx)` — the length of the ARGUMENT -/
def removeV0 (a : Acc) (tx : Bytes) : Acc :=
  if key tx ∈ a.index then
    { entries := a.entries.eraseP (fun e => key e = key tx), index := a.index.erase (key tx),
      bytes := a.bytes - (tx.length : Int) }
  else a

/-- v1 `removeTxByKey(tx.Key())`: the counter is reduced by the size of the ELEMENT found -/
def removeV1 (a : Acc) (tx : Bytes) : Acc :=
  if key tx ∈ a.index then
    match a.entries.find? (fun e => key e = key tx) with
    | some e => { entries := a.entries.eraseP (fun e => key e = key tx), index := a.index.erase (key tx),
                  bytes := a.bytes - (e.length : Int) }
    | none => a
  else a

inductive Op
  | add (tx : Bytes)
  | remove (tx : Bytes)

def Op.tx : Op → Bytes
  | .add tx => tx
  | .remove tx => tx

def stepV0 (a : Acc) : Op → Acc
  | .add tx => admitTx key a tx
  | .remove tx => removeV0 key a tx

def stepV1 (a : Acc) : Op → Acc
  | .add tx => admitTx key a tx
  | .remove tx => removeV1 key a tx

end Tmv.Mempool.Keyed

/-! ### The whole key-dependent logic of the pools with an explicit key function

`KPool` = the accounting core + the LRU cache (which stores KEYS) + the senders recorded per key.
Everything the pools decide WITHOUT looking at keys (capacity, application verdict, post-check,
priorities, eviction choice, TTL) is an arbitrary input here (`adm`, `rm`, which entry is dropped),
so every behaviour of mempool/v0 and mempool/v1 that depends on `TxKey` is a behaviour of `KPool`. -/
namespace Tmv.Mempool.Keyed
open Tmv Tmv.Mempool

structure KPool where
  acc : Acc
  cache : Cache                       -- keys
  senders : List (Bytes × List Nat)   -- key ↦ peers (lives on the entry the index points to)
deriving Repr

def kempty (cacheSize : Int) : KPool := { acc := empty, cache := Cache.new cacheSize, senders := [] }

variable (key : Bytes → Bytes)

def sendersOf (p : KPool) (k : Bytes) : List Nat :=
  match p.senders.find? (fun e => e.1 = k) with
  | some e => e.2
  | none => []

/-- record `peer` on the entry the index holds for key `k` (no entry: nothing) -/
def recordK (p : KPool) (k : Bytes) (peer : Nat) : KPool :=
  if k ∈ p.acc.index then
    { p with senders := (k, if peer ∈ sendersOf p k then sendersOf p k else sendersOf p k ++ [peer]) ::
        p.senders.filter (fun e => e.1 ≠ k) }
  else p

/-- `CheckTx(tx)` from `peer` past the size/pre-check guards. `adm`: capacity, verdict and post-check
all say "admit"; `rm`: a refused tx is taken out of the cache again. -/
def kcheck (p : KPool) (tx : Bytes) (peer : Nat) (adm rm : Bool) : KPool :=
  let r := p.cache.push (key tx)
  if !r.2 then recordK { p with cache := r.1 } (key tx) peer
  else if !adm then { p with cache := if rm then r.1.remove (key tx) else r.1 }
  else recordK { p with cache := r.1, acc := admitTx key p.acc tx } (key tx) peer

/-- one iteration of `Update`'s loop (v0 accounting): cache push / remove / keep, then removal by key -/
def kcommitV0 (p : KPool) (tx : Bytes) (ok keep : Bool) : KPool :=
  let cache := if ok then (p.cache.push (key tx)).1 else if !keep then p.cache.remove (key tx) else p.cache
  { acc := removeV0 key p.acc tx, cache := cache,
    senders := if key tx ∈ p.acc.index then p.senders.filter (fun e => e.1 ≠ key tx) else p.senders }

def kcommitV1 (p : KPool) (tx : Bytes) (ok keep : Bool) : KPool :=
  let cache := if ok then (p.cache.push (key tx)).1 else if !keep then p.cache.remove (key tx) else p.cache
  { acc := removeV1 key p.acc tx, cache := cache,
    senders := if key tx ∈ p.acc.index then p.senders.filter (fun e => e.1 ≠ key tx) else p.senders }

/-- removal of a pooled entry by element (recheck rejection, eviction, TTL expiry) -/
def kdrop (p : KPool) (e : Bytes) (rmCache : Bool) : KPool :=
  if e ∈ p.acc.entries then
    { acc := removeV1 key p.acc e, cache := if rmCache then p.cache.remove (key e) else p.cache,
      senders := p.senders.filter (fun x => x.1 ≠ key e) }
  else p

inductive KOp
  | check (tx : Bytes) (peer : Nat) (adm rm : Bool)
  | commit (tx : Bytes) (ok keep : Bool)
  | drop (e : Bytes) (rmCache : Bool)

def KOp.tx : KOp → Bytes
  | .check tx _ _ _ => tx
  | .commit tx _ _ => tx
  | .drop e _ => e

def kstepV0 (p : KPool) : KOp → KPool
  | .check tx peer adm rm => kcheck key p tx peer adm rm
  | .commit tx ok keep => kcommitV0 key p tx ok keep
  | .drop e rc => kdrop key p e rc

def kstepV1 (p : KPool) : KOp → KPool
  | .check tx peer adm rm => kcheck key p tx peer adm rm
  | .commit tx ok keep => kcommitV1 key p tx ok keep
  | .drop e rc => kdrop key p e rc

def krunV0 (p : KPool) (ops : List KOp) : KPool := ops.foldl (kstepV0 key) p
def krunV1 (p : KPool) (ops : List KOp) : KPool := ops.foldl (kstepV1 key) p

end Tmv.Mempool.Keyed
