import Tmv.Model.MempoolCache
/-! The byte accounting of the pools with an EXPLICIT key function (`TxKey = sha256(tx)` in the
code), instead of identifying a transaction with its key as `MempoolV0/V1.lean` do.
Only what the counter depends on is kept: the pooled transactions, the key index and the counter. -/
namespace Tmv.Mempool.Keyed
open Tmv Tmv.Mempool

structure Acc where
  entries : List Bytes     -- pooled transactions, in order
  index : List Bytes       -- domain of txsMap / txByKey (keys)
  bytes : Int              -- txsBytes
deriving Repr

def empty : Acc := { entries := [], index := [], bytes := 0 }

variable (key : Bytes → Bytes)

/-- admission behind the "already in the pool" guard (v0 `addTx`, v1 `insertTx`) -/
def admitTx (a : Acc) (tx : Bytes) : Acc :=
  if key tx ∈ a.index then a
  else { entries := a.entries ++ [tx], index := a.index ++ [key tx], bytes := a.bytes + (tx.length : Int) }

/-- v0 `removeTx(tx, txsMap[tx.Key()], _)` as `Update` calls it: the element the index points to is
unlinked and the counter is reduced by `len(tx)` — the length of the ARGUMENT -/
def removeV0 (a : Acc) (tx : Bytes) : Acc :=
  if key tx ∈ a.index then
    { entries := a.entries.eraseP (fun e => key e = key tx), index := a.index.erase (key tx),
      bytes := a.bytes - (tx.length : Int) }
  else a

/-- v1 `removeTxByKey(tx.Key())`: the counter is reduced by the size of the ELEMENT found -/
def removeV1 (a : Acc) (tx : Bytes) : Acc :=
  if key tx ∈ a.index then
    match a.entries.find? (fun e => key e = key tx) with
    | some e => { entries := a.entries.eraseP (fun e => key e = key tx), index := a.index.erase (key tx),
                  bytes := a.bytes - (e.length : Int) }
    | none => a
  else a

inductive Op
  | add (tx : Bytes)
  | remove (tx : Bytes)

def Op.tx : Op → Bytes
  | .add tx => tx
  | .remove tx => tx

def stepV0 (a : Acc) : Op → Acc
  | .add tx => admitTx key a tx
  | .remove tx => removeV0 key a tx

def stepV1 (a : Acc) : Op → Acc
  | .add tx => admitTx key a tx
  | .remove tx => removeV1 key a tx

end Tmv.Mempool.Keyed
