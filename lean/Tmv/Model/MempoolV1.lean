import Tmv.Model.MempoolCache
/-! Model of /repo mempool/v1/mempool.go (`TxMempool`, the priority mempool).

* arrival time (`WrappedTx.timestamp`, wall clock) is the arrival sequence number `seq`;
  `TTLDuration` expiry is decided by an oracle `expired : WTx → Bool` given to `update`.
* `recheckTransactions` runs the rechecks concurrently; every `handleRecheckResult` is one atomic
  step touching only its own transaction, the model performs them in pool order.
* `sort.SliceStable` (reap order) is modelled by a stable insertion sort; `sort.Slice` (victims) by
  the same sort (the comparison is a strict total order on entries with distinct `seq`, so every
  sorting algorithm yields the same list there).

The model is of the REPAIRED code: `addNewTransaction` returns when the key is already in
`txByKey`. -/
namespace Tmv.Mempool.V1
open Tmv Tmv.Mempool

structure Cfg where
  size : Int
  maxTxsBytes : Int
  maxTxBytes : Int
  cacheSize : Int
  keepInvalid : Bool
  recheck : Bool
  ttlNumBlocks : Int
  ttlDuration : Bool     -- config.TTLDuration > 0
deriving Repr

/-- `WrappedTx` -/
structure WTx where
  tx : Bytes
  height : Int
  seq : Nat              -- timestamp
  gas : Int
  prio : Int
  sender : String
  peers : List Nat := []   -- peer ids who have sent us this transaction
deriving Repr, DecidableEq

structure State where
  cfg : Cfg
  height : Int
  txs : List WTx          -- txmp.txs, arrival order
  txsBytes : Int
  byKey : List Bytes      -- domain of txmp.txByKey
  bySender : List String  -- domain of txmp.txBySender
  cache : Cache
  pre : Option Int
  post : Option Int
  clock : Nat
deriving Repr

def init (cfg : Cfg) (height : Int) : State :=
  { cfg := cfg, height := height, txs := [], txsBytes := 0, byKey := [], bySender := [],
    cache := Cache.new cfg.cacheSize, pre := none, post := none, clock := 0 }

def keys (s : State) : List Bytes := s.txs.map (·.tx)

/-- `canAddTx(wtx)` (true = can add) -/
def canAddTx (s : State) (n : Int) : Bool :=
  !(decide ((s.txs.length : Int) ≥ s.cfg.size) || decide (n + s.txsBytes > s.cfg.maxTxsBytes))

/-- `removeTxByElement(elt)` -/
def removeElem (s : State) (w : WTx) : State :=
  { s with byKey := s.byKey.erase w.tx, bySender := s.bySender.erase w.sender,
           txs := s.txs.eraseP (fun e => e.tx = w.tx),
           txsBytes := s.txsBytes - (w.tx.length : Int) }

/-- `removeTxByKey(key)` (the error result is ignored by the caller modelled here) -/
def removeTxByKey (s : State) (k : Bytes) : State :=
  if k ∈ s.byKey then
    match s.txs.find? (fun e => e.tx = k) with
    | some w => removeElem s w
    | none => s
  else s

/-- `insertTx(wtx)` -/
def insertTx (s : State) (w : WTx) : State :=
  { s with txs := s.txs ++ [w],
           byKey := if w.tx ∈ s.byKey then s.byKey else s.byKey ++ [w.tx],
           bySender := if w.sender ≠ "" then
                         (if w.sender ∈ s.bySender then s.bySender else s.bySender ++ [w.sender])
                       else s.bySender,
           txsBytes := s.txsBytes + (w.tx.length : Int) }

/-- generic insertion sort -/
def insertBy {α : Type} (lt : α → α → Bool) (a : α) : List α → List α
  | [] => [a]
  | b :: r => if lt b a then b :: insertBy lt a r else a :: b :: r

def sortBy {α : Type} (lt : α → α → Bool) (l : List α) : List α := l.foldr (insertBy lt) []

/-- victims: lowest priority first, ties in favour of newer items -/
def victimBefore (a b : WTx) : Bool :=
  if a.prio = b.prio then decide (a.seq > b.seq) else decide (a.prio < b.prio)

/-- reap order: higher priority first, ties by increasing arrival -/
def reapBefore (a b : WTx) : Bool :=
  if a.prio = b.prio then decide (a.seq < b.seq) else decide (a.prio > b.prio)

def sizeOf (l : List WTx) : Int := bytesOf (l.map (·.tx))

/-- `removeTxByElement(elt); cache.Remove(w.tx)` (eviction and TTL expiry) -/
def evictOne (s : State) (w : WTx) : State :=
  let s1 := removeElem s w
  { s1 with cache := s1.cache.remove w.tx }

/-- the eviction loop: evict until `evictedBytes ≥ need` -/
def evictLoop (need : Int) : State → List WTx → Int → State
  | s, [], _ => s
  | s, w :: rest, ev =>
    let s2 := evictOne s w
    let ev' := ev + (w.tx.length : Int)
    if ev' ≥ need then s2 else evictLoop need s2 rest ev'

inductive MemErr | none | post | sender | full
deriving Repr, DecidableEq

/-- `addNewTransaction(wtx, checkTxRes)` -/
def addNewTransaction (s : State) (w : WTx) (v : Verdict) : State × MemErr :=
  if postFails s.post v.gas || decide (v.code ≠ codeOK) then
    (if !s.cfg.keepInvalid then { s with cache := s.cache.remove w.tx } else s,
     if postFails s.post v.gas then .post else .none)
  else if w.tx ∈ s.byKey then (s, .none)
  else if v.sender ≠ "" ∧ v.sender ∈ s.bySender then (s, .sender)
  else
    let w' : WTx := { w with gas := v.gas, prio := v.prio, sender := v.sender }
    if !canAddTx s w.tx.length then
      let victims := s.txs.filter (fun cw => decide (cw.prio < v.prio))
      if victims.length = 0 ∨ sizeOf victims < (w.tx.length : Int) then
        ({ s with cache := s.cache.remove w.tx }, .full)
      else
        let s' := evictLoop w.tx.length s (sortBy victimBefore victims) 0
        (insertTx s' w', .none)
    else (insertTx s w', .none)

inductive CheckRes | ok (me : MemErr) | tooLarge | pre | inCache
deriving Repr, DecidableEq

/-- `CheckTx(tx, cb, txInfo)` with the application answering `v` -/
def checkTx (s : State) (tx : Bytes) (v : Verdict) : State × CheckRes :=
  if (tx.length : Int) > s.cfg.maxTxBytes then (s, .tooLarge)
  else if preFails s.pre tx then (s, .pre)
  else
    let r := s.cache.push tx
    if !r.2 then ({ s with cache := r.1 }, .inCache)
    else
      let s1 := { s with cache := r.1, clock := s.clock + 1 }
      let w : WTx := { tx := tx, height := s.height, seq := s.clock, gas := 0, prio := 0, sender := "" }
      let r2 := addNewTransaction s1 w v
      (r2.1, .ok r2.2)

/-- `SetPeer(id)` on the entry of `tx` -/
def recordPeer (s : State) (tx : Bytes) (peer : Nat) : State :=
  { s with txs := s.txs.map (fun e =>
      if e.tx = tx then (if peer ∈ e.peers then e else { e with peers := e.peers ++ [peer] }) else e) }

/-- `CheckTx(tx, cb, TxInfo{SenderID: peer})`: `checkTx` plus the peer bookkeeping (a cache hit on
a pooled tx, a new entry, or an accepted resubmission that finds the tx in `txByKey`). -/
def checkTxFrom (s : State) (tx : Bytes) (v : Verdict) (peer : Nat) : State × CheckRes :=
  let r := checkTx s tx v
  match r.2 with
  | .inCache => (recordPeer r.1 tx peer, r.2)
  | .ok _ => if accepted s.post v then (recordPeer r.1 tx peer, r.2) else r
  | _ => r

/-- `handleRecheckResult(tx, checkTxRes)` -/
def handleRecheckResult (s : State) (tx : Bytes) (v : Verdict) : State :=
  if tx ∈ s.byKey then
    match s.txs.find? (fun e => e.tx = tx) with
    | none => s
    | some w =>
      if accepted s.post v then
        { s with txs := s.txs.map (fun e => if e.tx = tx then { e with prio := v.prio } else e) }
      else
        let s1 := removeElem s w
        if !s.cfg.keepInvalid then { s1 with cache := s1.cache.remove w.tx } else s1
  else s

def recheckTransactions (s : State) (rv : Bytes → Verdict) : State :=
  s.txs.foldl (fun st w => handleRecheckResult st w.tx (rv w.tx)) s

/-- one iteration of the loop of `purgeExpiredTxs` -/
def purgeOne (h : Int) (expired : WTx → Bool) (s : State) (w : WTx) : State :=
  if s.cfg.ttlNumBlocks > 0 ∧ h - w.height > s.cfg.ttlNumBlocks then evictOne s w
  else if s.cfg.ttlDuration ∧ expired w then evictOne s w
  else s

def purgeExpiredTxs (s : State) (h : Int) (expired : WTx → Bool) : State :=
  if s.cfg.ttlNumBlocks = 0 ∧ s.cfg.ttlDuration = false then s
  else s.txs.foldl (purgeOne h expired) s

def commitOne (s : State) (c : Bytes × Nat) : State :=
  let cache :=
    if c.2 = codeOK then (s.cache.push c.1).1
    else if !s.cfg.keepInvalid then s.cache.remove c.1
    else s.cache
  removeTxByKey { s with cache := cache } c.1

/-- `Update(blockHeight, blockTxs, deliverTxResponses, newPreFn, newPostFn)` -/
def update (s : State) (h : Int) (block : List (Bytes × Nat)) (pre post : Option Int)
    (rv : Bytes → Verdict) (expired : WTx → Bool) : State :=
  let s := { s with height := h, pre := newFilter pre s.pre, post := newFilter post s.post }
  let s := block.foldl commitOne s
  let s := purgeExpiredTxs s h expired
  if s.txs.length > 0 then
    if s.cfg.recheck then recheckTransactions s rv else s
  else s

/-- `Flush`: every element removed through `removeTxByElement`, then the cache reset -/
def flush (s : State) : State :=
  let s1 := s.txs.foldl removeElem s
  { s1 with cache := s1.cache.reset }

/-- `allEntriesSorted`: the entries in list (arrival) order, sorted STABLY (`sort.SliceStable`;
`sortBy` is a stable insertion sort) by priority, then timestamp -/
def allEntriesSorted (s : State) : List WTx :=
  sortBy reapBefore s.txs

/-- loop of `ReapMaxBytesMaxGas` -/
def reapGo (maxBytes maxGas : Int) : List WTx → Int → Int → List Bytes
  | [], _, _ => []
  | w :: rest, gas, bytes =>
    let g := gas + w.gas
    let b := bytes + protoSize w.tx.length
    if (maxGas ≥ 0 ∧ g > maxGas) ∨ (maxBytes ≥ 0 ∧ b > maxBytes) then []
    else w.tx :: reapGo maxBytes maxGas rest g b

def reapMaxBytesMaxGas (s : State) (maxBytes maxGas : Int) : List Bytes :=
  reapGo maxBytes maxGas (allEntriesSorted s) 0 0

/-- loop of `ReapMaxTxs` -/
def reapNGo (max : Int) : List WTx → List Bytes → List Bytes
  | [], keep => keep
  | w :: rest, keep =>
    if max ≥ 0 ∧ (keep.length : Int) ≥ max then keep else reapNGo max rest (keep ++ [w.tx])

def reapMaxTxs (s : State) (max : Int) : List Bytes := reapNGo max (allEntriesSorted s) []

inductive Op
  | check (tx : Bytes) (v : Verdict) (peer : Nat := 0)
  | update (h : Int) (block : List (Bytes × Nat)) (pre post : Option Int) (rv : Bytes → Verdict)
      (expired : WTx → Bool)
  | flush

def step (s : State) : Op → State
  | .check tx v peer => (checkTxFrom s tx v peer).1
  | .update h b pre post rv ex => update s h b pre post rv ex
  | .flush => flush s

def run (s : State) (ops : List Op) : State := ops.foldl step s

end Tmv.Mempool.V1
