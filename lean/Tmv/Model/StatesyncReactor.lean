import Tmv.Model.Syncer
/-! Model of /repo statesync/reactor.go `Receive`/`ReceiveEnvelope`, statesync/messages.go
`validateMsg` and `recentSnapshots`: the decision table of the reactor — stop the peer, ignore,
answer from the local application, or hand to the syncer. Messages are as decoded from the wire
(an empty `bytes` field decodes to nil). -/
namespace Tmv.StateSync

inductive WireMsg
  | snapshotsRequest
  | snapshotsResponse (s : Snapshot)
  | chunkRequest (height format index : Nat)
  | chunkResponse (height format index : Nat) (chunk : Option Bytes) (missing : Bool)
deriving DecidableEq, Repr

/-- protobuf decoding: an empty byte string is absent -/
def wireBytes : Option Bytes → Option Bytes
  | some [] => none
  | b => b

def WireMsg.decoded : WireMsg → WireMsg
  | .chunkResponse h f i c m => .chunkResponse h f i (wireBytes c) m
  | m => m

/-- `validateMsg` -/
def validateMsg : WireMsg → Bool
  | .chunkRequest h _ _ => !(h = 0)
  | .chunkResponse h _ _ c missing =>
    !(h = 0) && !(missing && (c.getD []).length > 0) && !(!missing && c.isNone)
  | .snapshotsRequest => true
  | .snapshotsResponse s => !(s.height = 0) && !(s.hash.length = 0) && !(s.chunks = 0)

def snapshotChannel : Nat := 0x60
def chunkChannel : Nat := 0x61

/-- the local application as the serving side sees it -/
structure ServeApp where
  snapshots : List Snapshot                    -- ListSnapshots, in the application's order
  chunk : Nat → Nat → Nat → Option Bytes       -- LoadSnapshotChunk

def insertServe (x : Snapshot) : List Snapshot → List Snapshot
  | [] => [x]
  | y :: ys =>
    if y.height > x.height || (y.height = x.height && y.format ≥ x.format) then y :: insertServe x ys
    else x :: y :: ys

/-- `recentSnapshots(n)`: newest first (height, then format), at most `recent` -/
def recentSnapshots (recent : Nat) (app : ServeApp) : List Snapshot :=
  (app.snapshots.foldr insertServe []).take recent

inductive Decision
  | stopPeer                                   -- Switch.StopPeerForError
  | ignore                                     -- logged only
  | reply (ms : List WireMsg)                  -- sent back to the peer
  | addSnapshot (peer : String) (s : Snapshot) -- syncer.AddSnapshot
  | addChunk (c : Chunk)                       -- syncer.AddChunk
deriving DecidableEq, Repr

/-- `ReceiveEnvelope` (reactor running); `syncing` = `r.syncer != nil` -/
def receive (recent : Nat) (app : ServeApp) (syncing : Bool) (chan : Nat) (peer : String) (m : WireMsg) :
    Decision :=
  if !validateMsg m then .stopPeer
  else if chan = snapshotChannel then
    match m with
    | .snapshotsRequest => .reply ((recentSnapshots recent app).map .snapshotsResponse)
    | .snapshotsResponse s => if syncing then .addSnapshot peer s else .ignore
    | _ => .ignore
  else if chan = chunkChannel then
    match m with
    | .chunkRequest h f i =>
      let c := app.chunk h f i
      .reply [.chunkResponse h f i c c.isNone]
    | .chunkResponse h f i c _ =>
      if syncing then .addChunk { height := h, format := f, index := i, body := c, sender := peer }
      else .ignore
    | _ => .ignore
  else .ignore

end Tmv.StateSync
