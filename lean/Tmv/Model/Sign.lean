import Tmv.Util
import Tmv.Gen.Facts
/-! Model of the file-backed signer `privval/file.go` (FilePV) with its persistence
(`libs/tempfile.WriteFileAtomic`) as a small-step machine with crash points (property C04).

* `LSS`      = `FilePVLastSignState {Height, Round, Step, Signature, SignBytes}` (nil-able slices
  are `Option`s: the code distinguishes `nil`).
* `SB`       = the *content* of canonical sign bytes (`types.CanonicalizeVote/Proposal`); the
  protobuf encoding itself is not modelled (the harness decodes the real bytes into this record).
* `checkHRS` = `FilePVLastSignState.CheckHRS`, statement by statement.
* `Pc`/`step` = `signVote`/`signProposal`/`saveSigned`/`Save`/`WriteFileAtomic` cut at every point
  where the externally visible state (memory copy, temp file, state file, returned signature)
  changes; `Ev.crash` may fall between any two of them and re-loads memory from the state file
  (`loadFilePV`).  Pure computations between two such points (`voteToStep`, `CheckHRS`,
  `VoteSignBytes`, the same-HRS comparison) are one micro-step: a crash inside them is
  indistinguishable from a crash before them.
* `Cfg.rel`  = ghost journal of everything the signer ever *returned* (request content, sign bytes
  of the returned message, signature), newest first, across all incarnations.

The signature scheme is a parameter `sigOf : SB → Sig` (ed25519 is deterministic; nothing else
is assumed about it). Core Lean only. -/
namespace Tmv.Sign

/-! ### constants (from the regenerated facts) -/
def stepPropose : Int := Facts.pv_stepPropose
def stepPrevote : Int := Facts.pv_stepPrevote
def stepPrecommit : Int := Facts.pv_stepPrecommit
def prevoteType : Int := Facts.pv_PrevoteType
def precommitType : Int := Facts.pv_PrecommitType
def proposalType : Int := Facts.pv_ProposalType
/-- `tmhash.Size` (= `sha256.Size`) -/
def hashSize : Nat := 32

/-! ### data -/
structure BlockID where
  hash : Bytes
  total : Int
  phash : Bytes
deriving DecidableEq, Repr

/-- content of canonical sign bytes: `CanonicalVote{Type,Height,Round,BlockID,Timestamp,ChainID}` /
`CanonicalProposal{Type,Height,Round,POLRound,BlockID,Timestamp,ChainID}` (`pol = 0` for votes) -/
structure SB where
  typ : Int
  h : Int
  r : Int
  pol : Int
  bid : Option BlockID
  ts : Int
  chain : String
deriving DecidableEq, Repr

structure LSS (Sig : Type) where
  h : Int
  r : Int
  step : Int
  sig : Option Sig
  sb : Option SB

inductive Kind | vote | proposal
deriving DecidableEq, Repr

/-- a signing request: `SignVote(chainID, vote)` / `SignProposal(chainID, proposal)` -/
structure Req where
  kind : Kind
  typ : Int      -- vote.Type (unused for proposals)
  h : Int
  r : Int
  pol : Int      -- proposal.PolRound (unused for votes)
  bid : BlockID
  ts : Int
  chain : String
deriving DecidableEq, Repr

/-! ### pure parts -/

/-- `types.ValidateHash` -/
def validHash (b : Bytes) : Bool := !(b.length > 0 && b.length != hashSize)

/-- `BlockIDFromProto` → `BlockID.ValidateBasic` (an error makes `CanonicalizeBlockID` panic) -/
def bidValid (b : BlockID) : Bool := validHash b.hash && validHash b.phash

/-- `BlockID.IsZero` -/
def bidIsZero (b : BlockID) : Bool := b.hash.length == 0 && (b.total == 0 && b.phash.length == 0)

/-- `CanonicalizeBlockID` (after validation) -/
def canonBid (b : BlockID) : Option BlockID := if bidIsZero b then none else some b

/-- `voteToStep` (none = the `panic` of the default branch); proposals sign at `stepPropose` -/
def reqStep (q : Req) : Option Int :=
  match q.kind with
  | .proposal => some stepPropose
  | .vote =>
    if q.typ = prevoteType then some stepPrevote
    else if q.typ = precommitType then some stepPrecommit
    else none

/-- `types.VoteSignBytes` / `types.ProposalSignBytes` (none = panic in `CanonicalizeBlockID`) -/
def signBytes (q : Req) : Option SB :=
  if bidValid q.bid then
    match q.kind with
    | .vote => some { typ := q.typ, h := q.h, r := q.r, pol := 0, bid := canonBid q.bid, ts := q.ts, chain := q.chain }
    | .proposal => some { typ := proposalType, h := q.h, r := q.r, pol := q.pol, bid := canonBid q.bid, ts := q.ts, chain := q.chain }
  else none

/-- `checkVotesOnlyDifferByTimestamp` / `checkProposalsOnlyDifferByTimestamp`: both messages get
the same timestamp and are compared with `proto.Equal` -/
def eqModTs (a b : SB) : Bool := decide ({ a with ts := 0 } = { b with ts := 0 })

inductive Err | height | round | step | noSignBytes | conflict
deriving DecidableEq, Repr

inductive Chk
  | err (e : Err)
  | panic          -- "pv: Signature is nil but SignBytes is not!"
  | same           -- (true, nil)
  | fresh          -- (false, nil)
deriving DecidableEq, Repr

/-- `FilePVLastSignState.CheckHRS` -/
def checkHRS {Sig : Type} (l : LSS Sig) (h r step : Int) : Chk :=
  if l.h > h then .err .height
  else if l.h = h then
    if l.r > r then .err .round
    else if l.r = r then
      if l.step > step then .err .step
      else if l.step = step then
        match l.sb with
        | some _ =>
          match l.sig with
          | none => .panic
          | some _ => .same
        | none => .err .noSignBytes
      else .fresh
    else .fresh
  else .fresh

/-! ### the machine -/

/-- progress of the fresh-signature path after the signature is computed -/
inductive Stage
  | sigDone      -- `PrivKey.Sign` returned
  | memSet       -- `saveSigned` assigned the five fields of `pv.LastSignState`
  | tmpWritten   -- `WriteFileAtomic`: temp file created (O_EXCL|O_SYNC), written, closed
  | renamed      -- `os.Rename(tmp, stateFile)` done — the commit point
deriving DecidableEq, Repr

inductive Pc (Sig : Type)
  | idle
  /-- CheckHRS said (false,nil) and the sign bytes are computed -/
  | checked (q : SB) (h r step : Int) (sb : SB)
  | inflight (st : Stage) (q : SB) (h r step : Int) (sb : SB) (sig : Sig)
  /-- same HRS: `vote.Timestamp/Signature` assigned from the last sign state, about to return -/
  | reusing (q : SB) (sb : SB) (sig : Sig)

/-- one released answer: sign bytes of the *request*, sign bytes of the *returned* message
(timestamp possibly replaced), signature -/
structure Rel (Sig : Type) where
  req : SB
  sb : SB
  sig : Sig

structure Cfg (Sig : Type) where
  disk : LSS Sig         -- content of the state file (survives a crash)
  mem : LSS Sig          -- `pv.LastSignState` (lost in a crash)
  pc : Pc Sig
  rel : List (Rel Sig)   -- ghost: everything ever returned, newest first

inductive Ev
  | req (q : Req)   -- a call of SignVote/SignProposal (only when no call is in progress)
  | tick            -- the call in progress advances by one micro-step
  | crash           -- process dies; restart loads the state file

inductive Out (Sig : Type)
  | none
  | err (e : Err)
  | panic
  | ok (sb : SB) (sig : Sig)   -- returned message's sign bytes and signature

def init {Sig : Type} (l : LSS Sig) : Cfg Sig := { disk := l, mem := l, pc := .idle, rel := [] }

/-- the state written by `FilePV.Reset`/`GenFilePV` -/
def genesis {Sig : Type} : LSS Sig := { h := 0, r := 0, step := 0, sig := none, sb := none }

/-- first micro-step of a call: everything up to the first externally visible effect -/
def begin {Sig : Type} (c : Cfg Sig) (q : Req) : Cfg Sig × Out Sig :=
  match reqStep q with
  | none => (c, .panic)
  | some step =>
    let l := c.mem
    match checkHRS l q.h q.r step with
    | .err e => (c, .err e)
    | .panic => (c, .panic)
    | .same =>
      match signBytes q with
      | none => (c, .panic)
      | some sb =>
        match l.sb, l.sig with
        | some lsb, some lsig =>
          if sb = lsb then ({ c with pc := .reusing sb lsb lsig }, .none)
          else if eqModTs lsb sb then ({ c with pc := .reusing sb lsb lsig }, .none)
          else (c, .err .conflict)
        | _, _ => (c, .panic)   -- unreachable: `.same` implies both present
    | .fresh =>
      match signBytes q with
      | none => (c, .panic)
      | some sb => ({ c with pc := .checked sb q.h q.r step sb }, .none)

def step {Sig : Type} (sigOf : SB → Sig) (c : Cfg Sig) : Ev → Cfg Sig × Out Sig
  | .req q =>
    match c.pc with
    | .idle => begin c q
    | _ => (c, .none)
  | .tick =>
    match c.pc with
    | .idle => (c, .none)
    | .checked q h r st sb => ({ c with pc := .inflight .sigDone q h r st sb (sigOf sb) }, .none)
    | .inflight .sigDone q h r st sb sig =>
      ({ c with mem := { h := h, r := r, step := st, sig := some sig, sb := some sb },
                pc := .inflight .memSet q h r st sb sig }, .none)
    | .inflight .memSet q h r st sb sig => ({ c with pc := .inflight .tmpWritten q h r st sb sig }, .none)
    | .inflight .tmpWritten q h r st sb sig =>
      ({ c with disk := c.mem, pc := .inflight .renamed q h r st sb sig }, .none)
    | .inflight .renamed q _ _ _ sb sig =>
      ({ c with pc := .idle, rel := { req := q, sb := sb, sig := sig } :: c.rel }, .ok sb sig)
    | .reusing q sb sig =>
      ({ c with pc := .idle, rel := { req := q, sb := sb, sig := sig } :: c.rel }, .ok sb sig)
  | .crash => ({ c with mem := c.disk, pc := .idle }, .none)

def run {Sig : Type} (sigOf : SB → Sig) (c : Cfg Sig) : List Ev → Cfg Sig
  | [] => c
  | e :: es => run sigOf (step sigOf c e).1 es

/-- advance the call in progress by at most `n` micro-steps, remembering the last answer -/
def ticks {Sig : Type} (sigOf : SB → Sig) : Nat → Cfg Sig → Out Sig → Cfg Sig × Out Sig
  | 0, c, o => (c, o)
  | n + 1, c, o =>
    match c.pc with
    | .idle => (c, o)
    | _ => let r := step sigOf c .tick; ticks sigOf n r.1 r.2

/-- advance the call in progress by at most `n` micro-steps but never perform the returning one -/
def ticksHold {Sig : Type} (sigOf : SB → Sig) : Nat → Cfg Sig → Cfg Sig
  | 0, c => c
  | n + 1, c =>
    match c.pc with
    | .idle => c
    | .inflight .renamed .. => c
    | .reusing .. => c
    | _ => ticksHold sigOf n (step sigOf c .tick).1

/-- one call as the driver sees it. `none`: run to completion (a call has at most 6 micro-steps).
`some k`: the process is killed before the answer leaves it, after `k` micro-steps of the call
(`k ≥ 1`; the call is held at its last pre-return point if it gets there earlier; `k = 0` dies
before the call starts). The answer is then `.none`. -/
def call {Sig : Type} (sigOf : SB → Sig) (c : Cfg Sig) (q : Req) : Option Nat → Cfg Sig × Out Sig
  | none => let r := step sigOf c (.req q); ticks sigOf 8 r.1 r.2
  | some 0 => ((step sigOf c .crash).1, .none)
  | some (k + 1) =>
    let r := step sigOf c (.req q)
    ((step sigOf (ticksHold sigOf k r.1) .crash).1, .none)

/-- one call during which the state file cannot be written (`WriteFileAtomic` returns an error:
directory gone, EMFILE, ENOSPC …): `FilePVLastSignState.Save` panics, and a panic of the signer
is the death of the process (nobody recovers it). On the fresh-signature path the call therefore
gets as far as `Stage.memSet` and the process dies there; on every other path nothing is written
and the call completes as usual. -/
def callFail {Sig : Type} (sigOf : SB → Sig) (c : Cfg Sig) (q : Req) : Cfg Sig × Out Sig :=
  let r := step sigOf c (.req q)
  match r.1.pc with
  | .checked .. => ((step sigOf (ticksHold sigOf 2 r.1) .crash).1, .panic)
  | _ => ticks sigOf 8 r.1 r.2

/-! ### restart: which loader, which files

`privval/file.go` has four constructors. `node/node.go DefaultNewNode` (every node start) uses
`LoadOrGenFilePV`; `cmd/tendermint/commands` use `LoadFilePV` (init, show_validator, testnet),
`GenFilePV` (init, gen_validator, reset when no key) and `LoadFilePVEmptyState` (ONLY the unsafe
reset commands). `loadFilePV` exits the process (`tmos.Exit`) when a file it must read is missing. -/

inductive Loader | loadOrGen | load | emptyState | gen
deriving DecidableEq, Repr

inductive LoadOutcome
  | resume      -- memory := the state file (`Ev.crash`)
  | empty       -- memory := empty sign state, state file untouched (until the next signature)
  | generate    -- new key, empty sign state (saved by LoadOrGenFilePV)
  | exit        -- the process exits: a file that must be read is missing
deriving DecidableEq, Repr

/-- `LoadFilePV` = `loadFilePV(key, state, true)` -/
def loadDecision (keyExists stateExists : Bool) : LoadOutcome :=
  if keyExists && stateExists then .resume else .exit

/-- the decision table of the four constructors on (key file exists, state file exists) -/
def loaderDecision : Loader → Bool → Bool → LoadOutcome
  | .load, k, st => loadDecision k st
  | .emptyState, true, _ => .empty          -- loadFilePV(key, state, false): the state file is not read
  | .emptyState, false, _ => .exit
  | .gen, _, _ => .generate
  | .loadOrGen, true, st => loadDecision true st    -- `if tmos.FileExists(keyFilePath) { LoadFilePV … }`
  | .loadOrGen, false, _ => .generate               -- `else { GenFilePV …; pv.Save() }`

/-- a restart through a loader; `none` = the process does not come up. A generated key is a new
validator: its journal starts empty. -/
def restartWith {Sig : Type} (sigOf : SB → Sig) (ld : Loader) (keyExists stateExists : Bool) (c : Cfg Sig) :
    Option (Cfg Sig) :=
  match loaderDecision ld keyExists stateExists with
  | .resume => some (step sigOf c .crash).1
  | .empty => some { c with mem := genesis, pc := .idle }
  | .generate => some (init genesis)
  | .exit => none

/-- the loader every node start uses (fact `pv_node_loader`) -/
def nodeLoader : Loader := .loadOrGen

/-! ### order on (height, round, step) -/
def hrsLt (a b : Int × Int × Int) : Prop :=
  a.1 < b.1 ∨ (a.1 = b.1 ∧ (a.2.1 < b.2.1 ∨ (a.2.1 = b.2.1 ∧ a.2.2 < b.2.2)))

def hrsLe (a b : Int × Int × Int) : Prop := hrsLt a b ∨ a = b

instance (a b : Int × Int × Int) : Decidable (hrsLt a b) := by unfold hrsLt; infer_instance
instance (a b : Int × Int × Int) : Decidable (hrsLe a b) := by unfold hrsLe; infer_instance

/-- step of a sign-bytes content (`voteToStep` on its type; proposals: `stepPropose`) -/
def stepOfTyp (t : Int) : Int :=
  if t = prevoteType then stepPrevote else if t = precommitType then stepPrecommit else stepPropose

def hrsOf (s : SB) : Int × Int × Int := (s.h, s.r, stepOfTyp s.typ)

def lssHRS {Sig : Type} (l : LSS Sig) : Int × Int × Int := (l.h, l.r, l.step)

end Tmv.Sign
