import Tmv.Model.Cons
/-! `types.VoteSet.MakeCommit` on top of the vote-set model of Tmv/Model/Cons.lean (kept in a file of
its own: Cons.lean is shared with other properties). -/
namespace Tmv.Cons

/-- `types.BlockIDFlag` of one commit signature -/
inductive SigFlag | absent | nil | commit
  deriving DecidableEq, Repr, Inhabited

/-- `VoteSet.MakeCommit`: `none` is the panic "Cannot MakeCommit() unless a blockhash has +2/3";
otherwise the commit's block id and, per validator slot, the flag of `votes[i].CommitSig()` with a vote
for a block id other than the majority's excluded (`!v.BlockID.Equals(*voteSet.maj23)` — the whole
block id: hash and part-set header) -/
def VoteSet.makeCommit (n : Nat) (vs : VoteSet) : Option (Bid × List SigFlag) :=
  vs.maj23.map fun m =>
    (m, (List.range n).map fun i =>
      match alookup vs.votes i with
      | none => SigFlag.absent
      | some none => SigFlag.nil
      | some (some b) => if some b = m then SigFlag.commit else SigFlag.absent)

/-- total power of the slots flagged `commit` -/
def commitPower (c : Cfg) (flags : List SigFlag) : Nat :=
  ((List.range flags.length).map fun i => if flags.getD i .absent = .commit then c.power i else 0).sum

end Tmv.Cons
