import Tmv.Model.BlockSync
/-! Model of /repo blockchain/v1: the FSM (`reactor_fsm.go`: unknown / waitForPeer / waitForBlock /
finished), its `BlockPool` (`pool.go`) and `BpPeer` bookkeeping (`peer.go`), and the reactor's
`processBlock` (`reactor.go`: `FirstTwoBlocks`, `VerifyCommitLight` of `second.LastCommit` against
`bcR.state.Validators`, `SaveBlock`, `ApplyBlock` — whose first step is `validateBlock` and whose
error is a panic: like v2, v1 saves before it validates).

Maps are association lists (outputs are sorted by the driver). `sendRequest` iterates a Go map:
the environment (`sendBlockRequest` answering "send queue full" for other peers) decides which
eligible peer gets a height — here the event carries the peer to try for each height. Wall-clock
behaviour (`CheckRate`, the timers) enters as events (`peerRemove`, `stateTimeout`). -/
namespace Tmv.BlockSync.V1
open Tmv.BlockSync

inductive FState | unknown | waitForPeer | waitForBlock | finished
deriving DecidableEq, Repr

/-- `BpPeer`: `blocks[h] = none` is a request waiting for its answer -/
structure Peer where
  id : Nat
  base : Int
  height : Int
  numPending : Int
  blocks : List (Int × Option Block)
deriving DecidableEq, Repr

structure Pool where
  peers : List Peer
  blocks : List (Int × Nat)          -- height ↦ peer expected to deliver / having delivered
  planned : List Int                 -- `plannedRequests`
  nextRequestHeight : Int
  height : Int
  maxPeerHeight : Int
deriving DecidableEq, Repr

def Pool.new (h : Int) : Pool := ⟨[], [], [], h, h, 0⟩

def maxRequestsPerPeer : Int := Facts.c13_v1_maxRequestsPerPeer

inductive Err
  | none | finished | invalid | tooShort | lowers | badData | missing | duplicate | timeoutWrong
  | noTaller | noResponseCurrent | verification
deriving DecidableEq, Repr

def Pool.peer? (p : Pool) (id : Nat) : Option Peer := p.peers.find? (·.id = id)
def Pool.blockPeer? (p : Pool) (h : Int) : Option Nat := (p.blocks.find? (·.1 = h)).map (·.2)
def Peer.block? (q : Peer) (h : Int) : Option (Option Block) := (q.blocks.find? (·.1 = h)).map (·.2)

def Pool.setPeer (p : Pool) (q : Peer) : Pool :=
  { p with peers := p.peers.map fun x => if x.id = q.id then q else x }

/-- `updateMaxPeerHeight` -/
def maxOf (ps : List Peer) : Int := ps.foldl (fun m q => if q.height > m then q.height else m) 0

/-- `RemovePeer` -/
def Pool.removePeer (p : Pool) (id : Nat) : Pool :=
  match p.peer? id with
  | none => p
  | some q =>
    -- reschedule everything requested from / delivered by the peer
    let hs := q.blocks.map (·.1)
    let planned := hs.foldl (fun pl h => if h ∈ pl then pl else pl ++ [h]) p.planned
    let blocks := p.blocks.filter (fun e => !(hs.contains e.1))
    let peers := p.peers.filter (·.id ≠ id)
    let newMax := if q.height = p.maxPeerHeight then maxOf peers else p.maxPeerHeight
    if p.maxPeerHeight > newMax then
      { p with peers := peers, blocks := blocks, planned := planned.filter (· ≤ newMax),
               maxPeerHeight := newMax,
               nextRequestHeight := if p.nextRequestHeight > newMax then newMax + 1 else p.nextRequestHeight }
    else { p with peers := peers, blocks := blocks, planned := planned, maxPeerHeight := newMax }

/-- `UpdatePeer` -/
def Pool.updatePeer (p : Pool) (id : Nat) (base height : Int) : Pool × Err :=
  match p.peer? id with
  | none =>
    if height < p.height then (p, .tooShort)
    else
      let peers := p.peers ++ [⟨id, base, height, 0, []⟩]
      ({ p with peers := peers, maxPeerHeight := maxOf peers }, .none)
  | some q =>
    if height < q.height then (p.removePeer id, .lowers)
    else
      let p' := p.setPeer { q with base := base, height := height }
      ({ p' with maxPeerHeight := maxOf p'.peers }, .none)

/-- `removeShortPeers` -/
def Pool.removeShortPeers (p : Pool) : Pool :=
  p.peers.foldl (fun acc q => if q.height < acc.height then acc.removePeer q.id else acc) p

inductive AddRes | ok | err (e : Err) | panicNoPending
deriving DecidableEq, Repr

/-- `pool.AddBlock` + `peer.AddBlock` -/
def Pool.addBlock (p : Pool) (id : Nat) (b : Block) : Pool × AddRes :=
  match p.peer? id with
  | none => (p, .err .badData)
  | some q =>
    match p.blockPeer? b.height with
    | some want => if want ≠ id then (p, .err .badData) else addAt q
    | none => addAt q
where
  addAt (q : Peer) : Pool × AddRes :=
    match q.block? b.height with
    | none => (p, .err .missing)
    | some (some _) => (p, .err .duplicate)
    | some none =>
      if q.numPending = 0 then (p, .panicNoPending)
      else
        (p.setPeer { q with blocks := q.blocks.map (fun e => if e.1 = b.height then (e.1, some b) else e),
                            numPending := q.numPending - 1 }, .ok)

/-- `BlockAndPeerAtHeight` -/
def Pool.blockAt (p : Pool) (h : Int) : Option (Block × Nat) :=
  match p.blockPeer? h with
  | none => none
  | some id =>
    match p.peer? id with
    | none => none
    | some q =>
      match q.block? h with
      | some (some b) => some (b, id)
      | _ => none

/-- `InvalidateFirstTwoBlocks` -/
def Pool.invalidateFirstTwo (p : Pool) : Pool :=
  let first := p.blockAt p.height
  let second := p.blockAt (p.height + 1)
  let p1 := match first with | some (_, id) => p.removePeer id | none => p
  match second with | some (_, id) => p1.removePeer id | none => p1

/-- `ProcessedCurrentHeightBlock`; `none` = nil-pointer panic (dead: an entry of `blocks` has a peer) -/
def Pool.processedCurrent (p : Pool) : Option Pool :=
  let p1? : Option Pool := match p.blockPeer? p.height with
    | some id =>
      match p.peer? id with
      | some q => some (p.setPeer { q with blocks := q.blocks.filter (·.1 ≠ p.height) })
      | none => none
    | none => some p
  p1?.map fun p1 =>
    ({ p1 with blocks := p1.blocks.filter (·.1 ≠ p.height), height := p.height + 1 } : Pool).removeShortPeers

/-- `RemovePeerAtCurrentHeights` -/
def Pool.removeAtCurrentHeights (p : Pool) : Pool :=
  let missingAt (h : Int) : Option Nat :=
    match p.blockPeer? h with
    | some id =>
      match p.peer? id with
      | some q => (match q.block? h with | some (some _) => none | _ => some id)
      | none => none
    | none => none
  match missingAt p.height with
  | some id => p.removePeer id
  | none =>
    match missingAt (p.height + 1) with
    | some id => p.removePeer id
    | none => p

/-- `sendRequest(h)` where the environment lets `try` be the peer that gets the request -/
def Pool.sendRequest (p : Pool) (h : Int) (try_ : Nat) : Option Pool :=
  match p.peer? try_ with
  | none => none
  | some q =>
    if q.numPending ≥ maxRequestsPerPeer then none
    else if q.base > h ∨ q.height < h then none
    else some ((p.setPeer { q with blocks := q.blocks.filter (·.1 ≠ h) ++ [(h, none)],
                                   numPending := q.numPending + 1 }) |> fun p' =>
      { p' with blocks := p'.blocks.filter (·.1 ≠ h) ++ [(h, try_)] })

def insertSorted (h : Int) : List Int → List Int
  | [] => [h]
  | a :: t => if h < a then h :: a :: t else if h = a then a :: t else a :: insertSorted h t

/-- `makeRequestBatch`: fill `plannedRequests` (fuel = how many may be added) -/
def Pool.plan : Nat → Pool → Int → Pool
  | 0, p, _ => p
  | f + 1, p, needed =>
    if (p.planned.length : Int) < needed then
      if p.nextRequestHeight > p.maxPeerHeight then p
      else Pool.plan f { p with planned := p.planned ++ [p.nextRequestHeight],
                                nextRequestHeight := p.nextRequestHeight + 1 } needed
    else p

/-- `MakeNextRequests(max)`; `tries h` = the peer the environment offers for height `h` -/
def Pool.makeNextRequests (p : Pool) (maxNum : Int) (tries : Int → Nat) : Pool :=
  let p0 := p.removeShortPeers          -- `removeBadPeers` (rate check: see header)
  let needed := maxNum - p0.blocks.length
  let p1 := Pool.plan (if needed ≤ 0 then 0 else needed.toNat) p0 needed
  let heights := p1.planned.foldl (fun acc h => insertSorted h acc) []
  let rec go : List Int → Pool → Pool
    | [], q => q
    | h :: rest, q =>
      match q.sendRequest h (tries h) with
      | none => q
      | some q' => go rest { q' with planned := q'.planned.filter (· ≠ h) }
  go heights p1

def Pool.reachedMax (p : Pool) : Bool := p.height ≥ p.maxPeerHeight

/-- `Cleanup` -/
def Pool.cleanup (_ : Pool) : Pool := ⟨[], [], [], 0, 0, 0⟩

/-! ### the FSM -/

inductive Ev
  | start
  | statusResponse (id : Nat) (base height : Int)
  | blockResponse (id : Nat) (b : Block)
  | noBlockResponse (id : Nat)
  | processedBlock (failed : Bool)
  | makeRequests (maxNum : Int) (tries : Int → Nat)
  | stop
  | peerRemove (id : Nat)
  | stateTimeout (name : FState)

structure Fsm where
  state : FState
  pool : Pool
  peerErrors : List Nat        -- `sendPeerError` calls (newest first)
  switched : Bool              -- `switchToConsensus` called
  dead : Bool                  -- a panic unwound the routine
deriving DecidableEq, Repr

def Fsm.new (h : Int) : Fsm := ⟨.unknown, Pool.new h, [], false, false⟩

/-- `transition`: entering `finished` switches to consensus and cleans the pool up -/
def Fsm.goto (f : Fsm) (next : FState) : Fsm :=
  if f.state = next then f
  else if next = .finished then { f with state := next, switched := true, pool := f.pool.cleanup }
  else { f with state := next }

/-- `Handle`: the state handler, then the transition; the error is what `Handle` returns -/
def Fsm.handle (f : Fsm) (ev : Ev) : Fsm × Err :=
  match f.state, ev with
  | .unknown, .start => (f.goto .waitForPeer, .none)
  | .unknown, .stop => (f.goto .finished, .finished)
  | .unknown, _ => (f, .invalid)
  | .waitForPeer, .stateTimeout name =>
    if name ≠ .waitForPeer then (f, .timeoutWrong) else (f.goto .finished, .noTaller)
  | .waitForPeer, .statusResponse id b h =>
    let (p, e) := f.pool.updatePeer id b h
    let f' := { f with pool := p }
    if e ≠ .none ∧ p.peers.length = 0 then (f', e) else (f'.goto .waitForBlock, .none)
  | .waitForPeer, .stop => (f.goto .finished, .finished)
  | .waitForPeer, _ => (f, .invalid)
  | .waitForBlock, .statusResponse id b h =>
    let (p, e) := f.pool.updatePeer id b h
    let f' := { f with pool := p }
    if p.peers.length = 0 then (f'.goto .waitForPeer, e)
    else if p.reachedMax then (f'.goto .finished, e)
    else (f', e)
  | .waitForBlock, .blockResponse id b =>
    match f.pool.addBlock id b with
    | (_, .panicNoPending) => ({ f with dead := true }, .none)
    | (p, .ok) =>
      let f' := { f with pool := p }
      if p.peers.length = 0 then (f'.goto .waitForPeer, .none) else (f', .none)
    | (p, .err e) =>
      let p' := p.removePeer id
      let f' := { f with pool := p', peerErrors := id :: f.peerErrors }
      if p'.peers.length = 0 then (f'.goto .waitForPeer, e) else (f', e)
  | .waitForBlock, .noBlockResponse _ => (f, .none)
  | .waitForBlock, .processedBlock failed =>
    if failed then
      match f.pool.blockAt f.pool.height, f.pool.blockAt (f.pool.height + 1) with
      | some (_, p1), some (_, p2) =>
        let p := f.pool.invalidateFirstTwo
        let f' := { f with pool := p, peerErrors := p2 :: p1 :: f.peerErrors }
        if p.reachedMax then (f'.goto .finished, .none) else (f', .verification)
      | _, _ => ({ f with dead := true }, .none)     -- nil dereference of `first` / `second`
    else
      match f.pool.processedCurrent with
      | none => ({ f with dead := true }, .none)
      | some p =>
        let f' := { f with pool := p }
        if p.reachedMax then (f'.goto .finished, .none) else (f', .none)
  | .waitForBlock, .peerRemove id =>
    let p := f.pool.removePeer id
    let f' := { f with pool := p }
    if p.peers.length = 0 then (f'.goto .waitForPeer, .none)
    else if p.reachedMax then (f'.goto .finished, .none)
    else (f', .none)
  | .waitForBlock, .makeRequests maxNum tries =>
    ({ f with pool := f.pool.makeNextRequests maxNum tries }, .none)
  | .waitForBlock, .stateTimeout name =>
    if name ≠ .waitForBlock then (f, .timeoutWrong)
    else
      let p := f.pool.removeAtCurrentHeights
      let f' := { f with pool := p }
      if p.peers.length = 0 then (f'.goto .waitForPeer, .noResponseCurrent)
      else if p.reachedMax then (f'.goto .finished, .none)
      else (f', .noResponseCurrent)
  | .waitForBlock, .stop => (f.goto .finished, .finished)
  | .waitForBlock, .start => (f, .invalid)
  | .finished, _ => (f, .none)

/-! ### the reactor's `processBlock` and one turn of `processBlocksRoutine` -/

structure Node where
  fsm : Fsm
  st : St
  store : List (Block × Commit)
deriving Repr

def Node.new (st : St) : Node := ⟨Fsm.new (startHeight st), st, []⟩

inductive PRes | missing | verificationFailure | processed | panicApply | dead
deriving DecidableEq, Repr

section
variable (sigOK : Nat → SignBytes → Nat → Bool)

/-- `processBlock` followed by `fsm.Handle(processedBlockEv{err})` (nothing is sent for
`errMissingBlock`) -/
def Node.processOnce (n : Node) : Node × PRes :=
  if n.fsm.dead then (n, .dead) else
  match n.fsm.pool.blockAt n.fsm.pool.height, n.fsm.pool.blockAt (n.fsm.pool.height + 1) with
  | some (first, _), some (second, _) =>
    match verifyCommitLight sigOK n.st.vals first.id first.height second.lastCommit with
    | .error _ => ({ n with fsm := (n.fsm.handle (.processedBlock true)).1 }, .verificationFailure)
    | .ok _ =>
      let saved := { n with store := (first, second.lastCommit) :: n.store }
      match validate sigOK n.st first with
      | .error _ => ({ saved with fsm := { n.fsm with dead := true } }, .panicApply)
      | .ok _ =>
        ({ saved with st := applyBlock n.st first,
                      fsm := (n.fsm.handle (.processedBlock false)).1 }, .processed)
  | _, _ => (n, .missing)

/-- an FSM event from the network / timers -/
def Node.event (n : Node) (ev : Ev) : Node × Err :=
  if n.fsm.dead then (n, .none) else
  let (f, e) := n.fsm.handle ev
  ({ n with fsm := f }, e)

inductive Op
  | ev (e : Ev)
  | process

def Node.apply (n : Node) : Op → Node
  | .ev e => (n.event e).1
  | .process => (n.processOnce sigOK).1

def Node.run (n : Node) (ops : List Op) : Node := ops.foldl (Node.apply sigOK) n

end
end Tmv.BlockSync.V1
