import Std.Data.HashMap
import Tmv.Gen.Facts
/-! Model of `store/store.go` (BlockStore) as SEQUENCES OF KV WRITES over an ordered map, for
property C18.  `SaveBlock` and `PruneBlocks` do not return a new database but the list of *crash
units* they issue (a `Set`/`SetSync` is one unit, a batch `Write`/`WriteSync` is one unit made of
its deletes, in order); applying a prefix of that list is what is on disk after a crash.

Abstractions (see DESIGN.md §2/§4): a block is its identity (`hash`, a label that the harness maps
one-to-one to the real block hash), its height, the number of parts it was split in, the commit it
carries for the previous height and the ABCI script it carries; part `i` of block `b` is the pair
`(b, i)` (so parts of different blocks never reassemble); a commit is (height, block hash) and
"verifies for a block" means it names that block at that height (signatures belong to C07).  -/
namespace Tmv.BlockStore

abbrev Hash := Nat

structure Commit where
  height : Int
  blockHash : Hash
  deriving DecidableEq, Repr, Hashable

/-- what the stored bytes of a block determine, as far as C18 looks -/
structure Block where
  height : Int
  hash : Hash
  total : Nat
  lastCommit : Commit
  /-- ABCI script carried in the block's txs: validator update / param update / retain height -/
  vu : Bool
  pu : Bool
  retain : Int
  deriving DecidableEq, Repr, Hashable

/-- `types.BlockMeta`: BlockID{Hash, PartSetHeader{Total}}, Header.Height -/
structure Meta where
  height : Int
  hash : Hash
  total : Nat
  deriving DecidableEq, Repr, Hashable

inductive Key where
  | bmeta (h : Int)            -- "H:%v"
  | part (h : Int) (i : Nat)   -- "P:%v:%v"
  | commit (h : Int)           -- "C:%v"
  | seen (h : Int)             -- "SC:%v"
  | hashIdx (x : Hash)         -- "BH:%x"
  | bsState                    -- "blockStore"
  deriving DecidableEq, Repr, Hashable

inductive Val where
  | bmeta (m : Meta)
  | part (b : Block) (i : Nat)
  | commit (c : Commit)
  | height (h : Int)
  | range (base height : Int)  -- tmstore.BlockStoreState
  deriving DecidableEq, Repr

abbrev DB := Std.HashMap Key Val

def get (db : DB) (k : Key) : Option Val := db[k]?

inductive Write where
  | set (k : Key) (v : Val)
  | del (k : Key)
  deriving DecidableEq, Repr

def Write.key : Write → Key
  | .set k _ => k
  | .del k => k

def apply (db : DB) : Write → DB
  | .set k v => db.insert k v
  | .del k => db.erase k

def applyAll (db : DB) (ws : List Write) : DB := ws.foldl apply db

/-- the database after the first `k` crash units of `units` reached the disk -/
def afterUnits (db : DB) (units : List (List Write)) (k : Nat) : DB :=
  applyAll db (units.take k).flatten

/-! ### loads -/

/-- `LoadBlockStoreState` (incl. the pre-`Base` compatibility branch) -/
def loadRange (db : DB) : Int × Int :=
  match get db .bsState with
  | some (.range b h) => if h > 0 ∧ b = 0 then (1, h) else (b, h)
  | _ => (0, 0)

def loadMeta (db : DB) (h : Int) : Option Meta :=
  match get db (.bmeta h) with
  | some (.bmeta m) => some m
  | _ => none

def loadCommit (db : DB) (h : Int) : Option Commit :=
  match get db (.commit h) with
  | some (.commit c) => some c
  | _ => none

def loadSeen (db : DB) (h : Int) : Option Commit :=
  match get db (.seen h) with
  | some (.commit c) => some c
  | _ => none

/-- part `i` at height `h` is part `i` of block `b` -/
def partIs (db : DB) (h : Int) (b : Block) (i : Nat) : Bool :=
  get db (.part h i) == some (.part b i)

/-- `LoadBlock`: meta present, every part of the meta's part-set header present, and the parts
reassemble (all are parts of one block, in their slots).  `none` also stands for the decode panic
of the real code when the parts do not fit together. -/
def loadBlock (db : DB) (h : Int) : Option Block :=
  match loadMeta db h with
  | none => none
  | some m =>
    match get db (.part h 0) with
    | some (.part b 0) =>
      if (List.range m.total).all (partIs db h b) then some b else none
    | _ => none

/-- `LoadBlockByHash` up to the height lookup -/
def loadHeightByHash (db : DB) (x : Hash) : Option Int :=
  match get db (.hashIdx x) with
  | some (.height h) => some h
  | _ => none

/-! ### the audit of one height and of the whole range -/

inductive Fault where
  | range | noMeta | metaHeight | noBlock | blockHash | blockHeight | blockTotal | hashIdx
  | noCommit | commitMismatch | noSeen | seenMismatch
  deriving DecidableEq, Repr

/-- everything the property demands of height `h` when the store's height is `H` -/
def checkAt (db : DB) (H h : Int) : Option Fault :=
  match loadMeta db h with
  | none => some .noMeta
  | some m =>
    if m.height ≠ h then some .metaHeight else
    match loadBlock db h with
    | none => some .noBlock
    | some b =>
      if b.hash ≠ m.hash then some .blockHash
      else if b.height ≠ h then some .blockHeight
      else if b.total ≠ m.total then some .blockTotal
      else if loadHeightByHash db m.hash ≠ some h then some .hashIdx
      else if h < H then
        match loadCommit db h with
        | none => some .noCommit
        | some c => if c.height = h ∧ c.blockHash = m.hash then none else some .commitMismatch
      else
        match loadSeen db h with
        | none => some .noSeen
        | some c => if c.height = h ∧ c.blockHash = m.hash then none else some .seenMismatch

/-- first failing height from `h` upwards (`fuel` heights) -/
def auditFrom (db : DB) (H : Int) : Nat → Int → Option (Int × Fault)
  | 0, _ => none
  | fuel + 1, h =>
    match checkAt db H h with
    | some f => some (h, f)
    | none => auditFrom db H fuel (h + 1)

/-- the executable audit: `none` = everything in [base,height] loads and agrees -/
def audit (db : DB) : Option (Int × Fault) :=
  let (B, H) := loadRange db
  if H = 0 ∧ B = 0 then none
  else if B ≤ 0 ∨ B > H then some (B, .range)
  else auditFrom db H (H + 1 - B).toNat B

/-- the property's per-database claim, as a proposition -/
def Good (db : DB) : Prop :=
  let B := (loadRange db).1
  let H := (loadRange db).2
  (B = 0 ∧ H = 0) ∨ (0 < B ∧ B ≤ H ∧ ∀ h, B ≤ h → h ≤ H → checkAt db H h = none)

/-! ### the store -/

/-- the volatile fields of `BlockStore` -/
structure Store where
  base : Int
  height : Int
  deriving DecidableEq, Repr

/-- `NewBlockStore` -/
def openStore (db : DB) : Store := { base := (loadRange db).1, height := (loadRange db).2 }

inductive SaveErr where
  | notContiguous | incomplete
  deriving DecidableEq, Repr

/-- `SaveBlock`: the panics, then parts, meta, hash index, commit of the previous height, seen
commit, and last the range descriptor (`SetSync`). Every write is its own crash unit. -/
def saveBlock (s : Store) (b : Block) (complete : Bool) (sc : Commit) :
    Except SaveErr (Store × List (List Write)) :=
  if s.base > 0 ∧ b.height ≠ s.height + 1 then .error .notContiguous
  else if !complete then .error .incomplete
  else
    let n := b.height
    let s' : Store := { height := n, base := if s.base = 0 then n else s.base }
    .ok (s',
      (List.range b.total).map (fun i => [Write.set (.part n i) (.part b i)]) ++
      [[.set (.bmeta n) (.bmeta { height := n, hash := b.hash, total := b.total })],
       [.set (.hashIdx b.hash) (.height n)],
       [.set (.commit (n - 1)) (.commit b.lastCommit)],
       [.set (.seen n) (.commit sc)],
       [.set .bsState (.range s'.base s'.height)]])

inductive PruneErr where
  | nonPositive | beyondHeight | belowBase
  deriving DecidableEq, Repr

/-- blocks per delete batch in `PruneBlocks` (a literal in the source: tied by
`Expect.C18.prune_flush_cond` to the printed condition regenerated from /repo) -/
def batchSize : Nat := 1000

/-- the deletes `PruneBlocks` queues for one height -/
def deletesFor (h : Int) (m : Meta) : List Write :=
  [.del (.bmeta h), .del (.hashIdx m.hash), .del (.commit h), .del (.seen h)] ++
    (List.range m.total).map (fun p => Write.del (.part h p))

/-- the loop of `PruneBlocks` from `h` (with `fuel` = heights left before `retain`), reading the
database as it is after the batches flushed so far; returns the number pruned and the crash units:
each `flush(batch, base)` is the descriptor write (`saveState`, SetSync) FOLLOWED BY the batch. The
intermediate flush moves the base to `h + 1` (the first height not in the batch). -/
def pruneLoop (H retain : Int) : Nat → Int → DB → List Write → Nat → Nat × List (List Write)
  | 0, _, _, batch, pruned => (pruned, [[.set .bsState (.range retain H)], batch])
  | fuel + 1, h, db, batch, pruned =>
    match loadMeta db h with
    | none => pruneLoop H retain fuel (h + 1) db batch pruned
    | some m =>
      let batch' := batch ++ deletesFor h m
      if (pruned + 1) % batchSize = 0 then
        let u : List Write := [.set .bsState (.range (h + 1) H)]
        let r := pruneLoop H retain fuel (h + 1) (applyAll (applyAll db u) batch') [] (pruned + 1)
        (r.1, u :: batch' :: r.2)
      else pruneLoop H retain fuel (h + 1) db batch' (pruned + 1)

/-- `PruneBlocks(height)` -/
def pruneBlocks (s : Store) (db : DB) (retain : Int) :
    Except PruneErr (Store × Nat × List (List Write)) :=
  if retain ≤ 0 then .error .nonPositive
  else if retain > s.height then .error .beyondHeight
  else if retain < s.base then .error .belowBase
  else
    let r := pruneLoop s.height retain (retain - s.base).toNat s.base db [] 0
    .ok ({ s with base := retain }, r.1, r.2)

end Tmv.BlockStore
