/-! Network-level view used by C01: the position-indexed log of every vote ever *sent* (by anyone,
correct or faulty) at one height, voting powers, weights of validator predicates, polkas and
decisions. Core-only. -/
namespace Tmv.VoteLog

structure VoteMsg where
  sender : Nat
  isPrecommit : Bool
  round : Nat
  value : Option Nat          -- `none` = nil vote
deriving Repr, DecidableEq

abbrev Log := List VoteMsg

structure Powers where
  n : Nat
  power : Nat → Nat

/-- total weight of the validators `< n` satisfying `p` -/
def wtUpTo (power : Nat → Nat) (p : Nat → Bool) : Nat → Nat
  | 0 => 0
  | k+1 => wtUpTo power p k + (if p k then power k else 0)

def Powers.wt (P : Powers) (p : Nat → Bool) : Nat := wtUpTo P.power p P.n
def Powers.total (P : Powers) : Nat := P.wt (fun _ => true)

/-- validator `v` has a vote of this kind/round/value somewhere in `log` -/
def voted (log : Log) (pc : Bool) (r : Nat) (x : Option Nat) (v : Nat) : Bool :=
  log.any fun m => m.sender == v && m.isPrecommit == pc && m.round == r && m.value == x

/-- more than two thirds of the power prevoted `(r,x)` within `log` -/
def polka (P : Powers) (log : Log) (r : Nat) (x : Option Nat) : Prop :=
  3 * P.wt (voted log false r x) > 2 * P.total

/-- more than two thirds of the power precommitted block `b` in round `r` within `log`
(what a node must have received in order to decide `b` in round `r`) -/
def decidable (P : Powers) (log : Log) (r : Nat) (b : Nat) : Prop :=
  3 * P.wt (voted log true r (some b)) > 2 * P.total

/-- What C02 guarantees of every correct validator, read off the global log:
(`order`) a validator's votes appear in round order, a precommit of round r before any vote of a
later round; (`onePrecommit`) at most one precommit per round; (`justified`) a precommit for a
block is preceded by a polka for it in that round; (`lockRule`) after precommitting b in round r,
a prevote for anything else in a later round r' is preceded by a polka for something else in some
round in (r, r']. -/
structure Behaved (P : Powers) (faulty : Nat → Bool) (log : Log) : Prop where
  order : ∀ i j (hi : i < log.length) (hj : j < log.length),
    faulty log[i].sender = false → log[i].sender = log[j].sender →
    log[i].isPrecommit = true → log[i].round < log[j].round → i < j
  onePrecommit : ∀ i j (hi : i < log.length) (hj : j < log.length),
    faulty log[i].sender = false → log[i].sender = log[j].sender →
    log[i].isPrecommit = true → log[j].isPrecommit = true → log[i].round = log[j].round →
    log[i].value = log[j].value
  justified : ∀ i (hi : i < log.length) (b : Nat),
    faulty log[i].sender = false → log[i].isPrecommit = true → log[i].value = some b →
    polka P (log.take i) log[i].round (some b)
  lockRule : ∀ i j (hi : i < log.length) (hj : j < log.length) (b : Nat),
    faulty log[i].sender = false → log[i].sender = log[j].sender →
    log[i].isPrecommit = true → log[i].value = some b →
    log[j].isPrecommit = false → log[i].round < log[j].round → log[j].value ≠ some b →
    ∃ r'' y, log[i].round < r'' ∧ r'' ≤ log[j].round ∧ y ≠ some b ∧ polka P (log.take j) r'' y

end Tmv.VoteLog
