import Tmv.Model.Sign
/-! The receive routine of `consensus/state.go` around an ARBITRARY deterministic consensus core,
as far as property C04 needs it: every input is appended to the WAL before it is handled
(`receiveRoutine`: `wal.Write(mi)` for peer messages and timeouts, `wal.WriteSync(mi)` for own
messages), and the WAL is flushed and fsynced before any signing request is issued
(`signVote` / `defaultDecideProposal`: `wal.FlushAndSync()` first). A crash keeps a prefix of
the written records that contains at least the synced ones; `catchupReplay` re-feeds the
surviving records to the same core.

The core is a parameter (`Core`): a state type, an input type and a step function returning the new
state and the signing requests issued while handling the input, *without* their timestamps (the
vote time is the wall clock at signing, `voteTime()`); the node stamps them. Nothing else about
consensus is assumed here — in particular `Tmv.Cons.step` (C02) is an instance. What the real
code does NOT guarantee is that the core is such a function: `createProposalBlock` reads the
mempool, so a replayed proposal may be for another block (the signer then refuses it, see
`Props.C04.replay_requests_match`). -/
namespace Tmv.SignNode
open Tmv.Sign

structure Core (S I : Type) where
  init : S
  step : S → I → S × List Req
  /-- own messages (internalMsgQueue) are `WriteSync`ed -/
  internal : I → Bool

structure Node (S I : Type) where
  s : S
  wal : List I             -- records written so far, in order
  synced : Nat             -- length of the durable prefix
  log : List (Nat × Req)   -- ghost: (index of the input being handled, stamped request issued)

def start {S I : Type} (k : Core S I) : Node S I := { s := k.init, wal := [], synced := 0, log := [] }

def stamp (t : Int) (q : Req) : Req := { q with ts := t }

/-- handle one input at wall-clock time `t` -/
def handle {S I : Type} (k : Core S I) (n : Node S I) (i : I) (t : Int) : Node S I :=
  let r := k.step n.s i
  { s := r.1
    wal := n.wal ++ [i]
    synced := if k.internal i || !r.2.isEmpty then n.wal.length + 1 else n.synced
    log := n.log ++ r.2.map (fun q => (n.wal.length, stamp t q)) }

def runNode {S I : Type} (k : Core S I) (n : Node S I) : List (I × Int) → Node S I
  | [] => n
  | (i, t) :: rest => runNode k (handle k n i t) rest

def runCore {S I : Type} (k : Core S I) (s : S) : List I → S
  | [] => s
  | i :: rest => runCore k (k.step s i).1 rest

/-- the (unstamped) requests replay issues while handling record `j` of the surviving WAL `w` -/
def reqsAt {S I : Type} (k : Core S I) (w : List I) (j : Nat) : List Req :=
  match w[j]? with
  | some i => (k.step (runCore k k.init (w.take j)) i).2
  | none => []

/-- what can survive a crash: a prefix of the written records containing the synced ones -/
def Survives {S I : Type} (n : Node S I) (w : List I) : Prop :=
  w <+: n.wal ∧ n.synced ≤ w.length

end Tmv.SignNode
