import Tmv.Model.Query
/-! Model of /repo state/txindex/kv/kv.go (`AddBatch`, `Get`, `Search`, `match`, `matchRange`, key
helpers) and state/indexer/query_range.go (`LookForRanges`, bound values), byte-exact in the key
layout `compositeKey/value/height/index` so that the behaviour on values containing the separator
is the code's behaviour.

`H` is the tx hash (`types.Tx.Hash`, SHA-256 in the driver).  The database is an association list
(memdb/goleveldb: an ordered map; `IteratePrefix` = the rows whose key has the prefix — only the
*set* of rows matters because every scan collects into a Go map).  The primary row `hash → proto
bytes of the TxResult` is kept structurally (`Val.result`); an index scan that picks up a primary
row (a hash that starts with `key/`) is outside the model (`Res.unsupported`).
Heights and indices are non-negative (they are for committed blocks).  `Index` (single tx, with
its skip-failed-duplicate rule) is not modelled: the indexer service uses `AddBatch` only. -/
namespace Tmv.Index
open Tmv.Query

def sep : UInt8 := 47   -- '/'

/-- decimal digits of a natural number, most significant first (`%d`) -/
def dec (n : Nat) : Str := (Nat.toDigits 10 n).map fun c => UInt8.ofNat c.toNat

structure Attr where
  key : Str
  value : Str
  index : Bool
deriving Repr, DecidableEq

structure Event where
  type : Str
  attrs : List Attr
deriving Repr, DecidableEq

structure TxResult where
  height : Nat
  index : Nat
  tx : Bytes
  events : List Event
deriving Repr, DecidableEq

inductive Val
  | hash (h : Bytes)         -- secondary rows point at the tx hash
  | result (r : TxResult)    -- primary row
deriving Repr, DecidableEq

abbrev DB := List (Bytes × Val)

def dbSet (db : DB) (k : Bytes) (v : Val) : DB :=
  if db.any (·.1 == k) then db.map (fun p => if p.1 == k then (k, v) else p) else db ++ [(k, v)]

def dbGet (db : DB) (k : Bytes) : Option Val := (db.find? (·.1 == k)).map (·.2)

def prefixRows (db : DB) (p : Bytes) : DB := db.filter (fun row => p.isPrefixOf row.1)

/-- `keyForEvent` -/
def keyForEvent (k v : Str) (h i : Nat) : Bytes :=
  k ++ sep :: (v ++ sep :: (dec h ++ sep :: dec i))

def txHeightKey : Str := [116, 120, 46, 104, 101, 105, 103, 104, 116]   -- "tx.height"
def txHashKey : Str := [116, 120, 46, 104, 97, 115, 104]   -- "tx.hash"

/-- `keyForHeight` -/
def keyForHeight (r : TxResult) : Bytes := keyForEvent txHeightKey (dec r.height) r.height r.index

/-- `startKey(fields...)`: every field followed by the separator -/
def startKey (fields : List Str) : Bytes := fields.flatMap (· ++ [sep])

/-- `isTagKey`: exactly three separators -/
def isTagKey (key : Bytes) : Bool := key.count sep == 3

/-- `extractValueFromKey`: `strings.SplitN(key, "/", 3)[1]` (callers checked `isTagKey`) -/
def extractValue (key : Bytes) : Str :=
  ((key.dropWhile (· != sep)).drop 1).takeWhile (· != sep)

/-- the composite keys/values `indexEvents` writes for one result, in order -/
def indexedAttrs (r : TxResult) : List (Str × Str) :=
  r.events.flatMap fun e =>
    if e.type.isEmpty then []
    else e.attrs.filterMap fun a =>
      if a.key.isEmpty then none
      else if a.index then some (e.type ++ dot :: a.key, a.value) else none

variable (H : Bytes → Bytes)

/-- `AddBatch` for one result: event rows, the height row, the primary row -/
def addOne (db : DB) (r : TxResult) : DB :=
  let h := H r.tx
  let db1 := (indexedAttrs r).foldl (fun d kv => dbSet d (keyForEvent kv.1 kv.2 r.height r.index) (.hash h)) db
  let db2 := dbSet db1 (keyForHeight r) (.hash h)
  dbSet db2 h (.result r)

def addBatch (db : DB) (rs : List TxResult) : DB := rs.foldl (addOne H) db

inductive GetRes | none | found (r : TxResult) | errEmpty | unsupported
deriving Repr, DecidableEq

/-- `Get` -/
def get (db : DB) (hash : Bytes) : GetRes :=
  if hash.isEmpty then .errEmpty
  else match dbGet db hash with
    | .none => .none
    | some (.result r) => .found r
    | some (.hash _) => .unsupported

/-! ### ranges (state/indexer/query_range.go) -/

structure QRange where
  key : Str
  lower : Option Nat := none
  upper : Option Nat := none
  incLower : Bool := false
  incUpper : Bool := false
deriving Repr, DecidableEq

def isRangeOp : Op → Bool
  | .le | .ge | .lt | .gt => true
  | _ => false

def operandNat : Operand → Option Nat
  | .int n => some n
  | _ => none

/-- the effect of one range condition on its key's `QueryRange` (the `switch c.Op` of
`LookForRanges`: the last bound of a side wins, the inclusive flags are only ever set) -/
def updRange (c : Cond) (r : QRange) : QRange :=
  match c.op with
  | .gt => { r with lower := operandNat c.operand }
  | .ge => { r with incLower := true, lower := operandNat c.operand }
  | .lt => { r with upper := operandNat c.operand }
  | .le => { r with incUpper := true, upper := operandNat c.operand }
  | _ => r

/-- one step of `LookForRanges` (the map is kept in order of first insertion; Go iterates it in
random order, the scans' results are intersected so the order does not change the set) -/
def addRange (rs : List QRange) (c : Cond) : List QRange :=
  if rs.any (·.key == c.key) then rs.map (fun r => if r.key == c.key then updRange c r else r)
  else rs ++ [updRange c { key := c.key }]

def lookForRanges (q : Query) : List QRange :=
  (q.filter (fun c => isRangeOp c.op)).foldl addRange []

def minInt64 : Int := -9223372036854775808

/-- `LowerBoundValue` with int64 wrap-around of `t + 1` -/
def lowerBoundValue (r : QRange) : Option Int :=
  r.lower.map fun n => if r.incLower then (n : Int) else if n = maxInt64 then minInt64 else (n : Int) + 1

/-- `UpperBoundValue` (`t - 1` cannot wrap: t ≥ 0) -/
def upperBoundValue (r : QRange) : Option Int :=
  r.upper.map fun n => if r.incUpper then (n : Int) else (n : Int) - 1

/-- `strconv.ParseInt(s, 10, 64)`: optional sign, at least one digit, range check -/
def parseInt (s : Str) : Option Int :=
  let neg := s.head? == some 45                                   -- '-'
  let ds := if s.head? == some 45 || s.head? == some 43 then s.drop 1 else s   -- '-' or '+'
  if ds.isEmpty || !ds.all isDigit then none
  else
    let v := digitsVal ds
    if neg then (if v ≤ maxInt64 + 1 then some (-(v : Int)) else none)
    else (if v ≤ maxInt64 then some (v : Int) else none)

def valHashes (rows : DB) : Option (List Bytes) :=
  rows.mapM fun row => match row.2 with | .hash h => some h | .result _ => none

/-- the scan of `matchRange` -/
def rangeRows (db : DB) (r : QRange) : DB :=
  (prefixRows db (startKey [r.key])).filter fun row =>
    isTagKey row.1 &&
    match parseInt (extractValue row.1) with
    | none => false
    | some v =>
      (match lowerBoundValue r with | some lo => decide (lo ≤ v) | none => true) &&
      (match upperBoundValue r with | some hi => decide (v ≤ hi) | none => true)

/-- `fmt.Sprintf("%v", operand)` -/
def operandStr : Operand → Str
  | .str s => s
  | .int n => dec n
  | .none => "<nil>".toUTF8.toList

/-- `startKeyForCondition` -/
def startKeyFor (c : Cond) (height : Nat) : Bytes :=
  if height > 0 then startKey [c.key, operandStr c.operand, dec height]
  else startKey [c.key, operandStr c.operand]

inductive Res
  | hashes (hs : List Bytes)
  | err            -- Search returns an error
  | panic          -- a type assertion on the operand fails
  | unsupported
deriving Repr, DecidableEq

/-- the scan of `match` for a non-range condition; `none` = panic (`c.Operand.(string)`) -/
def condRows (db : DB) (c : Cond) (height : Nat) : Option DB :=
  match c.op with
  | .eq => some (prefixRows db (startKeyFor c height))
  | .exists => some (prefixRows db (startKey [c.key]))
  | .contains =>
    match c.operand with
    | .str s => some ((prefixRows db (startKey [c.key])).filter fun row =>
        isTagKey row.1 && isInfix s (extractValue row.1))
    | _ => none
  | _ => none   -- "other operators should be handled already"

/-- the tail shared by `match` and `matchRange`: intersect unless this is the first scan -/
def applyScan {α : Type} [BEq α] (st : Option (List α)) (tmp : List α) : Option (List α) :=
  match st with
  | none => some tmp.eraseDups
  | some f => if f.isEmpty then some f else if tmp.isEmpty then some [] else
      some (f.filter (tmp.contains ·))

/-- `lookForHash`: the first `tx.hash` condition with a string operand (`fix:` commit: other operand
types no longer panic, they are skipped) -/
def lookForHash (q : Query) : Option Str :=
  q.findSome? fun c => if c.key == txHashKey then
    (match c.operand with | .str s => some s | _ => none) else none

/-- `lookForHeight`: the first `tx.height = <number>` condition (string operands are skipped) -/
def lookForHeight (q : Query) : Option Nat :=
  q.findSome? fun c => if c.key == txHeightKey && c.op == .eq then operandNat c.operand else none

/-- `hex.DecodeString` -/
def decodeHex (s : Str) : Option Bytes := ofHexChars (s.map fun c => Char.ofNat c.toNat)

def scanStep (st : Except Res (Option (List Bytes))) (rows : Option DB) :
    Except Res (Option (List Bytes)) :=
  match st with
  | .error e => .error e
  | .ok s =>
    -- `!firstRun && len(filteredHashes) == 0` returns before anything is evaluated
    if s == some [] then .ok s else
    match rows with
    | none => .error .panic
    | some rs => match valHashes rs with
      | none => .error .unsupported
      | some hs => .ok (applyScan s hs)

/-- `Search` -/
def search (db : DB) (q : Query) : Res :=
  if !conditionsOK q then .err else
  match lookForHash q with
  | some s =>
    match decodeHex s with
    | none => .err
    | some h => match get db h with
      | .errEmpty => .err
      | .none => .hashes []
      | .found _ => .hashes [h]
      | .unsupported => .unsupported
  | none =>
    let ranges := lookForRanges q
    let st1 := ranges.foldl (fun st r => scanStep st (some (rangeRows db r))) (.ok none)
    let height := (lookForHeight q).getD 0
    let others := q.filter (fun c => !isRangeOp c.op)
    match others.foldl (fun st c => scanStep st (condRows db c height)) st1 with
    | .error e => e
    | .ok none => .hashes []
    | .ok (some hs) => .hashes hs

/-- the event map a committed tx is judged by (what `PublishEventTx` would publish, restricted to
the attributes the application asked to index, plus the height): brute-force reference -/
def groupInsert (ev : Events) (k v : Str) : Events :=
  if ev.any (·.1 == k) then ev.map (fun p => if p.1 == k then (p.1, p.2 ++ [v]) else p)
  else ev ++ [(k, [v])]

def eventsOf (r : TxResult) : Events :=
  groupInsert ((indexedAttrs r).foldl (fun ev kv => groupInsert ev kv.1 kv.2) []) txHeightKey (dec r.height)

end Tmv.Index
