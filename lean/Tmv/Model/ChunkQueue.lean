import Tmv.Util
/-! Model of /repo statesync/chunks.go (`chunkQueue`) and of the `snapshot` record of
statesync/snapshots.go. Go maps are total functions with a default (`none` / `false`), the temp
files are the `files` map (path present ⇔ bytes present; the file system is assumed to work, the
`os.WriteFile/Remove/ReadFile` error branches are not modelled). The waiter channels are only the
blocking machinery of `Next`; `next` returns `.wait i` where the code blocks on `WaitFor(i)`. -/
namespace Tmv.StateSync

structure Snapshot where
  height : Nat        -- uint64
  format : Nat        -- uint32
  chunks : Nat        -- uint32
  hash : Bytes
  metadata : Bytes
deriving DecidableEq, Repr

/-- the `chunk` struct; `body = none` is Go's nil slice -/
structure Chunk where
  height : Nat
  format : Nat
  index : Nat
  body : Option Bytes
  sender : String
deriving DecidableEq, Repr

structure Queue where
  snap : Option Snapshot            -- none = closed (`q.snapshot == nil`)
  files : Nat → Option Bytes        -- chunkFiles + file contents
  senders : Nat → Option String     -- chunkSenders
  allocated : Nat → Bool            -- chunkAllocated
  returned : Nat → Bool             -- chunkReturned

def upd {α : Type} (f : Nat → α) (i : Nat) (v : α) : Nat → α := fun j => if j = i then v else f j

@[simp] theorem upd_same {α : Type} (f : Nat → α) (i : Nat) (v : α) : upd f i v i = v := by simp [upd]
@[simp] theorem upd_other {α : Type} (f : Nat → α) (i j : Nat) (v : α) (h : j ≠ i) :
    upd f i v j = f j := by simp [upd, h]

namespace Queue

/-- `newChunkQueue` (`none` = error "snapshot has no chunks") -/
def new (s : Snapshot) : Option Queue :=
  if s.chunks = 0 then none
  else some { snap := some s, files := fun _ => none, senders := fun _ => none,
              allocated := fun _ => false, returned := fun _ => false }

inductive AddRes | added | ignored | errNil | errHeight | errFormat | errIndex
deriving DecidableEq, Repr

/-- `chunkQueue.Add` -/
def add (q : Queue) (c : Chunk) : Queue × AddRes :=
  match c.body with
  | none => (q, .errNil)
  | some body =>
    match q.snap with
    | none => (q, .ignored)
    | some s =>
      if c.height ≠ s.height then (q, .errHeight)
      else if c.format ≠ s.format then (q, .errFormat)
      else if c.index ≥ s.chunks then (q, .errIndex)
      else if (q.files c.index).isSome then (q, .ignored)
      else ({ q with files := upd q.files c.index (some body),
                     senders := upd q.senders c.index (some c.sender) }, .added)

/-- number of keys of `chunkAllocated` (keys are only ever inserted by `Allocate`, below `chunks`) -/
def allocCount (q : Queue) (n : Nat) : Nat := ((List.range n).filter q.allocated).length

/-- `chunkQueue.Allocate` (`none` = errDone) -/
def allocate (q : Queue) : Queue × Option Nat :=
  match q.snap with
  | none => (q, none)
  | some s =>
    if allocCount q s.chunks ≥ s.chunks then (q, none)
    else
      match (List.range s.chunks).find? (fun i => !q.allocated i) with
      | some i => ({ q with allocated := upd q.allocated i true }, some i)
      | none => (q, none)

/-- `chunkQueue.Close`: the maps stay, only `snapshot` becomes nil (files are removed from disk,
but nothing reads them once closed) -/
def close (q : Queue) : Queue := { q with snap := none }

/-- `chunkQueue.discard` -/
def discard (q : Queue) (i : Nat) : Queue :=
  match q.snap with
  | none => q
  | some _ =>
    match q.files i with
    | none => q
    | some _ => { q with files := upd q.files i none, returned := upd q.returned i false,
                          allocated := upd q.allocated i false }

/-- `chunkQueue.DiscardSender`: every index whose recorded sender is `p` and which is not
returned is discarded (if present) and its sender entry deleted — also on a closed queue, where
`discard` does nothing but the sender entry still goes. The indices are independent, so Go's
random map order does not matter. -/
def discardSender (q : Queue) (p : String) : Queue :=
  let hit := fun i => q.senders i = some p && !q.returned i
  match q.snap with
  | none => { q with senders := fun i => if hit i then none else q.senders i }
  | some _ =>
    { q with
      files := fun i => if hit i then none else q.files i
      returned := fun i => if hit i && (q.files i).isSome then false else q.returned i
      allocated := fun i => if hit i && (q.files i).isSome then false else q.allocated i
      senders := fun i => if hit i then none else q.senders i }

def getSender (q : Queue) (i : Nat) : String := (q.senders i).getD ""
def has (q : Queue) (i : Nat) : Bool := (q.files i).isSome

/-- `nextUp` (`none` = errDone) -/
def nextUp (q : Queue) : Option Nat :=
  match q.snap with
  | none => none
  | some s => (List.range s.chunks).find? (fun i => !q.returned i)

inductive NextRes
  | done                          -- errDone
  | wait (i : Nat)                -- blocks in WaitFor(i) (errTimeout after chunkTimeout)
  | chunk (c : Chunk) (q : Queue)

/-- `chunkQueue.Next` up to the point where it would block -/
def next (q : Queue) : NextRes :=
  match q.snap, nextUp q with
  | some s, some i =>
    match q.files i with
    | none => .wait i
    | some body =>
      .chunk { height := s.height, format := s.format, index := i, body := some body,
               sender := getSender q i }
        { q with returned := upd q.returned i true }
  | _, _ => .done

def retry (q : Queue) (i : Nat) : Queue := { q with returned := upd q.returned i false }
def retryAll (q : Queue) : Queue := { q with returned := fun _ => false }

def size (q : Queue) : Nat :=
  match q.snap with
  | none => 0
  | some s => s.chunks

inductive WaitRes | closed | ready | pending
deriving DecidableEq, Repr

/-- `chunkQueue.WaitFor`: state of the returned channel -/
def waitFor (q : Queue) (i : Nat) : WaitRes :=
  match q.snap with
  | none => .closed
  | some s => if i ≥ s.chunks then .closed else if (q.files i).isSome then .ready else .pending

end Queue
end Tmv.StateSync
