import Tmv.Crc32c
import Tmv.Model.Group
import Tmv.Gen.Facts
/-! The parameters the C15 driver runs the WAL model with: the real CRC-32C, a minimal protobuf
reader that recognises `TimedWALMessage{…, Msg: WALMessage{…}}`, and the constants regenerated
from the source. -/
namespace Tmv.Wal.Inst
open Tmv Tmv.Wal

/-! ## minimal protobuf wire reader -/

/-- base-128 varint; `none` when truncated or longer than 10 bytes -/
def varint : Nat → Bytes → Nat → Nat → Option (Nat × Bytes)
  | 0, _, _, _ => none
  | _ + 1, [], _, _ => none
  | fuel + 1, b :: rest, shift, acc =>
    let acc := acc + (b.toNat % 128) * 2 ^ shift
    if b.toNat < 128 then some (acc, rest) else varint fuel rest (shift + 7) acc

inductive Field where
  | vint (num : Nat) (v : Nat)
  | bytes (num : Nat) (b : Bytes)
  | fixed (num : Nat)

def fields : Nat → Bytes → Option (List Field)
  | 0, _ => none
  | _ + 1, [] => some []
  | fuel + 1, s => do
    let (tag, r) ← varint 10 s 0 0
    let num := tag / 8
    if num = 0 then none
    match tag % 8 with
    | 0 => do
      let (v, r) ← varint 10 r 0 0
      let fs ← fields fuel r
      pure (.vint num v :: fs)
    | 2 => do
      let (n, r) ← varint 10 r 0 0
      if r.length < n then none
      let fs ← fields fuel (r.drop n)
      pure (.bytes num (r.take n) :: fs)
    | 1 => if r.length < 8 then none else do
      let fs ← fields fuel (r.drop 8)
      pure (.fixed num :: fs)
    | 5 => if r.length < 4 then none else do
      let fs ← fields fuel (r.drop 4)
      pure (.fixed num :: fs)
    | _ => none

def lastBytes (fs : List Field) (n : Nat) : Option Bytes :=
  fs.foldl (fun acc f => match f with
    | .bytes k b => if k = n then some b else acc
    | _ => acc) none

def lastVint (fs : List Field) (n : Nat) : Option Nat :=
  fs.foldl (fun acc f => match f with
    | .vint k v => if k = n then some v else acc
    | _ => acc) none

def toInt64 (v : Nat) : Int :=
  let w := v % 18446744073709551616
  if w ≥ 9223372036854775808 then (w : Int) - 18446744073709551616 else w

/-- which oneof member of `WALMessage` is set (the last one on the wire wins) -/
def lastSum (fs : List Field) : Option (Nat × Bytes) :=
  fs.foldl (fun acc f => match f with
    | .bytes k b => if 1 ≤ k ∧ k ≤ 4 then some (k, b) else acc
    | _ => acc) none

/-- `proto.Unmarshal` into `TimedWALMessage` + `WALFromProto`, as far as the stream needs it:
field 2 (`msg`) must be present and carry one of the four oneof members; member 4 is
`EndHeight{height}`. -/
def parse (d : Bytes) : Option (Option Int) := do
  let top ← fields (d.length + 1) d
  let m ← lastBytes top 2
  let inner ← fields (m.length + 1) m
  let (k, body) ← lastSum inner
  if k = 4 then do
    let eh ← fields (body.length + 1) body
    pure (some (toInt64 ((lastVint eh 1).getD 0)))
  else do
    let _ ← fields (body.length + 1) body
    pure none

def P : Params :=
  { crc := Crc32c.sumBytes, parse := parse, maxLen := Facts.c15_maxMsgSize.toNat + 24 }

def S : Nat := 40960
def maxRemove : Nat := Facts.c15_maxFilesToRemove.toNat
def defaultHeadLimit : Nat := Facts.c15_defaultHeadSizeLimit.toNat
def defaultTotalLimit : Nat := Facts.c15_defaultTotalSizeLimit.toNat

end Tmv.Wal.Inst
