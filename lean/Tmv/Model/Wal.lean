import Tmv.Util
/-! # WAL record framing (consensus/wal.go WALEncoder / WALDecoder)

Record = crc32c(data) (4 bytes, big endian) ‖ len(data) (4 bytes, big endian) ‖ data.
`crc` is an abstract function returning the 4 checksum bytes (the Go code compares two uint32,
i.e. the 4 bytes); `parse` abstracts `proto.Unmarshal` + `WALFromProto`:
`none` = not decodable, `some none` = a message that is no end-height marker,
`some (some h)` = `EndHeightMessage{h}`.

Two decoders, because `Decode` uses single `Read` calls and the two readers it is used with
behave differently on a short read:
* `decodeG` — through `autofile.GroupReader.Read`, which fills the slice across files and returns
  `(n, io.EOF)` when the group ends early (and rejects an empty slice);
* `decodeF` — on a plain `*os.File` (`repairWalFile`): a short read returns `(n, nil)` and leaves
  the rest of the freshly made slice zero; only a read at the very end returns `(0, io.EOF)`;
  a read into an empty slice returns `(0, nil)`. -/
namespace Tmv.Wal
open Tmv

structure Params where
  crc : Bytes → Bytes
  parse : Bytes → Option (Option Int)
  maxLen : Nat

/-- big-endian uint32 of a length -/
def be32 (n : Nat) : Bytes :=
  [UInt8.ofNat (n / 16777216 % 256), UInt8.ofNat (n / 65536 % 256), UInt8.ofNat (n / 256 % 256),
   UInt8.ofNat (n % 256)]

/-- `binary.BigEndian.Uint32` of (at most) four bytes; missing bytes are zero (fresh slice) -/
def ofBe32 (b : Bytes) : Nat :=
  (b.getD 0 0).toNat * 16777216 + (b.getD 1 0).toNat * 65536 + (b.getD 2 0).toNat * 256 +
    (b.getD 3 0).toNat

/-- a fresh zeroed slice of length `n` whose prefix was overwritten by the bytes read -/
def padTo (n : Nat) (b : Bytes) : Bytes := b ++ List.replicate (n - b.length) 0

inductive DecErr where
  | crcRead | lenRead | tooBig | dataRead | crcMismatch | proto
  deriving DecidableEq, Repr

inductive DecRes where
  | eof
  | corrupt (e : DecErr)
  | msg (data : Bytes)
  deriving DecidableEq, Repr

/-- `WALEncoder.Encode` on already marshalled data: `none` = "msg is too big" (nothing written) -/
def encode (P : Params) (d : Bytes) : Option Bytes :=
  if d.length > P.maxLen then none else some (P.crc d ++ be32 d.length ++ d)

/-- the frame of a record (no size check) -/
def frame (P : Params) (d : Bytes) : Bytes := P.crc d ++ be32 d.length ++ d

def frames (P : Params) (ds : List Bytes) : Bytes := (ds.map (frame P)).flatten

/-- checks after the data was read: checksum, then proto decoding -/
def check (P : Params) (c d rest : Bytes) : DecRes × Bytes :=
  if P.crc d ≠ c then (.corrupt .crcMismatch, rest)
  else match P.parse d with
    | none => (.corrupt .proto, rest)
    | some _ => (.msg d, rest)

/-- `WALDecoder.Decode` reading through a `GroupReader`; returns the result and the unread rest.
A clean EOF is reported only when no byte of a checksum could be read. -/
def decodeG (P : Params) (s : Bytes) : DecRes × Bytes :=
  if s.isEmpty then (.eof, [])
  else if s.length < 4 then (.corrupt .crcRead, [])
  else
    let c := s.take 4
    let s1 := s.drop 4
    if s1.length < 4 then (.corrupt .lenRead, [])
    else
      let n := ofBe32 (s1.take 4)
      let s2 := s1.drop 4
      if n > P.maxLen then (.corrupt .tooBig, s2)
      else if n = 0 then (.corrupt .dataRead, s2)   -- GroupReader.Read: "given empty slice"
      else if s2.length < n then (.corrupt .dataRead, [])
      else check P c (s2.take n) (s2.drop n)

/-- `WALDecoder.Decode` reading from an `*os.File`. -/
def decodeF (P : Params) (s : Bytes) : DecRes × Bytes :=
  if s.isEmpty then (.eof, [])
  else
    let c := padTo 4 (s.take 4)
    let s1 := s.drop 4
    if s1.isEmpty then (.corrupt .lenRead, [])
    else
      let n := ofBe32 (s1.take 4)
      let s2 := s1.drop 4
      if n > P.maxLen then (.corrupt .tooBig, s2)
      else if n = 0 then check P c [] s2
      else if s2.isEmpty then (.corrupt .dataRead, [])
      else check P c (padTo n (s2.take n)) (s2.drop n)

/-- decode records until the first non-record (`for { msg, err := dec.Decode(); if err != nil {break} }`);
returns the records and how the loop ended (`.eof` or `.corrupt _`). Fuel: every successful
decode consumes at least 8 bytes. -/
def decodeAllWith (dec : Bytes → DecRes × Bytes) : Nat → Bytes → List Bytes × DecRes
  | 0, _ => ([], .eof)
  | fuel + 1, s =>
    match dec s with
    | (.msg d, rest) =>
      let (ds, e) := decodeAllWith dec fuel rest
      (d :: ds, e)
    | (r, _) => ([], r)

def readAllG (P : Params) (s : Bytes) : List Bytes × DecRes := decodeAllWith (decodeG P) (s.length + 1) s
def readAllF (P : Params) (s : Bytes) : List Bytes × DecRes := decodeAllWith (decodeF P) (s.length + 1) s

/-- `repairWalFile`: decode from the copy until the first error, re-encode every message.
(`Encode` of a decoded message cannot be too big: its length was checked by the decoder.) -/
def repair (P : Params) (corrupted : Bytes) : Bytes := frames P (readAllF P corrupted).1

end Tmv.Wal
