import Tmv.Model.PubSub
import Tmv.Model.Index
/-! Model of /repo types/event_bus.go: `validateAndStringifyEvents` (the flattening of ABCI events
into the map the pubsub server matches queries against) and the reserved keys `PublishEventTx` /
`PublishEventNewBlockHeader` add.  Every attribute is published whatever its `index` flag; events
with an empty type and attributes with an empty KEY are skipped — an empty VALUE is kept. -/
namespace Tmv.EventBus
open Tmv.Query Tmv.Index

/-- `validateAndStringifyEvents` as an ordered list of (composite key, value) -/
def flatten (evs : List Event) : List (Str × Str) :=
  evs.flatMap fun e =>
    if e.type.isEmpty then []
    else e.attrs.filterMap fun a =>
      if a.key.isEmpty then none else some (e.type ++ dot :: a.key, a.value)

/-- Go map built by appending values per key, in order -/
def mapOf (A : List (Str × Str)) : Events := A.foldl (fun ev kv => groupInsert ev kv.1 kv.2) []

def tmEventKey : Str := [116, 109, 46, 101, 118, 101, 110, 116]   -- "tm.event"
def evTx : Str := [84, 120]                                          -- "Tx"
def evNewBlockHeader : Str := "NewBlockHeader".toUTF8.toList

def upperHexDigit (n : Nat) : UInt8 := if n < 10 then UInt8.ofNat (48 + n) else UInt8.ofNat (55 + n)

/-- `fmt.Sprintf("%X", hash)` -/
def upperHex (b : Bytes) : Str :=
  b.flatMap fun x => [upperHexDigit (x.toNat / 16), upperHexDigit (x.toNat % 16)]

/-- the event map of `PublishEventTx` -/
def txEvents (H : Bytes → Bytes) (height : Nat) (tx : Bytes) (evs : List Event) : Events :=
  mapOf (flatten evs ++ [(tmEventKey, evTx), (txHashKey, upperHex (H tx)), (txHeightKey, dec height)])

/-- the event map of `PublishEventNewBlockHeader` (begin events, then end events) -/
def headerEvents (beginEv endEv : List Event) : Events :=
  mapOf (flatten (beginEv ++ endEv) ++ [(tmEventKey, evNewBlockHeader)])

end Tmv.EventBus
