import Tmv.Gen.Facts
/-! Model of the consensus messages' `ValidateBasic` (consensus/reactor.go in this tree) as far as
they decide which bit arrays and indices reach the peer-state handlers, and of the index use of
`libs/bits.BitArray.setIndex`. Core-only.

A `BitArray` decoded from the wire carries `Bits` and `Elems` independently: the model keeps the
number of bits and the LENGTH of `Elems` (the contents do not matter for index safety). -/
namespace Tmv.PeerMsgs

def maxVotesCount : Int := Facts.types_MaxVotesCount
def maxBlockPartsCount : Int := Facts.types_MaxBlockPartsCount

structure BitArr where
  bits : Int
  elems : Nat
deriving Repr, DecidableEq

/-- `bits.NewBitArray(n)`: nil for `n ≤ 0` -/
def newBitArray (n : Int) : Option BitArr :=
  if n ≤ 0 then none else some { bits := n, elems := ((n + 63) / 64).toNat }

/-- `(*BitArray).Size` (0 on nil) -/
def size : Option BitArr → Int
  | none => 0
  | some b => b.bits

/-- `(*BitArray).ValidateBasic` (repaired code): nil is valid; non-negative `Bits`,
`len(Elems) == (Bits+63)/64` -/
def BitArr.validateBasic : Option BitArr → Bool
  | none => true
  | some b => decide (0 ≤ b.bits) && decide ((b.elems : Int) = (b.bits + 63) / 64)

/-- does `SetIndex(i, v)` / `GetIndex(i)` index `Elems` out of range (Go panic)? The code returns
early on nil and on `i >= Bits`, then touches `Elems[i/64]` (Go `/` truncates). -/
def indexPanics (b : Option BitArr) (i : Int) : Bool :=
  match b with
  | none => false
  | some a =>
    if i ≥ a.bits then false
    else decide (Int.tdiv i 64 < 0) || decide (Int.tdiv i 64 ≥ (a.elems : Int))

/-- `types.IsVoteTypeValid` -/
def voteTypeValid (t : Int) : Bool := t = 1 ∨ t = 2

structure NewRoundStep where
  height : Int
  round : Int
  step : Nat            -- uint32 on the wire, cast to the uint8 RoundStepType
  lastCommitRound : Int
deriving Repr

/-- `NewRoundStepMessage.ValidateBasic` then `ValidateHeight(initialHeight)` -/
def NewRoundStep.valid (m : NewRoundStep) (initialHeight : Int) : Bool :=
  if m.height < 0 then false
  else if m.round < 0 then false
  else if ¬ (1 ≤ m.step % 256 ∧ m.step % 256 ≤ 8) then false
  else if m.lastCommitRound < -1 then false
  else if m.height < initialHeight then false
  else if m.height = initialHeight ∧ m.lastCommitRound ≠ -1 then false
  else if m.height > initialHeight ∧ m.lastCommitRound < 0 then false
  else true

structure NewValidBlock where
  height : Int
  round : Int
  total : Nat           -- BlockPartSetHeader.Total (uint32)
  hashLen : Nat         -- len(BlockPartSetHeader.Hash)
  parts : Option BitArr
deriving Repr

/-- `NewValidBlockMessage.ValidateBasic` -/
def NewValidBlock.valid (m : NewValidBlock) : Bool :=
  if m.height < 0 then false
  else if m.round < 0 then false
  else if m.hashLen > 0 ∧ m.hashLen ≠ 32 then false
  else if ¬ BitArr.validateBasic m.parts then false
  else if size m.parts = 0 then false
  else if size m.parts ≠ (m.total : Int) then false
  else if size m.parts > maxBlockPartsCount then false
  else true

structure ProposalPOL where
  height : Int
  polRound : Int
  pol : Option BitArr
deriving Repr

/-- `ProposalPOLMessage.ValidateBasic` -/
def ProposalPOL.valid (m : ProposalPOL) : Bool :=
  if m.height < 0 then false
  else if m.polRound < 0 then false
  else if ¬ BitArr.validateBasic m.pol then false
  else if size m.pol = 0 then false
  else if size m.pol > maxVotesCount then false
  else true

structure HasVote where
  height : Int
  round : Int
  type : Int
  index : Int
deriving Repr

/-- `HasVoteMessage.ValidateBasic` -/
def HasVote.valid (m : HasVote) : Bool :=
  if m.height < 0 then false
  else if m.round < 0 then false
  else if ¬ voteTypeValid m.type then false
  else if m.index < 0 then false
  else true

structure VoteSetBits where
  height : Int
  round : Int
  typeOk : Bool         -- IsVoteTypeValid(Type)
  blockIdOk : Bool      -- BlockID.ValidateBasic() == nil
  votes : Option BitArr
deriving Repr

/-- `VoteSetBitsMessage.ValidateBasic` (the round is not checked by the code) -/
def VoteSetBits.valid (m : VoteSetBits) : Bool :=
  if m.height < 0 then false
  else if ¬ m.typeOk then false
  else if ¬ m.blockIdOk then false
  else if ¬ BitArr.validateBasic m.votes then false
  else if size m.votes > maxVotesCount then false
  else true

end Tmv.PeerMsgs
