import Tmv.Model.Wal
/-! # autofile.Group + BaseWAL at the level of files (libs/autofile/group.go, consensus/wal.go,
consensus/state.go OnStart/repairWalFile, consensus/replay.go catchupReplay)

Disk = rotated files `<head>.NNN` (whole files, fsynced before the rename), the head file with a
synced watermark, and the `.CORRUPTED` backup written by a repair (it matters only because
`readGroupInfo` counts every file whose name starts with the head's name into the total size).
Process memory = the 40 KB `bufio.Writer` in front of the head and the group's `minIndex/maxIndex`
(`minIndex` is only ever set by `OpenGroup`: it goes stale when `checkTotalSizeLimit` removes
files, and a reader opened at a removed index re-creates it empty, `os.O_CREATE`). -/
namespace Tmv.Wal
open Tmv

structure Group where
  files : List (Nat × Bytes) := []   -- rotated files present on disk
  cor : Option Nat := none           -- size of `<head>.CORRUPTED`
  head : Bytes := []                 -- head file (what the OS has)
  synced : Nat := 0                  -- length of the head prefix that is on stable storage
  buf : Bytes := []                  -- bufio buffer (lost with the process)
  minIndex : Nat := 0
  maxIndex : Nat := 0
  headLimit : Nat := 0
  totalLimit : Nat := 0
  isOpen : Bool := false
  deriving Repr

def lookupFile (fs : List (Nat × Bytes)) (i : Nat) : Option Bytes := (fs.find? (·.1 = i)).map (·.2)

/-- create/replace file `i` (kept sorted by index) -/
def setFile : List (Nat × Bytes) → Nat → Bytes → List (Nat × Bytes)
  | [], i, b => [(i, b)]
  | (j, c) :: rest, i, b =>
    if i < j then (i, b) :: (j, c) :: rest
    else if i = j then (i, b) :: rest
    else (j, c) :: setFile rest i b

def removeFile (fs : List (Nat × Bytes)) (i : Nat) : List (Nat × Bytes) := fs.filter (·.1 ≠ i)

def sizeSum (fs : List (Nat × Bytes)) : Nat := (fs.map (·.2.length)).sum

structure GroupInfo where
  minIndex : Nat
  maxIndex : Nat
  totalSize : Nat
  deriving Repr, DecidableEq

/-- `readGroupInfo`: scans the directory (not the in-memory indices) -/
def readGroupInfo (g : Group) : GroupInfo :=
  let total := g.head.length + sizeSum g.files + g.cor.getD 0
  match g.files.map (·.1) with
  | [] => ⟨0, 0, total⟩
  | i :: is => ⟨is.foldl min i, is.foldl max i + 1, total⟩

/-- `bufio.Writer.Write` (size 4096*10) in front of an append-only file -/
def bufWrite (S : Nat) (head buf p : Bytes) : Bytes × Bytes :=
  if p.length ≤ S - buf.length then (head, buf ++ p)
  else
    let avail := S - buf.length
    let (head1, p1) := if buf.isEmpty then (head, p) else (head ++ buf ++ p.take avail, p.drop avail)
    if p1.length > S then (head1 ++ p1, []) else (head1, p1)

/-- `Group.Write` of one encoded record (`WALEncoder.Encode`); `none` = "msg is too big" -/
def write (P : Params) (S : Nat) (g : Group) (d : Bytes) : Option Group :=
  match encode P d with
  | none => none
  | some f =>
    let (h, b) := bufWrite S g.head g.buf f
    some { g with head := h, buf := b }

/-- `Group.FlushAndSync` -/
def flushAndSync (g : Group) : Group :=
  let h := g.head ++ g.buf
  { g with head := h, buf := [], synced := h.length }

/-- `BaseWAL.WriteSync` -/
def writeSync (P : Params) (S : Nat) (g : Group) (d : Bytes) : Option Group :=
  (write P S g d).map flushAndSync

/-- `RotateFile`: flush, fsync, close, rename head to index `maxIndex` -/
def rotateFile (g : Group) : Group :=
  let g1 := flushAndSync g
  { g1 with files := setFile g1.files g1.maxIndex g1.head, head := [], synced := 0,
            maxIndex := g1.maxIndex + 1 }

/-- `checkHeadSizeLimit`: the size is the head *file's* size (buffered bytes do not count) -/
def checkHeadSizeLimit (g : Group) : Group × Bool :=
  if g.headLimit = 0 then (g, false)
  else if g.head.length ≥ g.headLimit then (rotateFile g, true) else (g, false)

/-- loop of `checkTotalSizeLimit` (at most `maxFilesToRemove` rounds); returns removed indices -/
def pruneLoop (limit : Nat) (gi : GroupInfo) : Nat → Nat → Nat → List (Nat × Bytes) → List Nat →
    List (Nat × Bytes) × List Nat
  | 0, _, _, fs, rem => (fs, rem)
  | k + 1, i, total, fs, rem =>
    let index := gi.minIndex + i
    if total < limit then (fs, rem)
    else if index = gi.maxIndex then (fs, rem)
    else match lookupFile fs index with
      | none => pruneLoop limit gi k (i + 1) total fs rem        -- Stat failed: continue
      | some b => pruneLoop limit gi k (i + 1) (total - b.length) (removeFile fs index) (rem ++ [index])

def checkTotalSizeLimit (maxRemove : Nat) (g : Group) : Group × List Nat :=
  if g.totalLimit = 0 then (g, [])
  else
    let gi := readGroupInfo g
    let (fs, rem) := pruneLoop g.totalLimit gi maxRemove 0 gi.totalSize g.files []
    ({ g with files := fs }, rem)

/-- `OpenGroup` (+ `NewWAL`): limits from the options, indices from the directory, empty buffer.
Whatever the head file holds at that moment is what the disk kept. -/
def openGroup (g : Group) (hl tl : Nat) : Group :=
  let gi := readGroupInfo g
  { g with headLimit := hl, totalLimit := tl, minIndex := gi.minIndex, maxIndex := gi.maxIndex,
           buf := [], synced := g.head.length, isOpen := true }

/-- `BaseWAL.OnStart`: an empty head gets `EndHeightMessage{0}` written and synced (`e0` is its
marshalled form, which carries the current time) -/
def onStart (P : Params) (S : Nat) (g : Group) (e0 : Bytes) : Group × Bool :=
  if g.head.length = 0 then
    match writeSync P S g e0 with
    | some g' => (g', true)
    | none => (g, false)
  else (g, false)

/-- clean shutdown (`BaseWAL.OnStop`): flush, fsync, close -/
def stop (g : Group) : Group := { flushAndSync g with isOpen := false }

/-- crash: the process dies, possibly inside a `FlushAndSync` that never returned; the disk keeps
a prefix of the bytes handed to the head, at least the synced part: `cut` bytes are lost from the
end, clamped to the unsynced tail. -/
def crash (g : Group) (cut : Nat) : Group :=
  let w := g.head ++ g.buf
  let keep := max g.synced (w.length - cut)
  { g with head := w.take keep, buf := [], synced := keep, isOpen := false }

/-- files opened (and created when missing) by a `GroupReader` started at index `i` -/
def touchFrom (g : Group) (i : Nat) : Group :=
  let fs := (List.range' i (g.maxIndex - i)).foldl
      (fun fs j => match lookupFile fs j with
        | some _ => fs
        | none => setFile fs j []) g.files
  { g with files := fs }

/-- the bytes a `GroupReader` started at index `i` delivers: files `i .. maxIndex-1`, then the
head file (never the write buffer) -/
def streamFrom (g : Group) (i : Nat) : Bytes :=
  ((List.range' i (g.maxIndex - i)).map fun j => (lookupFile g.files j).getD []).flatten ++ g.head

/-- a reader over the whole group (`NewReader(MinIndex())`, decode until EOF or the first error) -/
def readAll (P : Params) (g : Group) : (List Bytes × DecRes) × Group :=
  (readAllG P (streamFrom g g.minIndex), touchFrom g g.minIndex)

inductive ScanRes where
  | found (rest : Bytes)
  | eofEnd
  | err (e : DecErr)
  deriving Repr

/-- inner loop of `SearchForEndHeight` over one reader; `last` = `lastHeightFound` -/
def scan (P : Params) (height : Int) (ignore : Bool) : Nat → Bytes → Int → ScanRes × Int
  | 0, _, last => (.eofEnd, last)
  | fuel + 1, s, last =>
    match decodeG P s with
    | (.eof, _) => (.eofEnd, last)
    | (.corrupt e, rest) => if ignore then scan P height ignore fuel rest last else (.err e, last)
    | (.msg d, rest) =>
      match P.parse d with
      | some (some h) => if h = height then (.found rest, h) else scan P height ignore fuel rest h
      | _ => scan P height ignore fuel rest last

inductive SearchRes where
  | found (rest : Bytes)
  | notFound
  | err (e : DecErr)
  deriving Repr

/-- outer loop of `SearchForEndHeight`: `index := max … min`, a fresh reader per index (each reads
on through the newer files), early exit when a marker `0 < h < height` was the last one seen.
Also returns the lowest index a reader was opened at. -/
def searchIdx (P : Params) (g : Group) (height : Int) (ignore : Bool) :
    List Nat → Int → Nat → SearchRes × Nat
  | [], _, low => (.notFound, low)
  | i :: is, last, _ =>
    let s := streamFrom g i
    match scan P height ignore (s.length + 2) s last with
    | (.found rest, _) => (.found rest, i)
    | (.err e, _) => (.err e, i)
    | (.eofEnd, last') =>
      if last' > 0 ∧ last' < height then (.notFound, i) else searchIdx P g height ignore is last' i

def search (P : Params) (g : Group) (height : Int) (ignore : Bool) : SearchRes × Group :=
  let idxs := (List.range' g.minIndex (g.maxIndex + 1 - g.minIndex)).reverse
  let (r, low) := searchIdx P g height ignore idxs (-1) (g.maxIndex + 1)
  (r, touchFrom g low)

inductive CatchRes where
  | ok (replayed : List Bytes)
  | foundCurrent          -- "wal should not contain #ENDHEIGHT h"
  | belowInitial
  | noMarker              -- "WAL does not contain #ENDHEIGHT for h-1"
  | searchErr (e : DecErr)
  | corrupt (replayed : List Bytes) (e : DecErr)
  deriving Repr

/-- `catchupReplay` at the WAL level (initial height 1): sanity search for `h`, search for the
previous marker, decode everything after it. -/
def catchup (P : Params) (g : Group) (h : Int) : CatchRes × Group :=
  match search P g h true with
  | (.err e, g1) => (.searchErr e, g1)
  | (.found _, g1) => (.foundCurrent, g1)
  | (.notFound, g1) =>
    if h < 1 then (.belowInitial, g1)
    else
      let endHeight := if h = 1 then 0 else h - 1
      match search P g1 endHeight true with
      | (.err e, g2) => (.searchErr e, g2)
      | (.notFound, g2) =>
        -- before the missing marker is written: a strict pass, so that a damaged tail is
        -- repaired first instead of being buried under new records
        match search P g2 endHeight false with
        | (.err e, g3) => (.corrupt [] e, g3)
        | (_, g3) => (.noMarker, g3)
      | (.found rest, g2) =>
        match readAllG P rest with
        | (ds, .corrupt e) => (.corrupt ds e, g2)
        | (ds, _) => (.ok ds, g2)

/-- steps 1–3 of the repair in `State.OnStart` + `loadWalFile`: stop the WAL, back the head up as
`.CORRUPTED`, rewrite the head with its decodable prefix (fsynced), open and start the WAL again
(`OpenWAL` passes no group options: the limits are the defaults `dhl`, `dtl` from then on) -/
def repairHead (P : Params) (S : Nat) (dhl dtl : Nat) (g : Group) (e0 : Bytes) : Group × Bool :=
  let g1 := stop g
  let h := repair P g1.head
  let g2 := { g1 with cor := some g1.head.length, head := h, synced := h.length }
  onStart P S (openGroup g2 dhl dtl) e0

inductive RecoverRes where
  | first (r : CatchRes)                    -- no repair attempted
  | repaired (e : DecErr) (r : CatchRes) (wrote : Bool)  -- first attempt hit corruption `e`, second gave `r`
  deriving Repr

/-- the catch-up loop of `State.OnStart` -/
def recover (P : Params) (S : Nat) (dhl dtl : Nat) (g : Group) (h : Int) (e0 : Bytes) :
    RecoverRes × Group :=
  match catchup P g h with
  | (.corrupt _ e, g1) =>
    let (g2, w) := repairHead P S dhl dtl g1 e0
    let (r, g3) := catchup P g2 h
    (.repaired e r w, g3)
  | (r, g1) => (.first r, g1)

/-! ## a `GroupReader` that stays open while the group is written, rotated and pruned -/

/-- cursor of an open `GroupReader`: file index, bytes consumed of that file, and — once the size
limit removed the file under it — the content of the unlinked file it still holds open -/
structure Reader where
  idx : Nat
  off : Nat := 0
  pinned : Option Bytes := none
  deriving Repr

/-- what the reader's open file holds: index `maxIndex` is the head file (under the group lock, at
the moment of each read), smaller ones are rotated files -/
def readerContent (g : Group) (r : Reader) : Bytes :=
  match r.pinned with
  | some b => b
  | none => if r.idx = g.maxIndex then g.head else (lookupFile g.files r.idx).getD []

/-- `GroupReader.openFile(j)` for `j ≤ maxIndex`: `O_CREATE` -/
def readerOpen (g : Group) (j : Nat) : Group :=
  if j < g.maxIndex then
    match lookupFile g.files j with
    | some _ => g
    | none => { g with files := setFile g.files j [] }
  else g

/-- `GroupReader.Read(p)` with `len(p) = need > 0`: fill from the current file; at its end move to
the next index if there is one (decided under the group lock, with the live `maxIndex`), else
return what was read together with `io.EOF`. Returns bytes, EOF flag, cursor, group. -/
def readerRead : Nat → Group → Reader → Nat → Bytes → Bytes × Bool × Reader × Group
  | 0, g, r, _, acc => (acc, true, r, g)
  | fuel + 1, g, r, need, acc =>
    let avail := (readerContent g r).drop r.off
    let k := min need avail.length
    let acc := acc ++ avail.take k
    let r := { r with off := r.off + k }
    if k = need then (acc, false, r, g)
    else if r.idx + 1 > g.maxIndex then (acc, true, r, g)
    else readerRead fuel (readerOpen g (r.idx + 1)) { idx := r.idx + 1 } (need - k) acc

/-- third read of `Decode` on an open reader: the payload -/
def readerDecode3 (P : Params) (fuel : Nat) (c lb : Bytes) (g2 : Group) (r2 : Reader) :
    DecRes × Reader × Group :=
  match readerRead fuel g2 r2 (ofBe32 lb) [] with
  | (d, eof3, r3, g3) =>
    if eof3 then (.corrupt .dataRead, r3, g3) else ((check P c d []).1, r3, g3)

/-- second read: the length field, and the checks on it -/
def readerDecode2 (P : Params) (fuel : Nat) (c : Bytes) (g1 : Group) (r1 : Reader) :
    DecRes × Reader × Group :=
  match readerRead fuel g1 r1 4 [] with
  | (lb, eof2, r2, g2) =>
    if eof2 then (.corrupt .lenRead, r2, g2)
    else if ofBe32 lb > P.maxLen then (.corrupt .tooBig, r2, g2)
    else if ofBe32 lb = 0 then (.corrupt .dataRead, r2, g2)
    else readerDecode3 P fuel c lb g2 r2

/-- `WALDecoder.Decode` on an open group reader (same branches as `decodeG`) -/
def readerDecode (P : Params) (g : Group) (r : Reader) : DecRes × Reader × Group :=
  match readerRead (g.maxIndex + 2) g r 4 [] with
  | (c, eof1, r1, g1) =>
    if eof1 then ((if c.isEmpty then .eof else .corrupt .crcRead), r1, g1)
    else readerDecode2 P (g.maxIndex + 2) c g1 r1

/-- decode up to `n` records, stop at the first non-record -/
def readerNext (P : Params) : Nat → Group → Reader → List Bytes × Option DecRes × Reader × Group
  | 0, g, r => ([], none, r, g)
  | n + 1, g, r =>
    match readerDecode P g r with
    | (.msg d, r', g') =>
      let (ds, e, r'', g'') := readerNext P n g' r'
      (d :: ds, e, r'', g'')
    | (x, r', g') => ([], some x, r', g')

/-- cursor of a reader started at index `i` after it consumed `c > 0` bytes (it stays in the file
that holds the last byte it read) -/
def readerAfter (g : Group) : Nat → Nat → Nat → Reader
  | 0, i, c => { idx := i, off := c }
  | fuel + 1, i, c =>
    let len := (readerContent g { idx := i }).length
    if c > len ∧ i < g.maxIndex then readerAfter g fuel (i + 1) (c - len) else { idx := i, off := c }

/-- the size limit removed files: readers positioned in one of them keep the unlinked content -/
def pinReaders (g : Group) (removed : List Nat) (rs : List (String × Reader)) : List (String × Reader) :=
  rs.map fun (n, r) =>
    if r.pinned.isNone ∧ removed.contains r.idx ∧ r.idx ≠ g.maxIndex then
      (n, { r with pinned := some ((lookupFile g.files r.idx).getD []) })
    else (n, r)

def lastAttempt : RecoverRes → CatchRes
  | .first r => r
  | .repaired _ r _ => r

/-- `catchupReplay`'s marker-missing branch (repaired code, commit fe30a5c): when the marker of the
previous height is not found (and the strict pass of `catchup` saw no damage),
`WriteSync(EndHeightMessage{endHeight})` (`em` = its marshalled
form) and return nil — whatever the tail of the head looks like. -/
def recoverW (P : Params) (S : Nat) (dhl dtl : Nat) (g : Group) (h : Int) (e0 em : Bytes) :
    RecoverRes × Group :=
  let (res, g') := recover P S dhl dtl g h e0
  match lastAttempt res with
  | .noMarker => (res, (writeSync P S g' em).getD g')
  | _ => (res, g')

end Tmv.Wal
