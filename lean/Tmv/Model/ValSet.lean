import Tmv.Gen.Facts
/-! Executable model of `types/validator_set.go` + `types/validator.go` (tendermint v0.34.24):
`updateWithChangeSet` pipeline, `RescalePriorities`, `shiftByAvgProposerPriority`,
`IncrementProposerPriority`, `NewValidatorSet`.  Core Lean only.

Conventions.  int64 values are `Int`; the clamp operations `safeAddClip/safeSubClip` and the
places where Go's int64 arithmetic could wrap (`computeMaxMinPriorityDiff`, the `ratio`
computation) are explicit (`wrap64`), lemmas in `Lemmas/ValSet*.lean` show when they are dead.
Go `/` on int64 = `Int.tdiv`; `big.Int.Div` (Euclidean) = `/` on `Int` (`Int.ediv`); `>> 3` on
int64 = floor division by 8.  An address is the big-endian value of its `AddressSize` (20) bytes,
so `bytes.Compare` is `<` on `Nat` (addresses of other lengths are outside the model; the driver
rejects them).  A `*Validator` mutated in place becomes a replaced list element. -/
namespace Tmv.ValSet

def maxI64 : Int := 9223372036854775807
def minI64 : Int := -9223372036854775808
/-- `MaxTotalVotingPower`, from the regenerated fact. -/
def maxTotal : Int := Facts.c08_MaxTotalVotingPower
/-- `PriorityWindowSizeFactor`, from the regenerated fact. -/
def windowFactor : Int := Facts.c08_PriorityWindowSizeFactor

/-- two's-complement wrap of an int64 result -/
def wrap64 (x : Int) : Int := (x + 9223372036854775808) % 18446744073709551616 - 9223372036854775808

/-- `safeAddClip` -/
def safeAddClip (a b : Int) : Int :=
  if b > 0 ∧ a > maxI64 - b then maxI64
  else if b < 0 ∧ a < minI64 - b then minI64
  else a + b

/-- `safeSubClip` -/
def safeSubClip (a b : Int) : Int :=
  if b > 0 ∧ a < minI64 + b then minI64
  else if b < 0 ∧ a > maxI64 + b then maxI64
  else a - b

structure Val where
  addr : Nat
  power : Int
  prio : Int
deriving DecidableEq, Repr, Inhabited

structure VSet where
  vals : List Val
  proposer : Option Val
deriving DecidableEq, Repr, Inhabited

def VSet.empty : VSet := ⟨[], none⟩

/-! ### sorting (insertion sort: structural, stable) -/

def insertBy (le : Val → Val → Bool) (x : Val) : List Val → List Val
  | [] => [x]
  | y :: ys => if le x y then x :: y :: ys else y :: insertBy le x ys

def sortBy (le : Val → Val → Bool) : List Val → List Val
  | [] => []
  | x :: xs => insertBy le x (sortBy le xs)

/-- `ValidatorsByAddress.Less` (as ≤; addresses in a set are unique) -/
def leAddr (a b : Val) : Bool := a.addr ≤ b.addr
/-- `ValidatorsByVotingPower.Less`: power descending, then address ascending -/
def lePower (a b : Val) : Bool := a.power > b.power ∨ (a.power = b.power ∧ a.addr ≤ b.addr)

def insertInt (x : Int) : List Int → List Int
  | [] => [x]
  | y :: ys => if x ≤ y then x :: y :: ys else y :: insertInt x ys
def sortInt : List Int → List Int
  | [] => []
  | x :: xs => insertInt x (sortInt xs)

/-! ### totals -/

/-- the loop of `updateTotalVotingPower`: clipped running sum -/
def totalFrom (acc : Int) : List Val → Int
  | [] => acc
  | v :: r => totalFrom (safeAddClip acc v.power) r

/-- `updateTotalVotingPower` panics iff some prefix sum exceeds `MaxTotalVotingPower` -/
def totalPanicsFrom (acc : Int) : List Val → Bool
  | [] => false
  | v :: r => let s := safeAddClip acc v.power; if s > maxTotal then true else totalPanicsFrom s r

def totalPower (l : List Val) : Int := totalFrom 0 l
def totalPanics (l : List Val) : Bool := totalPanicsFrom 0 l

/-! ### priorities: rescale, centre, increment -/

def maxPrioFrom (m : Int) : List Val → Int
  | [] => m
  | v :: r => maxPrioFrom (if v.prio > m then v.prio else m) r
def minPrioFrom (m : Int) : List Val → Int
  | [] => m
  | v :: r => minPrioFrom (if v.prio < m then v.prio else m) r

/-- `computeMaxMinPriorityDiff` -/
def prioDiff (l : List Val) : Int :=
  let d := wrap64 (maxPrioFrom minI64 l - minPrioFrom maxI64 l)
  if d < 0 then wrap64 (-1 * d) else d

def setPrio (v : Val) (p : Int) : Val := { v with prio := p }

/-- `RescalePriorities(diffMax)` (a zero `ratio` makes Go panic; `Int.tdiv _ 0 = 0` here — dead,
see `Lemmas`) -/
def rescale (l : List Val) (diffMax : Int) : List Val :=
  if diffMax ≤ 0 then l else
  let diff := prioDiff l
  let ratio := Int.tdiv (wrap64 (wrap64 (diff + diffMax) - 1)) diffMax
  if diff > diffMax then l.map (fun v => setPrio v (Int.tdiv v.prio ratio)) else l

def prioSum : List Val → Int
  | [] => 0
  | v :: r => v.prio + prioSum r

/-- `computeAvgProposerPriority` (big.Int: exact sum, Euclidean division by n > 0) -/
def avgPrio (l : List Val) : Int := prioSum l / (l.length : Int)

/-- `shiftByAvgProposerPriority` -/
def shiftByAvg (l : List Val) : List Val :=
  let avg := avgPrio l
  l.map (fun v => setPrio v (safeSubClip v.prio avg))

/-- `Validator.CompareProposerPriority` (receiver may be nil); identical addresses make Go panic,
the model keeps the receiver (dead for unique addresses) -/
def cmpPrio (v : Option Val) (o : Val) : Val :=
  match v with
  | none => o
  | some v =>
    if v.prio > o.prio then v
    else if v.prio < o.prio then o
    else if v.addr < o.addr then v
    else if v.addr > o.addr then o
    else v

/-- `getValWithMostPriority` -/
def mostFrom (res : Option Val) : List Val → Option Val
  | [] => res
  | v :: r => mostFrom (some (cmpPrio res v)) r
def mostPrio (l : List Val) : Option Val := mostFrom none l

/-- one `incrementProposerPriority()`: everybody gains its power, the validator with the most
priority pays the total and is returned -/
def incrOnce (l : List Val) (total : Int) : List Val × Option Val :=
  let l1 := l.map (fun v => setPrio v (safeAddClip v.prio v.power))
  match mostPrio l1 with
  | none => (l1, none)
  | some m =>
    let m' := setPrio m (safeSubClip m.prio total)
    (l1.map (fun v => if v.addr = m.addr then m' else v), some m')

def incrLoop : Nat → List Val → Int → Option Val → List Val × Option Val
  | 0, l, _, p => (l, p)
  | n+1, l, total, _ =>
    let r := incrOnce l total
    incrLoop n r.1 total r.2

/-- the normalisation prefix of `IncrementProposerPriority`: rescale to the window, centre -/
def normalize (l : List Val) : List Val :=
  shiftByAvg (rescale l (windowFactor * totalPower l))

/-- `IncrementProposerPriority(times)`; `none` = Go panics (empty set / non-positive times) -/
def increment (s : VSet) (times : Int) : Option VSet :=
  if s.vals = [] then none
  else if times ≤ 0 then none
  else
    let total := totalPower s.vals
    let r := incrLoop times.toNat (normalize s.vals) total none
    some ⟨r.1, r.2⟩

/-! ### updateWithChangeSet -/

inductive UpdErr
  | dup | negative | tooBig | zeroPower | empty | removeMissing | overflow | panicTotal
deriving DecidableEq, Repr

def findAddr (l : List Val) (a : Nat) : Option Val := l.find? (fun v => v.addr = a)
def hasAddr (l : List Val) (a : Nat) : Bool := l.any (fun v => v.addr = a)

/-- the scan of `processChanges` over the address-sorted copy; `prev` is `prevAddr` -/
def scanChanges (prev : Option Nat) : List Val → Except UpdErr (List Val × List Val)
  | [] => .ok ([], [])
  | v :: rest =>
    if some v.addr = prev then .error .dup
    else if v.power < 0 then .error .negative
    else if v.power > maxTotal then .error .tooBig
    else
      match scanChanges (some v.addr) rest with
      | .error e => .error e
      | .ok (u, r) => if v.power = 0 then .ok (u, v :: r) else .ok (v :: u, r)

/-- `processChanges` → (updates, removals), both sorted by address -/
def processChanges (changes : List Val) : Except UpdErr (List Val × List Val) :=
  scanChanges none (sortBy leAddr changes)

def numNewValidators (updates vals : List Val) : Nat :=
  (updates.filter (fun u => !hasAddr vals u.addr)).length

/-- `verifyRemovals`: removed power, or the missing-validator error -/
def verifyRemovals (vals : List Val) : List Val → Int → Option Int
  | [], acc => some acc
  | d :: ds, acc =>
    match findAddr vals d.addr with
    | none => none
    | some v => verifyRemovals vals ds (acc + v.power)

/-- the `delta` closure of `verifyUpdates` -/
def delta (vals : List Val) (u : Val) : Int :=
  match findAddr vals u.addr with
  | some v => u.power - v.power
  | none => u.power

def checkSums (acc : Int) : List Int → Option Int
  | [] => some acc
  | d :: ds => if acc + d > maxTotal then none else checkSums (acc + d) ds

/-- `verifyUpdates`: deltas visited in ascending order, running total checked against the limit;
`some tvpAfterUpdatesBeforeRemovals` or `none` = ErrTotalVotingPowerOverflow -/
def verifyUpdates (updates vals : List Val) (removedPower : Int) : Option Int :=
  (checkSums (totalPower vals - removedPower) (sortInt (updates.map (delta vals)))).map
    (· + removedPower)

/-- `computeNewPriorities` (`x >> 3` = floor(x/8)) -/
def computeNewPriorities (updates vals : List Val) (tvp : Int) : List Val :=
  updates.map fun u =>
    match findAddr vals u.addr with
    | none => setPrio u (-(tvp + tvp / 8))
    | some v => setPrio u v.prio

/-- the merge loop of `applyUpdates` (both lists sorted by address); fuel ≥ |es|+|us| -/
def mergeUpd : Nat → List Val → List Val → List Val
  | 0, es, us => es ++ us
  | _+1, [], us => us
  | _+1, es, [] => es
  | f+1, e :: es, u :: us =>
    if e.addr < u.addr then e :: mergeUpd f es (u :: us)
    else if e.addr = u.addr then u :: mergeUpd f es us
    else u :: mergeUpd f (e :: es) us

def applyUpdates (vals updates : List Val) : List Val :=
  let existing := sortBy leAddr vals
  mergeUpd (existing.length + updates.length) existing updates

/-- `applyRemovals` (existing exhausted before the deletes = Go index panic; dead after
`verifyRemovals`) -/
def applyRemovals : List Val → List Val → List Val
  | es, [] => es
  | [], _ :: _ => []
  | e :: es, d :: ds =>
    if e.addr = d.addr then applyRemovals es ds else e :: applyRemovals es (d :: ds)

/-- the part of `updateWithChangeSet` after `processChanges` (statement order as in the source) -/
def updateCore (s : VSet) (updates deletes : List Val) (allowDeletes : Bool) : VSet × Option UpdErr :=
  if !allowDeletes ∧ deletes ≠ [] then (s, some .zeroPower) else
  if numNewValidators updates s.vals = 0 ∧ s.vals.length = deletes.length then (s, some .empty) else
  match verifyRemovals s.vals deletes 0 with
  | none => (s, some .removeMissing)
  | some removed =>
    match verifyUpdates updates s.vals removed with
    | none => (s, some .overflow)
    | some tvp =>
      let updates' := computeNewPriorities updates s.vals tvp
      let v1 := applyUpdates s.vals updates'
      let v2 := applyRemovals v1 deletes
      if totalPanics v2 then (⟨v2, s.proposer⟩, some .panicTotal) else
      let v3 := rescale v2 (windowFactor * totalPower v2)
      let v4 := shiftByAvg v3
      (⟨sortBy lePower v4, s.proposer⟩, none)

/-- `updateWithChangeSet(changes, allowDeletes)`: returns the receiver after the call and the
error (if any).  Statement order as in the source. -/
def updateWithChangeSet (s : VSet) (changes : List Val) (allowDeletes : Bool) : VSet × Option UpdErr :=
  if changes = [] then (s, none) else
  match processChanges changes with
  | .error e => (s, some e)
  | .ok (updates, deletes) => updateCore s updates deletes allowDeletes

/-- `NewValidatorSet(valz)`; an error of the update makes Go panic -/
def newValidatorSet (valz : List Val) : Except UpdErr VSet :=
  match updateWithChangeSet VSet.empty valz false with
  | (_, some e) => .error e
  | (s, none) =>
    if valz = [] then .ok s
    else match increment s 1 with
      | some s' => .ok s'
      | none => .ok s

end Tmv.ValSet
