import Tmv.Model.Validate
import Tmv.Model.CommitVerify
/-! The last-commit clause of `validateBlock` with C07's model of `ValidatorSet.VerifyCommit`
(`Tmv.CommitVerify.verifyCommit`) in place of an opaque verdict: `cvEnv` is the environment of the
code with `verifyCommit` = that function; only the signature predicate `sigOK` (ed25519) and the
evidence pool's answer stay open. -/
namespace Tmv.Validate
open Tmv.ProtoSize

/-- identity of a public key for C07's model (injective in the key bytes) -/
def keyId (b : Bytes) : Nat := b.foldl (fun a x => a * 256 + x.toNat) 1

/-- the chain id as the `string` C07's sign-bytes record carries -/
def chainStr (b : Bytes) : String := String.ofList (b.map fun x => Char.ofNat x.toNat)

def toCVBlockID (b : BlockID) : CommitVerify.BlockID := ⟨b.hash, b.total, b.psHash⟩

def toCVVals (vs : ValSet) : List CommitVerify.Validator :=
  vs.map fun v => ⟨v.addr, keyId v.pubKey, v.power⟩

def toCVCommit (c : Commit) : CommitVerify.Commit Bytes :=
  { height := c.height, round := c.round, blockID := toCVBlockID c.blockID,
    sigs := c.sigs.map fun s => ⟨s.flag, s.addr, s.ts, s.sig⟩ }

/-- error class of a `VerifyCommit` verdict (`none` = nil error) -/
def resClass : CommitVerify.Res → Option String
  | .ok => none
  | .size _ _ => some "size"
  | .height => some "height"
  | .blockID => some "blockid"
  | .wrongSig _ => some "sig"
  | .notEnough _ _ => some "power"
  | _ => some "panic"

/-- `vals.VerifyCommit(chainID, blockID, height, commit)` through C07's model -/
def cvVerify (sigOK : Nat → CommitVerify.SignBytes → Bytes → Bool)
    (vs : ValSet) (chain : Bytes) (bid : BlockID) (h : Int) (c : Commit) : Option String :=
  resClass (CommitVerify.verifyCommit sigOK (toCVVals vs) (chainStr chain) (toCVBlockID bid) h
    (toCVCommit c))

/-- the environment of the code: SHA-256-shaped hashes over `H`, `VerifyCommit` as modelled -/
def cvEnv (H : Bytes → Bytes) (sigOK : Nat → CommitVerify.SignBytes → Bytes → Bool)
    (adm : State → List Ev → Bool) : Env :=
  concreteEnv H (cvVerify sigOK) adm

end Tmv.Validate
