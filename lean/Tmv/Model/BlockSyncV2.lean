import Tmv.Model.BlockSync
/-! Model of /repo blockchain/v2/processor.go (`pcState.handle`) over its real context
(processor_context.go `pContext`: `verifyCommit` = `state.Validators.VerifyCommitLight`,
`saveBlock`, `applyBlock` = `BlockExecutor.ApplyBlock`, whose first step is `validateBlock`).
Unlike v0, the processor does not validate the block before `saveBlock`: an invalid block makes
`applyBlock` fail AFTER the save and the processor panics. `bcResetState` (state sync, before the
processor has handled anything) is the initial state here. -/
namespace Tmv.BlockSync.V2
open Tmv.BlockSync

structure QItem where
  block : Block
  peer : Nat
deriving DecidableEq, Repr

/-- `pcState` + the context's state and store; `dead` = a panic has unwound the routine -/
structure Pc where
  queue : List (Int × QItem)        -- `blockQueue` (a map: at most one entry per height)
  draining : Bool
  blocksSynced : Nat
  st : St
  store : List (Block × Commit)
  dead : Bool
deriving DecidableEq, Repr

def Pc.new (st : St) : Pc := ⟨[], false, 0, st, [], false⟩

inductive Ev
  | scFinished
  | peerError (id : Nat)
  | blockReceived (id : Nat) (b : Option Block)
  | processBlock
deriving Repr

inductive Out
  | noOp
  | finished (synced : Nat)
  | failure (h : Int) (p1 p2 : Nat)
  | processed (h : Int) (p : Nat)
  | panicDup
  | panicApply
deriving DecidableEq, Repr

def Pc.get? (p : Pc) (h : Int) : Option QItem := (p.queue.find? (·.1 = h)).map (·.2)

/-- `purgePeer` -/
def Pc.purge (p : Pc) (id : Nat) : Pc := { p with queue := p.queue.filter (·.2.peer ≠ id) }

section
variable (sigOK : Nat → SignBytes → Nat → Bool)

/-- `pcState.handle` -/
def Pc.handle (p : Pc) : Ev → Pc × Out
  | .scFinished =>
    if p.queue.length ≤ 1 then (p, .finished p.blocksSynced)
    else ({ p with draining := true }, .noOp)
  | .peerError id => (p.purge id, .noOp)
  | .blockReceived _ none => (p, .noOp)
  | .blockReceived id (some b) =>
    if b.height > p.st.lastHeight then
      (if (p.get? b.height).isSome then ({ p with dead := true }, .panicDup)
       else ({ p with queue := p.queue ++ [(b.height, ⟨b, id⟩)] }, .noOp))
    else (p, .noOp)
  | .processBlock =>
    match p.get? (p.st.lastHeight + 1), p.get? (p.st.lastHeight + 2) with
    | some fi, some se =>
      match verifyCommitLight sigOK p.st.vals fi.block.id fi.block.height se.block.lastCommit with
      | .error _ =>
        let p1 := p.purge fi.peer
        let p2 := if fi.peer ≠ se.peer then p1.purge se.peer else p1
        (p2, .failure fi.block.height fi.peer se.peer)
      | .ok _ =>
        -- saveBlock, then applyBlock (validateBlock first)
        let saved := { p with store := (fi.block, se.block.lastCommit) :: p.store }
        match validate sigOK p.st fi.block with
        | .error _ => ({ saved with dead := true }, .panicApply)
        | .ok _ =>
          ({ saved with st := applyBlock p.st fi.block,
                        queue := saved.queue.filter (·.1 ≠ fi.block.height),
                        blocksSynced := p.blocksSynced + 1 },
           .processed fi.block.height fi.peer)
    | _, _ => if p.draining then (p, .finished p.blocksSynced) else (p, .noOp)

/-- after a panic nothing is handled any more -/
def Pc.step (p : Pc) (e : Ev) : Pc := if p.dead then p else (p.handle sigOK e).1

def Pc.run (p : Pc) (es : List Ev) : Pc := es.foldl (Pc.step sigOK) p

end
end Tmv.BlockSync.V2
