/-! Executable model of one height of the Tendermint consensus state machine as implemented in
`consensus/state.go` (handleMsg / handleTimeout / handleTxsAvailable / enterNewRound / enterPropose /
defaultDecideProposal / enterPrevote / defaultDoPrevote / enterPrevoteWait / enterPrecommit /
enterPrecommitWait / enterCommit / tryFinalizeCommit / finalizeCommit / defaultSetProposal /
addProposalBlockPart / handleCompleteProposal / addVote), `types/vote_set.go` (addVote /
addVerifiedVote / SetPeerMaj23), `consensus/types/height_vote_set.go` (SetRound / AddVote / POLInfo /
SetPeerMaj23) and the signer's `privval/file.go` CheckHRS + signVote/signProposal.

Conventions: one height; a block id `Nat` stands for (block hash, part-set header) of a one-part
block; `none : Bid` is the nil block id; validators are indices `0..n-1`; peers are `Nat` with `0` the
node itself (Go peer id ""); panics of the Go code are `Output.panic` and halt the machine (as
`receiveRoutine` does); own proposal / block part / votes travel through an explicit FIFO queue.
Core Lean only. -/
namespace Tmv.Cons

/-- `cstypes.RoundStepType` -/
inductive Step | newHeight | newRound | propose | prevote | prevoteWait | precommit | precommitWait | commit
  deriving DecidableEq, Repr, Inhabited

/-- the Go constants `RoundStepNewHeight = 1 … RoundStepCommit = 8` -/
def Step.rank : Step → Nat
  | .newHeight => 1 | .newRound => 2 | .propose => 3 | .prevote => 4
  | .prevoteWait => 5 | .precommit => 6 | .precommitWait => 7 | .commit => 8

abbrev Bid := Option Nat
abbrev Peer := Nat

inductive VType | prevote | precommit
  deriving DecidableEq, Repr, Inhabited

structure Vote where
  typ : VType
  round : Nat
  bid : Bid
  val : Nat        -- ValidatorIndex
  sigOK : Bool     -- the signature bytes are an intact signature by `signer`'s key
  addr : Nat       -- index of the validator whose address is in ValidatorAddress
  signer : Nat     -- index of the validator whose key signed
  deriving DecidableEq, Repr, Inhabited

structure Proposal where
  round : Nat
  bid : Nat
  pol : Int
  signer : Nat    -- index of the validator whose key signed it
  deriving DecidableEq, Repr, Inhabited

structure Cfg where
  n : Nat
  power : Nat → Nat
  self : Option Nat            -- our validator index; none = no private validator
  proposer : Nat → Nat         -- number of priority increments applied ↦ proposer index
  valid : Nat → Bool           -- verdict of BlockExecutor.ValidateBlock per block id
  ownBlock : Nat               -- the block createProposalBlock yields
  waitForTxs : Bool            -- config.WaitForTxs()
  needProofBlock : Bool        -- needProofBlock(height)
  emptyInterval : Bool         -- config.CreateEmptyBlocksInterval > 0
  checkHRS : Bool              -- signer is a FilePV (true) / signs anything (MockPV, false)

def Cfg.total (c : Cfg) : Nat := ((List.range c.n).map c.power).sum
/-- `valSet.TotalVotingPower()*2/3 + 1` -/
def Cfg.quorum (c : Cfg) : Nat := c.total * 2 / 3 + 1

/-! ### types.VoteSet -/

structure BlockVotes where
  peerMaj23 : Bool
  voted : List Nat       -- validator indices with a vote in this bucket
  sum : Nat
  deriving Repr, Inhabited

structure VoteSet where
  votes : List (Nat × Bid)          -- votes[valIndex] (canonical vote's block id)
  sum : Nat
  maj23 : Option Bid
  byBlock : List (Bid × BlockVotes)
  peerMaj23s : List (Peer × Bid)
  deriving Repr, Inhabited

def VoteSet.empty : VoteSet := ⟨[], 0, none, [], []⟩

def alookup {α β} [DecidableEq α] (l : List (α × β)) (k : α) : Option β :=
  (l.find? (fun p => p.1 = k)).map (·.2)

def aset {α β} [DecidableEq α] (l : List (α × β)) (k : α) (v : β) : List (α × β) :=
  if (l.any fun p => p.1 = k) then l.map (fun p => if p.1 = k then (k, v) else p) else l ++ [(k, v)]

/-- `VoteSet.getVote` -/
def VoteSet.getVote (vs : VoteSet) (idx : Nat) (key : Bid) : Bool :=
  (match alookup vs.votes idx with
   | some b => b = key
   | none => false) ||
  (match alookup vs.byBlock key with
   | some bv => bv.voted.contains idx
   | none => false)

/-- `blockVotes.addVerifiedVote` -/
def BlockVotes.add (bv : BlockVotes) (idx power : Nat) : BlockVotes :=
  if bv.voted.contains idx then bv else { bv with voted := bv.voted ++ [idx], sum := bv.sum + power }

/-- second half of `VoteSet.addVerifiedVote`: add to the bucket, detect the quorum crossing -/
def VoteSet.finish (c : Cfg) (vs : VoteSet) (idx : Nat) (key : Bid) (bv : BlockVotes) : VoteSet × Bool :=
  let origSum := bv.sum
  let bv' := bv.add idx (c.power idx)
  let vs := { vs with byBlock := aset vs.byBlock key bv' }
  let vs :=
    if origSum < c.quorum ∧ c.quorum ≤ bv'.sum then
      if vs.maj23.isNone then
        { vs with maj23 := some key,
                  votes := bv'.voted.foldl (fun vv i => aset vv i key) vs.votes }
      else vs
    else vs
  (vs, true)

/-- first half of `VoteSet.addVerifiedVote`: the canonical `votes[valIndex]` slot and `sum` -/
def VoteSet.recordVote (c : Cfg) (vs : VoteSet) (idx : Nat) (key : Bid) : VoteSet :=
  match alookup vs.votes idx with
  | some _ =>
    -- Replace vote if blockKey matches voteSet.maj23.
    if vs.maj23 = some key then { vs with votes := aset vs.votes idx key } else vs
  | none => { vs with votes := aset vs.votes idx key, sum := vs.sum + c.power idx }

/-- `VoteSet.addVerifiedVote`; returns the new set and `added` -/
def VoteSet.addVerified (c : Cfg) (vs : VoteSet) (idx : Nat) (key : Bid) : VoteSet × Bool :=
  let conflicting := (alookup vs.votes idx).isSome
  let vs := vs.recordVote c idx key
  match alookup vs.byBlock key with
  | some bv =>
    if conflicting && !bv.peerMaj23 then (vs, false) else
    VoteSet.finish c vs idx key bv
  | none =>
    if conflicting then (vs, false) else
    VoteSet.finish c vs idx key ⟨false, [], 0⟩

/-- `VoteSet.addVote` (height/round/type already match by construction) -/
def VoteSet.addVote (c : Cfg) (vs : VoteSet) (v : Vote) : VoteSet × Bool :=
  if v.val ≥ c.n then (vs, false)                 -- ErrVoteInvalidValidatorIndex
  else if v.addr ≠ v.val then (vs, false)         -- ErrVoteInvalidValidatorAddress
  else if vs.getVote v.val v.bid then (vs, false) -- duplicate / non-deterministic signature
  else if !(v.sigOK && v.signer = v.val) then (vs, false)   -- vote.Verify against the pubkey at ValidatorIndex
  else vs.addVerified c v.val v.bid

/-- `VoteSet.SetPeerMaj23` -/
def VoteSet.setPeerMaj23 (vs : VoteSet) (peer : Peer) (key : Bid) : VoteSet :=
  match alookup vs.peerMaj23s peer with
  | some _ => vs     -- same: nothing to do; different: error, nothing changed
  | none =>
    let vs := { vs with peerMaj23s := vs.peerMaj23s ++ [(peer, key)] }
    match alookup vs.byBlock key with
    | some bv => if bv.peerMaj23 then vs else { vs with byBlock := aset vs.byBlock key { bv with peerMaj23 := true } }
    | none => { vs with byBlock := vs.byBlock ++ [(key, ⟨true, [], 0⟩)] }

def VoteSet.hasTwoThirdsAny (c : Cfg) (vs : VoteSet) : Bool := vs.sum > c.total * 2 / 3
def VoteSet.hasAll (c : Cfg) (vs : VoteSet) : Bool := vs.sum = c.total

/-- sum of the bucket of `key` (what `BitArrayByBlockID` shows) -/
def VoteSet.blockSum (vs : VoteSet) (key : Bid) : Nat :=
  match alookup vs.byBlock key with
  | some bv => bv.sum
  | none => 0

/-! ### cstypes.HeightVoteSet -/

structure RoundVoteSet where
  prevotes : VoteSet
  precommits : VoteSet
  deriving Repr, Inhabited

structure HVS where
  round : Int
  sets : List (Int × RoundVoteSet)
  catchup : List (Peer × List Int)
  deriving Repr, Inhabited

def HVS.init : HVS := ⟨0, [(0, ⟨.empty, .empty⟩)], []⟩

def HVS.getRound (h : HVS) (r : Int) : Option RoundVoteSet := alookup h.sets r

def HVS.getVoteSet (h : HVS) (r : Int) (t : VType) : Option VoteSet :=
  (h.getRound r).map fun rvs => match t with | .prevote => rvs.prevotes | .precommit => rvs.precommits

def HVS.prevotes (h : HVS) (r : Int) : Option VoteSet := h.getVoteSet r .prevote
def HVS.precommits (h : HVS) (r : Int) : Option VoteSet := h.getVoteSet r .precommit

def HVS.putVoteSet (h : HVS) (r : Int) (t : VType) (vs : VoteSet) : HVS :=
  match h.getRound r with
  | some rvs =>
    { h with sets := aset h.sets r (match t with
        | .prevote => { rvs with prevotes := vs } | .precommit => { rvs with precommits := vs }) }
  | none => h

/-- `addRound` for a round that does not exist -/
def HVS.addRound (h : HVS) (r : Int) : HVS := { h with sets := h.sets ++ [(r, ⟨.empty, .empty⟩)] }

/-- `SetRound`: `none` is the panic "SetRound() must increment hvs.round" -/
def HVS.setRound (h : HVS) (round : Int) : Option HVS :=
  let newRound := h.round - 1
  if h.round ≠ 0 ∧ round < newRound then none else
  let rs := (List.range (round - newRound + 1).toNat).map fun (i : Nat) => newRound + (i : Int)
  let h := rs.foldl (fun h r => if (h.getRound r).isSome then h else h.addRound r) h
  some { h with round := round }

/-- `HeightVoteSet.AddVote` -/
def HVS.addVote (c : Cfg) (h : HVS) (v : Vote) (peer : Peer) : HVS × Bool :=
  let r : Int := v.round
  match h.getVoteSet r v.typ with
  | some vs =>
    let (vs', added) := vs.addVote c v
    (h.putVoteSet r v.typ vs', added)
  | none =>
    let rndz := (alookup h.catchup peer).getD []
    if rndz.length < 2 then
      let h := h.addRound r
      let h := { h with catchup := aset h.catchup peer (rndz ++ [r]) }
      let (vs', added) := VoteSet.empty.addVote c v
      (h.putVoteSet r v.typ vs', added)
    else (h, false)   -- ErrGotVoteFromUnwantedRound

/-- `HeightVoteSet.SetPeerMaj23` -/
def HVS.setPeerMaj23 (h : HVS) (r : Nat) (t : VType) (peer : Peer) (key : Bid) : HVS :=
  match h.getVoteSet r t with
  | some vs => h.putVoteSet r t (vs.setPeerMaj23 peer key)
  | none => h

def maj23Of (o : Option VoteSet) : Option Bid := o.bind (·.maj23)
def hasAnyOf (c : Cfg) (o : Option VoteSet) : Bool :=
  match o with | some vs => vs.hasTwoThirdsAny c | none => false

/-- `POLInfo`: the last round `≤ hvs.round` whose prevotes have a +2/3 majority, else -1 -/
def HVS.polRound (h : HVS) : Int :=
  go h (h.round + 1).toNat
where
  go (h : HVS) : Nat → Int
    | 0 => -1
    | k + 1 => if (maj23Of (h.prevotes (k : Int))).isSome then (k : Int) else go h k

/-! ### consensus.State -/

inductive Payload
  | prop (bid : Nat) (pol : Int)
  | vote (bid : Bid)
  deriving DecidableEq, Repr, Inhabited

inductive Internal
  | proposal (p : Proposal)
  | part (bid : Nat)
  | vote (v : Vote)
  deriving Repr, Inhabited

inductive Input
  | proposal (p : Proposal)
  | blockComplete (bid : Nat)
  | vote (v : Vote) (peer : Peer)
  | peerMaj23 (round : Nat) (typ : VType) (peer : Peer) (bid : Bid)
  | timeout (round : Nat) (step : Step)
  | txsAvailable
  deriving Repr, Inhabited

inductive Output
  | signProposal (r : Nat) (bid : Nat) (pol : Int)
  | signVote (typ : VType) (r : Nat) (bid : Bid)
  | schedule (r : Nat) (st : Step)
  | decide (bid : Nat) (r : Int)
  | panic (why : String)
  deriving DecidableEq, Repr, Inhabited

structure NodeState where
  round : Nat
  step : Step
  lockedRound : Int
  lockedBlock : Option Nat
  validRound : Int
  validBlock : Option Nat
  proposal : Option Proposal
  proposalBlock : Option Nat
  proposalParts : Option Nat      -- header ProposalBlockParts was created for
  partsDone : Bool                -- ProposalBlockParts.IsComplete()
  commitRound : Int
  triggered : Bool                -- TriggeredTimeoutPrecommit
  votes : HVS
  valRound : Nat                  -- proposer-priority increments applied to cs.Validators
  lss : Option (Nat × Nat × Payload)   -- signer's LastSignState (round, step 1..3, what was signed)
  decided : Option (Nat × Int)
  halted : Bool
  queue : List Internal           -- cs.internalMsgQueue
  out : List Output               -- everything emitted so far
  deriving Repr, Inhabited

def NodeState.init : NodeState :=
  { round := 0, step := .newHeight, lockedRound := -1, lockedBlock := none, validRound := -1,
    validBlock := none, proposal := none, proposalBlock := none, proposalParts := none,
    partsDone := false, commitRound := -1, triggered := false, votes := .init, valRound := 0,
    lss := none, decided := none, halted := false, queue := [], out := [] }

def emit (s : NodeState) (o : Output) : NodeState :=
  if s.halted then s else { s with out := s.out ++ [o] }

def panicWith (s : NodeState) (why : String) : NodeState :=
  if s.halted then s else { s with out := s.out ++ [.panic why], halted := true }

/-- `Block.HashesTo(hash)`: false for a nil block and for an empty hash -/
def hashesTo (ob : Option Nat) (bid : Bid) : Bool :=
  match ob, bid with
  | some b, some b' => b = b'
  | _, _ => false

/-- `PartSet.HasHeader(header)`: false for a nil part set; the nil block id's zero header never
equals the header of a real part set -/
def hasHeader (parts : Option Nat) (bid : Bid) : Bool :=
  match parts, bid with
  | some h, some b => h = b
  | _, _ => false

/-- the signer: `FilePVLastSignState.CheckHRS` followed by the same-HRS comparison of
`FilePV.signVote` / `signProposal` (timestamps are not modelled, so "differ only by timestamp" is
equality of the payload). `some s'` = a signature is released (and `s'` has the new last-sign
state), `none` = the signer refuses. -/
def sign (c : Cfg) (s : NodeState) (round code : Nat) (p : Payload) : Option NodeState :=
  if !c.checkHRS then some s else
  match s.lss with
  | none => some { s with lss := some (round, code, p) }
  | some (lr, lc, lp) =>
    if lr > round then none                               -- round regression
    else if lr = round then
      if lc > code then none                              -- step regression
      else if lc = code then (if lp = p then some s else none)   -- same HRS: reuse iff same data
      else some { s with lss := some (round, code, p) }
    else some { s with lss := some (round, code, p) }

def VType.code : VType → Nat | .prevote => 2 | .precommit => 3

/-- `signAddVote` (the vote carries `cs.Round`) -/
def signAddVote (c : Cfg) (s : NodeState) (t : VType) (bid : Bid) : NodeState :=
  if s.halted then s else
  match c.self with
  | none => s
  | some me =>
    match sign c s s.round t.code (.vote bid) with
    | some s' =>
      let s' := emit s' (.signVote t s.round bid)
      { s' with queue := s'.queue ++ [.vote ⟨t, s.round, bid, me, true, me, me⟩] }
    | none => s

/-- `isProposalComplete` -/
def isProposalComplete (s : NodeState) : Bool :=
  match s.proposal, s.proposalBlock with
  | some p, some _ =>
    if p.pol < 0 then true else (maj23Of (s.votes.prevotes p.pol)).isSome
  | _, _ => false

/-- `defaultDoPrevote` -/
def doPrevote (c : Cfg) (s : NodeState) : NodeState :=
  match s.lockedBlock with
  | some b => signAddVote c s .prevote (some b)
  | none =>
    match s.proposalBlock with
    | none => signAddVote c s .prevote none
    | some b => if c.valid b then signAddVote c s .prevote (some b) else signAddVote c s .prevote none

/-- `enterPrevote` -/
def enterPrevote (c : Cfg) (s : NodeState) (round : Nat) : NodeState :=
  if s.halted then s else
  if round < s.round ∨ (s.round = round ∧ Step.prevote.rank ≤ s.step.rank) then s else
  let s := doPrevote c s
  { s with round := round, step := .prevote }

/-- `defaultDecideProposal` -/
def decideProposal (c : Cfg) (s : NodeState) (round me : Nat) : NodeState :=
  let b := s.validBlock.getD c.ownBlock
  match sign c s round 1 (.prop b s.validRound) with
  | some s' =>
    let s' := emit s' (.signProposal round b s.validRound)
    { s' with queue := s'.queue ++ [.proposal { round := round, bid := b, pol := s.validRound, signer := me }, .part b] }
  | none => s

/-- `enterPropose` -/
def enterPropose (c : Cfg) (s : NodeState) (round : Nat) : NodeState :=
  if s.halted then s else
  if round < s.round ∨ (s.round = round ∧ Step.propose.rank ≤ s.step.rank) then s else
  let s := emit s (.schedule round .propose)
  let s :=
    match c.self with
    | none => s
    | some me => if c.proposer s.valRound = me then decideProposal c s round me else s
  -- deferred
  let s := { s with round := round, step := .propose }
  if isProposalComplete s then enterPrevote c s s.round else s

/-- `enterNewRound`, the part "Setup new round": round/step, proposer priorities, proposal reset -/
def newRoundReset (s : NodeState) (round : Nat) : NodeState :=
  let valRound := if s.round < round then s.valRound + (round - s.round) else s.valRound
  let s := { s with round := round, step := .newRound, valRound := valRound }
  if round = 0 then s else
    { s with proposal := none, proposalBlock := none, proposalParts := none, partsDone := false }

/-- `enterNewRound` -/
def enterNewRound (c : Cfg) (s : NodeState) (round : Nat) : NodeState :=
  if s.halted then s else
  if round < s.round ∨ (s.round = round ∧ s.step ≠ .newHeight) then s else
  let s := newRoundReset s round
  match s.votes.setRound ((round : Int) + 1) with
  | none => panicWith s "SetRound"
  | some hv =>
    let s := { s with votes := hv, triggered := false }
    if c.waitForTxs && round = 0 && !c.needProofBlock then
      if c.emptyInterval then emit s (.schedule round .newRound) else s
    else enterPropose c s round

/-- `enterPrevoteWait` -/
def enterPrevoteWait (c : Cfg) (s : NodeState) (round : Nat) : NodeState :=
  if s.halted then s else
  if round < s.round ∨ (s.round = round ∧ Step.prevoteWait.rank ≤ s.step.rank) then s else
  if !hasAnyOf c (s.votes.prevotes round) then panicWith s "prevoteWait-no-any" else
  let s := emit s (.schedule round .prevoteWait)
  { s with round := round, step := .prevoteWait }

def unlock (s : NodeState) : NodeState := { s with lockedRound := -1, lockedBlock := none }

/-- `enterPrecommit` -/
def enterPrecommit (c : Cfg) (s : NodeState) (round : Nat) : NodeState :=
  if s.halted then s else
  if round < s.round ∨ (s.round = round ∧ Step.precommit.rank ≤ s.step.rank) then s else
  let done (s : NodeState) : NodeState := { s with round := round, step := .precommit }
  match maj23Of (s.votes.prevotes round) with
  | none => done (signAddVote c s .precommit none)
  | some bid =>
    if s.votes.polRound < round then panicWith s "POLRound" else
    match bid with
    | none =>
      -- +2/3 prevoted nil. Unlock and precommit nil.
      let s := if s.lockedBlock.isNone then s else unlock s
      done (signAddVote c s .precommit none)
    | some b =>
      if hashesTo s.lockedBlock bid then
        let s := { s with lockedRound := round }
        done (signAddVote c s .precommit bid)
      else if hashesTo s.proposalBlock bid then
        if !c.valid b then panicWith s "precommit-invalid-block" else
        let s := { s with lockedRound := round, lockedBlock := s.proposalBlock }
        done (signAddVote c s .precommit bid)
      else
        let s := unlock s
        let s := if !hasHeader s.proposalParts bid then
            { s with proposalBlock := none, proposalParts := some b, partsDone := false } else s
        done (signAddVote c s .precommit none)

/-- `enterPrecommitWait` -/
def enterPrecommitWait (c : Cfg) (s : NodeState) (round : Nat) : NodeState :=
  if s.halted then s else
  if round < s.round ∨ (s.round = round ∧ s.triggered) then s else
  if !hasAnyOf c (s.votes.precommits round) then panicWith s "precommitWait-no-any" else
  let s := emit s (.schedule round .precommitWait)
  { s with triggered := true }

/-- `finalizeCommit` up to the point where the block is handed to the executor -/
def finalizeCommit (c : Cfg) (s : NodeState) : NodeState :=
  if s.halted then s else
  if s.step ≠ .commit then s else
  match maj23Of (s.votes.precommits s.commitRound) with
  | none => panicWith s "finalize-no-maj23"
  | some bid =>
    if !hasHeader s.proposalParts bid then panicWith s "finalize-header" else
    if !hashesTo s.proposalBlock bid then panicWith s "finalize-hash" else
    match bid with
    | none => panicWith s "finalize-hash"
    | some b =>
      if !c.valid b then panicWith s "finalize-invalid-block" else
      let s := emit s (.decide b s.commitRound)
      { s with decided := some (b, s.commitRound) }

/-- `tryFinalizeCommit` -/
def tryFinalizeCommit (c : Cfg) (s : NodeState) : NodeState :=
  if s.halted then s else
  match maj23Of (s.votes.precommits s.commitRound) with
  | none => s
  | some none => s
  | some bid => if !hashesTo s.proposalBlock bid then s else finalizeCommit c s

/-- `enterCommit` -/
def enterCommit (c : Cfg) (s : NodeState) (commitRound : Nat) : NodeState :=
  if s.halted then s else
  if Step.commit.rank ≤ s.step.rank then s else
  match maj23Of (s.votes.precommits commitRound) with
  | none => panicWith s "commit-no-maj23"
  | some bid =>
    let s := if hashesTo s.lockedBlock bid then
        { s with proposalBlock := s.lockedBlock, proposalParts := s.lockedBlock, partsDone := true } else s
    let s := if !hashesTo s.proposalBlock bid then
        if !hasHeader s.proposalParts bid then
          -- (callers only pass rounds whose majority is a block, so `bid` is `some _` here)
          { s with proposalBlock := none, proposalParts := bid, partsDone := false }
        else s
      else s
    let s := { s with step := .commit, commitRound := commitRound }
    tryFinalizeCommit c s

/-- `defaultSetProposal` -/
def setProposal (c : Cfg) (s : NodeState) (p : Proposal) : NodeState :=
  if s.proposal.isSome then s else
  if p.round ≠ s.round then s else
  if p.pol < -1 ∨ (p.pol ≥ 0 ∧ p.pol ≥ (p.round : Int)) then s else
  if p.signer ≠ c.proposer s.valRound ∨ p.signer ≥ c.n then s else     -- signature check against GetProposer()
  let s := { s with proposal := some p }
  if s.proposalParts.isNone then { s with proposalParts := some p.bid, partsDone := false } else s

/-- `handleCompleteProposal` -/
def handleCompleteProposal (c : Cfg) (s : NodeState) : NodeState :=
  let m := maj23Of (s.votes.prevotes s.round)
  let s :=
    match m with
    | some (some b) =>
      if s.validRound < s.round ∧ hashesTo s.proposalBlock (some b) then
        { s with validRound := s.round, validBlock := s.proposalBlock }
      else s
    | _ => s
  if s.step.rank ≤ Step.propose.rank ∧ isProposalComplete s then
    let s := enterPrevote c s s.round
    if m.isSome then enterPrecommit c s s.round else s
  else if s.step = .commit then tryFinalizeCommit c s
  else s

/-- `addProposalBlockPart` + the completion branch of `handleMsg` for a one-part block -/
def addBlockPart (c : Cfg) (s : NodeState) (bid : Nat) : NodeState :=
  match s.proposalParts with
  | none => s
  | some h =>
    if h ≠ bid then s             -- AddPart: proof does not verify against this header
    else if s.partsDone then s    -- already have the part
    else
      let s := { s with partsDone := true, proposalBlock := some bid }
      handleCompleteProposal c s

/-- `State.addVote`, prevote case, the block under "There was a polka!": unlock on a polka of a
round in `(LockedRound, cs.Round]` for something else; update Valid* on a polka of the current round -/
def onPolka (s : NodeState) (vr : Nat) (bid : Bid) : NodeState :=
  let s :=
    if s.lockedBlock.isSome ∧ s.lockedRound < (vr : Int) ∧ vr ≤ s.round ∧ !hashesTo s.lockedBlock bid
    then unlock s else s
  if bid.isSome ∧ s.validRound < (vr : Int) ∧ vr = s.round then
    let s := if hashesTo s.proposalBlock bid then
        { s with validRound := vr, validBlock := s.proposalBlock }
      else { s with proposalBlock := none }
    if !hasHeader s.proposalParts bid then
      { s with proposalParts := bid, partsDone := false } else s
  else s

/-- `State.addVote`, prevote case, the `switch` on the vote's round -/
def prevoteTransitions (c : Cfg) (s : NodeState) (vr : Nat) : NodeState :=
  let prevotes := s.votes.prevotes vr
  if s.round < vr ∧ hasAnyOf c prevotes then enterNewRound c s vr
  else if s.round = vr ∧ Step.prevote.rank ≤ s.step.rank then
    match maj23Of prevotes with
    | some bid =>
      if isProposalComplete s || bid.isNone then enterPrecommit c s vr
      else if hasAnyOf c prevotes then enterPrevoteWait c s vr else s
    | none => if hasAnyOf c prevotes then enterPrevoteWait c s vr else s
  else
    match s.proposal with
    | some p =>
      if 0 ≤ p.pol ∧ p.pol = (vr : Int) then
        if isProposalComplete s then enterPrevote c s s.round else s
      else s
    | none => s

/-- `State.addVote`, prevote case (the vote was added) -/
def afterPrevote (c : Cfg) (s : NodeState) (vr : Nat) : NodeState :=
  let s :=
    match maj23Of (s.votes.prevotes vr) with
    | some bid => onPolka s vr bid
    | none => s
  prevoteTransitions c s vr

/-- `State.addVote`, precommit case (the vote was added) -/
def afterPrecommit (c : Cfg) (s : NodeState) (vr : Nat) : NodeState :=
  let precommits := s.votes.precommits vr
  match maj23Of precommits with
  | some bid =>
    let s := enterNewRound c s vr
    let s := enterPrecommit c s vr
    if bid.isSome then enterCommit c s vr
    else enterPrecommitWait c s vr
  | none =>
    if s.round ≤ vr ∧ hasAnyOf c precommits then
      let s := enterNewRound c s vr
      enterPrecommitWait c s vr
    else s

/-- `State.addVote` for a vote of the current height -/
def addVote (c : Cfg) (s : NodeState) (v : Vote) (peer : Peer) : NodeState :=
  let res := s.votes.addVote c v peer
  let s := { s with votes := res.1 }
  if !res.2 then s else
  match v.typ with
  | .prevote => afterPrevote c s v.round
  | .precommit => afterPrecommit c s v.round

/-- `handleMsg` for a message taken from the internal queue -/
def handleInternal (c : Cfg) (s : NodeState) : Internal → NodeState
  | .proposal p => setProposal c s p
  | .part b => addBlockPart c s b
  | .vote v => addVote c s v 0

/-- `handleTimeout` (`rs` is the round state at the time the timeout is taken) -/
def handleTimeout (c : Cfg) (s : NodeState) (round : Nat) (st : Step) : NodeState :=
  if round < s.round ∨ (round = s.round ∧ st.rank < s.step.rank) then s else
  match st with
  | .newHeight => enterNewRound c s 0
  | .newRound => enterPropose c s 0
  | .propose => enterPrevote c s round
  | .prevoteWait => enterPrecommit c s round
  | .precommitWait =>
    let s := enterPrecommit c s round
    enterNewRound c s (round + 1)
  | _ => panicWith s "invalid-timeout-step"

/-- `handleTxsAvailable` -/
def handleTxsAvailable (c : Cfg) (s : NodeState) : NodeState :=
  if s.round ≠ 0 then s else
  match s.step with
  | .newHeight => if c.needProofBlock then s else emit s (.schedule 0 .newRound)
  | .newRound => enterPropose c s 0
  | _ => s

/-- one external input, before the internal queue is drained -/
def handleInput (c : Cfg) (s : NodeState) : Input → NodeState
  | .proposal p => setProposal c s p
  | .blockComplete b => addBlockPart c s b
  | .vote v peer => addVote c s v peer
  | .peerMaj23 r t peer bid => { s with votes := s.votes.setPeerMaj23 r t peer bid }
  | .timeout r st => handleTimeout c s r st
  | .txsAvailable => handleTxsAvailable c s

/-- the receive routine taking own messages off the internal queue until it is empty, the
machine halted, or the height is decided. `fuel` bounds the number of own messages handled per
external input (a node emits at most a proposal, its part and two votes per round it enters). -/
def drain (c : Cfg) : Nat → NodeState → NodeState
  | 0, s => s
  | fuel + 1, s =>
    if s.halted ∨ s.decided.isSome then s else
    match s.queue with
    | [] => s
    | m :: rest => drain c fuel (handleInternal c { s with queue := rest } m)

def drainFuel : Nat := 64

/-- one step of the receive routine: an external input, then every own message it caused -/
def step (c : Cfg) (s : NodeState) (i : Input) : NodeState :=
  if s.halted ∨ s.decided.isSome then s else drain c drainFuel (handleInput c s i)

def run (c : Cfg) (s : NodeState) (is : List Input) : NodeState := is.foldl (step c) s

end Tmv.Cons
