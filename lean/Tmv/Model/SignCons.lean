import Tmv.Model.Sign
import Tmv.Model.SignNode
import Tmv.Model.Cons
/-! Composition for property C04: the consensus state machine of one height (`Tmv.Cons`, C02's
model of `consensus/state.go`), the file signer with its crash points (`Tmv.Sign`, `privval/file.go`)
and the write-ahead log at record level (what C15's `durable_returned` / `reader_sound` leave after
a crash: whole records, a prefix of what was written, containing every synced record).

`Tmv.Cons` carries its own abstract signer (`NodeState.lss`, `Cons.sign`, a mirror of CheckHRS at the
level (round, step, payload)). Here the REAL signer is `Tmv.Sign.Cfg`; before an input is handled
the abstract one is set to the abstraction `absLss` of the real signer's state file, the signing
requests the consensus model releases while handling the input are then put to the real signer
(`Sign.call`), and only what the real signer returns counts as released (`Sign.Cfg.rel`).
`Lemmas/SignCons.sign_refines` shows the two signers agree call by call.

Crash points: between two inputs (`Ev.crash`), while handling an input or a replayed record —
after `j` complete signer calls and `k` micro-steps into the next one (`crashAt`; this covers
"before/after the sign-state rename", "between signing and the WAL write of the own message",
"during replay") —, each followed by a restart over ANY list of surviving records. Restart = replay of
the surviving records from the initial round state, record by record (`Ev.replayNext`), itself
interruptible. -/
namespace Tmv.Node04
open Tmv.Sign

structure Env where
  H : Int                      -- the height being decided
  chain : String
  blk : Nat → BlockID          -- model block id ↦ (hash, part-set header)
  unblk : BlockID → Nat

def zeroBid : BlockID := ⟨[], 0, []⟩

def Env.bid (e : Env) : Cons.Bid → BlockID
  | none => zeroBid
  | some b => e.blk b

def vtyp : Cons.VType → Int
  | .prevote => prevoteType
  | .precommit => precommitType

/-- the FilePV request behind a signature the consensus model asks for (`t` = wall clock) -/
def Env.reqOf (e : Env) (t : Int) : Cons.Output → Option Req
  | .signProposal r b pol =>
    some { kind := .proposal, typ := proposalType, h := e.H, r := r, pol := pol, bid := e.blk b, ts := t, chain := e.chain }
  | .signVote ty r bid =>
    some { kind := .vote, typ := vtyp ty, h := e.H, r := r, pol := 0, bid := e.bid bid, ts := t, chain := e.chain }
  | _ => none

/-- what sign-bytes content says in the consensus model's terms -/
def Env.payloadOf (e : Env) (sb : SB) : Cons.Payload :=
  if sb.typ = proposalType then .prop (match sb.bid with | some b => e.unblk b | none => 0) sb.pol
  else .vote (sb.bid.map e.unblk)

/-- abstraction of the state file: the consensus model's `lss` (round, step code, payload); a state
file of a lower height is "nothing signed at this height" -/
def Env.absLss {Sig : Type} (e : Env) (l : LSS Sig) : Option (Nat × Nat × Cons.Payload) :=
  if l.h = e.H then
    match l.sb with
    | some sb => some (l.r.toNat, l.step.toNat, e.payloadOf sb)
    | none => none
  else none

structure St (Sig : Type) where
  ns : Cons.NodeState            -- volatile round state
  sg : Sign.Cfg Sig              -- the signer (memory + state file + journal)
  wal : List Cons.Input          -- records written to the WAL, in order
  synced : Nat                   -- length of the durable prefix
  pending : List Cons.Input      -- surviving records still to be replayed after a restart

def start {Sig : Type} (l : LSS Sig) : St Sig :=
  { ns := .init, sg := Sign.init l, wal := [], synced := 0, pending := [] }

/-- the consensus side of handling one input: the abstract signer is the abstraction of the
real one; returns the new round state and the requests released while handling -/
def consStep {Sig : Type} (e : Env) (c : Cons.Cfg) (ns : Cons.NodeState) (sg : Sign.Cfg Sig)
    (i : Cons.Input) (t : Int) : Cons.NodeState × List Req :=
  let ns0 := { ns with lss := e.absLss sg.disk }
  let ns1 := Cons.step c ns0 i
  (ns1, (ns1.out.drop ns0.out.length).filterMap (e.reqOf t))

/-- put requests to the real signer, one complete call each -/
def signAll {Sig : Type} (sigOf : SB → Sig) (sg : Sign.Cfg Sig) (qs : List Req) : Sign.Cfg Sig :=
  qs.foldl (fun g q => (call sigOf g q none).1) sg

/-- the process dies after `j` complete calls and `k` micro-steps of the next one (if any) -/
def signCrash {Sig : Type} (sigOf : SB → Sig) (sg : Sign.Cfg Sig) (qs : List Req) (j k : Nat) : Sign.Cfg Sig :=
  let g := signAll sigOf sg (qs.take j)
  match qs[j]? with
  | some q => (call sigOf g q (some k)).1
  | none => (Sign.step sigOf g .crash).1

/-- restart: round state from scratch, the surviving records are what the WAL now holds (all of it
on disk) and are to be replayed -/
def restart {Sig : Type} (_s : St Sig) (sg : Sign.Cfg Sig) (w : List Cons.Input) : St Sig :=
  { ns := .init, sg := sg, wal := w, synced := w.length, pending := w }

inductive Ev
  /-- a new input (peer message, timeout, txs) when nothing is left to replay: appended to the WAL
  (flushed+fsynced before the first signing request), handled, requests signed -/
  | input (i : Cons.Input) (t : Int)
  /-- the next surviving record is replayed (`catchupReplay`) -/
  | replayNext (t : Int)
  /-- the process dies between two inputs / records; `w` = the records a reader returns after
  recovery — ANY list: no assumption about the log is built in (C15's `durable_returned_history`
  says which lists the real WAL can produce: every fsynced record, a sublist of what was written,
  in order) -/
  | crash (w : List Cons.Input)
  /-- the process dies while handling a new input -/
  | crashInInput (i : Cons.Input) (t : Int) (j k : Nat) (w : List Cons.Input)
  /-- the process dies while replaying the next surviving record -/
  | crashInReplay (t : Int) (j k : Nat) (w : List Cons.Input)

def step {Sig : Type} (e : Env) (c : Cons.Cfg) (sigOf : SB → Sig) (s : St Sig) : Ev → St Sig
  | .input i t =>
    match s.pending with
    | [] =>
      let r := consStep e c s.ns s.sg i t
      { s with ns := r.1, sg := signAll sigOf s.sg r.2, wal := s.wal ++ [i],
               synced := if r.2.isEmpty then s.synced else s.wal.length + 1 }
    | _ :: _ => s
  | .replayNext t =>
    match s.pending with
    | [] => s
    | i :: rest =>
      let r := consStep e c s.ns s.sg i t
      { s with ns := r.1, sg := signAll sigOf s.sg r.2, pending := rest }
  | .crash w => restart s (Sign.step sigOf s.sg .crash).1 w
  | .crashInInput i t j k w =>
    match s.pending with
    | [] =>
      let r := consStep e c s.ns s.sg i t
      restart s (signCrash sigOf s.sg r.2 j k) w
    | _ :: _ => s
  | .crashInReplay t j k w =>
    match s.pending with
    | [] => s
    | i :: _ =>
      let r := consStep e c s.ns s.sg i t
      restart s (signCrash sigOf s.sg r.2 j k) w

def run {Sig : Type} (e : Env) (c : Cons.Cfg) (sigOf : SB → Sig) (s : St Sig) : List Ev → St Sig
  | [] => s
  | ev :: rest => run e c sigOf (step e c sigOf s ev) rest

/-- the consensus model as a `SignNode.Core` for a fixed answer of the signer: state = round state,
requests = what it releases while handling the input (unstamped) -/
def consCore (e : Env) (c : Cons.Cfg) (lss0 : Option (Nat × Nat × Cons.Payload)) :
    SignNode.Core Cons.NodeState Cons.Input :=
  { init := { Cons.NodeState.init with lss := lss0 }
    step := fun ns i =>
      let ns1 := Cons.step c ns i
      (ns1, (ns1.out.drop ns.out.length).filterMap (e.reqOf 0))
    internal := fun _ => false }

/-! ### the WAL with the node's own messages as records

In the real WAL the node's own proposal, block part and votes are records too (`msgInfo` with an
empty peer id, `WriteSync`ed when taken off the internal queue); `catchupReplay` feeds every record
through `handleMsg` / `handleTimeout`, and signing attempts made on the way are answered by a signer
that is already ahead (refused, or the stored signature reused) and ignored in `replayMode`. -/

inductive Rec
  | ext (i : Cons.Input)
  | own (m : Cons.Internal)

/-- replay of one record: own messages come from the record, the internal queue is not touched -/
def replayRec (c : Cons.Cfg) (s : Cons.NodeState) : Rec → Cons.NodeState
  | .ext i => if s.halted ∨ s.decided.isSome then s else Cons.handleInput c s i
  | .own m => if s.halted ∨ s.decided.isSome then s else Cons.handleInternal c s m

def replayRecs (c : Cons.Cfg) (s : Cons.NodeState) (rs : List Rec) : Cons.NodeState := rs.foldl (replayRec c) s

/-- the own messages `Cons.drain` takes off the queue, in order (each is `WriteSync`ed first) -/
def drainLog (c : Cons.Cfg) : Nat → Cons.NodeState → List Cons.Internal
  | 0, _ => []
  | fuel + 1, s =>
    if s.halted ∨ s.decided.isSome then [] else
    match s.queue with
    | [] => []
    | m :: rest => m :: drainLog c fuel (Cons.handleInternal c { s with queue := rest } m)

/-- the records the receive routine writes for one step of `Cons.step`: the input, then every own
message it handles -/
def stepLog (c : Cons.Cfg) (s : Cons.NodeState) (i : Cons.Input) : List Rec :=
  if s.halted ∨ s.decided.isSome then [] else
  .ext i :: (drainLog c Cons.drainFuel (Cons.handleInput c s i)).map .own

def runLog (c : Cons.Cfg) : Cons.NodeState → List Cons.Input → List Rec
  | _, [] => []
  | s, i :: is => stepLog c s i ++ runLog c (Cons.step c s i) is

end Tmv.Node04
