import Tmv.Util
import Tmv.Gen.Facts
/-! Shared pieces of the mempool models (/repo mempool/cache.go, mempool/mempool.go,
types.ComputeProtoSizeForTxs). Core-only.

Modelling conventions used by both pool models:
* `TxKey = sha256(tx)` is identified with `tx` (the pools never look at a key except for equality).
* Peer ids (`senders` / `peers` sets) are not modelled: they influence gossip only.
* int64 totals are `Int` (no overflow). -/
namespace Tmv.Mempool

/-- the application's CheckTx answer (abci.ResponseCheckTx: Code, GasWanted, Priority, Sender) -/
structure Verdict where
  code : Nat := 0
  gas : Int := 0
  prio : Int := 0
  sender : String := ""
deriving Repr, DecidableEq

/-- abci.CodeTypeOK -/
def codeOK : Nat := Facts.abci_CodeTypeOK.toNat

/-- number of bytes of the protobuf varint of `n` (uint64: at most 10) -/
def varintLen : Nat → Nat → Nat
  | 0, _ => 1
  | f+1, n => if n < 128 then 1 else 1 + varintLen f (n / 128)

/-- `types.ComputeProtoSizeForTxs([]types.Tx{tx})`: one repeated-bytes field entry -/
def protoSize (len : Nat) : Int := 1 + (varintLen 9 len : Int) + (len : Int)

/-- `mempool.PreCheckMaxBytes(maxBytes)` (none = no pre-check installed); true = rejected -/
def preFails (pre : Option Int) (tx : Bytes) : Bool :=
  match pre with
  | none => false
  | some m => decide (protoSize tx.length > m)

/-- `mempool.PostCheckMaxGas(maxGas)`; true = rejected -/
def postFails (post : Option Int) (gas : Int) : Bool :=
  match post with
  | none => false
  | some m => if m = -1 then false else decide (gas < 0) || decide (gas > m)

/-- `Update`: a non-nil new filter replaces the old one -/
def newFilter (new old : Option Int) : Option Int :=
  match new with
  | some m => some m
  | none => old

/-- the verdict lets the tx in / lets it stay: `Code == CodeTypeOK && postCheckErr == nil` -/
def accepted (post : Option Int) (v : Verdict) : Bool :=
  decide (v.code = codeOK) && !postFails post v.gas

/-- `LRUTxCache` (size > 0) or `NopTxCache` (cfg.CacheSize ≤ 0). `keys`: front = oldest. -/
structure Cache where
  size : Int
  keys : List Bytes
deriving Repr

namespace Cache

def new (size : Int) : Cache := { size := size, keys := [] }

/-- `Push`: false = already present (moved to the back). A full list drops its front first. -/
def push (c : Cache) (k : Bytes) : Cache × Bool :=
  if c.size ≤ 0 then (c, true)
  else if k ∈ c.keys then ({ c with keys := c.keys.erase k ++ [k] }, false)
  else
    let ks := if (c.keys.length : Int) ≥ c.size then c.keys.drop 1 else c.keys
    ({ c with keys := ks ++ [k] }, true)

def remove (c : Cache) (k : Bytes) : Cache :=
  if c.size ≤ 0 then c else { c with keys := c.keys.erase k }

def reset (c : Cache) : Cache := { c with keys := [] }

/-- `Has` -/
def has (c : Cache) (k : Bytes) : Bool := decide (c.size > 0) && decide (k ∈ c.keys)

end Cache

/-- total raw size of a list of transactions -/
def bytesOf : List Bytes → Int
  | [] => 0
  | t :: r => (t.length : Int) + bytesOf r

end Tmv.Mempool
