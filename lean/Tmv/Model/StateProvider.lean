import Tmv.Model.Syncer
/-! Model of /repo statesync/stateprovider.go `lightClientStateProvider`: every answer is assembled
from light blocks the light client verified (`VerifyLightBlockAtHeight`, a function parameter here —
what the light client accepts is the subject of C09). The consensus parameters come through the
verifying RPC client (C20) and are part of the opaque `rest`. -/
namespace Tmv.StateSync

structure LightBlock where
  height : Nat
  appHash : Bytes          -- header.AppHash
  appVersion : Nat         -- header.Version.App
  commit : PCommit         -- signed header's commit
  vals : Nat               -- validator set (opaque id)
deriving DecidableEq, Repr

/-- the `sm.State` the provider assembles -/
structure LcState where
  lastBlockHeight : Nat
  appHash : Bytes
  appVersion : Nat
  lastValidators : Nat
  validators : Nat
  nextValidators : Nat
deriving DecidableEq, Repr

variable (lc : Nat → ProvRes LightBlock)

def reErr {α β : Type} : ProvRes α → ProvRes β
  | .noWitness => .noWitness
  | _ => .err

/-- `AppHash(height)`: the app hash after `height` is in the header of `height+1`; `height+2`
must verify too -/
def lcAppHash (height : Nat) : ProvRes Bytes :=
  match lc (height + 1) with
  | .ok b =>
    match lc (height + 2) with
    | .ok _ => .ok b.appHash
    | e => reErr e
  | e => reErr e

/-- `Commit(height)` -/
def lcCommit (height : Nat) : ProvRes PCommit :=
  match lc height with
  | .ok b => .ok b.commit
  | e => reErr e

/-- `State(height)` -/
def lcState (height : Nat) : ProvRes LcState :=
  match lc height with
  | .ok last =>
    match lc (height + 1) with
    | .ok cur =>
      match lc (height + 2) with
      | .ok next =>
        .ok { lastBlockHeight := last.height, appHash := cur.appHash, appVersion := cur.appVersion,
              lastValidators := last.vals, validators := cur.vals, nextValidators := next.vals }
      | e => reErr e
    | e => reErr e
  | e => reErr e

end Tmv.StateSync
