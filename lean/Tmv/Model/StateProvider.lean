import Tmv.Model.Syncer
/-! Model of /repo statesync/stateprovider.go `lightClientStateProvider` and of what
node/node.go `startStateSync` does with its answers (state/store.go `Bootstrap`, store/store.go
`SaveSeenCommit`, then consensus start).

Every answer of the provider is assembled from light blocks the light client verified
(`VerifyLightBlockAtHeight`, here the function parameter `lc` — what the light client accepts is
the subject of C09) plus the consensus parameters, which come from an RPC server through the
verifying RPC client (light/rpc `ConsensusParams`): validated, for the requested height, and their
hash compared with the verified header's `ConsensusHash`. That hash (`types.HashConsensusParams`)
covers ONLY `Block.MaxBytes` and `Block.MaxGas`. -/
namespace Tmv.StateSync

/-- `tmproto.ConsensusParams` (the fields that exist in v0.34) -/
structure Params where
  maxBytes : Int
  maxGas : Int
  timeIota : Int
  evAgeBlocks : Int
  evAgeDur : Int
  evMaxBytes : Int
  pubKeyTypes : List String
  appVersion : Nat
deriving DecidableEq, Repr

/-- what `HashConsensusParams` hashes (`tmproto.HashedParams`) -/
def Params.hashed (p : Params) : Int × Int := (p.maxBytes, p.maxGas)

/-- `types.ValidateConsensusParams`; `maxBlock` is `types.MaxBlockSizeBytes` -/
def Params.valid (maxBlock : Int) (p : Params) : Bool :=
  !(p.maxBytes ≤ 0) && !(p.maxBytes > maxBlock) && !(p.maxGas < -1) && !(p.timeIota ≤ 0) &&
  !(p.evAgeBlocks ≤ 0) && !(p.evAgeDur ≤ 0) && !(p.evMaxBytes > p.maxBytes) && !(p.evMaxBytes < 0) &&
  !p.pubKeyTypes.isEmpty && p.pubKeyTypes.all (fun t => t = "ed25519" || t = "secp256k1")

/-- a verified light block: the header fields the provider reads, the block id its commit signs,
the hash of its validator set -/
structure LightBlock where
  height : Nat
  hash : Bytes             -- block id: header hash = commit.BlockID.Hash
  appHash : Bytes
  appVersion : Nat         -- header.Version.App
  vals : Bytes             -- ValidatorSet (identified by its hash)
  lastResults : Bytes
  consHashed : Int × Int   -- what header.ConsensusHash commits to
deriving DecidableEq, Repr

/-- answer of `/consensus_params` -/
structure ParamsResp where
  height : Int
  params : Params
deriving DecidableEq, Repr

/-- the commit handed to the node: which block it signs -/
structure LcCommit where
  height : Nat
  blockHash : Bytes
deriving DecidableEq, Repr

/-- the `sm.State` the provider assembles -/
structure LcState where
  lastBlockHeight : Nat
  lastBlockID : Bytes
  appHash : Bytes
  appVersion : Nat
  lastValidators : Bytes
  validators : Bytes
  nextValidators : Bytes
  lastResults : Bytes
  lastHeightValidatorsChanged : Nat
  lastHeightParamsChanged : Nat
  params : Params
  initialHeight : Nat
deriving DecidableEq, Repr

def reErr {α β : Type} : ProvRes α → ProvRes β
  | .noWitness => .noWitness
  | _ => .err

/-- `AppHash`: from the verification results for `height+1` and `height+2` -/
def assembleAppHash (r1 r2 : ProvRes LightBlock) : ProvRes Bytes :=
  match r1 with
  | .ok b =>
    match r2 with
    | .ok _ => .ok b.appHash
    | e => reErr e
  | e => reErr e

/-- `Commit`: from the verification result for `height` -/
def assembleCommit (r0 : ProvRes LightBlock) : ProvRes LcCommit :=
  match r0 with
  | .ok b => .ok { height := b.height, blockHash := b.hash }
  | e => reErr e

/-- light/rpc `Client.ConsensusParams(height)` given the verified header's hashed parameters -/
def checkParams (maxBlock : Int) (want : Nat) (trusted : Int × Int) : ProvRes ParamsResp → ProvRes Params
  | .ok r =>
    if !r.params.valid maxBlock then .err
    else if r.height ≤ 0 then .err
    else if r.height ≠ (want : Int) then .err
    else if r.params.hashed ≠ trusted then .err
    else .ok r.params
  | e => reErr e

/-- `State`: from the verification results for `height`, `height+1`, `height+2` and the primary's
`/consensus_params`; `ih` is the configured initial height -/
def assembleState (maxBlock : Int) (rpc : Nat → ProvRes ParamsResp) (ih : Nat)
    (r0 r1 r2 : ProvRes LightBlock) : ProvRes LcState :=
  match r0 with
  | .ok last =>
    match r1 with
    | .ok cur =>
      match r2 with
      | .ok next =>
        match checkParams maxBlock cur.height cur.consHashed (rpc cur.height) with
        | .ok p =>
          .ok { lastBlockHeight := last.height, lastBlockID := last.hash, appHash := cur.appHash
                appVersion := cur.appVersion, lastValidators := last.vals, validators := cur.vals
                nextValidators := next.vals, lastResults := cur.lastResults
                lastHeightValidatorsChanged := next.height, lastHeightParamsChanged := cur.height
                params := p, initialHeight := if ih = 0 then 1 else ih }
        | e => reErr e
      | e => reErr e
    | e => reErr e
  | e => reErr e

variable (lc : Nat → ProvRes LightBlock)

/-- `AppHash(height)`: the app hash after `height` is in the header of `height+1`; `height+2`
must verify too. (`lc` = `VerifyLightBlockAtHeight` as a function of the height; the version
threading the light client's state is `Tmv.Model.StateProviderLight`.) -/
def lcAppHash (height : Nat) : ProvRes Bytes := assembleAppHash (lc (height + 1)) (lc (height + 2))

/-- `Commit(height)` -/
def lcCommit (height : Nat) : ProvRes LcCommit := assembleCommit (lc height)

/-- `State(height)` -/
def lcState (maxBlock : Int) (rpc : Nat → ProvRes ParamsResp) (ih : Nat) (height : Nat) : ProvRes LcState :=
  assembleState maxBlock rpc ih (lc height) (lc (height + 1)) (lc (height + 2))

/-! ## what the node does with the answers -/

/-- the parts of the state store and block store that `Bootstrap` / `SaveSeenCommit` write and a
starting node reads -/
structure Stores where
  vals : Nat → Option Bytes                      -- ValidatorsInfo with a full set
  params : Nat → Option (Nat × Option Params)    -- ConsensusParamsInfo: last change height, params if stored
  state : Option LcState                         -- stateKey
  seen : Nat → Option LcCommit                   -- seen commit

def Stores.empty : Stores := { vals := fun _ => none, params := fun _ => none, state := none, seen := fun _ => none }

/-- `dbStore.Bootstrap` -/
def bootstrap (s : Stores) (st : LcState) : Stores :=
  let height := if st.lastBlockHeight + 1 = 1 then st.initialHeight else st.lastBlockHeight + 1
  let v0 := if height > 1 ∧ st.lastValidators ≠ [] then upd s.vals (height - 1) (some st.lastValidators) else s.vals
  let v1 := upd v0 height (some st.validators)
  let v2 := upd v1 (height + 1) (some st.nextValidators)
  -- saveConsensusParamsInfo(height, changeHeight, params): params are stored only at the change height
  let pinfo := (st.lastHeightParamsChanged, if st.lastHeightParamsChanged = height then some st.params else none)
  { s with vals := v2, params := upd s.params height (some pinfo), state := some st }

/-- `BlockStore.SaveSeenCommit` -/
def saveSeenCommit (s : Stores) (h : Nat) (c : LcCommit) : Stores := { s with seen := upd s.seen h (some c) }

/-- `LoadConsensusParams` -/
def loadParams (s : Stores) (h : Nat) : Option Params :=
  match s.params h with
  | some (_, some p) => some p
  | some (chg, none) =>
    match s.params chg with
    | some (_, some p) => some p
    | _ => none
  | none => none

inductive Crash | none | between | before
deriving DecidableEq, Repr

/-- the two writes of `startStateSync` after a successful `Sync`, cut by a crash.
`commitFirst` is the order in /repo after the fix (seen commit, then state). -/
def startWrites (commitFirst : Bool) (crash : Crash) (st : LcState) (c : LcCommit) : Stores :=
  let w1 := fun (s : Stores) => if commitFirst then saveSeenCommit s st.lastBlockHeight c else bootstrap s st
  let w2 := fun (s : Stores) => if commitFirst then bootstrap s st else saveSeenCommit s st.lastBlockHeight c
  match crash with
  | .before => Stores.empty
  | .between => w1 Stores.empty
  | .none => w2 (w1 Stores.empty)

inductive Start
  | stateSyncAgain          -- empty state: the node runs state sync again
  | ok                      -- consensus.NewState reconstructs LastCommit from the seen commit
  | panicNoSeenCommit       -- `reconstructLastCommit` panics: the node cannot start
  | panicWrongCommit
deriving DecidableEq, Repr

/-- what a (re)starting node does with the stores -/
def startNode (s : Stores) : Start :=
  match s.state with
  | none => .stateSyncAgain
  | some st =>
    if st.lastBlockHeight = 0 then .ok
    else
      match s.seen st.lastBlockHeight with
      | none => .panicNoSeenCommit
      | some c => if c.height = st.lastBlockHeight ∧ c.blockHash = st.lastBlockID then .ok else .panicWrongCommit

/-! ## the hand-over with FAILING steps (I/O errors), not only crashes -/

/-- the individual writes of `Bootstrap`, in its order -/
def bootWrites (st : LcState) : List (Stores → Stores) :=
  let height := if st.lastBlockHeight + 1 = 1 then st.initialHeight else st.lastBlockHeight + 1
  let w0 : Stores → Stores := fun s => { s with vals := upd s.vals (height - 1) (some st.lastValidators) }
  let w1 : Stores → Stores := fun s => { s with vals := upd s.vals height (some st.validators) }
  let w2 : Stores → Stores := fun s => { s with vals := upd s.vals (height + 1) (some st.nextValidators) }
  let pinfo := (st.lastHeightParamsChanged, if st.lastHeightParamsChanged = height then some st.params else none)
  let w3 : Stores → Stores := fun s => { s with params := upd s.params height (some pinfo) }
  let w4 : Stores → Stores := fun s => { s with state := some st }
  (if height > 1 ∧ st.lastValidators ≠ [] then [w0] else []) ++ [w1, w2, w3, w4]

/-- `Bootstrap` whose `failAt`-th database write (1-based; 0 = none) fails: the earlier writes
stay, the call returns an error -/
def bootstrapFailing (s : Stores) (st : LcState) (failAt : Nat) : Stores × Bool :=
  let ws := bootWrites st
  if failAt = 0 ∨ failAt > ws.length then (ws.foldl (fun s w => w s) s, true)
  else ((ws.take (failAt - 1)).foldl (fun s w => w s) s, false)

/-- which steps fail -/
structure Faults where
  seenFails : Bool        -- `SaveSeenCommit` returns an error (nothing written)
  bootFailAt : Nat        -- the k-th write of `Bootstrap` fails (0 = none)
  switchFails : Bool      -- `SwitchToFastSync` returns an error

/-- what `startStateSync` does with each error (read from its source by the harness and from the
regenerated facts by the driver) -/
structure HandCode where
  commitFirst : Bool
  seenErrReturns : Bool
  bootErrReturns : Bool

/-- the hand-over after a successful `Sync`: the stores afterwards and whether the node switched
to block sync -/
def handOver (code : HandCode) (f : Faults) (st : LcState) (c : LcCommit) : Stores × Bool :=
  let doSeen := fun (s : Stores) => if f.seenFails then (s, false) else (saveSeenCommit s st.lastBlockHeight c, true)
  let doBoot := fun (s : Stores) => bootstrapFailing s st f.bootFailAt
  let step1 := if code.commitFirst then doSeen else doBoot
  let step2 := if code.commitFirst then doBoot else doSeen
  let ret1 := if code.commitFirst then code.seenErrReturns else code.bootErrReturns
  let ret2 := if code.commitFirst then code.bootErrReturns else code.seenErrReturns
  let (s1, ok1) := step1 Stores.empty
  if !ok1 && ret1 then (s1, false)
  else
    let (s2, ok2) := step2 s1
    if !ok2 && ret2 then (s2, false)
    else (s2, !f.switchFails)

end Tmv.StateSync
