import Tmv.Model.Merkle
import Tmv.Gen.Facts
/-! Model of /repo types/part_set.go: splitting, `AddPart`, reassembly. -/
namespace Tmv.PartSet
open Tmv.Merkle

variable (H : Bytes → Bytes)

/-- the pieces `NewPartSetFromData` cuts (`partSize > 0` is the code's CONTRACT) -/
def splitF : Nat → Bytes → Nat → List Bytes
  | 0, _, _ => []
  | fuel+1, data, psize =>
    if data = [] then [] else data.take psize :: splitF fuel (data.drop psize) psize

def split (data : Bytes) (psize : Nat) : List Bytes := splitF data.length data psize

structure Part where
  index : Nat            -- uint32 in the code
  bytes : Bytes
  proof : Proof
deriving Repr, DecidableEq

structure PartSet where
  total : Nat
  hash : Bytes
  parts : List (Option Part)     -- length = total
deriving Repr

def fromHeader (total : Nat) (hash : Bytes) : PartSet :=
  { total := total, hash := hash, parts := List.replicate total none }

def fromData (data : Bytes) (psize : Nat) : PartSet :=
  let pieces := split data psize
  { total := pieces.length, hash := root H pieces,
    parts := (List.range pieces.length).map fun i =>
      some { index := i, bytes := pieces.getD i [], proof := proofOf H pieces i } }

inductive AddRes | added | dup | errIndex | errProof
deriving Repr, DecidableEq, BEq

/-- `PartSet.AddPart` (with the position checks of the `fix:` commit: the proof's own index and
total must be the slot and the header's total). -/
def addPart (ps : PartSet) (p : Part) : PartSet × AddRes :=
  if p.index ≥ ps.total then (ps, .errIndex)
  else if (ps.parts.getD p.index none).isSome then (ps, .dup)
  else if p.proof.index ≠ (p.index : Int) ∨ p.proof.total ≠ (ps.total : Int) then (ps, .errProof)
  else
    match verify H ps.hash p.bytes p.proof with
    | .error _ => (ps, .errProof)
    | .ok _ => ({ ps with parts := ps.parts.set p.index (some p) }, .added)

def count (ps : PartSet) : Nat := (ps.parts.filter Option.isSome).length
def isComplete (ps : PartSet) : Bool := count ps == ps.total

def partBytes : Option Part → Bytes
  | some p => p.bytes
  | none => []

/-- what `GetReader` yields on a complete set -/
def assemble (ps : PartSet) : Bytes :=
  (ps.parts.map partBytes).flatten

/-! `Part.ValidateBasic` / `Proof.ValidateBasic`: what the reactor checks on a part decoded from the
wire (`PartFromProto`) before it reaches `AddPart`. Constants come from the regenerated facts. -/
def hashSize : Nat := 32                                   -- tmhash.Size
def maxAunts : Nat := Tmv.Facts.merkle_MaxAunts.toNat      -- merkle.MaxAunts
def blockPartSizeBytes : Nat := Tmv.Facts.blockPartSizeBytes.toNat

inductive BasicErr | tooBig | negTotal | negIndex | leafSize | tooManyAunts | auntSize
deriving Repr, DecidableEq

def proofValidateBasic (p : Proof) : Except BasicErr Unit :=
  if p.total < 0 then .error .negTotal
  else if p.index < 0 then .error .negIndex
  else if p.leafHash.length ≠ hashSize then .error .leafSize
  else if p.aunts.length > maxAunts then .error .tooManyAunts
  else if p.aunts.all (fun a => a.length == hashSize) then .ok () else .error .auntSize

def partValidateBasic (pt : Part) : Except BasicErr Unit :=
  if pt.bytes.length > blockPartSizeBytes then .error .tooBig
  else proofValidateBasic pt.proof

end Tmv.PartSet
