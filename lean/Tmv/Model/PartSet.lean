import Tmv.Model.Merkle
import Tmv.Gen.Facts
/-! Model of /repo types/part_set.go: splitting, `AddPart`, reassembly. -/
namespace Tmv.PartSet
open Tmv.Merkle

variable (H : Bytes → Bytes)

/-- the pieces `NewPartSetFromData` cuts (`partSize > 0` is the code's CONTRACT) -/
def splitF : Nat → Bytes → Nat → List Bytes
  | 0, _, _ => []
  | fuel+1, data, psize =>
    if data = [] then [] else data.take psize :: splitF fuel (data.drop psize) psize

def split (data : Bytes) (psize : Nat) : List Bytes := splitF data.length data psize

structure Part where
  index : Nat            -- uint32 in the code
  bytes : Bytes
  proof : Proof
deriving Repr, DecidableEq

structure PartSet where
  total : Nat
  hash : Bytes
  parts : List (Option Part)     -- length = total
deriving Repr

def fromHeader (total : Nat) (hash : Bytes) : PartSet :=
  { total := total, hash := hash, parts := List.replicate total none }

def fromData (data : Bytes) (psize : Nat) : PartSet :=
  let pieces := split data psize
  { total := pieces.length, hash := root H pieces,
    parts := (List.range pieces.length).map fun i =>
      some { index := i, bytes := pieces.getD i [], proof := proofOf H pieces i } }

inductive AddRes | added | dup | errIndex | errProof
deriving Repr, DecidableEq, BEq

/-- `PartSet.AddPart` (with the position checks of the `fix:` commit: the proof's own index and
total must be the slot and the header's total). -/
def addPart (ps : PartSet) (p : Part) : PartSet × AddRes :=
  if p.index ≥ ps.total then (ps, .errIndex)
  else if (ps.parts.getD p.index none).isSome then (ps, .dup)
  else if p.proof.index ≠ (p.index : Int) ∨ p.proof.total ≠ (ps.total : Int) then (ps, .errProof)
  else
    match verify H ps.hash p.bytes p.proof with
    | .error _ => (ps, .errProof)
    | .ok _ => ({ ps with parts := ps.parts.set p.index (some p) }, .added)

def count (ps : PartSet) : Nat := (ps.parts.filter Option.isSome).length
def isComplete (ps : PartSet) : Bool := count ps == ps.total

def partBytes : Option Part → Bytes
  | some p => p.bytes
  | none => []

/-- what `GetReader` yields on a complete set -/
def assemble (ps : PartSet) : Bytes :=
  (ps.parts.map partBytes).flatten


/-! `PartSet.HasHeader` / `HashesTo`: how consensus decides whether the part set it holds is the one
a block id commits to (`Header().Equals(header)`: part count AND root; a nil set has no header). -/
def hashesTo (ps : Option PartSet) (hash : Bytes) : Bool :=
  match ps with
  | none => false
  | some s => s.hash == hash

def hasHeader (ps : Option PartSet) (total : Nat) (hash : Bytes) : Bool :=
  match ps with
  | none => false
  | some s => s.total == total && s.hash == hash

/-! `PartSetReader`: `cur` is the unread remainder of the current part's `bytes.Reader`, `rest` the
parts after it. `rd rest cur n` is `Read(p)` with `len(p) = n`: the bytes delivered, the new
`cur`/`rest`, and whether `io.EOF` was returned. Statement by statement: enough in the current part
-> read from it (an exhausted `bytes.Reader` answers EOF even to an empty `p`); some left -> take
it and read the remainder of `p` from the following parts; nothing left -> next part, or EOF. -/
def rd : List Bytes → Bytes → Nat → Bytes × Bytes × List Bytes × Bool
  | rest, cur, n =>
    if cur.length ≥ n then
      (if cur = [] then ([], [], rest, true) else (cur.take n, cur.drop n, rest, false))
    else match rest with
      | [] => (cur, [], [], true)
      | c :: rest' =>
        let r := rd rest' c (n - cur.length)
        (cur ++ r.1, r.2.1, r.2.2.1, r.2.2.2)

/-- `Read` called with buffers of the given sizes, one after the other: the chunks delivered with
their EOF flags. `GetReader` starts at part 0. -/
def rdSeq : List Nat → Bytes → List Bytes → List (Bytes × Bool)
  | [], _, _ => []
  | n :: ns, cur, rest =>
    let r := rd rest cur n
    (r.1, r.2.2.2) :: rdSeq ns r.2.1 r.2.2.1

def readerOf (ps : PartSet) : Bytes × List Bytes :=
  match ps.parts.map partBytes with
  | [] => ([], [])
  | c :: rest => (c, rest)

/-! `Part.ValidateBasic` / `Proof.ValidateBasic`: what the reactor checks on a part decoded from the
wire (`PartFromProto`) before it reaches `AddPart`. Constants come from the regenerated facts. -/
def hashSize : Nat := 32                                   -- tmhash.Size
def maxAunts : Nat := Tmv.Facts.merkle_MaxAunts.toNat      -- merkle.MaxAunts
def blockPartSizeBytes : Nat := Tmv.Facts.blockPartSizeBytes.toNat

inductive BasicErr | tooBig | negTotal | negIndex | leafSize | tooManyAunts | auntSize
deriving Repr, DecidableEq

def proofValidateBasic (p : Proof) : Except BasicErr Unit :=
  if p.total < 0 then .error .negTotal
  else if p.index < 0 then .error .negIndex
  else if p.leafHash.length ≠ hashSize then .error .leafSize
  else if p.aunts.length > maxAunts then .error .tooManyAunts
  else if p.aunts.all (fun a => a.length == hashSize) then .ok () else .error .auntSize

def partValidateBasic (pt : Part) : Except BasicErr Unit :=
  if pt.bytes.length > blockPartSizeBytes then .error .tooBig
  else proofValidateBasic pt.proof

/-! The consumer of block parts: `BlockPartMessage.ValidateBasic` (run by the consensus reactor on a
message decoded from the wire, `MsgFromProto` included) and `State.addProposalBlockPart`. `block` is
the byte string handed to the block decoder when the set completes. -/
structure PartsState where
  height : Int
  maxBytes : Int
  parts : Option PartSet
  block : Option Bytes
deriving Repr

/-- `PartSet.ByteSize` -/
def byteSize (ps : PartSet) : Nat := ((ps.parts.map partBytes).map List.length).sum

inductive ConsRes
  | errValidate | ignoredHeight | ignoredNoParts | errIndex | errProof | dup
  | tooBig (added : Bool) | added | complete
deriving Repr, DecidableEq

def consAddPart (s : PartsState) (height round : Int) (p : Part) : PartsState × ConsRes :=
  if height < 0 ∨ round < 0 then (s, .errValidate)
  else match partValidateBasic p with
  | .error _ => (s, .errValidate)
  | .ok _ =>
    if s.height ≠ height then (s, .ignoredHeight)
    else match s.parts with
    | none => (s, .ignoredNoParts)
    | some ps =>
      let r := addPart H ps p
      if r.2 = .errIndex then (s, .errIndex)
      else if r.2 = .errProof then (s, .errProof)
      else
        let s' := { s with parts := some r.1 }
        if (byteSize r.1 : Int) > s.maxBytes then (s', .tooBig (r.2 == .added))
        else if r.2 == .added && isComplete r.1 then ({ s' with block := some (assemble r.1) }, .complete)
        else (s', if r.2 == .added then .added else .dup)

/-! The gate in front of the header: `Proposal.ValidateBasic` (run on every proposal decoded from
the wire, before `defaultSetProposal` builds `ProposalBlockParts` from its part-set header). Only a
COMPLETE block id passes: a header without a root commits to nothing (see `verify`'s
`bytes.Equal(nil, [])` corner). -/
structure ProposalHdr where
  isProposalType : Bool
  height : Int
  round : Int
  polRound : Int
  blockHash : Bytes
  total : Nat
  root : Bytes
  sigLen : Nat
deriving Repr

inductive PropErr | type | height | round | pol | blockID | incomplete | sigMissing | sigTooBig
deriving Repr, DecidableEq

/-- `types.ValidateHash` -/
def validateHash (h : Bytes) : Bool := h.length == 0 || h.length == hashSize
/-- `BlockID.IsComplete` -/
def isCompleteID (blockHash : Bytes) (total : Nat) (root : Bytes) : Bool :=
  blockHash.length == hashSize && decide (0 < total) && root.length == hashSize
def maxSignatureSize : Nat := 64     -- types.MaxSignatureSize = max(ed25519.SignatureSize, 64)

def proposalValidateBasic (p : ProposalHdr) : Except PropErr Unit :=
  if !p.isProposalType then .error .type
  else if p.height < 0 then .error .height
  else if p.round < 0 then .error .round
  else if p.polRound < -1 then .error .pol
  else if !(validateHash p.blockHash) || !(validateHash p.root) then .error .blockID
  else if !(isCompleteID p.blockHash p.total p.root) then .error .incomplete
  else if p.sigLen = 0 then .error .sigMissing
  else if p.sigLen > maxSignatureSize then .error .sigTooBig
  else .ok ()

/-! The block store as the keeper of part sets: `SaveBlock` stores part `i` of height `h` under
`(h, i)` and the header in the block meta; `LoadBlockPart(h, i)` reads it back; `LoadBlock(h)`
concatenates parts `0 .. total-1` of the meta's header and decodes. -/
structure BStore where
  blocks : List (Int × PartSet)
deriving Repr

def bsSave (st : BStore) (h : Int) (ps : PartSet) : BStore :=
  { blocks := (h, ps) :: st.blocks.filter (fun e => e.1 != h) }
def bsParts (st : BStore) (h : Int) : Option PartSet :=
  (st.blocks.find? (fun e => e.1 == h)).map (·.2)
/-- the bytes `LoadBlock` hands to the decoder -/
def bsLoadBlock (st : BStore) (h : Int) : Option Bytes := (bsParts st h).map assemble
def bsLoadPart (st : BStore) (h : Int) (i : Nat) : Option Part :=
  (bsParts st h).bind fun ps => (ps.parts.getD i none)

end Tmv.PartSet
