import Tmv.Model.ValidateCommit
import Tmv.Model.ValSet
import Tmv.Model.Evidence
/-! `updateState` / `ApplyBlock` with the validator-set arithmetic of C08's model
(`Tmv.ValSet.updateWithChangeSet`, `increment`) and `ValidateBlock` with the evidence pool of C11's
model (`Tmv.Evidence.checkEvidence`) in place of verdicts supplied from outside. -/
namespace Tmv.Validate
open Tmv.ProtoSize

/-! ### validator sets through C08's model -/

/-- C08's address: the big-endian value of the address bytes -/
def natOfBytes (b : Bytes) : Nat := b.foldl (fun a x => a * 256 + x.toNat) 0

def bytesOfNatF : Nat → Nat → Bytes
  | 0, _ => []
  | f+1, n => if n < 256 then [UInt8.ofNat n] else bytesOfNatF f (n / 256) ++ [UInt8.ofNat (n % 256)]

/-- minimal big-endian bytes of a number (inverse of `natOfBytes`) -/
def bytesOfNat (n : Nat) : Bytes := bytesOfNatF (n + 1) n

def toVal (v : Validator) : ValSet.Val := ⟨natOfBytes v.addr, v.power, v.prio⟩

/-- back from C08's record to the node's validator, the identity (address bytes, public key)
looked up among the known validators `dir` -/
def back (dir : List Validator) (v : ValSet.Val) : Validator :=
  match dir.find? (fun d => natOfBytes d.addr == v.addr) with
  | some d => { addr := d.addr, pubKey := d.pubKey, power := v.power, prio := v.prio }
  | none => { addr := bytesOfNat v.addr, pubKey := [], power := v.power, prio := v.prio }

/-- an `abci.ValidatorUpdate` (ed25519 key, power); `addrOf` = `PubKey.Address()` -/
abbrev ValUpdate := Bytes × Int

def updValidator (addrOf : Bytes → Bytes) (u : ValUpdate) : Validator :=
  { addr := addrOf u.1, pubKey := u.1, power := u.2, prio := 0 }

/-- `nValSet := NextValidators.Copy(); if len(updates) > 0 { nValSet.UpdateWithChangeSet(updates) };
nValSet.IncrementProposerPriority(1)` in C08's terms; `none` = the error (or the panic on an empty
set) -/
def nextVSet (cur : List ValSet.Val) (changes : List ValSet.Val) : Option (List ValSet.Val) :=
  let u : ValSet.VSet × Option ValSet.UpdErr :=
    if changes ≠ [] then ValSet.updateWithChangeSet ⟨cur, none⟩ changes true else (⟨cur, none⟩, none)
  match u.2 with
  | some _ => none
  | none =>
    match ValSet.increment u.1 1 with
    | none => none
    | some s => some s.vals

/-- the same on the node's validators -/
def nextVals (addrOf : Bytes → Bytes) (cur : ValSet) (upd : List ValUpdate) : Option ValSet :=
  let dir := cur ++ upd.map (updValidator addrOf)
  (nextVSet (cur.map toVal) (upd.map fun u => toVal (updValidator addrOf u))).map
    fun l => l.map (back dir)

/-- `validateValidatorUpdates`: the key type of every added/changed validator must be allowed
(all keys of this model are ed25519; negative powers are refused by C08's `processChanges` too) -/
def updTypesOK (st : State) (upd : List ValUpdate) : Bool :=
  !(upd.any (fun u => decide (u.2 > 0))) || st.params.pubKeyTypes.contains "ed25519"

/-- `updateState` with the validator updates of `EndBlock` computed, not supplied -/
def updateStateV (env : Env) (addrOf : Bytes → Bytes) (st : State) (blockID : BlockID)
    (hHeight : Int) (hTime : Time) (upd : List ValUpdate) (pu : Option ParamUpdate)
    (results : List TxResult) : Except UpdErr State :=
  if upd.any (fun u => decide (u.2 < 0)) || !updTypesOK st upd then .error .valset
  else
    match nextVals addrOf st.nextVals upd with
    | none => .error .valset
    | some nv =>
      updateState env (fun _ => nv) st blockID hHeight hTime (!upd.isEmpty) (some st.nextVals) pu results

/-- `ApplyBlock` (state part) as a function of (state, block, block id, application responses) -/
def applyBlockV (env : Env) (addrOf : Bytes → Bytes) (st : State) (b : Block) (blockID : BlockID)
    (upd : List ValUpdate) (pu : Option ParamUpdate) (results : List TxResult) (appHash : Bytes) :
    Except ApplyErr State :=
  match validateBlock { env with evAdmissible := fun _ _ => true } st b with
  | .error e => .error (.invalid e)
  | .ok _ =>
    match updateStateV env addrOf st blockID b.header.height b.header.time upd pu results with
    | .error e => .error (.upd e)
    | .ok st' => .ok { st' with appHash := appHash }

/-! ### the evidence pool through C11's model -/

/-- the node's evidence pool in C11's terms: the chain context (headers and validator sets by
height, age limits, evidence hash / size / vote-signature predicate), the pool with the stores'
height, and the reading of a block's evidence item as C11's structured evidence -/
structure PoolEnv where
  ctx : Evidence.Ctx
  sys : Evidence.Sys
  decode : Ev → Evidence.Ev

/-- `evpool.CheckEvidence(block.Evidence.Evidence)` returned nil -/
def poolAdmits (pe : PoolEnv) (evs : List Ev) : Bool :=
  (Evidence.step pe.ctx pe.sys (.check (evs.map pe.decode))).2 == .ok

/-- the environment of the code: hashes over `H`, `VerifyCommit` = C07's model, the evidence
pool = C11's model -/
def fullEnv (H : Bytes → Bytes) (sigOK : Nat → CommitVerify.SignBytes → Bytes → Bool)
    (pe : PoolEnv) : Env :=
  concreteEnv H (cvVerify sigOK) (fun _ evs => poolAdmits pe evs)

/-- `BlockExecutor.ValidateBlock` with its side effect: `validateBlock`, and only if that passes
`CheckEvidence`, which leaves newly verified evidence pending in the pool -/
def validateWithPool (H : Bytes → Bytes) (sigOK : Nat → CommitVerify.SignBytes → Bytes → Bool)
    (pe : PoolEnv) (st : State) (b : Block) : Except Err Unit × Evidence.Sys :=
  match validateBlock { fullEnv H sigOK pe with evAdmissible := fun _ _ => true } st b with
  | .error e => (.error e, pe.sys)
  | .ok _ =>
    let r := Evidence.step pe.ctx pe.sys (.check (b.evidence.map pe.decode))
    (if r.2 == .ok then .ok () else .error .evidenceCheck, r.1)

end Tmv.Validate
