import Tmv.Util
/-! CRC-32C (Castagnoli, reflected polynomial 0x82F63B78) as used by `hash/crc32` with
`crc32.MakeTable(crc32.Castagnoli)`; core-only, bitwise. -/
namespace Tmv.Crc32c

def stepBit (c : UInt32) : UInt32 :=
  if c &&& 1 = 1 then (c >>> 1) ^^^ 0x82F63B78 else c >>> 1

def stepByte (c : UInt32) (b : UInt8) : UInt32 :=
  let c := c ^^^ b.toUInt32
  stepBit (stepBit (stepBit (stepBit (stepBit (stepBit (stepBit (stepBit c)))))))

def checksum (d : Bytes) : UInt32 := (d.foldl stepByte 0xFFFFFFFF) ^^^ 0xFFFFFFFF

/-- the checksum as the 4 big-endian bytes stored in a WAL record -/
def sumBytes (d : Bytes) : Bytes :=
  let c := checksum d
  [(c >>> 24).toUInt8, (c >>> 16).toUInt8, (c >>> 8).toUInt8, c.toUInt8]

end Tmv.Crc32c
