import Tmv.Gen.Facts
import Tmv.Model.Pipeline
/-! Expectations tying the C05 models to anchored source (facts are regenerated from /repo). -/
namespace Tmv.Expect.C05
open Tmv.Pipeline

/-- call names of the model's persistent effects, in the vocabulary of the anchored functions -/
def callName : Eff → String
  | .initChain => "InitChainSync"
  | .saveGenesis => "Save"
  | .signVote _ _ => "signVote"
  | .pvSign _ _ => "pvSign"
  | .saveBlock _ => "SaveBlock"
  | .walEnd _ => "WriteSync"
  | .begin _ => "BeginBlockSync"
  | .deliver _ _ => "DeliverTxAsync"
  | .endBlock _ => "EndBlockSync"
  | .saveResp _ => "SaveABCIResponses"
  | .appCommit => "CommitSync"
  | .saveState _ => "Save"
  | .pruneBlocks _ => "PruneBlocks"
  | .pruneStates _ _ => "PruneStates"

/-- `finalizeCommit`: SaveBlock, then the WAL #ENDHEIGHT, then ApplyBlock, then updateToState —
the model's `finalizeEffs` has SaveBlock and the marker in this order before the block's effects. -/
theorem finalize_order :
    Facts.c05_finalize_order = ["SaveBlock", "WriteSync", "ApplyBlock", "updateToState"] := by decide

theorem model_finalize_prefix :
    ((finalizeEffs { txs := fun _ => [] } { genesisSaved := true } 1).getD []).map callName
      = ["signVote", "signVote"] ++ Facts.c05_finalize_order.take 2 ++
          Facts.c05_exec_order.take 1 ++ Facts.c05_exec_order.drop 2 ++
          ["SaveABCIResponses", "CommitSync", "Save"] := by decide

/-- `ApplyBlock`: validate, execute, save responses, (updateState), Commit, save state. -/
theorem applyBlock_order : Facts.c05_applyBlock_order =
    ["validateBlock", "execBlockOnProxyApp", "SaveABCIResponses", "updateState", "Commit", "Save"] := by decide

/-- the model's `applyBlockReal` is that order with `execBlockOnProxyApp` and `Commit` expanded -/
theorem model_applyBlock_order :
    (applyBlockReal { txs := fun _ => [5] } 1).map callName
      = Facts.c05_exec_order ++ ["SaveABCIResponses"] ++ [(Facts.c05_commit_order.getD 2 "")] ++ ["Save"] := by decide

/-- `BlockExecutor.Commit`: mempool Lock, FlushAppConn, app CommitSync, mempool Update (the
committer's program in `Model/MempoolLock.lean`). -/
theorem commit_order : Facts.c05_commit_order = ["Lock", "FlushAppConn", "CommitSync", "Update"] := by decide

theorem exec_order : Facts.c05_exec_order = ["BeginBlockSync", "DeliverTxAsync", "EndBlockSync"] := by decide

theorem execCommit_order : Facts.c05_execCommit_order = ["execBlockOnProxyApp", "CommitSync"] := by decide

theorem model_execCommit_order :
    (execCommit { txs := fun _ => [5] } 1).map callName = Facts.c05_exec_order ++ Facts.c05_execCommit_order.drop 1 := by decide

/-- `ReplayBlocks`: InitChain iff the application reports height 0; state touched only at height 0;
the store = state / store = state + 1 split; the mock branch reads the last saved responses. -/
theorem replay_initchain_guard : Facts.c05_replay_initchain_guard = "appBlockHeight == 0" := by decide
theorem replay_genesis_state_guard : Facts.c05_replay_genesis_state_guard = "stateBlockHeight == 0" := by decide
theorem replay_store_eq_state : Facts.c05_replay_store_eq_state = "storeBlockHeight == stateBlockHeight" := by decide
theorem replay_mock_loads_last_resp : Facts.c05_replay_mock_loads_last_resp = true := by decide
theorem replay_app_ahead_case : Facts.c05_replay_app_ahead_case = true := by decide
theorem replay_store_ahead_case : Facts.c05_replay_store_ahead_case = true := by decide

/-- as repaired (9a8fd87): the height after the state is the genesis InitialHeight for an empty
state (model: `nxt`), used both for the store-ahead panic and for the store = state + 1 branch -/
theorem replay_next_is_initial_height : Facts.c05_replay_next_is_initial_height = true := by decide
theorem replay_store_next_case : Facts.c05_replay_store_next_case = true := by decide

/-- the repaired `catchupReplay` writes the missing #ENDHEIGHT (model: `startEffs`); without it
`recovery_progress` / `signed_vote_is_replayable` are false of the code. -/
theorem catchup_writes_missing_marker : Facts.c05_catchup_writes_missing_marker = true := by decide

/-- the marker is written only after the strict search for a damaged tail (which the model's
crash notion never produces) and before any message would be replayed -/
theorem catchup_marker_after_strict_pass :
    Facts.c05_catchup_order = ["SearchForEndHeight", "IsDataCorruptionError", "WriteSync", "readReplayMessage"] := by decide
theorem catchup_strict_pass_guard : Facts.c05_catchup_strict_guard = true := by decide

/-- v0 `CheckTx` keeps the read lock across `CheckTxAsync` (deferred unlock). -/
theorem v0_check_order : Facts.c05_v0_check_order = ["RLock", "RUnlock", "CheckTxAsync"] := by decide
theorem v0_check_unlock_deferred : Facts.c05_v0_check_unlock_deferred = true := by decide

/-- v1 `CheckTx`: read-locked prelude closed before `CheckTxSync`; `FlushAppConn` releases the
lock; rechecks are issued from a goroutine (the v1 discipline of `Model/MempoolLock.lean`). -/
theorem v1_check_order :
    Facts.c05_v1_check_order = ["RLock", "RUnlock", "CheckTxSync", "addNewTransaction"] := by decide
theorem v1_flush_unlocks : Facts.c05_v1_flush_unlocks = true := by decide
theorem v1_recheck_in_goroutine : Facts.c05_v1_recheck_in_goroutine = true := by decide

/-! ## fail points: the model's incarnation plan has the `fail.Fail()` call sites where the code has
them (facts: every occurrence, in source order, of `fail.Fail` and of the effectful calls) -/

def itemName : Item → String
  | .fail => "fail.Fail"
  | .prune _ => "pruneBlocks"
  | .eff (.begin _) => "execBlockOnProxyApp"
  | .eff (.deliver _ _) => "execBlockOnProxyApp"
  | .eff (.endBlock _) => "execBlockOnProxyApp"
  | .eff (.saveResp _) => "SaveABCIResponses"
  | .eff .appCommit => "Commit"
  | .eff (.saveState _) => "Save"
  | .eff e => callName e

/-- consecutive effects of one call collapse to its name -/
def dedupAdj : List String → List String
  | a :: b :: r => if a = b ∧ a ≠ "fail.Fail" then dedupAdj (b :: r) else a :: dedupAdj (b :: r)
  | l => l

theorem failseq_apply : Facts.c05_failseq_apply =
    ["execBlockOnProxyApp", "fail.Fail", "SaveABCIResponses", "fail.Fail", "Commit", "fail.Fail", "Save", "fail.Fail"] := by
  decide

theorem failseq_finalize : Facts.c05_failseq_finalize =
    ["fail.Fail", "SaveBlock", "fail.Fail", "WriteSync", "fail.Fail", "ApplyBlock", "fail.Fail", "updateToState", "fail.Fail"] := by
  decide

/-- `planApplyReal` = ApplyBlock's call sites -/
theorem model_plan_apply :
    dedupAdj ((planApplyReal { txs := fun _ => [5, 6] } 1).map itemName) = Facts.c05_failseq_apply := by decide

/-- the commit part of `planHeight` = finalizeCommit's call sites with ApplyBlock's spliced in
(`updateToState` has no persistent effect) -/
theorem model_plan_finalize :
    dedupAdj (((planHeight { txs := fun _ => [5] } 0 0 0 1).drop 4).map itemName) =
      Facts.c05_failseq_finalize.flatMap (fun n =>
        -- `pruneBlocks` and `updateToState` share the gap between the same two fail points
        -- (`finalize_prune_position`); only the former has persistent effects
        if n = "ApplyBlock" then Facts.c05_failseq_apply else if n = "updateToState" then ["pruneBlocks"] else [n]) := by decide

/-- `cs.pruneBlocks`: the base is read, PruneBlocks, then PruneStates (model: `pruneEffs`), and it
sits between ApplyBlock's fail point and updateToState in finalizeCommit -/
theorem prune_order : Facts.c05_prune_order = ["Base", "PruneBlocks", "PruneStates"] := by decide
theorem finalize_prune_position : Facts.c05_finalize_prune_position.drop 3 =
    ["ApplyBlock", "fail.Fail", "pruneBlocks", "updateToState", "fail.Fail"] := by decide
theorem model_prune_list :
    (pruneList { txs := fun _ => [] } 2 3).map callName = Facts.c05_prune_order.drop 1 := by decide

/-- the mock replay passes the same four fail points of ApplyBlock -/
theorem model_plan_mock_fail_count :
    ((planApplyMock 1).filter fun i => match i with | .fail => true | _ => false).length =
      (Facts.c05_failseq_apply.filter (· = "fail.Fail")).length := by decide

end Tmv.Expect.C05
