import Tmv.Gen.Facts
/-! Expectations tying the C11 model to anchored source lines of /repo evidence/pool.go and
evidence/verify.go (facts are regenerated from the source on every run). -/
namespace Tmv.Expect.C11

/-- `isExpired` needs BOTH limits exceeded (model: `expired`). -/
theorem isExpired_both_limits : Facts.evpool_isExpired_both = true := by decide

/-- the expiry clause of `verify` is the same conjunction (model: `verify`, third clause). -/
theorem verify_expiry_clause : Facts.evpool_verify_expiry =
    "ageDuration > evidenceParams.MaxAgeDuration && ageNumBlocks > evidenceParams.MaxAgeNumBlocks" := by decide

/-- `CheckEvidence` verifies an item when it is light-client-attack evidence or not yet pending
(model: `checkLoop`, first guard). -/
theorem check_guard : Facts.evpool_check_guard = "isLightEv || !evpool.isPending(ev)" := by decide

/-- ... and stores / counts it only when it is not pending yet (repaired code; model: `checkLoop`
adds only `if isPending … then p else addPending`). Without it `size_eq_pending` is false. -/
theorem check_adds_once : Facts.evpool_check_add_once = "!evpool.isPending(ev)" := by decide

/-- `Update` prunes whenever something is pending (repaired code; model: `update`). With the old
pruning-height/time shortcut `pending_sound` / `check_admits_only` are false. -/
theorem update_prunes_always : Facts.evpool_update_prune = "evpool.Size() > 0" := by decide

/-- `AddEvidence`: pending test, committed test, verify, store — in this order. -/
theorem add_order : Facts.evpool_add_order =
    ["evpool.isPending", "evpool.isCommitted", "evpool.verify", "evpool.addPendingEvidence"] := by decide

/-- `Update`: flush the consensus buffer (with the NEW state), switch state, mark committed, prune. -/
theorem update_order : Facts.evpool_update_order =
    ["evpool.processConsensusBuffer", "evpool.updateState", "evpool.markEvidenceAsCommitted",
     "evpool.removeExpiredPendingEvidence"] := by decide

/-- the two key spaces are distinct prefixes (model: separate `pending` / `committed`). -/
theorem key_spaces_distinct :
    Facts.evpool_baseKeyCommitted = 0 ∧ Facts.evpool_baseKeyPending = 1 := by decide

/-- `GetByzantineValidators`, equivocation branch: a slot whose address names nobody in the
conflicting set is skipped (repaired code; model: `equivocators`). Without it evidence verification
panics. -/
theorem byz_skips_unknown_address :
    Facts.evpool_byz_equiv_nil_guard = "val == nil" ∧ Facts.evpool_byz_skip_nil = true := by decide

/-- `validateABCIEvidence`: an empty decoded list is not "some validators" (repaired code; model:
`validateABCI`). -/
theorem abci_nil_check :
    Facts.evpool_abci_nil_check = "validators == nil && len(ev.ByzantineValidators) != 0" := by decide

/-- `VerifyLightClientAttack`: jump / derivation check, commit check, then the ABCI part. -/
theorem lca_order : Facts.evpool_lca_order =
    ["commonVals.VerifyCommitLightTrusting", "e.ConflictingHeaderIsInvalid",
     "e.ConflictingBlock.ValidatorSet.VerifyCommitLight", "validateABCIEvidence"] := by decide

/-- `prepareEvidenceMessage`: the two guards (model: `prepare`). -/
theorem reactor_prepare_guards :
    Facts.evreactor_peer_behind = "peerHeight <= evHeight" ∧
    Facts.evreactor_too_old = "ageNumBlocks > params.MaxAgeNumBlocks" := by decide

/-- `ApplyBlock`: validate, update the evidence pool, THEN save the state (model:
`applyBlockSteps`; `Props.C11.applyblock_crash_safe` is false for the other order). -/
theorem applyblock_order : Facts.applyblock_order =
    ["validateBlock", "blockExec.evpool.Update", "blockExec.store.Save"] := by decide

/-- the handshake replays stored blocks with an empty evidence pool (model: `Op.replay` does not
touch the pool; known finding `replay_skips_pool_fails`). -/
theorem replay_uses_empty_pool : Facts.replay_evpool_empty = true := by decide

end Tmv.Expect.C11
