import Tmv.Gen.Facts
/-! Expectations tying the C14 model to anchored source lines (facts are regenerated from /repo). -/
namespace Tmv.Expect.C14

/-- `recentSnapshots` (per-peer cap in `snapshotPool.Add`; the driver takes it from here) -/
theorem recentSnapshots : Facts.c14_recentSnapshots = 10 := by decide

/-- `syncer.AddChunk` consults the peer blacklist (model: `addChunk`'s `blPeer` test; without it
`Thm.deliver_ext` / `syncAny_ext` are false of the code) -/
theorem addChunk_rejected_sender_guard :
    Facts.c14_addChunk_rejected_sender_guard = "s.snapshots.IsPeerRejected(chunk.Sender)" := by decide

/-- `verifyApp`: the three comparisons (model: `verifyApp`) -/
theorem verifyApp_version_guard : Facts.c14_verifyApp_version_guard = "resp.AppVersion != appVersion" := by decide
theorem verifyApp_hash_guard :
    Facts.c14_verifyApp_hash_guard = "!bytes.Equal(snapshot.trustedAppHash, resp.LastBlockAppHash)" := by decide
theorem verifyApp_height_guard :
    Facts.c14_verifyApp_height_guard = "uint64(resp.LastBlockHeight) != snapshot.Height" := by decide

/-- `chunkQueue.Add` keeps the first recorded arrival (model: `(q.files c.index).isSome`) -/
theorem queue_add_dup_guard : Facts.c14_queue_add_dup_guard = "q.chunkFiles[chunk.Index] != \"\"" := by decide

/-- the app hash is read from the light block at snapshot height + 1 (model: `lcAppHash`) -/
theorem apphash_height_plus_one : Facts.c14_apphash_height_plus_one = true := by decide

/-- statement order of `Sync` (model: `syncBody`) and of the `applyChunks` loop (model: `applyOne`) -/
theorem sync_order : Facts.c14_sync_order =
    ["AppHash", "offerSnapshot", "State", "Commit", "applyChunks", "verifyApp"] := by decide
theorem applyChunks_order : Facts.c14_applyChunks_order =
    ["Next", "ApplySnapshotChunkSync", "Discard", "RejectPeer", "DiscardSender", "Retry"] := by decide

/-- `types.MaxBlockSizeBytes` (the driver's `Params.valid` bound comes from here) -/
theorem maxBlockSizeBytes : Facts.c14_MaxBlockSizeBytes = 104857600 := by decide

/-- light/rpc `ConsensusParams` compares `HashConsensusParams` of the answer with the verified
header's `ConsensusHash` (model: `checkParams`) -/
theorem params_hash_guard : Facts.c14_params_hash_guard = true := by decide

/-- `State()` takes the validator sets from the verified light blocks (model: `lcState`) -/
theorem state_vals_from_blocks : Facts.c14_state_vals_from_blocks = true := by decide

/-- node/node.go `startStateSync`: seen commit first, then the state store (model: `startWrites true`;
`crash_safe_commit_first` is about this order), and the seen commit is written synced -/
theorem startStateSync_order : Facts.c14_startStateSync_order =
    ["Sync", "SaveSeenCommit", "Bootstrap", "SwitchToFastSync", "SwitchToConsensus"] := by decide
theorem seen_commit_synced : Facts.c14_seen_commit_synced = true := by decide

/-- `validateMsg` (model: `StateSync.validateMsg`) -/
theorem validate_missing_with_contents :
    Facts.c14_validate_missing_with_contents = "msg.Missing && len(msg.Chunk) > 0" := by decide
theorem validate_nil_chunk : Facts.c14_validate_nil_chunk = "!msg.Missing && msg.Chunk == nil" := by decide
theorem validate_no_hash : Facts.c14_validate_no_hash = "len(msg.Hash) == 0" := by decide
theorem validate_no_chunks : Facts.c14_validate_no_chunks = "msg.Chunks == 0" := by decide

/-- `SyncAny` rejects the snapshot on an error wrapping `context.DeadlineExceeded` (model: `.deadline`) -/
theorem syncany_deadline_branch : Facts.c14_syncany_deadline_branch = true := by decide

/-- every error path of the hand-over in `startStateSync` returns (model: `Props.C14.repoHandCode`;
`handover_starts_only_if_both_stored` is about exactly this error handling) -/
theorem handover_sync_err_returns : Facts.c14_handover_sync_err_returns = true := by decide
theorem handover_seen_err_returns : Facts.c14_handover_seen_err_returns = true := by decide
theorem handover_boot_err_returns : Facts.c14_handover_boot_err_returns = true := by decide

end Tmv.Expect.C14
