import Tmv.Gen.Facts
/-! Expectations tying the C12 models to anchored source lines (facts regenerated from /repo). -/
namespace Tmv.Expect.C12

/-- `abci.CodeTypeOK` (the models' `codeOK` is defined from this fact). -/
theorem codeTypeOK : Facts.abci_CodeTypeOK = 0 := by decide

/-- v0 `ReapMaxTxs` loops while `len(txs) < max` (model: `V0.reapNGo`); with `<=` the theorem
`v0_reapMaxTxs_is_prefix_within_count` is false of the code. -/
theorem v0_reapMaxTxs_loop : Facts.mempoolV0_reapMaxTxs_loop = "e != nil && len(txs) < max" := by decide

/-- v0 `isFull` (model: `V0.isFull`). -/
theorem v0_isFull : Facts.mempoolV0_isFull =
    "memSize >= mem.config.Size || int64(txSize)+txsBytes > mem.config.MaxTxsBytes" := by decide

/-- v0 `resCbFirstTime`: the critical section is entered FIRST, then the capacity check, the
already-in-pool guard and `addTx` (model: `V0.resCbFirstTime` as one atomic step); a capacity check
outside the lock lets concurrent callers exceed the limits, without the guard `v0_no_duplicates` is
false of the code. -/
theorem v0_admit_order : Facts.mempoolV0_admit_order =
    ["mem.addTxMtx.Lock", "mem.isFull", "mem.txsMap.Load", "mem.addTx"] := by
  decide
theorem v0_inpool_guard : Facts.mempoolV0_inpool_guard = true := by decide

/-- v0 admission (capacity check, in-pool check, insertion) is one critical section — the models'
"one CheckTx is one atomic step" for concurrent callers over the local client. -/
theorem v0_admit_atomic : Facts.mempoolV0_admit_atomic = true := by decide

/-- v1 `addNewTransaction` has the already-in-pool guard (model: `V1.addNewTransaction`). -/
theorem v1_inpool_guard : Facts.mempoolV1_inpool_guard = true := by decide

/-- v1 `canAddTx` (model: `V1.canAddTx`). -/
theorem v1_canAddTx : Facts.mempoolV1_canAddTx =
    "numTxs >= txmp.config.Size || wtx.Size()+txBytes > txmp.config.MaxTxsBytes" := by decide

/-- v1 eviction candidates are the strictly lower-priority entries. -/
theorem v1_victim : Facts.mempoolV1_victim = "cw.priority < priority" := by decide

/-- v1 `addNewTransaction`: capacity check, evictions, then the insertion. -/
theorem v1_admit_order : Facts.mempoolV1_admit_order =
    ["txmp.canAddTx", "txmp.removeTxByElement", "txmp.insertTx"] := by decide

end Tmv.Expect.C12
