import Tmv.Gen.Facts
import Tmv.Model.LightRpc
/-! Expectations tying the C20 model to anchored source lines and constants (facts are regenerated
from /repo on every run). The model's constants are DEFINED from the facts (Model/LightRpc.lean);
here the values the proofs were developed against and the repaired guards are pinned. -/
namespace Tmv.Expect.C20
open Tmv.LightRpc

/-- `BlockResults` compares the DeliverTx results root (`results.Hash()`) with the trusted header's
`LastResultsHash` … -/
theorem blockResults_hash_guard : Facts.c20_blockResults_hash_guard = "!bytes.Equal(rH, tH)" := by decide
/-- … and no longer hashes the BeginBlock/EndBlock events into it (the defect the `fix:` removed). -/
theorem blockResults_no_events : Facts.c20_blockResults_hashes_events = false := by decide
/-- the header's `LastResultsHash` is the DeliverTx results root (`state.ABCIResponsesResultsHash`) -/
theorem header_results_root : Facts.c20_header_results_root = true := by decide
/-- `BlockResults` rejects another height label than the requested one (model: `resHeight ≠ h`) -/
theorem blockResults_height_guard : Facts.c20_blockResults_height_guard = "res.Height != h" := by decide
/-- `Tx` binds the returned bytes to the proven bytes (model: `res.proof.data ≠ res.tx`) … -/
theorem tx_data_guard : Facts.c20_tx_data_guard = "!bytes.Equal(res.Proof.Data, res.Tx)" := by decide
/-- … and bytes and label to the requested hash (model: `H res.tx ≠ reqHash ∨ res.hash ≠ reqHash`) -/
theorem tx_hash_guard :
    Facts.c20_tx_hash_guard = "!bytes.Equal(txH, hash) || !bytes.Equal(res.Hash, hash)" := by decide
/-- latest-height requests fall back to the latest trusted block (model: `updateTo … none`) -/
theorem update_uses_latest_trusted : Facts.c20_update_uses_latest_trusted = true := by decide
/-- `BlockchainInfo` verifies every listed height (model: `verifyMetas`) -/
theorem bcinfo_verifies_each : Facts.c20_bcinfo_verifies_each = true := by decide
/-- `Block`: BlockID.ValidateBasic, Block.ValidateBasic, then the light client (model: `verifyBlock`) -/
theorem block_order : Facts.c20_block_order =
    ["res.BlockID.ValidateBasic", "res.Block.ValidateBasic", "c.updateLightClientIfNeededTo"] := by decide
/-- `HashConsensusParams` hashes Block.MaxBytes and Block.MaxGas only (model: `Params.hash`) -/
theorem paramsHash_only_block : Facts.c20_paramsHash_only_block = true := by decide

/-- `Block` / `BlockByHash` compare the answer with the request (model: `BlockReq.matches`) -/
theorem block_request_guard :
    Facts.c20_block_request_guard = "height != nil && res.Block.Height != *height" := by decide
theorem blockByHash_request_guard :
    Facts.c20_blockByHash_request_guard = "!bytes.Equal(res.BlockID.Hash, hash)" := by decide
/-- `TxSearch` validates every relayed proof against the verified header (model: `verifyTxSearch`) -/
theorem txSearch_verifies : Facts.c20_txSearch_verifies = true := by decide
/-- `ValueOp.Run` refuses a proof that computes no root (model: `runOp` returns `computeRoot`) -/
theorem valueOp_nil_root : Facts.c20_valueOp_nil_root = "rootHash == nil" := by decide

/-- `KeyPathToKeys` undoes `KeyPath.String`'s `url.PathEscape` with `url.PathUnescape` (model:
`keyRoundTrip` is the identity except for the `x:` prefix; `QueryUnescape` would turn '+' into ' ') -/
theorem keypath_pathunescape : Facts.c20_keypath_pathunescape = true := by decide

/-- the constants the model takes from the source -/
theorem constants :
    blockProtocol = 11 ∧ maxChainIDLen = 50 ∧ addressSize = 20 ∧ maxBlockSizeBytes = 104857600 ∧
    defaultPerPage = 30 ∧ maxPerPage = 100 ∧ maxAunts = 100 := by decide

end Tmv.Expect.C20
