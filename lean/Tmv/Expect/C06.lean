import Tmv.Gen.Facts
/-! Expectations tying the C06 model to anchored source (facts are regenerated from /repo).
The size constants are used by the model *through* the facts (`ProtoSize.maxHeaderBytes` …), so a
changed constant flows into `size_fits`; the values below are the ones its arithmetic was proved
for. -/
namespace Tmv.Expect.C06

theorem maxHeaderBytes : Facts.c06_MaxHeaderBytes = 626 := by decide
theorem maxOverheadForBlock : Facts.c06_MaxOverheadForBlock = 11 := by decide
theorem maxCommitOverheadBytes : Facts.c06_MaxCommitOverheadBytes = 94 := by decide
theorem maxCommitSigBytes : Facts.c06_MaxCommitSigBytes = 109 := by decide
theorem maxBlockSizeBytes : Facts.c06_MaxBlockSizeBytes = 104857600 := by decide
theorem maxChainIDLen : Facts.c06_MaxChainIDLen = 50 := by decide
theorem blockProtocol : Facts.c06_BlockProtocol = 11 := by decide
theorem addressSize : Facts.c06_AddressSize = 20 := by decide

/-- the clause order of `validateBlock` the guard list of the model follows -/
theorem validate_order : Facts.c06_validate_order =
    ["ValidateBasic", "HashConsensusParams", "VerifyCommit", "HasAddress", "After", "MedianTime", "ByteSize"] := by
  decide

/-- `WeightedMedian` starts at `totalVotingPower / 2` and stops at `median <= weight` (model:
`weightedMedian`, `pick`); this is the rule `makeBlock_valid_fails` is about -/
theorem median_half : Facts.c06_median_half = true := by decide
theorem median_pick : Facts.c06_median_pick = "median <= weightedTime.Weight" := by decide

/-- `CreateProposalBlock` budgets the commit by `LastValidators` (model: `proposalDataBudget`;
the `fix:` commit) — with `Validators` `size_fits` is false of the code -/
theorem proposal_budget_vals : Facts.c06_proposal_budget_vals = true := by decide

/-- `State.voteTime` consults the LOCKED block first and the proposal only without a lock (model:
`voteTime`; `voteTime_after_locked`, `next_block_valid_of_correct_votes` rest on this order) -/
theorem voteTime_first : Facts.c06_voteTime_first = "cs.LockedBlock != nil" := by decide
theorem voteTime_second : Facts.c06_voteTime_second = "cs.ProposalBlock != nil" := by decide

end Tmv.Expect.C06
