import Tmv.Gen.Facts
/-! Expectations tying the decision rule used by C01 (`Tmv.Cons.tryFinalizeCommit` /
`finalizeCommit`, the quorum arithmetic of `Tmv.Cons.VoteSet`) to anchored source lines; the facts
are regenerated from /repo on every run. The node model itself is tied by the C02 expectations and
stream, the network composition by the c01 stream. -/
namespace Tmv.Expect.C01

/-- `tryFinalizeCommit` goes on only with a +2/3 precommit majority for a block (not nil) … -/
theorem try_finalize_needs_block_majority :
    Facts.c01_try_finalize_needs_block_majority = "!ok || len(blockID.Hash) == 0" := by rfl

/-- … and only when the node holds the block that hashes to it -/
theorem try_finalize_needs_block :
    Facts.c01_try_finalize_needs_block = "!cs.ProposalBlock.HashesTo(blockID.Hash)" := by rfl

/-- `finalizeCommit` acts in the commit step only, re-checks the hash and validates the block -/
theorem finalize_step_guard :
    Facts.c01_finalize_step_guard = "cs.Height != height || cs.Step != cstypes.RoundStepCommit" := by rfl
theorem finalize_hash : Facts.c01_finalize_hash = "!block.HashesTo(blockID.Hash)" := by rfl
theorem finalize_validates : Facts.c01_finalize_validates = true := by rfl

/-- quorum arithmetic: a majority is `total*2/3 + 1`, "+2/3 any" is `sum > total*2/3` -/
theorem quorum_expr : Facts.c01_quorum_expr = true := by rfl
theorem two_thirds_any : Facts.c01_two_thirds_any = true := by rfl

/-- the hand-over from fast sync to consensus (blockchain/v0 `poolRoutine`): the WAL is skipped only
if blocks were actually synced (or the node was state-synced) — with nothing synced consensus replays
its WAL, which is why a restart is invisible in the model (`Tmv.Net.Op.restart`) -/
theorem handover_skipwal : Facts.c01_handover_skipwal = true := by rfl
/-- `SwitchToConsensus` turns WAL catch-up off exactly when told to skip the WAL … -/
theorem switch_skipwal : Facts.c01_switch_skipwal = "skipWAL" := by rfl
/-- … and `State.OnStart` replays the WAL exactly when catch-up is on -/
theorem onstart_catchup : Facts.c01_onstart_catchup = "cs.doWALCatchup" := by rfl

end Tmv.Expect.C01
