import Tmv.Gen.Facts
/-! Expectations tying the C03 models (`Tmv.Cons` mechanisms used by the termination argument,
`Tmv.Sync` ticker and timeouts) to anchored source lines (facts are regenerated from /repo on every
run). -/
namespace Tmv.Expect.C03

/-- `enterNewRound` lets every later round through, whatever the step (model: the guard of
`Cons.enterNewRound`) — this is also the guard that lets a node leave the commit step (known finding);
a change here must be followed by a change of the model and of `NoOrphanCommit`. -/
theorem enterNewRound_guard : Facts.c03_enterNewRound_guard =
    "cs.Height != height || round < cs.Round || (cs.Round == round && cs.Step != cstypes.RoundStepNewHeight)" := by
  decide

/-- skipped rounds advance the proposer priorities one round at a time (fix 781020d; model:
`valRound` counts single increments, `Cfg.proposer` is indexed by it) -/
theorem enterNewRound_single_increments : Facts.c03_enterNewRound_single_increments = true := by decide

/-- round skipping on +2/3-any prevotes / precommits of a later round (`prevoteTransitions`,
`afterPrecommit`) -/
theorem round_skip_prevotes : Facts.c03_round_skip_prevotes = true := by decide
theorem round_skip_precommits : Facts.c03_round_skip_precommits = true := by decide

/-- the proposer re-proposes its valid block (`decideProposal`: `s.validBlock.getD c.ownBlock`) with
`ValidRound` as the POL round -/
theorem decide_valid_block : Facts.c03_decide_valid_block = "cs.ValidBlock != nil" := by decide
theorem proposal_carries_valid_round : Facts.c03_proposal_carries_valid_round = true := by decide

/-- the commit step is entered from any earlier step and only `handleCompleteProposal` in the commit
step finalizes when the block arrives -/
theorem enterCommit_guard : Facts.c03_enterCommit_guard =
    "cs.Height != height || cstypes.RoundStepCommit <= cs.Step" := by decide
theorem complete_proposal_in_commit : Facts.c03_complete_proposal_in_commit =
    "cs.Step == cstypes.RoundStepCommit" := by decide

/-- `timeoutRoutine` ignores a tick of the same round whose step is not later (`Ticker.schedule`) -/
theorem ticker_replace_rule : Facts.c03_ticker_replace_rule = "ti.Step > 0 && newti.Step <= ti.Step" := by decide

/-- timeouts are `base + delta * round` (`Timeouts.duration`) with positive default deltas
(`timeouts_increase_with_round`) -/
theorem timeout_formulas : Facts.c03_propose_timeout_formula = true ∧ Facts.c03_prevote_timeout_formula = true ∧
    Facts.c03_precommit_timeout_formula = true := by decide
theorem default_deltas : Facts.c03_default_propose_delta = true ∧ Facts.c03_default_prevote_delta = true ∧
    Facts.c03_default_precommit_delta = true := by decide

/-- the reactor hands a peer's majority claim (`VoteSetMaj23`) of ANY round of the current height to
`HeightVoteSet.SetPeerMaj23` (model: `Input.peerMaj23` is accepted whatever the node's round;
`Net.claim` delivers the claims of all rounds) -/
theorem maj23_claim_any_round : Facts.c03_maj23_claim_any_round = "height != msg.Height" := by decide
theorem maj23_claim_sets_peer_maj23 : Facts.c03_maj23_claim_sets_peer_maj23 = true := by decide

/-- a conflicting vote is refused unless a peer claimed a majority for its block (model:
`VoteSet.addVerified`, `conflicting && !bv.peerMaj23`) -/
theorem conflicting_vote_gate : Facts.c03_conflicting_vote_gate =
    "conflicting != nil && !votesByBlock.peerMaj23" := by decide

end Tmv.Expect.C03
