import Tmv.Model.WalInst
import Tmv.Lemmas.Wal
/-! Expectations tying the C15 model to anchored source lines and constants (facts are regenerated
from /repo), and the proof that the parameters the driver runs the model with satisfy the
hypotheses (`Good`) of the C15 theorems. -/
namespace Tmv.Expect.C15
open Tmv Tmv.Wal

/-- `maxMsgSize` (consensus/reactor.go); the WAL limit is `maxMsgSize + 24`. -/
theorem maxMsgSize : Facts.c15_maxMsgSize = 1048576 := by decide

/-- `maxFilesToRemove` bounds one pruning pass. -/
theorem maxFilesToRemove : Facts.c15_maxFilesToRemove = 4 := by decide

/-- the head's write buffer is `bufio.NewWriterSize(head, 4096*10)` (model: `Inst.S = 40960`). -/
theorem headBuf : Facts.c15_headBuf_40k = true ∧ Inst.S = 4096 * 10 := by decide

/-- `Decode` reports a clean EOF only when not a single checksum byte could be read
(model: `decodeG`'s first two branches). Without `nr == 0` a torn checksum goes unrepaired. -/
theorem decode_clean_eof : Facts.c15_decode_clean_eof = "errors.Is(err, io.EOF) && nr == 0" := by decide

/-- `checkHeadSizeLimit` rotates when the head *file* has reached the limit. -/
theorem rotate_guard : Facts.c15_rotate_guard = "size >= limit" := by decide

/-- the early exit of `SearchForEndHeight` (model: `searchIdx`). -/
theorem search_early_exit :
    Facts.c15_search_early_exit = "lastHeightFound > 0 && lastHeightFound < height" := by decide

/-- `repairWalFile` fsyncs the file it rewrote (model: `repairHead` sets `synced` to the length). -/
theorem repair_syncs : Facts.c15_repair_syncs = true := by decide

/-- order of the repair steps in `State.OnStart` (first occurrences). -/
theorem onstart_repair_order : Facts.c15_onstart_repair_order =
    ["loadWalFile", "catchupReplay", "Stop", "CopyFile", "repairWalFile"] := by decide

/-- `readGroupInfo` recognises rotated files by `[0-9]{3,}`: `%03d` is a minimum width, indices
from 1000 on have more digits (the model keys files by index, whatever its size). -/
theorem index_pattern : Facts.c15_index_pattern = true := by decide

/-- `State.OnStart` decides "repair or start anyway" with `IsDataCorruptionError(err)`, a plain type
assertion … -/
theorem onstart_corruption_case : Facts.c15_onstart_corruption_case = true := by decide

/-- … so `catchupReplay` must hand the decoder's `DataCorruptionError` back as it is: it tests it
with the same helper and wraps no error (`%w`). -/
theorem catchup_returns_raw_error :
    Facts.c15_catchup_corruption_case = true ∧ Facts.c15_catchup_wraps_error = false := by decide

/-- after a repair `OpenWAL` opens the group without options: default limits -/
theorem default_limits : Wal.Inst.defaultHeadLimit = 10 * 1024 * 1024 ∧
    Wal.Inst.defaultTotalLimit = 1024 * 1024 * 1024 := by decide

/-- the driver's parameters satisfy the hypotheses of the theorems -/
theorem inst_good : Good Inst.P where
  crcLen := fun _ => rfl
  maxLt := by decide
  parseNil := by decide

end Tmv.Expect.C15
