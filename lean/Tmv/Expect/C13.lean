import Tmv.Gen.Facts
/-! Expectations tying the C13 model to anchored source lines (facts are regenerated from /repo). -/
namespace Tmv.Expect.C13

/-- order of the calls in `poolRoutine` (the first `StopPeerForError` is the `errorsCh` consumer):
peek, light verification, validation, on error redo + stop, else pop, save, apply -/
theorem v0_step_order : Facts.c13_v0_step_order =
    ["StopPeerForError", "PeekTwoBlocks", "VerifyCommitLight", "ValidateBlock", "RedoRequest",
     "PopRequest", "SaveBlock", "ApplyBlock"] := by decide

/-- v0 verifies `second.LastCommit` for `first`'s id with `VerifyCommitLight` (model: `checkPair`) -/
theorem v0_verify_call : Facts.c13_v0_verify_call = true := by decide

/-- … and stores that same commit as the seen commit (model: `processStep`, hand-over theorems) -/
theorem v0_save_seen : Facts.c13_v0_save_seen = true := by decide

/-- v1 and v2 make the same verification call (covered by these facts only) -/
theorem v1_verify_call : Facts.c13_v1_verify_call = true := by decide
theorem v2_verify_call : Facts.c13_v2_verify_call = true := by decide

/-- `VerifyCommitLight` returns at the first +2/3 (model: `lightLoop`) -/
theorem light_early_return : Facts.c13_light_early_return = "talliedVotingPower > votingPowerNeeded" := by decide

theorem setBlock_guard : Facts.c13_setBlock_guard = "bpr.block != nil || bpr.peerID != peerID" := by decide
theorem pick_range_guard : Facts.c13_pick_range_guard = "height < peer.base || height > peer.height" := by decide
theorem caughtup : Facts.c13_caughtup = true := by decide

/-- `reconstructLastCommit`: seen commit, `CommitToVoteSet`, +2/3 (model: `reconstruct`) -/
theorem reconstruct_calls : Facts.c13_reconstruct_calls =
    ["LoadSeenCommit", "CommitToVoteSet", "HasTwoThirdsMajority"] := by decide

theorem maxPendingRequestsPerPeer : Facts.c13_maxPendingRequestsPerPeer = 20 := by decide
theorem maxDiff : Facts.c13_maxDiffBetweenCurrentAndReceivedBlockHeight = 100 := by decide

/-- v2 `pcState.handle`: light verification, then save, then apply (which validates) — the model
`V2.Pc.handle` has this order, and `v2_saved_is_canonical` its consequence -/
theorem v2_handle_order : Facts.c13_v2_handle_order =
    ["purgePeer", "nextTwo", "verifyCommit", "saveBlock", "applyBlock"] := by decide

/-- v2 `pcState.height()` is the state's `LastBlockHeight` (model: `p.st.lastHeight + 1`, `+ 2`) -/
theorem v2_height : Facts.c13_v2_height = true := by decide

/-- `makeRequestersRoutine` creates no requester while `numPending` / the number of requesters is
at its limit (model: `Pool.routineStep`, constants taken from these facts) -/
theorem routine_guards : Facts.c13_routine_guards = true := by decide
theorem maxPendingRequests : Facts.c13_maxPendingRequests = 600 := by decide
theorem maxTotalRequesters : Facts.c13_maxTotalRequesters = 600 := by decide

/-- `bpRequester.reset` counts the request as pending again only if it had a block (model:
`Pool.resetReq`; theorem `numPending_is_waiting_requesters`) -/
theorem reset_guard : Facts.c13_reset_guard = "bpr.block != nil" := by decide

/-- v1 `processBlock`: light verification of `second.LastCommit`, then `SaveBlock`, then `ApplyBlock`
(which validates) — the model `V1.Node.processOnce` has this order -/
theorem v1_process_order : Facts.c13_v1_process_order =
    ["FirstTwoBlocks", "VerifyCommitLight", "SaveBlock", "ApplyBlock"] := by decide

/-- v1 starts its pool at `state.InitialHeight` on an empty store (model: `startHeight`) -/
theorem v1_start_height : Facts.c13_v1_start_height = true := by decide
theorem v1_maxRequestsPerPeer : Facts.c13_v1_maxRequestsPerPeer = 20 := by decide

/-- v2 scheduler: a Removed peer's status is ignored (model: `V2S.Sched.setPeerRange`) and
`targetPending` is 10 -/
theorem v2_sched_removed_noop : Facts.c13_v2_sched_removed_noop = "peer.state == peerStateRemoved" := by decide
theorem v2_targetPending : Facts.c13_v2_targetPending_10 = true := by decide

/-- v0 saves and applies the very block (`first`) whose commit it verified; `PopRequest` hands
nothing back (model: the pool's head block is the verified one; seeded change C13-r6-1 swapped it
for whatever the popped requester holds after a concurrent peer removal) -/
theorem v0_saves_verified_block : Facts.c13_v0_saves_verified_block = true := by decide
theorem v0_applies_verified_block : Facts.c13_v0_applies_verified_block = true := by decide
theorem v0_pop_returns_nothing : Facts.c13_v0_pop_returns_nothing = true := by decide

end Tmv.Expect.C13
