import Tmv.Gen.Facts
/-! Expectations tying the C10 model to anchored source lines (facts are regenerated from /repo). -/
namespace Tmv.Expect.C10

/-- `AddPart` rejects a slot outside the header's total (model: `p.index ≥ ps.total`). -/
theorem addPart_index_guard : Facts.addPart_index_guard = "part.Index >= ps.total" := by decide

/-- `AddPart` pins the proof's index and total to the slot and the header (model: `addPart`'s
third guard); without it `addPart_binds_position` is false of the code. -/
theorem addPart_position_guard : Facts.addPart_position_guard =
    "part.Proof.Index != int64(part.Index) || part.Proof.Total != int64(ps.total)" := by decide

/-- `merkle.MaxAunts` and `types.BlockPartSizeBytes` as the model's `ValidateBasic` uses them
(`honest_parts_validate` needs 100 ≤ MaxAunts and the part size limit). -/
theorem maxAunts_value : Facts.merkle_MaxAunts = 100 := by decide
theorem blockPartSize_value : Facts.blockPartSizeBytes = 65536 := by decide

/-- `HasHeader` compares whole headers, and header equality is part count AND root (model:
`hasHeader`); `kept_set_reads_committed` needs the part count. -/
theorem hasHeader_compares_headers : Facts.c10_hasheader_equals = true := by decide
theorem header_equals_total_and_hash : Facts.c10_header_equals_total_and_hash = true := by decide

/-- the guards of `State.addProposalBlockPart` and `BlockPartMessage.ValidateBasic` as `consAddPart`
has them (`cons_block_is_committed`, `cons_ignores_invalid`) -/
theorem cons_height_guard : Facts.c10_cons_height_guard = "cs.Height != height" := by decide
theorem cons_maxbytes_guard : Facts.c10_cons_maxbytes_guard =
    "cs.ProposalBlockParts.ByteSize() > cs.state.ConsensusParams.Block.MaxBytes" := by decide
theorem cons_decode_guard : Facts.c10_cons_decode_guard =
    "added && cs.ProposalBlockParts.IsComplete()" := by decide
theorem blockpartmsg_round_guard : Facts.c10_blockpartmsg_round_guard = "m.Round < 0" := by decide
/-- `enterCommit` replaces the part set it holds unless `HasHeader(committed header)` -/
theorem entercommit_hasheader : Facts.c10_entercommit_hasheader = true := by decide

/-- the gate in front of the part-set header (`proposal_header_complete`) and `Verify`'s refusal of a
proof that computes no root (`shapeless_proof_never_verifies`, from the `fix:` commit) -/
theorem proposal_complete_gate : Facts.c10_proposal_complete_gate = "!p.BlockID.IsComplete()" := by decide
theorem blockid_iscomplete_root_size : Facts.c10_blockid_iscomplete = true := by decide
theorem verify_nil_root_guard : Facts.c10_verify_nil_root_guard = "computedHash == nil" := by decide

end Tmv.Expect.C10
