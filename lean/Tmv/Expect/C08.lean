import Tmv.Gen.Facts
/-! Expectations tying the C08 model to anchored source (facts are regenerated from /repo). -/
namespace Tmv.Expect.C08

/-- `MaxTotalVotingPower = MaxInt64 / 8` (the model's `maxTotal` is defined from this fact). -/
theorem maxTotal_value : Facts.c08_MaxTotalVotingPower = 9223372036854775807 / 8 := by decide

/-- `PriorityWindowSizeFactor = 2` (model: `windowFactor`). -/
theorem windowFactor_value : Facts.c08_PriorityWindowSizeFactor = 2 := by decide

/-- `valSetCheckpointInterval = 100000` (model: `ValStore.interval`). -/
theorem checkpointInterval_value : Facts.c08_valSetCheckpointInterval = 100000 := by decide

/-- addresses are 20 bytes (the model orders addresses as numbers of that width). -/
theorem addressSize_value : Facts.c08_AddressSize = 20 := by decide

/-- `saveValidatorsInfo` stores the full set iff the height is the changed-height or a checkpoint. -/
theorem saveValidatorsInfo_stored_iff : Facts.c08_saveValidatorsInfo_stored_iff =
    "height == lastHeightChanged || height%valSetCheckpointInterval == 0" := by decide

/-- `verifyUpdates` compares the running total with the limit (model: `checkSums`). -/
theorem verifyUpdates_limit : Facts.c08_verifyUpdates_limit = "tvpAfterRemovals > MaxTotalVotingPower" := by decide

/-- statement order of `updateWithChangeSet`: all verification before the first mutation. -/
theorem update_order : Facts.c08_update_order =
    ["processChanges", "numNewValidators", "verifyRemovals", "verifyUpdates", "computeNewPriorities",
     "applyUpdates", "applyRemovals", "updateTotalVotingPower", "RescalePriorities",
     "shiftByAvgProposerPriority"] := by decide

/-- `IncrementProposerPriority`: rescale, centre, then the rotation loop. -/
theorem increment_order : Facts.c08_increment_order =
    ["RescalePriorities", "shiftByAvgProposerPriority", "incrementProposerPriority"] := by decide

/-- new validators enter with priority `-(tvp + tvp>>3)`. -/
theorem new_priority_penalty : Facts.c08_new_priority_penalty = true := by decide

/-- `LoadValidators` replays single increments (`for h := lastStoredHeight; h < height; h++`) … -/
theorem load_single_increments :
    Facts.c08_load_single_increments = true ∧ Facts.c08_load_loop_cond = "h < height" := by decide

/-- … and no longer performs one `IncrementProposerPriority(height - lastStoredHeight)`
(the fixed defect: `load_exact` is false of that code). -/
theorem load_not_one_shot : Facts.c08_load_one_shot_increment = false := by decide

/-- `rpc/core.Validators` takes the set it reports under `height` from
`StateStore.LoadValidators(height)` and from nowhere else (model: `rpcValidators`). -/
theorem rpc_validators_source :
    Facts.c08_rpc_validators_from_store = true ∧ Facts.c08_rpc_validators_from_memory = false := by
  decide

end Tmv.Expect.C08
