import Tmv.Gen.Facts
import Tmv.Model.BlockStore
import Tmv.Model.StateStoreRange
/-! Expectations tying the C18 models to anchored source lines (facts are regenerated from /repo). -/
namespace Tmv.Expect.C18

/-- `PruneBlocks` flushes a batch every `batchSize` pruned blocks (model: `BlockStore.batchSize`). -/
theorem prune_flush_cond :
    Facts.c18_prune_flush_cond = s!"pruned%{BlockStore.batchSize} == 0 && pruned > 0" := by decide

/-- the intermediate flush persists `h+1` — the first height NOT in the batch — as the new base
(model: `pruneLoop`'s `.range (h + 1) H`); with `h` the theorem `prune_crash_consistent` is false. -/
theorem prune_flush_next_base : Facts.c18_prune_flush_next_base = true := by decide

/-- `SaveBlock` writes parts, meta, hash index, previous commit, seen commit, and the range
descriptor LAST (model: the order of `saveBlock`'s units). -/
theorem saveBlock_order : Facts.c18_saveBlock_order =
    ["saveBlockPart", "calcBlockMetaKey", "calcBlockHashKey", "calcBlockCommitKey", "calcSeenCommitKey", "saveState"] := by
  decide

/-- `finalizeCommit`: validate (panic before anything is written), block store, then the state
(ApplyBlock), then pruning (model: `StoreNode.phase1` / `step`). -/
theorem finalizeCommit_order : Facts.c18_finalizeCommit_order =
    ["ValidateBlock", "SaveBlock", "ApplyBlock", "pruneBlocks"] := by
  decide

/-- the pruning glue prunes the block store before the state store (model: `StoreNode.pruneGlue`) -/
theorem pruneGlue_order : Facts.c18_pruneBlocks_glue_order = ["PruneBlocks", "PruneStates"] := by decide

/-- the model's checkpoint interval IS the source constant -/
theorem checkpoint_interval : StateStore.interval = Facts.c18_valSetCheckpointInterval := rfl

/-- every consensus-parameter update moves `LastHeightConsensusParamsChanged` (whatever fields it
touches: `HashConsensusParams` covers only Block.MaxBytes/MaxGas), so `LoadConsensusParams` finds
the params of every retained height (seeded change C18-r6-1 made it conditional on the hash) -/
theorem params_change_height_unconditional : Facts.c18_params_change_height_unconditional = true := by decide

end Tmv.Expect.C18
