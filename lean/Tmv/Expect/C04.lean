import Tmv.Gen.Facts
import Tmv.Model.Sign
/-! Expectations tying the C04 model to anchored source lines (facts are regenerated from /repo on
every run). -/
namespace Tmv.Expect.C04
open Tmv

/-- step numbering of `privval/file.go` and the signed-message types (the model's `reqStep`,
`stepOfTyp` are defined from these facts; the proofs need the three steps to be strictly ordered
propose < prevote < precommit only through `CheckHRS`, and the proposal type to differ from both
vote types) -/
theorem steps_ordered : Facts.pv_stepPropose < Facts.pv_stepPrevote ∧ Facts.pv_stepPrevote < Facts.pv_stepPrecommit ∧
    0 < Facts.pv_stepPropose := by decide

theorem types_distinct : Facts.pv_ProposalType ≠ Facts.pv_PrevoteType ∧ Facts.pv_ProposalType ≠ Facts.pv_PrecommitType ∧
    Facts.pv_PrevoteType ≠ Facts.pv_PrecommitType := by decide

/-- `signVote` / `signProposal`: CheckHRS, then the sign bytes, then the signature, then
`saveSigned` (model: `begin`, then `Stage.sigDone`, `Stage.memSet`) -/
theorem signVote_order : Facts.pv_signVote_order = ["CheckHRS", "VoteSignBytes", "Sign", "saveSigned"] := by decide
theorem signProposal_order : Facts.pv_signProposal_order = ["CheckHRS", "ProposalSignBytes", "Sign", "saveSigned"] := by decide

/-- the signature is assigned to the caller's message only after `saveSigned` returned (model: the
release is the micro-step after `Stage.renamed`); without this order `disk_dominates_released`
is false of the code -/
theorem persist_before_release : Facts.pv_vote_persist_before_release = true ∧
    Facts.pv_proposal_persist_before_release = true ∧ Facts.pv_saveSigned_saves = true := by decide

/-- the three regression comparisons of `CheckHRS` (model: `checkHRS`) -/
theorem checkHRS_guards : Facts.pv_checkHRS_height = "lss.Height > height" ∧
    Facts.pv_checkHRS_round = "lss.Round > round" ∧ Facts.pv_checkHRS_step = "lss.Step > step" := by decide

/-- `WriteFileAtomic`: create temp file, write, rename (model: `Stage.tmpWritten`, `Stage.renamed`) -/
theorem atomic_order : Facts.pv_atomic_order = ["OpenFile", "Write", "Rename"] := by decide

/-- consensus flushes+fsyncs the WAL before asking for a signature (model: `SignNode.handle` sets
`synced` to the whole WAL whenever a request is issued; `Props.C04.replay_reissues_requests`) -/
theorem flush_before_sign : Facts.cs_signVote_flush_first = ["FlushAndSync", "SignVote"] ∧
    Facts.cs_proposal_flush_first = ["FlushAndSync", "SignProposal"] := by decide

/-- the proposer keeps the timestamp the signer signed (fix 14bb07b): a reused signature comes with
the stored timestamp; without this line the re-proposal after a crash is not validly signed and
`replay_not_refused_partial` has no counterpart in the code -/
theorem proposal_keeps_signed_timestamp : Facts.cs_proposal_keeps_signed_timestamp = true := by decide

/-- which loader is used where: every node start goes through `LoadOrGenFilePV` (model:
`Sign.nodeLoader`), which loads key AND state when the key file exists (`Sign.loaderDecision`);
`LoadFilePV` reads the state file, `LoadFilePVEmptyState` does not and is what the reset command
uses; `init` uses `LoadFilePV` -/
theorem loaders : Facts.pv_node_loader = true ∧ Facts.pv_loadOrGen_key_cond = "tmos.FileExists(keyFilePath)" ∧
    Facts.pv_loadOrGen_loads = true ∧ Facts.pv_load_reads_state = true ∧ Facts.pv_emptystate_skips_state = true ∧
    Facts.pv_reset_uses_emptystate = true ∧ Facts.pv_init_uses_load = true := by decide

end Tmv.Expect.C04
