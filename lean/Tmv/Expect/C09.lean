import Tmv.Gen.Facts
/-! Expectations tying the C09 model to anchored source lines (facts are regenerated from /repo). -/
namespace Tmv.Expect.C09

/-- bisection pivot fraction of `verifySkipping` (the model's `skipNum/skipDen` are these facts) -/
theorem skip_fraction : Facts.c09_skipNum = 9 ∧ Facts.c09_skipDen = 16 := by decide

/-- `ValidateTrustLevel`'s guard (model: `validateTrustLevel`, with the wrapping product) -/
theorem trust_level_guard : Facts.c09_trust_level_guard =
    "lvl.Numerator*3 < lvl.Denominator || lvl.Numerator > lvl.Denominator || lvl.Denominator == 0" := by decide

/-- `compareNewHeaderWithWitness` returns right after reporting conflicting headers (one message per
witness; without it `detector_confirms_only_identical` is false of the code). -/
theorem compare_returns_after_conflict : Facts.c09_compare_returns_after_conflict = true := by decide

/-- `backwards` compares the last linked header with the header it is about to trust (without it
`stored_reachable` is false of the code). -/
theorem backwards_ends_in_new_header : Facts.c09_backwards_ends_in_new_header = true := by decide

/-- `detectDivergence` reads exactly as many messages as there are witnesses (model: one message per
element of the arrival order) -/
theorem detect_reads_cap : Facts.c09_detect_reads_cap = "i < cap(errc)" := by decide

/-- `findNewPrimary` empties the witness list when the promoted provider was the last usable witness
(model: `findLoop`'s `removeWitnesses = none` branch); without it a provider is primary and witness
at once and confirms its own headers. -/
theorem find_new_primary_clears_witnesses : Facts.c09_find_new_primary_clears_witnesses = true := by decide

end Tmv.Expect.C09
