import Tmv.Gen.Facts
/-! Expectations tying the C07 model to anchored source lines (facts are regenerated from /repo). -/
namespace Tmv.Expect.C07

/-- `MaxTotalVotingPower = MaxInt64 / 8`; the model's `maxTotalVotingPower` is defined from this
fact and the proofs only use `0 ≤ · ∧ · * 8 ≤ MaxInt64` (`CommitVerify.maxTotal_bound`). -/
theorem maxTotalVotingPower_value : Facts.c07_MaxTotalVotingPower = 9223372036854775807 / 8 := by decide

/-- `VerifyCommit` rejects unless the tally is strictly above the threshold. -/
theorem full_threshold : Facts.c07_full_threshold = "got <= needed" := by decide

/-- `VerifyCommitLight` / `VerifyCommitLightTrusting` return at the first strict crossing. -/
theorem light_threshold : Facts.c07_light_threshold = "talliedVotingPower > votingPowerNeeded" := by decide
theorem trusting_threshold : Facts.c07_trusting_threshold = "talliedVotingPower > votingPowerNeeded" := by decide

/-- both index-based variants compute `total * 2 / 3` -/
theorem needed_two_thirds : Facts.c07_full_needed_two_thirds = true ∧ Facts.c07_light_needed_two_thirds = true := by decide

/-- the trusting variant guards both uint64 parts of the trust level before the int64 casts
(model: `.fractionRange`); without the guard `trusting_sound` is false of the code. -/
theorem trusting_fraction_guard : Facts.c07_trusting_fraction_guard =
    "trustLevel.Numerator > math.MaxInt64 || trustLevel.Denominator > math.MaxInt64" := by decide

/-- order in the trusting variant: threshold first, then per slot lookup by address, sign bytes,
signature check -/
theorem trusting_order : Facts.c07_trusting_order =
    ["safeMul", "GetByAddress", "VoteSignBytes", "VerifySignature"] := by decide

/-- `crypto.AddressSize` (model: `addressSize`, defined from the fact) and `MaxVotesCount` (the size of
the largest sets the thorough stream drives) -/
theorem address_size_and_max_votes : Facts.c07_AddressSize = 20 ∧ Facts.c07_MaxVotesCount = 10000 := by decide

/-- `ValidatorSetFromProto` recomputes the total and never reads the one on the wire (model:
`valSetFromProto` ignores `WireValSet.total`; `decoded_set_wellformed`) -/
theorem fromProto_recomputes_total :
    Facts.c07_fromProto_recomputes_total = true ∧ Facts.c07_fromProto_reads_wire_total = false := by decide

/-- `CanonicalizeBlockID` maps exactly the zero block id to nil (model: `canonBlockID` tests `isZero`) -/
theorem canonical_nil_test : Facts.c07_canonical_nil_test = "rbid == nil || rbid.IsZero()" := by decide

end Tmv.Expect.C07
