import Tmv.Gen.Facts
import Tmv.Model.MConn
/-! Expectations tying the C17 model to anchored source lines (facts are regenerated from /repo). -/
namespace Tmv.Expect.C17

/-- `recvPacketMsg` refuses a packet that would take the buffer above `RecvMessageCapacity`
(model: `recvPacketMsg`'s first guard, strict `<`) -/
theorem recv_capacity_guard : Facts.mconn_recv_capacity_guard = "recvCap < recvReceived" := by decide

/-- `recvRoutine` checks the int32 channel id's range, not only the byte-cast lookup -/
theorem unknown_channel_guard : Facts.mconn_unknown_channel_guard =
    "pkt.PacketMsg.ChannelID < 0 || pkt.PacketMsg.ChannelID > math.MaxUint8 || !ok || channel == nil" := by decide

/-- `isSendPending` uses nil-ness (not emptiness) of `sending` as "no message in progress"
(model: `sending : Option Bytes`); with `len(ch.sending) == 0` the empty message is lost and
`nothing_to_send_only_when_idle` is false of the code -/
theorem isSendPending_guard : Facts.mconn_isSendPending_guard = "ch.sending == nil" := by decide

/-- `nextPacketMsg` sets EOF iff the rest fits one packet (`≤`) -/
theorem nextPacket_eof_guard : Facts.mconn_nextPacket_eof_guard = "len(ch.sending) <= maxSize" := by decide

/-- the defaults the model's `fillDefaults` takes from the source -/
theorem default_constants :
    MConn.defaultMaxPacketMsgPayloadSize = 1024 ∧ MConn.defaultSendQueueCapacity = 1 ∧
    MConn.defaultRecvMessageCapacity = 22020096 := by decide

/-- the frame limit of the default configuration (channel id 0xff, EOF, 1024 data bytes) -/
theorem default_frame_limit : MConn.maxPacketMsgSize MConn.defaultMaxPacketMsgPayloadSize = 1035 := by decide

end Tmv.Expect.C17
