import Tmv.Gen.Facts
import Tmv.Model.MConn
import Tmv.Model.PeerMsgs
import Tmv.Model.ReactorMsgs
/-! Expectations tying the C17 model to anchored source lines (facts are regenerated from /repo). -/
namespace Tmv.Expect.C17

/-- `recvPacketMsg` refuses a packet that would take the buffer above `RecvMessageCapacity`
(model: `recvPacketMsg`'s first guard, strict `<`) -/
theorem recv_capacity_guard : Facts.mconn_recv_capacity_guard = "recvCap < recvReceived" := by decide

/-- `recvRoutine` checks the int32 channel id's range, not only the byte-cast lookup -/
theorem unknown_channel_guard : Facts.mconn_unknown_channel_guard =
    "pkt.PacketMsg.ChannelID < 0 || pkt.PacketMsg.ChannelID > math.MaxUint8 || !ok || channel == nil" := by decide

/-- `isSendPending` uses nil-ness (not emptiness) of `sending` as "no message in progress"
(model: `sending : Option Bytes`); with `len(ch.sending) == 0` the empty message is lost and
`nothing_to_send_only_when_idle` is false of the code -/
theorem isSendPending_guard : Facts.mconn_isSendPending_guard = "ch.sending == nil" := by decide

/-- `nextPacketMsg` sets EOF iff the rest fits one packet (`≤`) -/
theorem nextPacket_eof_guard : Facts.mconn_nextPacket_eof_guard = "len(ch.sending) <= maxSize" := by decide

/-- the defaults the model's `fillDefaults` takes from the source -/
theorem default_constants :
    MConn.defaultMaxPacketMsgPayloadSize = 1024 ∧ MConn.defaultSendQueueCapacity = 1 ∧
    MConn.defaultRecvMessageCapacity = 22020096 := by decide

/-- the frame limit of the default configuration (channel id 0xff, EOF, 1024 data bytes) -/
theorem default_frame_limit : MConn.maxPacketMsgSize MConn.defaultMaxPacketMsgPayloadSize = 1035 := by decide

/-- `BitArray.ValidateBasic` compares `len(Elems)` with the number `Bits` requires (model:
`BitArr.validateBasic`) and the three consensus validators call it -/
theorem bitarray_validation :
    Facts.bits_validate_elems_guard = "len(bA.Elems) != expected" ∧
    Facts.cons_newValidBlock_validates_bits = true ∧ Facts.cons_proposalPOL_validates_bits = true ∧
    Facts.cons_voteSetBits_validates_bits = true := by decide

/-- `setIndex` returns early only on `i >= Bits` (model: `indexPanics`) -/
theorem setIndex_guard : Facts.bits_setIndex_guard = "i >= bA.Bits" := by decide

/-- `addVote` ignores a previous-height precommit when there is no `LastCommit` (initial height) -/
theorem addVote_nil_lastcommit_guard : Facts.cons_addVote_nil_lastcommit_guard = "cs.LastCommit == nil" := by decide

/-- the size limits the validators use -/
theorem size_limits : PeerMsgs.maxVotesCount = 10000 ∧ PeerMsgs.maxBlockPartsCount = 1601 := by decide

/-- lock scope in `ReceiveEnvelope`, vote case: the consensus read lock is released (plain
`RUnlock`, no `defer` anywhere in the function) BEFORE the blocking hand-off to `peerMsgQueue`;
holding it across the send deadlocks readers against `receiveRoutine`'s write lock once the queue
is full (stream: `flood`, fingerprint consensus.reactor.wedged-by-flood) -/
theorem receive_vote_lock_scope :
    Facts.cons_receive_vote_unlock_before_queue = true ∧
    Facts.cons_receive_vote_deferred_runlock = false ∧
    Facts.cons_receive_any_deferred_unlock = false := by decide

/-- the part count of a proposal is bounded before `SetHasProposal` sizes an array with it; the two
index-relevant lines of `libs/bits` the peer-state model mirrors are still there -/
theorem peer_state_size_anchors :
    Facts.cons_proposal_bounds_part_count = "m.Proposal.BlockID.PartSetHeader.Total > types.MaxBlockPartsCount" ∧
    Facts.bits_pickRandom_reads_last_elem = true ∧ Facts.bits_sub_loop_bound = true := by decide

/-- anchors of the small reactor models: the chunk-index guard of `chunkQueue.Add`, the base/height
guard of the blockchain `ValidateMsg`, and the constants the bounds are stated with -/
theorem other_reactor_anchors :
    Facts.ss_chunk_index_guard = "chunk.Index >= q.snapshot.Chunks" ∧
    Facts.bc_status_base_guard = "msg.Base > msg.Height" ∧
    ReactorMsgs.maxTotalRequesters = 600 ∧ ReactorMsgs.pexMaxMsgSize = 64000 := by decide

/-- `createMConnection.onReceive` decodes every message into a FRESH clone of the channel's message
type (the `MessageType` object of a `ChannelDescriptor` is shared by all peers of the switch):
this is what makes decoding a function of the message's own bytes (`Props.C17.peers_do_not_mix`) -/
theorem peer_onReceive_clones : Facts.peer_onReceive_clones_message_type = true := by decide

/-- anchors of the decision models and of the channel choice: the evidence reactor punishes exactly
`*types.ErrInvalidEvidence`; both mempool reactors only log an empty Txs message; a seed treats
inbound peers specially; `sendPacketMsg` replaces the least channel only on a STRICTLY smaller
ratio (model: `pickLeast`) -/
theorem decision_anchors :
    Facts.ev_receive_punishes_invalid = true ∧
    Facts.mp_v0_empty_txs_guard = "len(protoTxs) == 0" ∧ Facts.mp_v1_empty_txs_guard = "len(protoTxs) == 0" ∧
    Facts.pex_seed_inbound_guard = "r.config.SeedMode && !e.Src.IsOutbound()" ∧
    Facts.conn_least_ratio_guard = "ratio < leastRatio" := by decide

/-- the accept path's error classification (model: `acceptErrOf`, `acceptRoutineOn`): every stage
of `upgrade` that a peer's bytes can fail returns `ErrRejected` (no plain `fmt.Errorf` return in
`upgrade`), a panic in the upgrade goroutine is recovered into `ErrRejected`, and
`acceptRoutine` continues on `ErrRejected` and panics on an unclassified error -/
theorem accept_path_anchors :
    Facts.acc_secretconn_is_rejection = true ∧ Facts.acc_nodeinfo_exchange_is_rejection = true ∧
    Facts.acc_nodeinfo_invalid_is_rejection = true ∧ Facts.acc_incompatible_is_rejection = true ∧
    Facts.acc_upgrade_panic_is_rejection = true ∧ Facts.acc_upgrade_plain_error_returns = false ∧
    Facts.acc_routine_continues_on_rejected = true ∧ Facts.acc_routine_panics_on_other = true := by decide

/-- both sends of the block pool to channels only `poolRoutine` drains are guarded by `IsRunning`
(model: `chanSend true`) -/
theorem pool_sends_guarded :
    Facts.bc_sendError_guarded = "!pool.IsRunning()" ∧ Facts.bc_sendRequest_guarded = "!pool.IsRunning()" := by decide

end Tmv.Expect.C17
