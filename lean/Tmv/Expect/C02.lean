import Tmv.Gen.Facts
/-! Expectations tying the C02 node model (Tmv/Model/Cons.lean) to anchored source lines; the facts
are regenerated from /repo on every run. Everything else is tied behaviourally by the c02 stream. -/
namespace Tmv.Expect.C02

/-- guard at the top of `enterPropose` (model: `enterPropose`, second `if`) -/
theorem guard_enterPropose : Facts.c02_guard_enterPropose =
    "cs.Height != height || round < cs.Round || (cs.Round == round && cstypes.RoundStepPropose <= cs.Step)" := by rfl

/-- guard at the top of `enterPrevote` -/
theorem guard_enterPrevote : Facts.c02_guard_enterPrevote =
    "cs.Height != height || round < cs.Round || (cs.Round == round && cstypes.RoundStepPrevote <= cs.Step)" := by rfl

/-- guard at the top of `enterPrecommit` -/
theorem guard_enterPrecommit : Facts.c02_guard_enterPrecommit =
    "cs.Height != height || round < cs.Round || (cs.Round == round && cstypes.RoundStepPrecommit <= cs.Step)" := by rfl

/-- `addVote` unlocks only on a polka of a round in `(LockedRound, cs.Round]` for another block -/
theorem unlock_on_polka : Facts.c02_unlock_on_polka =
    "(cs.LockedBlock != nil) && (cs.LockedRound < vote.Round) && (vote.Round <= cs.Round) && !cs.LockedBlock.HashesTo(blockID.Hash)" := by rfl

/-- `handleTimeout` drops timeouts of earlier rounds / earlier steps of the current round -/
theorem timeout_guard : Facts.c02_timeout_guard =
    "ti.Height != rs.Height || ti.Round < rs.Round || (ti.Round == rs.Round && ti.Step < rs.Step)" := by rfl

/-- the quorum is `total*2/3 + 1` (model: `Cfg.quorum`) and it is detected when it is crossed -/
theorem quorum_expr : Facts.c02_quorum_expr = true := by rfl
theorem quorum_crossing : Facts.c02_quorum_crossing = "origSum < quorum && quorum <= votesByBlock.sum" := by rfl

/-- a signed vote carries `cs.Round`, not the round argument of the `enterX` that casts it -/
theorem vote_carries_cs_round : Facts.c02_vote_carries_cs_round = true := by rfl

/-- the signer's regression checks (model: `sign`) -/
theorem hrs_round_regression : Facts.c02_hrs_round_regression = "lss.Round > round" := by rfl
theorem hrs_step_regression : Facts.c02_hrs_step_regression = "lss.Step > step" := by rfl

end Tmv.Expect.C02
