import Tmv.Gen.Facts
import Tmv.Model.SecretFrames
/-! Expectations tying the C16 models to anchored source lines (facts are regenerated from /repo). -/
namespace Tmv.Expect.C16
open Tmv.SecretFrames

/-- the frame geometry the model (and the stream's 1044-byte blocks) relies on -/
theorem frame_sizes :
    Facts.c16_dataLenSize = 4 ∧ Facts.c16_dataMaxSize = 1024 ∧ Facts.c16_totalFrameSize = 1028 ∧
    Facts.c16_aeadSizeOverhead = 16 := by decide

/-- the relations between the constants that the theorems use -/
theorem frame_relations :
    totalFrameSize = dataMaxSize + dataLenSize ∧ dataLenSize = 4 ∧ dataMaxSize < 2 ^ 32 ∧
    0 < dataMaxSize ∧ sealedFrameSize = 1044 := by decide

/-- `incrNonce` panics instead of wrapping (model: `incrNonce c = none` iff `c = maxU64`) -/
theorem incrNonce_guard : Facts.c16_incrNonce_guard = "counter == math.MaxUint64" := by decide

/-- `Read` refuses a length field above `dataMaxSize` (model: `chunkLength > dataMaxSize`) -/
theorem read_len_guard : Facts.c16_read_len_guard = "chunkLength > dataMaxSize" := by decide

/-- `Write`: seal, then advance the counter, then hand the frame to the conn -/
theorem write_order : Facts.c16_write_order = ["Seal", "incrNonce", "Write"] := by decide

/-- `Read`: whole sealed frame, open under the current counter, only then advance it -/
theorem read_order : Facts.c16_read_order = ["ReadFull", "Open", "incrNonce"] := by decide

/-- handshake: ephemerals, sort, DH, keys, challenge from the transcript, sign it, exchange,
verify the peer's signature over the same challenge (model: `Sts.Session.finish`) -/
theorem handshake_order : Facts.c16_handshake_order =
    ["shareEphPubKey", "sort32", "computeDHSecret", "deriveSecrets", "ExtractBytes", "signChallenge",
     "shareAuthSignature", "VerifySignature"] := by decide

theorem verify_guard :
    Facts.c16_verify_guard = "!remPubKey.VerifySignature(challenge[:], remSignature)" := by decide

/-- `transport.upgrade`: the authenticated key must be the dialed id, the self-reported id, and
not the node itself (model: `Sts.upgrade`) -/
theorem upgrade_guards :
    Facts.c16_upgrade_outbound_guard = "dialedAddr != nil" ∧
    Facts.c16_upgrade_dialed_guard = "connID != dialedID" ∧
    Facts.c16_upgrade_nodeinfo_guard = "connID != nodeInfo.ID()" ∧
    Facts.c16_upgrade_self_guard = "mt.nodeInfo.ID() == nodeInfo.ID()" := by decide

end Tmv.Expect.C16
