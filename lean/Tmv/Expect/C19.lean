import Tmv.Gen.Facts
/-! Expectations tying the C19 models to anchored source lines (facts are regenerated from /repo). -/
namespace Tmv.Expect.C19

/-- `state.send` keeps going after a query that fails to match (the `fix:`); without it the
isolation theorems are false of the code. Model: `PubSub.deliver` is applied to every record. -/
theorem send_continues_after_match_error : Facts.c19_send_continues_after_match_error = true := by decide

/-- unbuffered subscriptions get a blocking send (model: `cap = 0` branch of `deliver`) -/
theorem send_unbuffered_cond : Facts.c19_send_unbuffered_cond = "cap(subscription.out) == 0" := by decide

/-- match first, then build the message, cancellation only in the full-buffer branch -/
theorem send_order : Facts.c19_send_order = ["Matches", "NewMessage", "remove"] := by decide

/-- `Subscribe` refuses capacity ≤ 0 (capacity 0 only through `SubscribeUnbuffered`) -/
theorem subscribe_capacity_guard : Facts.c19_subscribe_capacity_guard = "outCapacity[0] <= 0" := by decide

/-- `Matches` answers false on an empty event map before looking at any condition -/
theorem matches_empty_guard : Facts.c19_matches_empty_guard = "len(events) == 0" := by decide

/-- order of the phases of `TxIndex.Search` (model: `Index.search`) -/
theorem tx_search_order : Facts.c19_tx_search_order =
    ["Conditions", "lookForHash", "LookForRanges", "lookForHeight", "match"] := by decide

theorem tx_startkey_height_cond : Facts.c19_tx_startkey_height_cond = "height > 0" := by decide

/-- a tag key has exactly three separators (model: `Index.isTagKey`) -/
theorem tx_istagkey_three : Facts.c19_tx_istagkey_three = true := by decide

/-- the block index looks for the height shortcut before anything else (model: `BlockIndex.search`) -/
theorem block_search_order : Facts.c19_block_search_order =
    ["Conditions", "lookForHeight", "LookForRanges", "match"] := by decide

/-- the event bus (and `pubsub.NewServer()` in the stream) has an unbuffered command channel: a
command is received only after the previous one was fully processed (the stream's barrier) -/
theorem eventbus_defaultCapacity : Facts.c19_eventbus_defaultCapacity = 0 := by decide

theorem rpc_maxQueryLength : Facts.c19_rpc_maxQueryLength = 512 := by decide

/-- the indexer service's two subscriptions are unbuffered (a buffered one is cancelled when it
overflows and the service never looks at `Cancelled()`: indexing would stop silently); model and
stream: the service is an always-ready unbuffered reader that sees every header and tx -/
theorem service_subscribes_unbuffered : Facts.c19_service_subscribes_unbuffered = true := by decide
theorem service_never_subscribes_buffered : Facts.c19_service_subscribes_buffered = false := by decide

/-- per header: index the block's events, then the batch of its txs (model: `svcblock` step) -/
theorem service_order : Facts.c19_service_order = ["SubscribeUnbuffered", "Index", "AddBatch"] := by decide

end Tmv.Expect.C19
