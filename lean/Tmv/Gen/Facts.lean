/-! REGENERATED on every run by /verif/extract from /repo — do not edit. -/
namespace Tmv.Facts

/-- cond types/part_set.go PartSet.AddPart -/
def addPart_index_guard : String := "part.Index >= ps.total"

/-- cond types/part_set.go PartSet.AddPart -/
def addPart_position_guard : String := "<missing>"

/-- const types/validator_set.go MaxTotalVotingPower -/
def maxTotalVotingPower : Int := 1152921504606846975

/-- const crypto/merkle/proof.go MaxAunts -/
def merkle_MaxAunts : Int := 100

def factCount : Nat := 4

end Tmv.Facts
