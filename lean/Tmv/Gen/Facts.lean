/-! REGENERATED on every run by /verif/extract from /repo — do not edit. -/
namespace Tmv.Facts

/-- cond types/part_set.go PartSet.AddPart -/
def addPart_index_guard : String := "part.Index >= ps.total"

/-- cond types/part_set.go PartSet.AddPart -/
def addPart_position_guard : String := "part.Proof.Index != int64(part.Index) || part.Proof.Total != int64(ps.total)"

/-- const crypto/merkle/proof.go MaxAunts -/
def merkle_MaxAunts : Int := 100

def factCount : Nat := 3

end Tmv.Facts
