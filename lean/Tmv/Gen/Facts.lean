/-! REGENERATED on every run by /verif/extract from /repo — do not edit. -/
namespace Tmv.Facts

/-- const abci/types/result.go CodeTypeOK -/
def abci_CodeTypeOK : Int := 0

/-- has p2p/transport.go MultiplexTransport.upgrade -/
def acc_incompatible_is_rejection : Bool := true

/-- has p2p/transport.go MultiplexTransport.upgrade -/
def acc_nodeinfo_exchange_is_rejection : Bool := true

/-- has p2p/transport.go MultiplexTransport.upgrade -/
def acc_nodeinfo_invalid_is_rejection : Bool := true

/-- has p2p/switch.go Switch.acceptRoutine -/
def acc_routine_continues_on_rejected : Bool := true

/-- has p2p/switch.go Switch.acceptRoutine -/
def acc_routine_panics_on_other : Bool := true

/-- has p2p/transport.go MultiplexTransport.upgrade -/
def acc_secretconn_is_rejection : Bool := true

/-- has p2p/transport.go MultiplexTransport.acceptPeers -/
def acc_upgrade_panic_is_rejection : Bool := true

/-- has p2p/transport.go MultiplexTransport.upgrade -/
def acc_upgrade_plain_error_returns : Bool := false

/-- cond types/part_set.go PartSet.AddPart -/
def addPart_index_guard : String := "part.Index >= ps.total"

/-- cond types/part_set.go PartSet.AddPart -/
def addPart_position_guard : String := "part.Proof.Index != int64(part.Index) || part.Proof.Total != int64(ps.total)"

/-- order state/execution.go BlockExecutor.ApplyBlock -/
def applyblock_order : List String := ["validateBlock", "blockExec.evpool.Update", "blockExec.store.Save"]

/-- const blockchain/v0/pool.go maxTotalRequesters -/
def bc_maxTotalRequesters : Int := 600

/-- cond blockchain/v0/pool.go BlockPool.sendError -/
def bc_sendError_guarded : String := "!pool.IsRunning()"

/-- cond blockchain/v0/pool.go BlockPool.sendRequest -/
def bc_sendRequest_guarded : String := "!pool.IsRunning()"

/-- cond blockchain/msgs.go ValidateMsg -/
def bc_status_base_guard : String := "msg.Base > msg.Height"

/-- has libs/bits/bit_array.go BitArray.getTrueIndices -/
def bits_pickRandom_reads_last_elem : Bool := true

/-- cond libs/bits/bit_array.go BitArray.setIndex -/
def bits_setIndex_guard : String := "i >= bA.Bits"

/-- has libs/bits/bit_array.go BitArray.Sub -/
def bits_sub_loop_bound : Bool := true

/-- cond libs/bits/bit_array.go BitArray.ValidateBasic -/
def bits_validate_elems_guard : String := "len(bA.Elems) != expected"

/-- const types/params.go BlockPartSizeBytes -/
def blockPartSizeBytes : Int := 65536

/-- cond consensus/state.go State.finalizeCommit -/
def c01_finalize_hash : String := "!block.HashesTo(blockID.Hash)"

/-- cond consensus/state.go State.finalizeCommit -/
def c01_finalize_step_guard : String := "cs.Height != height || cs.Step != cstypes.RoundStepCommit"

/-- has consensus/state.go State.finalizeCommit -/
def c01_finalize_validates : Bool := true

/-- has blockchain/v0/reactor.go BlockchainReactor.poolRoutine -/
def c01_handover_skipwal : Bool := true

/-- cond consensus/state.go State.OnStart -/
def c01_onstart_catchup : String := "cs.doWALCatchup"

/-- has types/vote_set.go VoteSet.addVerifiedVote -/
def c01_quorum_expr : Bool := true

/-- cond consensus/reactor.go Reactor.SwitchToConsensus -/
def c01_switch_skipwal : String := "skipWAL"

/-- cond consensus/state.go State.tryFinalizeCommit -/
def c01_try_finalize_needs_block : String := "!cs.ProposalBlock.HashesTo(blockID.Hash)"

/-- cond consensus/state.go State.tryFinalizeCommit -/
def c01_try_finalize_needs_block_majority : String := "!ok || len(blockID.Hash) == 0"

/-- has types/vote_set.go VoteSet.HasTwoThirdsAny -/
def c01_two_thirds_any : Bool := true

/-- cond consensus/state.go State.enterPrecommit -/
def c02_guard_enterPrecommit : String := "cs.Height != height || round < cs.Round || (cs.Round == round && cstypes.RoundStepPrecommit <= cs.Step)"

/-- cond consensus/state.go State.enterPrevote -/
def c02_guard_enterPrevote : String := "cs.Height != height || round < cs.Round || (cs.Round == round && cstypes.RoundStepPrevote <= cs.Step)"

/-- cond consensus/state.go State.enterPropose -/
def c02_guard_enterPropose : String := "cs.Height != height || round < cs.Round || (cs.Round == round && cstypes.RoundStepPropose <= cs.Step)"

/-- cond privval/file.go FilePVLastSignState.CheckHRS -/
def c02_hrs_round_regression : String := "lss.Round > round"

/-- cond privval/file.go FilePVLastSignState.CheckHRS -/
def c02_hrs_step_regression : String := "lss.Step > step"

/-- cond types/vote_set.go VoteSet.addVerifiedVote -/
def c02_quorum_crossing : String := "origSum < quorum && quorum <= votesByBlock.sum"

/-- has types/vote_set.go VoteSet.addVerifiedVote -/
def c02_quorum_expr : Bool := true

/-- cond consensus/state.go State.handleTimeout -/
def c02_timeout_guard : String := "ti.Height != rs.Height || ti.Round < rs.Round || (ti.Round == rs.Round && ti.Step < rs.Step)"

/-- cond consensus/state.go State.addVote -/
def c02_unlock_on_polka : String := "(cs.LockedBlock != nil) && (cs.LockedRound < vote.Round) && (vote.Round <= cs.Round) && !cs.LockedBlock.HashesTo(blockID.Hash)"

/-- has consensus/state.go State.signVote -/
def c02_vote_carries_cs_round : Bool := true

/-- cond consensus/state.go State.handleCompleteProposal -/
def c03_complete_proposal_in_commit : String := "cs.Step == cstypes.RoundStepCommit"

/-- cond types/vote_set.go VoteSet.addVerifiedVote -/
def c03_conflicting_vote_gate : String := "conflicting != nil && !votesByBlock.peerMaj23"

/-- cond consensus/state.go State.defaultDecideProposal -/
def c03_decide_valid_block : String := "cs.ValidBlock != nil"

/-- has config/config.go DefaultConsensusConfig -/
def c03_default_precommit_delta : Bool := true

/-- has config/config.go DefaultConsensusConfig -/
def c03_default_prevote_delta : Bool := true

/-- has config/config.go DefaultConsensusConfig -/
def c03_default_propose_delta : Bool := true

/-- cond consensus/state.go State.enterCommit -/
def c03_enterCommit_guard : String := "cs.Height != height || cstypes.RoundStepCommit <= cs.Step"

/-- cond consensus/state.go State.enterNewRound -/
def c03_enterNewRound_guard : String := "cs.Height != height || round < cs.Round || (cs.Round == round && cs.Step != cstypes.RoundStepNewHeight)"

/-- has consensus/state.go State.enterNewRound -/
def c03_enterNewRound_single_increments : Bool := true

/-- cond consensus/reactor.go Reactor.ReceiveEnvelope -/
def c03_maj23_claim_any_round : String := "height != msg.Height"

/-- has consensus/reactor.go Reactor.ReceiveEnvelope -/
def c03_maj23_claim_sets_peer_maj23 : Bool := true

/-- has config/config.go ConsensusConfig.Precommit -/
def c03_precommit_timeout_formula : Bool := true

/-- has config/config.go ConsensusConfig.Prevote -/
def c03_prevote_timeout_formula : Bool := true

/-- has consensus/state.go State.defaultDecideProposal -/
def c03_proposal_carries_valid_round : Bool := true

/-- has config/config.go ConsensusConfig.Propose -/
def c03_propose_timeout_formula : Bool := true

/-- has consensus/state.go State.addVote -/
def c03_round_skip_precommits : Bool := true

/-- has consensus/state.go State.addVote -/
def c03_round_skip_prevotes : Bool := true

/-- cond consensus/ticker.go timeoutTicker.timeoutRoutine -/
def c03_ticker_replace_rule : String := "ti.Step > 0 && newti.Step <= ti.Step"

/-- order state/execution.go BlockExecutor.ApplyBlock -/
def c05_applyBlock_order : List String := ["validateBlock", "execBlockOnProxyApp", "SaveABCIResponses", "updateState", "Commit", "Save"]

/-- order consensus/replay.go State.catchupReplay -/
def c05_catchup_order : List String := ["SearchForEndHeight", "IsDataCorruptionError", "WriteSync", "readReplayMessage"]

/-- has consensus/replay.go State.catchupReplay -/
def c05_catchup_strict_guard : Bool := true

/-- has consensus/replay.go State.catchupReplay -/
def c05_catchup_writes_missing_marker : Bool := true

/-- order state/execution.go BlockExecutor.Commit -/
def c05_commit_order : List String := ["Lock", "FlushAppConn", "CommitSync", "Update"]

/-- order state/execution.go ExecCommitBlock -/
def c05_execCommit_order : List String := ["execBlockOnProxyApp", "CommitSync"]

/-- order state/execution.go execBlockOnProxyApp -/
def c05_exec_order : List String := ["BeginBlockSync", "DeliverTxAsync", "EndBlockSync"]

/-- seq state/execution.go BlockExecutor.ApplyBlock -/
def c05_failseq_apply : List String := ["execBlockOnProxyApp", "fail.Fail", "SaveABCIResponses", "fail.Fail", "Commit", "fail.Fail", "Save", "fail.Fail"]

/-- seq consensus/state.go State.finalizeCommit -/
def c05_failseq_finalize : List String := ["fail.Fail", "SaveBlock", "fail.Fail", "WriteSync", "fail.Fail", "ApplyBlock", "fail.Fail", "updateToState", "fail.Fail"]

/-- order consensus/state.go State.finalizeCommit -/
def c05_finalize_order : List String := ["SaveBlock", "WriteSync", "ApplyBlock", "updateToState"]

/-- seq consensus/state.go State.finalizeCommit -/
def c05_finalize_prune_position : List String := ["fail.Fail", "fail.Fail", "fail.Fail", "ApplyBlock", "fail.Fail", "pruneBlocks", "updateToState", "fail.Fail"]

/-- order consensus/state.go State.pruneBlocks -/
def c05_prune_order : List String := ["Base", "PruneBlocks", "PruneStates"]

/-- has consensus/replay.go Handshaker.ReplayBlocks -/
def c05_replay_app_ahead_case : Bool := true

/-- cond consensus/replay.go Handshaker.ReplayBlocks -/
def c05_replay_genesis_state_guard : String := "stateBlockHeight == 0"

/-- cond consensus/replay.go Handshaker.ReplayBlocks -/
def c05_replay_initchain_guard : String := "appBlockHeight == 0"

/-- has consensus/replay.go Handshaker.ReplayBlocks -/
def c05_replay_mock_loads_last_resp : Bool := true

/-- has consensus/replay.go Handshaker.ReplayBlocks -/
def c05_replay_next_is_initial_height : Bool := true

/-- has consensus/replay.go Handshaker.ReplayBlocks -/
def c05_replay_store_ahead_case : Bool := true

/-- cond consensus/replay.go Handshaker.ReplayBlocks -/
def c05_replay_store_eq_state : String := "storeBlockHeight == stateBlockHeight"

/-- has consensus/replay.go Handshaker.ReplayBlocks -/
def c05_replay_store_next_case : Bool := true

/-- order mempool/v0/clist_mempool.go CListMempool.CheckTx -/
def c05_v0_check_order : List String := ["RLock", "RUnlock", "CheckTxAsync"]

/-- has mempool/v0/clist_mempool.go CListMempool.CheckTx -/
def c05_v0_check_unlock_deferred : Bool := true

/-- order mempool/v1/mempool.go TxMempool.CheckTx -/
def c05_v1_check_order : List String := ["RLock", "RUnlock", "CheckTxSync", "addNewTransaction"]

/-- has mempool/v1/mempool.go TxMempool.FlushAppConn -/
def c05_v1_flush_unlocks : Bool := true

/-- has mempool/v1/mempool.go TxMempool.recheckTransactions -/
def c05_v1_recheck_in_goroutine : Bool := true

/-- const crypto/tmhash/hash.go TruncatedSize -/
def c06_AddressSize : Int := 20

/-- const version/version.go BlockProtocol -/
def c06_BlockProtocol : Int := 11

/-- const types/params.go MaxBlockSizeBytes -/
def c06_MaxBlockSizeBytes : Int := 104857600

/-- const types/genesis.go MaxChainIDLen -/
def c06_MaxChainIDLen : Int := 50

/-- const types/block.go MaxCommitOverheadBytes -/
def c06_MaxCommitOverheadBytes : Int := 94

/-- const types/block.go MaxCommitSigBytes -/
def c06_MaxCommitSigBytes : Int := 109

/-- const types/block.go MaxHeaderBytes -/
def c06_MaxHeaderBytes : Int := 626

/-- const types/block.go MaxOverheadForBlock -/
def c06_MaxOverheadForBlock : Int := 11

/-- has types/time/time.go WeightedMedian -/
def c06_median_half : Bool := true

/-- cond types/time/time.go WeightedMedian -/
def c06_median_pick : String := "median <= weightedTime.Weight"

/-- has state/execution.go BlockExecutor.CreateProposalBlock -/
def c06_proposal_budget_vals : Bool := true

/-- order state/validation.go validateBlock -/
def c06_validate_order : List String := ["ValidateBasic", "HashConsensusParams", "VerifyCommit", "HasAddress", "After", "MedianTime", "ByteSize"]

/-- cond consensus/state.go State.voteTime -/
def c06_voteTime_first : String := "cs.LockedBlock != nil"

/-- cond consensus/state.go State.voteTime -/
def c06_voteTime_second : String := "cs.ProposalBlock != nil"

/-- const crypto/tmhash/hash.go TruncatedSize -/
def c07_AddressSize : Int := 20

/-- const types/validator_set.go MaxTotalVotingPower -/
def c07_MaxTotalVotingPower : Int := 1152921504606846975

/-- const types/vote_set.go MaxVotesCount -/
def c07_MaxVotesCount : Int := 10000

/-- cond types/canonical.go CanonicalizeBlockID -/
def c07_canonical_nil_test : String := "rbid == nil || rbid.IsZero()"

/-- has types/validator_set.go ValidatorSetFromProto -/
def c07_fromProto_reads_wire_total : Bool := false

/-- has types/validator_set.go ValidatorSetFromProto -/
def c07_fromProto_recomputes_total : Bool := true

/-- has types/validator_set.go ValidatorSet.VerifyCommit -/
def c07_full_needed_two_thirds : Bool := true

/-- cond types/validator_set.go ValidatorSet.VerifyCommit -/
def c07_full_threshold : String := "got <= needed"

/-- has types/validator_set.go ValidatorSet.VerifyCommitLight -/
def c07_light_needed_two_thirds : Bool := true

/-- cond types/validator_set.go ValidatorSet.VerifyCommitLight -/
def c07_light_threshold : String := "talliedVotingPower > votingPowerNeeded"

/-- cond types/validator_set.go ValidatorSet.VerifyCommitLightTrusting -/
def c07_trusting_fraction_guard : String := "trustLevel.Numerator > math.MaxInt64 || trustLevel.Denominator > math.MaxInt64"

/-- order types/validator_set.go ValidatorSet.VerifyCommitLightTrusting -/
def c07_trusting_order : List String := ["safeMul", "GetByAddress", "VoteSignBytes", "VerifySignature"]

/-- cond types/validator_set.go ValidatorSet.VerifyCommitLightTrusting -/
def c07_trusting_threshold : String := "talliedVotingPower > votingPowerNeeded"

/-- const crypto/tmhash/hash.go TruncatedSize -/
def c08_AddressSize : Int := 20

/-- const types/validator_set.go MaxTotalVotingPower -/
def c08_MaxTotalVotingPower : Int := 1152921504606846975

/-- const types/validator_set.go PriorityWindowSizeFactor -/
def c08_PriorityWindowSizeFactor : Int := 2

/-- order types/validator_set.go ValidatorSet.IncrementProposerPriority -/
def c08_increment_order : List String := ["RescalePriorities", "shiftByAvgProposerPriority", "incrementProposerPriority"]

/-- cond state/store.go dbStore.LoadValidators -/
def c08_load_loop_cond : String := "h < height"

/-- has state/store.go dbStore.LoadValidators -/
def c08_load_one_shot_increment : Bool := false

/-- has state/store.go dbStore.LoadValidators -/
def c08_load_single_increments : Bool := true

/-- has types/validator_set.go computeNewPriorities -/
def c08_new_priority_penalty : Bool := true

/-- has rpc/core/consensus.go Validators -/
def c08_rpc_validators_from_memory : Bool := false

/-- has rpc/core/consensus.go Validators -/
def c08_rpc_validators_from_store : Bool := true

/-- cond state/store.go dbStore.saveValidatorsInfo -/
def c08_saveValidatorsInfo_stored_iff : String := "height == lastHeightChanged || height%valSetCheckpointInterval == 0"

/-- order types/validator_set.go ValidatorSet.updateWithChangeSet -/
def c08_update_order : List String := ["processChanges", "numNewValidators", "verifyRemovals", "verifyUpdates", "computeNewPriorities", "applyUpdates", "applyRemovals", "updateTotalVotingPower", "RescalePriorities", "shiftByAvgProposerPriority"]

/-- const state/store.go valSetCheckpointInterval -/
def c08_valSetCheckpointInterval : Int := 100000

/-- cond types/validator_set.go verifyUpdates -/
def c08_verifyUpdates_limit : String := "tvpAfterRemovals > MaxTotalVotingPower"

/-- has light/client.go Client.backwards -/
def c09_backwards_ends_in_new_header : Bool := true

/-- has light/detector.go Client.compareNewHeaderWithWitness -/
def c09_compare_returns_after_conflict : Bool := true

/-- cond light/detector.go Client.detectDivergence -/
def c09_detect_reads_cap : String := "i < cap(errc)"

/-- has light/client.go Client.findNewPrimary -/
def c09_find_new_primary_clears_witnesses : Bool := true

/-- const light/client.go verifySkippingDenominator -/
def c09_skipDen : Int := 16

/-- const light/client.go verifySkippingNumerator -/
def c09_skipNum : Int := 9

/-- cond light/verifier.go ValidateTrustLevel -/
def c09_trust_level_guard : String := "lvl.Numerator*3 < lvl.Denominator || lvl.Numerator > lvl.Denominator || lvl.Denominator == 0"

/-- has types/block.go BlockID.IsComplete -/
def c10_blockid_iscomplete : Bool := true

/-- cond consensus/reactor.go BlockPartMessage.ValidateBasic -/
def c10_blockpartmsg_round_guard : String := "m.Round < 0"

/-- cond consensus/state.go State.addProposalBlockPart -/
def c10_cons_decode_guard : String := "added && cs.ProposalBlockParts.IsComplete()"

/-- cond consensus/state.go State.addProposalBlockPart -/
def c10_cons_height_guard : String := "cs.Height != height"

/-- cond consensus/state.go State.addProposalBlockPart -/
def c10_cons_maxbytes_guard : String := "cs.ProposalBlockParts.ByteSize() > cs.state.ConsensusParams.Block.MaxBytes"

/-- has consensus/state.go State.enterCommit -/
def c10_entercommit_hasheader : Bool := true

/-- has types/part_set.go PartSet.HasHeader -/
def c10_hasheader_equals : Bool := true

/-- has types/part_set.go PartSetHeader.Equals -/
def c10_header_equals_total_and_hash : Bool := true

/-- cond types/proposal.go Proposal.ValidateBasic -/
def c10_proposal_complete_gate : String := "!p.BlockID.IsComplete()"

/-- cond crypto/merkle/proof.go Proof.Verify -/
def c10_verify_nil_root_guard : String := "computedHash == nil"

/-- has blockchain/v0/pool.go BlockPool.IsCaughtUp -/
def c13_caughtup : Bool := true

/-- cond types/validator_set.go ValidatorSet.VerifyCommitLight -/
def c13_light_early_return : String := "talliedVotingPower > votingPowerNeeded"

/-- const blockchain/v0/pool.go maxDiffBetweenCurrentAndReceivedBlockHeight -/
def c13_maxDiffBetweenCurrentAndReceivedBlockHeight : Int := 100

/-- const blockchain/v0/pool.go maxPendingRequests -/
def c13_maxPendingRequests : Int := 600

/-- const blockchain/v0/pool.go maxPendingRequestsPerPeer -/
def c13_maxPendingRequestsPerPeer : Int := 20

/-- const blockchain/v0/pool.go maxTotalRequesters -/
def c13_maxTotalRequesters : Int := 600

/-- cond blockchain/v0/pool.go BlockPool.pickIncrAvailablePeer -/
def c13_pick_range_guard : String := "height < peer.base || height > peer.height"

/-- order consensus/state.go State.reconstructLastCommit -/
def c13_reconstruct_calls : List String := ["LoadSeenCommit", "CommitToVoteSet", "HasTwoThirdsMajority"]

/-- cond blockchain/v0/pool.go bpRequester.reset -/
def c13_reset_guard : String := "bpr.block != nil"

/-- has blockchain/v0/pool.go BlockPool.makeRequestersRoutine -/
def c13_routine_guards : Bool := true

/-- cond blockchain/v0/pool.go bpRequester.setBlock -/
def c13_setBlock_guard : String := "bpr.block != nil || bpr.peerID != peerID"

/-- has blockchain/v0/reactor.go BlockchainReactor.poolRoutine -/
def c13_v0_applies_verified_block : Bool := true

/-- has blockchain/v0/reactor.go BlockchainReactor.poolRoutine -/
def c13_v0_pop_returns_nothing : Bool := true

/-- has blockchain/v0/reactor.go BlockchainReactor.poolRoutine -/
def c13_v0_save_seen : Bool := true

/-- has blockchain/v0/reactor.go BlockchainReactor.poolRoutine -/
def c13_v0_saves_verified_block : Bool := true

/-- order blockchain/v0/reactor.go BlockchainReactor.poolRoutine -/
def c13_v0_step_order : List String := ["StopPeerForError", "PeekTwoBlocks", "VerifyCommitLight", "ValidateBlock", "RedoRequest", "PopRequest", "SaveBlock", "ApplyBlock"]

/-- has blockchain/v0/reactor.go BlockchainReactor.poolRoutine -/
def c13_v0_verify_call : Bool := true

/-- const blockchain/v1/reactor.go maxRequestsPerPeer -/
def c13_v1_maxRequestsPerPeer : Int := 20

/-- order blockchain/v1/reactor.go BlockchainReactor.processBlock -/
def c13_v1_process_order : List String := ["FirstTwoBlocks", "VerifyCommitLight", "SaveBlock", "ApplyBlock"]

/-- has blockchain/v1/reactor.go NewBlockchainReactor -/
def c13_v1_start_height : Bool := true

/-- has blockchain/v1/reactor.go BlockchainReactor.processBlock -/
def c13_v1_verify_call : Bool := true

/-- order blockchain/v2/processor.go pcState.handle -/
def c13_v2_handle_order : List String := ["purgePeer", "nextTwo", "verifyCommit", "saveBlock", "applyBlock"]

/-- has blockchain/v2/processor.go pcState.height -/
def c13_v2_height : Bool := true

/-- cond blockchain/v2/scheduler.go scheduler.setPeerRange -/
def c13_v2_sched_removed_noop : String := "peer.state == peerStateRemoved"

/-- has blockchain/v2/scheduler.go newScheduler -/
def c13_v2_targetPending_10 : Bool := true

/-- has blockchain/v2/processor_context.go pContext.verifyCommit -/
def c13_v2_verify_call : Bool := true

/-- const types/params.go MaxBlockSizeBytes -/
def c14_MaxBlockSizeBytes : Int := 104857600

/-- cond statesync/syncer.go syncer.AddChunk -/
def c14_addChunk_rejected_sender_guard : String := "s.snapshots.IsPeerRejected(chunk.Sender)"

/-- has statesync/stateprovider.go lightClientStateProvider.AppHash -/
def c14_apphash_height_plus_one : Bool := true

/-- order statesync/syncer.go syncer.applyChunks -/
def c14_applyChunks_order : List String := ["Next", "ApplySnapshotChunkSync", "Discard", "RejectPeer", "DiscardSender", "Retry"]

/-- has node/node.go startStateSync -/
def c14_handover_boot_err_returns : Bool := true

/-- has node/node.go startStateSync -/
def c14_handover_seen_err_returns : Bool := true

/-- has node/node.go startStateSync -/
def c14_handover_sync_err_returns : Bool := true

/-- has light/rpc/client.go Client.ConsensusParams -/
def c14_params_hash_guard : Bool := true

/-- cond statesync/chunks.go chunkQueue.Add -/
def c14_queue_add_dup_guard : String := "q.chunkFiles[chunk.Index] != \"\""

/-- const statesync/reactor.go recentSnapshots -/
def c14_recentSnapshots : Int := 10

/-- has store/store.go BlockStore.SaveSeenCommit -/
def c14_seen_commit_synced : Bool := true

/-- order node/node.go startStateSync -/
def c14_startStateSync_order : List String := ["Sync", "SaveSeenCommit", "Bootstrap", "SwitchToFastSync", "SwitchToConsensus"]

/-- has statesync/stateprovider.go lightClientStateProvider.State -/
def c14_state_vals_from_blocks : Bool := true

/-- order statesync/syncer.go syncer.Sync -/
def c14_sync_order : List String := ["AppHash", "offerSnapshot", "State", "Commit", "applyChunks", "verifyApp"]

/-- has statesync/syncer.go syncer.SyncAny -/
def c14_syncany_deadline_branch : Bool := true

/-- cond statesync/messages.go validateMsg -/
def c14_validate_missing_with_contents : String := "msg.Missing && len(msg.Chunk) > 0"

/-- cond statesync/messages.go validateMsg -/
def c14_validate_nil_chunk : String := "!msg.Missing && msg.Chunk == nil"

/-- cond statesync/messages.go validateMsg -/
def c14_validate_no_chunks : String := "msg.Chunks == 0"

/-- cond statesync/messages.go validateMsg -/
def c14_validate_no_hash : String := "len(msg.Hash) == 0"

/-- cond statesync/syncer.go syncer.verifyApp -/
def c14_verifyApp_hash_guard : String := "!bytes.Equal(snapshot.trustedAppHash, resp.LastBlockAppHash)"

/-- cond statesync/syncer.go syncer.verifyApp -/
def c14_verifyApp_height_guard : String := "uint64(resp.LastBlockHeight) != snapshot.Height"

/-- cond statesync/syncer.go syncer.verifyApp -/
def c14_verifyApp_version_guard : String := "resp.AppVersion != appVersion"

/-- has consensus/replay.go State.catchupReplay -/
def c15_catchup_corruption_case : Bool := true

/-- has consensus/replay.go State.catchupReplay -/
def c15_catchup_wraps_error : Bool := false

/-- cond consensus/wal.go WALDecoder.Decode -/
def c15_decode_clean_eof : String := "errors.Is(err, io.EOF) && nr == 0"

/-- const libs/autofile/group.go defaultHeadSizeLimit -/
def c15_defaultHeadSizeLimit : Int := 10485760

/-- const libs/autofile/group.go defaultTotalSizeLimit -/
def c15_defaultTotalSizeLimit : Int := 1073741824

/-- has libs/autofile/group.go OpenGroup -/
def c15_headBuf_40k : Bool := true

/-- has libs/autofile/group.go Group.readGroupInfo -/
def c15_index_pattern : Bool := true

/-- const libs/autofile/group.go maxFilesToRemove -/
def c15_maxFilesToRemove : Int := 4

/-- const consensus/reactor.go maxMsgSize -/
def c15_maxMsgSize : Int := 1048576

/-- has consensus/state.go State.OnStart -/
def c15_onstart_corruption_case : Bool := true

/-- order consensus/state.go State.OnStart -/
def c15_onstart_repair_order : List String := ["loadWalFile", "catchupReplay", "Stop", "CopyFile", "repairWalFile"]

/-- has consensus/state.go repairWalFile -/
def c15_repair_syncs : Bool := true

/-- cond libs/autofile/group.go Group.checkHeadSizeLimit -/
def c15_rotate_guard : String := "size >= limit"

/-- cond consensus/wal.go BaseWAL.SearchForEndHeight -/
def c15_search_early_exit : String := "lastHeightFound > 0 && lastHeightFound < height"

/-- const p2p/conn/secret_connection.go aeadSizeOverhead -/
def c16_aeadSizeOverhead : Int := 16

/-- const p2p/conn/secret_connection.go dataLenSize -/
def c16_dataLenSize : Int := 4

/-- const p2p/conn/secret_connection.go dataMaxSize -/
def c16_dataMaxSize : Int := 1024

/-- order p2p/conn/secret_connection.go MakeSecretConnection -/
def c16_handshake_order : List String := ["shareEphPubKey", "sort32", "computeDHSecret", "deriveSecrets", "ExtractBytes", "signChallenge", "shareAuthSignature", "VerifySignature"]

/-- cond p2p/conn/secret_connection.go incrNonce -/
def c16_incrNonce_guard : String := "counter == math.MaxUint64"

/-- cond p2p/conn/secret_connection.go SecretConnection.Read -/
def c16_read_len_guard : String := "chunkLength > dataMaxSize"

/-- order p2p/conn/secret_connection.go SecretConnection.Read -/
def c16_read_order : List String := ["ReadFull", "Open", "incrNonce"]

/-- const p2p/conn/secret_connection.go totalFrameSize -/
def c16_totalFrameSize : Int := 1028

/-- cond p2p/transport.go MultiplexTransport.upgrade -/
def c16_upgrade_dialed_guard : String := "connID != dialedID"

/-- cond p2p/transport.go MultiplexTransport.upgrade -/
def c16_upgrade_nodeinfo_guard : String := "connID != nodeInfo.ID()"

/-- cond p2p/transport.go MultiplexTransport.upgrade -/
def c16_upgrade_outbound_guard : String := "dialedAddr != nil"

/-- cond p2p/transport.go MultiplexTransport.upgrade -/
def c16_upgrade_self_guard : String := "mt.nodeInfo.ID() == nodeInfo.ID()"

/-- cond p2p/conn/secret_connection.go MakeSecretConnection -/
def c16_verify_guard : String := "!remPubKey.VerifySignature(challenge[:], remSignature)"

/-- order p2p/conn/secret_connection.go SecretConnection.Write -/
def c16_write_order : List String := ["Seal", "incrNonce", "Write"]

/-- order consensus/state.go State.finalizeCommit -/
def c18_finalizeCommit_order : List String := ["ValidateBlock", "SaveBlock", "ApplyBlock", "pruneBlocks"]

/-- has state/execution.go updateState -/
def c18_params_change_height_unconditional : Bool := true

/-- order consensus/state.go State.pruneBlocks -/
def c18_pruneBlocks_glue_order : List String := ["PruneBlocks", "PruneStates"]

/-- cond store/store.go BlockStore.PruneBlocks -/
def c18_prune_flush_cond : String := "pruned%1000 == 0 && pruned > 0"

/-- has store/store.go BlockStore.PruneBlocks -/
def c18_prune_flush_next_base : Bool := true

/-- order store/store.go BlockStore.SaveBlock -/
def c18_saveBlock_order : List String := ["saveBlockPart", "calcBlockMetaKey", "calcBlockHashKey", "calcBlockCommitKey", "calcSeenCommitKey", "saveState"]

/-- const state/store.go valSetCheckpointInterval -/
def c18_valSetCheckpointInterval : Int := 100000

/-- order state/indexer/block/kv/kv.go BlockerIndexer.Search -/
def c19_block_search_order : List String := ["Conditions", "lookForHeight", "LookForRanges", "match"]

/-- const types/event_bus.go defaultCapacity -/
def c19_eventbus_defaultCapacity : Int := 0

/-- cond libs/pubsub/query/query.go Query.Matches -/
def c19_matches_empty_guard : String := "len(events) == 0"

/-- const rpc/core/events.go maxQueryLength -/
def c19_rpc_maxQueryLength : Int := 512

/-- has libs/pubsub/pubsub.go state.send -/
def c19_send_continues_after_match_error : Bool := true

/-- order libs/pubsub/pubsub.go state.send -/
def c19_send_order : List String := ["Matches", "NewMessage", "remove"]

/-- cond libs/pubsub/pubsub.go state.send -/
def c19_send_unbuffered_cond : String := "cap(subscription.out) == 0"

/-- order state/txindex/indexer_service.go IndexerService.OnStart -/
def c19_service_order : List String := ["SubscribeUnbuffered", "Index", "AddBatch"]

/-- has state/txindex/indexer_service.go IndexerService.OnStart -/
def c19_service_subscribes_buffered : Bool := false

/-- has state/txindex/indexer_service.go IndexerService.OnStart -/
def c19_service_subscribes_unbuffered : Bool := true

/-- cond libs/pubsub/pubsub.go Server.Subscribe -/
def c19_subscribe_capacity_guard : String := "outCapacity[0] <= 0"

/-- has state/txindex/kv/kv.go isTagKey -/
def c19_tx_istagkey_three : Bool := true

/-- order state/txindex/kv/kv.go TxIndex.Search -/
def c19_tx_search_order : List String := ["Conditions", "lookForHash", "LookForRanges", "lookForHeight", "match"]

/-- cond state/txindex/kv/kv.go startKeyForCondition -/
def c19_tx_startkey_height_cond : String := "height > 0"

/-- const version/version.go BlockProtocol -/
def c20_BlockProtocol : Int := 11

/-- const types/params.go MaxBlockSizeBytes -/
def c20_MaxBlockSizeBytes : Int := 104857600

/-- const types/genesis.go MaxChainIDLen -/
def c20_MaxChainIDLen : Int := 50

/-- const crypto/tmhash/hash.go TruncatedSize -/
def c20_addressSize : Int := 20

/-- has light/rpc/client.go Client.BlockchainInfo -/
def c20_bcinfo_verifies_each : Bool := true

/-- cond light/rpc/client.go Client.BlockByHash -/
def c20_blockByHash_request_guard : String := "!bytes.Equal(res.BlockID.Hash, hash)"

/-- cond light/rpc/client.go Client.BlockResults -/
def c20_blockResults_hash_guard : String := "!bytes.Equal(rH, tH)"

/-- has light/rpc/client.go Client.BlockResults -/
def c20_blockResults_hashes_events : Bool := false

/-- cond light/rpc/client.go Client.BlockResults -/
def c20_blockResults_height_guard : String := "res.Height != h"

/-- order light/rpc/client.go Client.Block -/
def c20_block_order : List String := ["res.BlockID.ValidateBasic", "res.Block.ValidateBasic", "c.updateLightClientIfNeededTo"]

/-- cond light/rpc/client.go Client.Block -/
def c20_block_request_guard : String := "height != nil && res.Block.Height != *height"

/-- const light/rpc/client.go defaultPerPage -/
def c20_defaultPerPage : Int := 30

/-- has state/store.go ABCIResponsesResultsHash -/
def c20_header_results_root : Bool := true

/-- has crypto/merkle/proof_key_path.go KeyPathToKeys -/
def c20_keypath_pathunescape : Bool := true

/-- const light/rpc/client.go maxPerPage -/
def c20_maxPerPage : Int := 100

/-- has types/params.go HashConsensusParams -/
def c20_paramsHash_only_block : Bool := true

/-- has light/rpc/client.go Client.TxSearch -/
def c20_txSearch_verifies : Bool := true

/-- cond light/rpc/client.go Client.Tx -/
def c20_tx_data_guard : String := "!bytes.Equal(res.Proof.Data, res.Tx)"

/-- cond light/rpc/client.go Client.Tx -/
def c20_tx_hash_guard : String := "!bytes.Equal(txH, hash) || !bytes.Equal(res.Hash, hash)"

/-- has light/rpc/client.go Client.updateLightClientIfNeededTo -/
def c20_update_uses_latest_trusted : Bool := true

/-- cond crypto/merkle/proof_value.go ValueOp.Run -/
def c20_valueOp_nil_root : String := "rootHash == nil"

/-- cond p2p/conn/connection.go MConnection.sendPacketMsg -/
def conn_least_ratio_guard : String := "ratio < leastRatio"

/-- cond consensus/state.go State.addVote -/
def cons_addVote_nil_lastcommit_guard : String := "cs.LastCommit == nil"

/-- has consensus/reactor.go NewValidBlockMessage.ValidateBasic -/
def cons_newValidBlock_validates_bits : Bool := true

/-- has consensus/reactor.go ProposalPOLMessage.ValidateBasic -/
def cons_proposalPOL_validates_bits : Bool := true

/-- cond consensus/reactor.go ProposalMessage.ValidateBasic -/
def cons_proposal_bounds_part_count : String := "m.Proposal.BlockID.PartSetHeader.Total > types.MaxBlockPartsCount"

/-- has consensus/reactor.go Reactor.ReceiveEnvelope -/
def cons_receive_any_deferred_unlock : Bool := false

/-- has consensus/reactor.go Reactor.ReceiveEnvelope -/
def cons_receive_vote_deferred_runlock : Bool := false

/-- has consensus/reactor.go Reactor.ReceiveEnvelope -/
def cons_receive_vote_unlock_before_queue : Bool := true

/-- has consensus/reactor.go VoteSetBitsMessage.ValidateBasic -/
def cons_voteSetBits_validates_bits : Bool := true

/-- order consensus/state.go State.defaultDecideProposal -/
def cs_proposal_flush_first : List String := ["FlushAndSync", "SignProposal"]

/-- has consensus/state.go State.defaultDecideProposal -/
def cs_proposal_keeps_signed_timestamp : Bool := true

/-- order consensus/state.go State.signVote -/
def cs_signVote_flush_first : List String := ["FlushAndSync", "SignVote"]

/-- has evidence/reactor.go Reactor.ReceiveEnvelope -/
def ev_receive_punishes_invalid : Bool := true

/-- cond evidence/verify.go validateABCIEvidence -/
def evpool_abci_nil_check : String := "validators == nil && len(ev.ByzantineValidators) != 0"

/-- order evidence/pool.go Pool.AddEvidence -/
def evpool_add_order : List String := ["evpool.isPending", "evpool.isCommitted", "evpool.verify", "evpool.addPendingEvidence"]

/-- const evidence/pool.go baseKeyCommitted -/
def evpool_baseKeyCommitted : Int := 0

/-- const evidence/pool.go baseKeyPending -/
def evpool_baseKeyPending : Int := 1

/-- cond types/evidence.go LightClientAttackEvidence.GetByzantineValidators -/
def evpool_byz_equiv_nil_guard : String := "val == nil"

/-- has types/evidence.go LightClientAttackEvidence.GetByzantineValidators -/
def evpool_byz_skip_nil : Bool := true

/-- cond evidence/pool.go Pool.CheckEvidence -/
def evpool_check_add_once : String := "!evpool.isPending(ev)"

/-- cond evidence/pool.go Pool.CheckEvidence -/
def evpool_check_guard : String := "isLightEv || !evpool.isPending(ev)"

/-- has evidence/pool.go Pool.isExpired -/
def evpool_isExpired_both : Bool := true

/-- order evidence/verify.go VerifyLightClientAttack -/
def evpool_lca_order : List String := ["commonVals.VerifyCommitLightTrusting", "e.ConflictingHeaderIsInvalid", "e.ConflictingBlock.ValidatorSet.VerifyCommitLight", "validateABCIEvidence"]

/-- order evidence/pool.go Pool.Update -/
def evpool_update_order : List String := ["evpool.processConsensusBuffer", "evpool.updateState", "evpool.markEvidenceAsCommitted", "evpool.removeExpiredPendingEvidence"]

/-- cond evidence/pool.go Pool.Update -/
def evpool_update_prune : String := "evpool.Size() > 0"

/-- cond evidence/verify.go Pool.verify -/
def evpool_verify_expiry : String := "ageDuration > evidenceParams.MaxAgeDuration && ageNumBlocks > evidenceParams.MaxAgeNumBlocks"

/-- cond evidence/reactor.go Reactor.prepareEvidenceMessage -/
def evreactor_peer_behind : String := "peerHeight <= evHeight"

/-- cond evidence/reactor.go Reactor.prepareEvidenceMessage -/
def evreactor_too_old : String := "ageNumBlocks > params.MaxAgeNumBlocks"

/-- const p2p/conn/connection.go defaultMaxPacketMsgPayloadSize -/
def mconn_defaultMaxPacketMsgPayloadSize : Int := 1024

/-- const p2p/conn/connection.go defaultRecvMessageCapacity -/
def mconn_defaultRecvMessageCapacity : Int := 22020096

/-- const p2p/conn/connection.go defaultSendQueueCapacity -/
def mconn_defaultSendQueueCapacity : Int := 1

/-- cond p2p/conn/connection.go Channel.isSendPending -/
def mconn_isSendPending_guard : String := "ch.sending == nil"

/-- cond p2p/conn/connection.go Channel.nextPacketMsg -/
def mconn_nextPacket_eof_guard : String := "len(ch.sending) <= maxSize"

/-- cond p2p/conn/connection.go Channel.recvPacketMsg -/
def mconn_recv_capacity_guard : String := "recvCap < recvReceived"

/-- cond p2p/conn/connection.go MConnection.recvRoutine -/
def mconn_unknown_channel_guard : String := "pkt.PacketMsg.ChannelID < 0 || pkt.PacketMsg.ChannelID > math.MaxUint8 || !ok || channel == nil"

/-- has mempool/v0/clist_mempool.go CListMempool.resCbFirstTime -/
def mempoolV0_admit_atomic : Bool := true

/-- order mempool/v0/clist_mempool.go CListMempool.resCbFirstTime -/
def mempoolV0_admit_order : List String := ["mem.addTxMtx.Lock", "mem.isFull", "mem.txsMap.Load", "mem.addTx"]

/-- has mempool/v0/clist_mempool.go CListMempool.resCbFirstTime -/
def mempoolV0_inpool_guard : Bool := true

/-- cond mempool/v0/clist_mempool.go CListMempool.isFull -/
def mempoolV0_isFull : String := "memSize >= mem.config.Size || int64(txSize)+txsBytes > mem.config.MaxTxsBytes"

/-- cond mempool/v0/clist_mempool.go CListMempool.ReapMaxTxs -/
def mempoolV0_reapMaxTxs_loop : String := "e != nil && len(txs) < max"

/-- order mempool/v1/mempool.go TxMempool.addNewTransaction -/
def mempoolV1_admit_order : List String := ["txmp.canAddTx", "txmp.removeTxByElement", "txmp.insertTx"]

/-- cond mempool/v1/mempool.go TxMempool.canAddTx -/
def mempoolV1_canAddTx : String := "numTxs >= txmp.config.Size || wtx.Size()+txBytes > txmp.config.MaxTxsBytes"

/-- has mempool/v1/mempool.go TxMempool.addNewTransaction -/
def mempoolV1_inpool_guard : Bool := true

/-- cond mempool/v1/mempool.go TxMempool.addNewTransaction -/
def mempoolV1_victim : String := "cw.priority < priority"

/-- const crypto/merkle/proof.go MaxAunts -/
def merkle_MaxAunts : Int := 100

/-- cond mempool/v0/reactor.go Reactor.ReceiveEnvelope -/
def mp_v0_empty_txs_guard : String := "len(protoTxs) == 0"

/-- cond mempool/v1/reactor.go Reactor.ReceiveEnvelope -/
def mp_v1_empty_txs_guard : String := "len(protoTxs) == 0"

/-- has p2p/peer.go createMConnection -/
def peer_onReceive_clones_message_type : Bool := true

/-- const p2p/pex/pex_reactor.go maxAddressSize -/
def pex_maxAddressSize : Int := 256

/-- const p2p/pex/params.go maxGetSelection -/
def pex_maxGetSelection : Int := 250

/-- cond p2p/pex/pex_reactor.go Reactor.ReceiveEnvelope -/
def pex_seed_inbound_guard : String := "r.config.SeedMode && !e.Src.IsOutbound()"

/-- const proto/tendermint/types/types.pb.go PrecommitType -/
def pv_PrecommitType : Int := 2

/-- const proto/tendermint/types/types.pb.go PrevoteType -/
def pv_PrevoteType : Int := 1

/-- const proto/tendermint/types/types.pb.go ProposalType -/
def pv_ProposalType : Int := 32

/-- order libs/tempfile/tempfile.go WriteFileAtomic -/
def pv_atomic_order : List String := ["OpenFile", "Write", "Rename"]

/-- cond privval/file.go FilePVLastSignState.CheckHRS -/
def pv_checkHRS_height : String := "lss.Height > height"

/-- cond privval/file.go FilePVLastSignState.CheckHRS -/
def pv_checkHRS_round : String := "lss.Round > round"

/-- cond privval/file.go FilePVLastSignState.CheckHRS -/
def pv_checkHRS_step : String := "lss.Step > step"

/-- has privval/file.go LoadFilePVEmptyState -/
def pv_emptystate_skips_state : Bool := true

/-- has cmd/tendermint/commands/init.go initFilesWithConfig -/
def pv_init_uses_load : Bool := true

/-- cond privval/file.go LoadOrGenFilePV -/
def pv_loadOrGen_key_cond : String := "tmos.FileExists(keyFilePath)"

/-- has privval/file.go LoadOrGenFilePV -/
def pv_loadOrGen_loads : Bool := true

/-- has privval/file.go LoadFilePV -/
def pv_load_reads_state : Bool := true

/-- has node/node.go DefaultNewNode -/
def pv_node_loader : Bool := true

/-- has privval/file.go FilePV.signProposal -/
def pv_proposal_persist_before_release : Bool := true

/-- has cmd/tendermint/commands/reset.go resetFilePV -/
def pv_reset_uses_emptystate : Bool := true

/-- has privval/file.go FilePV.saveSigned -/
def pv_saveSigned_saves : Bool := true

/-- order privval/file.go FilePV.signProposal -/
def pv_signProposal_order : List String := ["CheckHRS", "ProposalSignBytes", "Sign", "saveSigned"]

/-- order privval/file.go FilePV.signVote -/
def pv_signVote_order : List String := ["CheckHRS", "VoteSignBytes", "Sign", "saveSigned"]

/-- const privval/file.go stepPrecommit -/
def pv_stepPrecommit : Int := 3

/-- const privval/file.go stepPrevote -/
def pv_stepPrevote : Int := 2

/-- const privval/file.go stepPropose -/
def pv_stepPropose : Int := 1

/-- has privval/file.go FilePV.signVote -/
def pv_vote_persist_before_release : Bool := true

/-- has consensus/replay.go Handshaker.replayBlock -/
def replay_evpool_empty : Bool := true

/-- cond statesync/chunks.go chunkQueue.Add -/
def ss_chunk_index_guard : String := "chunk.Index >= q.snapshot.Chunks"

/-- const types/params.go MaxBlockPartsCount -/
def types_MaxBlockPartsCount : Int := 1601

/-- const types/vote_set.go MaxVotesCount -/
def types_MaxVotesCount : Int := 10000

def factCount : Nat := 337

end Tmv.Facts
