/-! Shared helpers for the line-protocol drivers (core-only). -/
namespace Tmv

abbrev Bytes := List UInt8

def hexDigit (n : Nat) : Char :=
  if n < 10 then Char.ofNat (48 + n) else Char.ofNat (87 + n)

def toHex (b : Bytes) : String :=
  String.ofList (b.foldr (fun x acc => hexDigit (x.toNat / 16) :: hexDigit (x.toNat % 16) :: acc) [])

def hexVal (c : Char) : Option Nat :=
  if '0' ≤ c ∧ c ≤ '9' then some (c.toNat - 48)
  else if 'a' ≤ c ∧ c ≤ 'f' then some (c.toNat - 87)
  else if 'A' ≤ c ∧ c ≤ 'F' then some (c.toNat - 55)
  else none

def ofHexChars : List Char → Option Bytes
  | [] => some []
  | [_] => none
  | a :: b :: rest => do
    let x ← hexVal a
    let y ← hexVal b
    let r ← ofHexChars rest
    pure (UInt8.ofNat (x * 16 + y) :: r)

/-- "-" denotes the empty byte string (so that every field is a non-empty token) -/
def ofHex (s : String) : Option Bytes :=
  if s = "-" ∨ s = "." then some [] else ofHexChars s.toList

/-- list element encoding: "." is the empty byte string (inside comma lists, where "-" means
the empty list) -/
def hexOrDot (b : Bytes) : String := if b.isEmpty then "." else toHex b

def hexListStr (l : List Bytes) : String :=
  if l.isEmpty then "-" else ",".intercalate (l.map hexOrDot)

def hexOrDash (b : Bytes) : String := if b.isEmpty then "-" else toHex b

/-- `k=v` token lookup -/
def kv (toks : List String) (k : String) : Option String :=
  toks.findSome? fun t =>
    match t.splitOn "=" with
    | [a, b] => if a = k then some b else none
    | _ => none

def splitComma (s : String) : List String :=
  if s = "-" ∨ s = "" then [] else s.splitOn ","

end Tmv
