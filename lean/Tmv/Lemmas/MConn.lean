import Tmv.Model.MConn
/-! Lemmas about the multiplexed-connection model: packetisation vs reassembly, the receive loop,
the sender invariant. Core-only. -/
namespace Tmv.MConn

/-! ### specification-level functions -/

/-- reassembly of ONE channel's packet stream starting from buffer `buf`: delivered messages and
the remaining partial buffer -/
def reasm : Bytes → List (Bool × Bytes) → List Bytes × Bytes
  | buf, [] => ([], buf)
  | buf, (eof, d) :: ps =>
    if eof then ((buf ++ d) :: (reasm [] ps).1, (reasm [] ps).2) else reasm (buf ++ d) ps

/-- the running buffer of one channel never exceeds `cap` -/
def fits (cap : Nat) : Bytes → List (Bool × Bytes) → Prop
  | _, [] => True
  | buf, (eof, d) :: ps =>
    buf.length + d.length ≤ cap ∧ fits cap (if eof then [] else buf ++ d) ps

/-- the packets of channel `id` in a wire sequence, in wire order -/
def proj (id : Nat) (wire : List PacketMsg) : List (Bool × Bytes) :=
  (wire.filter fun p => p.chId = (id : Int)).map fun p => (p.eof, p.data)

/-- the messages delivered on channel `id` in an `onReceive` log, in order -/
def delivered (id : Nat) (log : List (Nat × Bytes)) : List Bytes :=
  (log.filter fun e => e.1 = id).map (·.2)

/-! ### packetize -/

theorem packetizeF_fuel (mx : Nat) (hmx : 0 < mx) :
    ∀ (f1 f2 : Nat) (b : Bytes), b.length ≤ f1 → b.length ≤ f2 →
      packetizeF mx f1 b = packetizeF mx f2 b := by
  intro f1
  induction f1 with
  | zero =>
    intro f2 b h1 _
    have hb : b = [] := List.eq_nil_of_length_eq_zero (by omega)
    subst hb
    cases f2 <;> simp [packetizeF]
  | succ n ih =>
    intro f2 b h1 h2
    cases f2 with
    | zero =>
      have hb : b = [] := List.eq_nil_of_length_eq_zero (by omega)
      subst hb
      simp [packetizeF]
    | succ m =>
      simp only [packetizeF]
      split
      · rfl
      · rename_i hgt
        have hd : (b.drop mx).length ≤ n := by simp [List.length_drop]; omega
        have hd2 : (b.drop mx).length ≤ m := by simp [List.length_drop]; omega
        rw [ih m _ hd hd2]

/-- one unfolding of `packetize` (what `nextPacketMsg` does) -/
theorem packetize_unfold (mx : Nat) (hmx : 0 < mx) (b : Bytes) :
    packetize mx b =
      if b.length ≤ mx then [(true, b)]
      else (false, b.take mx) :: packetize mx (b.drop mx) := by
  unfold packetize
  generalize hn : b.length = n
  cases n with
  | zero =>
    have : b = [] := List.eq_nil_of_length_eq_zero hn
    subst this
    simp [packetizeF]
  | succ n =>
    simp only [packetizeF, hn]
    split
    · rfl
    · rename_i hgt
      congr 1
      apply packetizeF_fuel mx hmx <;> simp [List.length_drop] <;> omega

theorem reasm_packetizeF (mx : Nat) (hmx : 0 < mx) :
    ∀ (f : Nat) (m buf : Bytes) (rest : List (Bool × Bytes)), m.length ≤ f →
      reasm buf (packetizeF mx f m ++ rest) = ((buf ++ m) :: (reasm [] rest).1, (reasm [] rest).2) := by
  intro f
  induction f with
  | zero =>
    intro m buf rest h
    have : m = [] := List.eq_nil_of_length_eq_zero (by omega)
    subst this
    simp [packetizeF, reasm]
  | succ n ih =>
    intro m buf rest h
    simp only [packetizeF]
    split
    · simp [reasm]
    · rename_i hgt
      have hd : (m.drop mx).length ≤ n := by simp [List.length_drop]; omega
      simp only [List.cons_append, reasm, Bool.false_eq_true, if_false]
      rw [ih _ _ _ hd, List.append_assoc, List.take_append_drop]

theorem reasm_packetize (mx : Nat) (hmx : 0 < mx) (m buf : Bytes) (rest : List (Bool × Bytes)) :
    reasm buf (packetize mx m ++ rest) = ((buf ++ m) :: (reasm [] rest).1, (reasm [] rest).2) :=
  reasm_packetizeF mx hmx _ m buf rest (Nat.le_refl _)

/-- reassembling the packetisation of a message list gives the list back, nothing left over -/
theorem reasm_flatMap_packetize (mx : Nat) (hmx : 0 < mx) (msgs : List Bytes) :
    reasm [] (msgs.flatMap (packetize mx)) = (msgs, []) := by
  induction msgs with
  | nil => simp [reasm]
  | cons m ms ih =>
    rw [List.flatMap_cons, reasm_packetize mx hmx, ih]
    simp

theorem fits_packetizeF (mx cap : Nat) (hmx : 0 < mx) :
    ∀ (f : Nat) (m buf : Bytes) (rest : List (Bool × Bytes)), m.length ≤ f →
      buf.length + m.length ≤ cap → fits cap [] rest →
      fits cap buf (packetizeF mx f m ++ rest) := by
  intro f
  induction f with
  | zero =>
    intro m buf rest h hc hr
    have : m = [] := List.eq_nil_of_length_eq_zero (by omega)
    subst this
    simp [packetizeF, fits, hr]
    simpa using hc
  | succ n ih =>
    intro m buf rest h hc hr
    simp only [packetizeF]
    split
    · simp [fits, hr, hc]
    · rename_i hgt
      have hd : (m.drop mx).length ≤ n := by simp [List.length_drop]; omega
      simp only [List.cons_append, fits, Bool.false_eq_true, if_false]
      refine ⟨by simp [List.length_take]; omega, ih _ _ _ hd ?_ hr⟩
      simp [List.length_take, List.length_drop]; omega

theorem fits_flatMap_packetize (mx cap : Nat) (hmx : 0 < mx) (msgs : List Bytes)
    (h : ∀ m ∈ msgs, m.length ≤ cap) : fits cap [] (msgs.flatMap (packetize mx)) := by
  induction msgs with
  | nil => simp [fits]
  | cons m ms ih =>
    rw [List.flatMap_cons]
    exact fits_packetizeF mx cap hmx _ m [] _ (Nat.le_refl _)
      (by simpa using h m (by simp)) (ih fun x hx => h x (by simp [hx]))

/-! ### receive loop -/

theorem rfind_upd (l : List RChan) (c' : RChan) (i j : Nat) (hi : c'.id = i) :
    (l.map fun x => if x.id = i then c' else x).find? (·.id = j) =
      if j = i then (l.find? (·.id = i)).map (fun _ => c') else l.find? (·.id = j) := by
  induction l with
  | nil => simp
  | cons x xs ih =>
    rw [List.map_cons, List.find?_cons, List.find?_cons, List.find?_cons, ih]
    by_cases hx : x.id = i
    · by_cases hj : j = i
      · subst hj; simp [hx, hi]
      · have h2 : ¬ i = j := fun h => hj h.symm
        have h3 : ¬ x.id = j := by omega
        simp [hx, hj, hi, h2]
    · by_cases hj : j = i
      · subst hj; simp [hx]
      · by_cases hxj : x.id = j <;> simp [hx, hj, hxj]

theorem proj_cons_eq (id : Nat) (p : PacketMsg) (ps : List PacketMsg) (h : p.chId = (id : Int)) :
    proj id (p :: ps) = (p.eof, p.data) :: proj id ps := by
  simp [proj, h]

theorem proj_cons_ne (id : Nat) (p : PacketMsg) (ps : List PacketMsg) (h : p.chId ≠ (id : Int)) :
    proj id (p :: ps) = proj id ps := by
  simp [proj, h]

theorem recvFrame_msg (r : Receiver) (p : PacketMsg) (len : Nat) (c : RChan)
    (hs : r.stopped = none) (hl : len ≤ r.maxPacket) (h0 : 0 ≤ p.chId) (h1 : p.chId ≤ 255)
    (hf : r.chans.find? (·.id = p.chId.toNat) = some c)
    (hcap : c.recving.length + p.data.length ≤ c.cap) :
    recvFrame r { len := len, pkt := .msg p } =
      ({ r with chans := r.chans.map fun x =>
            if x.id = c.id then { c with recving := if p.eof then [] else c.recving ++ p.data } else x },
       if p.eof then .deliver c.id (c.recving ++ p.data) else .nothing) := by
  unfold recvFrame
  have hl' : ¬ len > r.maxPacket := by omega
  have hr : ¬ (p.chId < 0 ∨ p.chId > 255) := by omega
  have hc : ¬ c.cap < c.recving.length + p.data.length := by omega
  simp only [hs, Option.isSome_none, Bool.false_eq_true, if_false, hl', hr, hf, recvPacketMsg, hc]
  cases p.eof <;> simp


/-- frames carrying the packets of `wire`, with frame lengths given by `lens` -/
def msgFrames (lens : PacketMsg → Nat) (wire : List PacketMsg) : List Frame :=
  wire.map fun p => { len := lens p, pkt := .msg p }

theorem recvAll_cons (r : Receiver) (f : Frame) (fs : List Frame) :
    recvAll r (f :: fs) =
      ((recvAll (recvFrame r f).1 fs).1,
        match (recvFrame r f).2 with
        | .deliver ch m => (ch, m) :: (recvAll (recvFrame r f).1 fs).2
        | _ => (recvAll (recvFrame r f).1 fs).2) := by
  simp only [recvAll]
  split <;> simp_all

theorem delivered_cons_eq (id : Nat) (m : Bytes) (log : List (Nat × Bytes)) :
    delivered id ((id, m) :: log) = m :: delivered id log := by
  simp [delivered]

theorem delivered_cons_ne (id j : Nat) (m : Bytes) (log : List (Nat × Bytes)) (h : j ≠ id) :
    delivered id ((j, m) :: log) = delivered id log := by
  simp [delivered, h]

theorem recvAll_spec (lens : PacketMsg → Nat) :
    ∀ (wire : List PacketMsg) (r : Receiver),
      r.stopped = none →
      (∀ p ∈ wire, lens p ≤ r.maxPacket ∧ 0 ≤ p.chId ∧ p.chId ≤ 255 ∧
        (r.chans.find? (·.id = p.chId.toNat)).isSome) →
      (∀ id c, r.chans.find? (·.id = id) = some c → fits c.cap c.recving (proj id wire)) →
      (recvAll r (msgFrames lens wire)).1.stopped = none ∧
      ∀ id c, r.chans.find? (·.id = id) = some c →
        delivered id (recvAll r (msgFrames lens wire)).2 = (reasm c.recving (proj id wire)).1 ∧
        ∃ c', (recvAll r (msgFrames lens wire)).1.chans.find? (·.id = id) = some c' ∧
          c'.recving = (reasm c.recving (proj id wire)).2 ∧ c'.cap = c.cap := by
  intro wire
  induction wire with
  | nil =>
    intro r hs _ _
    refine ⟨by simpa [msgFrames, recvAll] using hs, ?_⟩
    intro id c hc
    simp [msgFrames, recvAll, delivered, proj, reasm, hc]
  | cons p ps ih =>
    intro r hs hw hfit
    obtain ⟨hl, h0, h1, hsome⟩ := hw p (by simp)
    obtain ⟨c0, hc0⟩ := Option.isSome_iff_exists.mp hsome
    have hid : c0.id = p.chId.toNat := by
      have := List.find?_some hc0; simpa using this
    have hpid : p.chId = (c0.id : Int) := by rw [hid]; omega
    have hfit0 := hfit c0.id c0 (by rw [hid]; exact hc0)
    rw [proj_cons_eq _ _ _ hpid] at hfit0
    obtain ⟨hcap, hfit0'⟩ := hfit0
    have hstep := recvFrame_msg r p (lens p) c0 hs hl h0 h1 hc0 hcap
    -- the state after the first frame
    generalize hr1 : (recvFrame r { len := lens p, pkt := .msg p }).1 = r1 at *
    have hr1' : r1 = { r with chans := r.chans.map fun x =>
            if x.id = c0.id then { c0 with recving := if p.eof then [] else c0.recving ++ p.data } else x } := by
      rw [← hr1, hstep]
    have hlook : ∀ j, r1.chans.find? (·.id = j) =
        if j = c0.id then some { c0 with recving := if p.eof then [] else c0.recving ++ p.data }
        else r.chans.find? (·.id = j) := by
      intro j
      rw [hr1']
      simp only
      rw [rfind_upd r.chans { c0 with recving := if p.eof then [] else c0.recving ++ p.data } c0.id j rfl]
      split
      · rw [hid, hc0]; rfl
      · rfl
    have hs1 : r1.stopped = none := by rw [hr1']; exact hs
    have hmp : r1.maxPacket = r.maxPacket := by rw [hr1']
    have hw1 : ∀ q ∈ ps, lens q ≤ r1.maxPacket ∧ 0 ≤ q.chId ∧ q.chId ≤ 255 ∧
        (r1.chans.find? (·.id = q.chId.toNat)).isSome := by
      intro q hq
      obtain ⟨a, b, c, d⟩ := hw q (by simp [hq])
      refine ⟨by omega, b, c, ?_⟩
      rw [hlook]
      split
      · simp
      · exact d
    have hfit1 : ∀ id c, r1.chans.find? (·.id = id) = some c → fits c.cap c.recving (proj id ps) := by
      intro id c hc
      rw [hlook] at hc
      split at hc
      · rename_i hj
        subst hj
        cases hc
        simpa using hfit0'
      · rename_i hj
        have := hfit id c hc
        rwa [proj_cons_ne _ _ _ (by rw [hpid]; omega)] at this
    obtain ⟨ihs, ihc⟩ := ih r1 hs1 hw1 hfit1
    have hall : recvAll r (msgFrames lens (p :: ps)) =
        ((recvAll r1 (msgFrames lens ps)).1,
          if p.eof then (c0.id, c0.recving ++ p.data) :: (recvAll r1 (msgFrames lens ps)).2
          else (recvAll r1 (msgFrames lens ps)).2) := by
      show recvAll r ({ len := lens p, pkt := .msg p } :: msgFrames lens ps) = _
      rw [recvAll_cons, hr1, hstep]
      cases p.eof <;> simp
    rw [hall]
    refine ⟨ihs, ?_⟩
    intro id c hc
    by_cases hj : id = c0.id
    · subst hj
      have hcc : c = c0 := by
        rw [hid, hc0] at hc; exact (Option.some.inj hc).symm
      subst hcc
      obtain ⟨d1, c', e1, e2, e3⟩ := ihc c.id { c with recving := if p.eof then [] else c.recving ++ p.data } (by rw [hlook]; simp)
      rw [proj_cons_eq _ _ _ hpid]
      cases hpe : p.eof
      · simp only [hpe, Bool.false_eq_true, if_false, reasm] at d1 e2 ⊢
        exact ⟨d1, c', e1, e2, by simpa using e3⟩
      · simp only [hpe, if_true, reasm] at d1 e2 ⊢
        rw [delivered_cons_eq]
        exact ⟨by rw [d1], c', e1, e2, by simpa using e3⟩
    · obtain ⟨d1, c', e1, e2, e3⟩ := ihc id c (by rw [hlook]; simp [hj, hc])
      rw [proj_cons_ne _ _ _ (by rw [hpid]; omega)]
      refine ⟨?_, c', e1, e2, e3⟩
      cases hpe : p.eof
      · simpa [hpe] using d1
      · simp only [if_true]
        rw [delivered_cons_ne _ _ _ _ (fun h => hj h.symm)]
        exact d1


/-- all receive buffers within their capacity -/
def bounded (r : Receiver) : Prop := ∀ c ∈ r.chans, c.recving.length ≤ c.cap

theorem recvPacketMsg_some (c c' : RChan) (eof : Bool) (d : Bytes) (del : Option Bytes)
    (h : recvPacketMsg c eof d = some (c', del)) :
    c'.recving.length ≤ c'.cap ∧ c'.id = c.id ∧ c'.cap = c.cap ∧
      c.recving.length + d.length ≤ c.cap := by
  unfold recvPacketMsg at h
  split at h
  · cases h
  · rename_i hcap
    cases eof
    · simp at h
      obtain ⟨rfl, _⟩ := h
      simp; omega
    · simp at h
      obtain ⟨rfl, _⟩ := h
      simp; omega

theorem recvFrame_bounded (r : Receiver) (f : Frame) (h : bounded r) : bounded (recvFrame r f).1 := by
  unfold recvFrame
  split
  · exact h
  split
  · exact h
  split <;> try exact h
  rename_i p _
  split
  · exact h
  split
  · exact h
  · rename_i c hc
    cases hp : recvPacketMsg c p.eof p.data with
    | none => exact h
    | some res =>
      obtain ⟨c', del⟩ := res
      obtain ⟨hb, _, _, _⟩ := recvPacketMsg_some _ _ _ _ _ hp
      have : bounded { r with chans := r.chans.map fun x => if x.id = c.id then c' else x } := by
        intro x hx
        simp only [List.mem_map] at hx
        obtain ⟨y, hy, rfl⟩ := hx
        split
        · exact hb
        · exact h y hy
      cases del <;> simpa using this

theorem recvAll_bounded (fs : List Frame) : ∀ (r : Receiver), bounded r → bounded (recvAll r fs).1 := by
  induction fs with
  | nil => intro r h; simpa [recvAll] using h
  | cons f fs ih =>
    intro r h
    rw [recvAll_cons]
    exact ih _ (recvFrame_bounded r f h)

theorem new_bounded (mx : Nat) (ds : List Desc) : bounded (Receiver.new mx ds) := by
  intro c hc
  simp [Receiver.new, RChan.new] at hc
  obtain ⟨d, _, rfl⟩ := hc
  simp

/-- a stopped receive loop ignores everything -/
theorem recvAll_stopped (fs : List Frame) (r : Receiver) (h : r.stopped.isSome) :
    recvAll r fs = (r, []) := by
  induction fs with
  | nil => simp [recvAll]
  | cons f fs ih =>
    rw [recvAll_cons]
    have : recvFrame r f = (r, .closed) := by simp [recvFrame, h]
    rw [this]
    simp [ih]


/-! ### sender -/

/-- the packets channel `c` still owes the wire: the rest of the message in progress, then the
queued messages -/
def rest (mx : Nat) (c : SChan) : List (Bool × Bytes) :=
  (match c.sending with
    | none => []
    | some b => packetize mx b) ++ c.queue.flatMap (packetize mx)

/-- operations on the sending side: `TrySend` by any goroutine, one `sendPacketMsg` of the send
routine with an arbitrary pick -/
inductive SOp
  | send (ch : Nat) (m : Bytes)
  | step (pick : Nat)
deriving Repr

/-- what an observer records: packets put on the wire, messages accepted for sending -/
structure Trace where
  wire : List PacketMsg := []
  acc : List (Nat × Bytes) := []
deriving Repr

def runOp (s : Sender) (t : Trace) : SOp → Sender × Trace
  | .send ch m =>
    ((trySend s ch m).1, if (trySend s ch m).2 then { t with acc := t.acc ++ [(ch, m)] } else t)
  | .step pick =>
    ((sendPacketMsg s pick).1,
      match (sendPacketMsg s pick).2 with
      | some p => { t with wire := t.wire ++ [p] }
      | none => t)

def runOps : Sender → Trace → List SOp → Sender × Trace
  | s, t, [] => (s, t)
  | s, t, op :: ops => runOps (runOp s t op).1 (runOp s t op).2 ops

/-- per channel: wire so far ++ what is still owed = packetisation of the accepted messages -/
def SInv (s : Sender) (t : Trace) : Prop :=
  (s.chans.map (·.id)).Nodup ∧
  ∀ c ∈ s.chans, proj c.id t.wire ++ rest s.maxSize c =
    (delivered c.id t.acc).flatMap (packetize s.maxSize)

theorem eq_of_id (l : List SChan) (hn : (l.map (·.id)).Nodup) :
    ∀ x ∈ l, ∀ y ∈ l, x.id = y.id → x = y := by
  induction l with
  | nil => intro x hx; cases hx
  | cons a as ih =>
    simp only [List.map_cons, List.nodup_cons, List.mem_map, not_exists, not_and] at hn
    intro x hx y hy hxy
    simp only [List.mem_cons] at hx hy
    rcases hx with rfl | hx <;> rcases hy with rfl | hy
    · rfl
    · exact absurd hxy.symm (hn.1 y hy)
    · exact absurd hxy (hn.1 x hx)
    · exact ih hn.2 x hx y hy hxy

theorem isSendPending_props (mx : Nat) (c : SChan) :
    (isSendPending c).1.id = c.id ∧ rest mx (isSendPending c).1 = rest mx c ∧
    ((isSendPending c).1.sending = none → rest mx c = []) := by
  unfold isSendPending
  cases hs : c.sending with
  | some b => simp [hs]
  | none =>
    cases hq : c.queue with
    | nil => simp [rest, hs, hq]
    | cons m q => simp [rest, hs, hq]

theorem nextPacketMsg_props (mx : Nat) (hmx : 0 < mx) (c : SChan) (b : Bytes) (hb : c.sending = some b) :
    (nextPacketMsg mx c).1.id = c.id ∧ (nextPacketMsg mx c).2.chId = (c.id : Int) ∧
    rest mx c = ((nextPacketMsg mx c).2.eof, (nextPacketMsg mx c).2.data) :: rest mx (nextPacketMsg mx c).1 ∧
    (nextPacketMsg mx c).2.data.length ≤ mx := by
  unfold nextPacketMsg
  simp only [hb, Option.getD_some]
  split
  · rename_i hle
    have : min mx b.length = b.length := by omega
    simp [rest, hb, this, packetize_unfold mx hmx b, hle]
  · rename_i hgt
    have : min mx b.length = mx := by omega
    simp [rest, hb, this, packetize_unfold mx hmx b, hgt]


theorem delivered_append (id ch : Nat) (m : Bytes) (acc : List (Nat × Bytes)) :
    delivered id (acc ++ [(ch, m)]) = delivered id acc ++ (if ch = id then [m] else []) := by
  unfold delivered
  rw [List.filter_append, List.map_append]
  by_cases h : ch = id <;> simp [h]

theorem proj_append (id : Nat) (p : PacketMsg) (wire : List PacketMsg) :
    proj id (wire ++ [p]) = proj id wire ++ (if p.chId = (id : Int) then [(p.eof, p.data)] else []) := by
  unfold proj
  rw [List.filter_append, List.map_append]
  by_cases h : p.chId = (id : Int) <;> simp [h]

theorem ids_map_eq (l : List SChan) (f : SChan → SChan) (hf : ∀ x ∈ l, (f x).id = x.id) :
    (l.map f).map (·.id) = l.map (·.id) := by
  rw [List.map_map]
  apply List.map_congr_left
  intro x hx
  exact hf x hx

theorem trySend_inv (s : Sender) (t : Trace) (ch : Nat) (m : Bytes) (h : SInv s t) :
    SInv (runOp s t (.send ch m)).1 (runOp s t (.send ch m)).2 ∧
    (runOp s t (.send ch m)).1.maxSize = s.maxSize := by
  obtain ⟨hn, hinv⟩ := h
  simp only [runOp]
  unfold trySend
  cases hf : s.chans.find? (·.id = ch) with
  | none => simp only; exact ⟨⟨hn, by simpa using hinv⟩, trivial⟩
  | some c =>
    have hcm : c ∈ s.chans := List.mem_of_find?_eq_some hf
    have hcid : c.id = ch := by simpa using List.find?_some hf
    simp only
    unfold trySendBytes
    split
    · -- accepted
      rename_i hroom
      refine ⟨⟨?_, ?_⟩, trivial⟩
      · simp only
        rw [ids_map_eq]; exact hn
        intro x _; split <;> simp_all
      · intro x hx
        simp only [List.mem_map] at hx
        obtain ⟨y, hy, rfl⟩ := hx
        simp only [if_true]
        split
        · rename_i hyid
          have : y = c := eq_of_id _ hn y hy c hcm (by omega)
          subst this
          have := hinv y hy
          subst hcid
          simp only [delivered_append, if_true, List.flatMap_append, ← this]
          simp [rest, List.flatMap_append, List.append_assoc]
        · rename_i hyid
          have := hinv y hy
          have hne : ¬ ch = y.id := fun e => hyid e.symm
          simp only [delivered_append, hne, if_false, List.append_nil]
          exact this
    · -- queue full
      refine ⟨⟨?_, ?_⟩, trivial⟩
      · simp only
        rw [ids_map_eq]; exact hn
        intro x _; split <;> simp_all
      · intro x hx
        simp only [List.mem_map] at hx
        obtain ⟨y, hy, rfl⟩ := hx
        simp only [Bool.false_eq_true, if_false]
        split
        · rename_i hyid
          have : y = c := eq_of_id _ hn y hy c hcm (by omega)
          subst this
          exact hinv y hy
        · exact hinv y hy


theorem pending_inv (s : Sender) (t : Trace) (h : SInv s t) :
    SInv { s with chans := s.chans.map fun c => (isSendPending c).1 } t := by
  obtain ⟨hn, hinv⟩ := h
  refine ⟨?_, ?_⟩
  · simp only
    rw [ids_map_eq]; exact hn
    intro x _; exact (isSendPending_props s.maxSize x).1
  · intro x hx
    simp only [List.mem_map] at hx
    obtain ⟨y, hy, rfl⟩ := hx
    obtain ⟨h1, h2, _⟩ := isSendPending_props s.maxSize y
    simp only [h1, h2]
    exact hinv y hy

/-- `sendPacketMsg` in terms of the state after the `isSendPending` pass -/
theorem sendPacketMsg_inv (s : Sender) (t : Trace) (pick : Nat) (hmx : 0 < s.maxSize) (h : SInv s t) :
    SInv (runOp s t (.step pick)).1 (runOp s t (.step pick)).2 ∧
    (runOp s t (.step pick)).1.maxSize = s.maxSize := by
  have h1 := pending_inv s t h
  simp only [runOp]
  unfold sendPacketMsg
  simp only
  generalize hcs : (s.chans.map fun c => (isSendPending c).1) = cs at *
  cases hp : cs.filter (·.sending.isSome) with
  | nil => exact ⟨h1, rfl⟩
  | cons c0 pend' =>
    simp only
    generalize hid : (if (c0 :: pend').any (·.id = pick) then pick else c0.id) = id
    cases hf : cs.find? (·.id = id) with
    | none => exact ⟨h1, rfl⟩
    | some c =>
      obtain ⟨hn, hinv⟩ := h1
      simp only at hn hinv
      have hcm : c ∈ cs := List.mem_of_find?_eq_some hf
      have hcid : c.id = id := by simpa using List.find?_some hf
      -- some pending channel has this id, hence it is `c`
      have hex : ∃ y ∈ cs, y.sending.isSome ∧ y.id = id := by
        have hmem : ∀ y ∈ (c0 :: pend'), y ∈ cs ∧ y.sending.isSome := by
          intro y hy
          rw [← hp] at hy
          simpa [List.mem_filter] using hy
        by_cases ha : (c0 :: pend').any (·.id = pick) = true
        · rw [if_pos ha] at hid
          obtain ⟨y, hy, hyp⟩ := List.any_eq_true.mp ha
          exact ⟨y, (hmem y hy).1, (hmem y hy).2, by rw [← hid]; simpa using hyp⟩
        · rw [if_neg ha] at hid
          exact ⟨c0, (hmem c0 (by simp)).1, (hmem c0 (by simp)).2, hid⟩
      obtain ⟨y, hy, hys, hyid⟩ := hex
      have hyc : y = c := eq_of_id _ hn y hy c hcm (by omega)
      subst hyc
      obtain ⟨b, hb⟩ := Option.isSome_iff_exists.mp hys
      obtain ⟨n1, n2, n3, _⟩ := nextPacketMsg_props s.maxSize hmx y b hb
      simp only
      refine ⟨⟨?_, ?_⟩, trivial⟩
      · simp only
        rw [ids_map_eq]; exact hn
        intro x _; split
        · rename_i hx; rw [n1]; omega
        · rfl
      · intro x hx
        simp only [List.mem_map] at hx
        obtain ⟨z, hz, rfl⟩ := hx
        simp only
        split
        · rename_i hzid
          have : z = y := eq_of_id _ hn z hz y hcm (by omega)
          subst this
          have := hinv z hz
          rw [n3] at this
          rw [n1, proj_append, if_pos n2, List.append_assoc]
          simpa using this
        · rename_i hzid
          have hne : ¬ (nextPacketMsg s.maxSize y).2.chId = (z.id : Int) := by
            rw [n2]; omega
          rw [proj_append, if_neg hne, List.append_nil]
          exact hinv z hz


/-! ### packet sizes -/

theorem varintLenF_mono : ∀ (f a b : Nat), a ≤ b → varintLenF f a ≤ varintLenF f b := by
  intro f
  induction f with
  | zero => intro a b _; simp [varintLenF]
  | succ n ih =>
    intro a b hab
    simp only [varintLenF]
    by_cases ha : a < 128
    · simp only [ha, if_true]
      split <;> omega
    · have hb : ¬ b < 128 := by omega
      simp only [ha, hb, if_false]
      have := ih (a / 128) (b / 128) (Nat.div_le_div_right hab)
      omega

theorem varintLen_mono (a b : Nat) (h : a ≤ b) : varintLen a ≤ varintLen b :=
  varintLenF_mono 10 a b h

theorem varintLen_byte (ch : Nat) (h : ch ≤ 255) : varintLen ch ≤ 2 := by
  unfold varintLen
  simp only [varintLenF]
  split
  · omega
  · split <;> omega

theorem varintLen_255 : varintLen 255 = 2 := by decide

/-- every packet the sender can build (channel id a byte, at most `mx` data bytes) fits the
receiver's frame limit -/
theorem packetSize_le (ch : Nat) (eof : Bool) (n mx : Nat) (hch : ch ≤ 255) (hn : n ≤ mx) :
    packetSize ch eof n ≤ maxPacketMsgSize mx := by
  unfold maxPacketMsgSize packetSize
  simp only [varintLen_255]
  have h1 : (if ch = 0 then 0 else 1 + varintLen ch) ≤ 3 := by
    split
    · omega
    · have := varintLen_byte ch hch; omega
  have h2 : (if eof = true then 2 else 0) ≤ 2 := by split <;> omega
  have h3 : (if n = 0 then 0 else 1 + varintLen n + n) ≤ (if mx = 0 then 0 else 1 + varintLen mx + mx) := by
    have := varintLen_mono n mx hn
    split <;> split <;> omega
  have key : ∀ A B, A ≤ B → 1 + varintLen A + A ≤ 1 + varintLen B + B := fun A B h => by
    have := varintLen_mono A B h; omega
  apply key
  have e1 : (if (255 : Nat) = 0 then 0 else 1 + 2) = 3 := by decide
  rw [e1, if_pos trivial]
  omega


/-! ### runs of the sender -/

/-- wire facts: channel ids are stable, every packet carries at most `maxSize` bytes and the id of
one of the connection's channels -/
def WInv (ids : List Nat) (s : Sender) (t : Trace) : Prop :=
  s.chans.map (·.id) = ids ∧
  ∀ p ∈ t.wire, p.data.length ≤ s.maxSize ∧ ∃ i ∈ ids, p.chId = (i : Int)

theorem nextPacketMsg_gen (mx : Nat) (c : SChan) :
    (nextPacketMsg mx c).2.chId = (c.id : Int) ∧ (nextPacketMsg mx c).2.data.length ≤ mx ∧
    (nextPacketMsg mx c).1.id = c.id := by
  unfold nextPacketMsg
  simp only
  split <;> simp [List.length_take] <;> omega

theorem runOp_winv (ids : List Nat) (s : Sender) (t : Trace) (op : SOp) (h : WInv ids s t) :
    WInv ids (runOp s t op).1 (runOp s t op).2 := by
  obtain ⟨hids, hw⟩ := h
  cases op with
  | send ch m =>
    simp only [runOp]
    have hch : (trySend s ch m).1.chans.map (·.id) = ids ∧ (trySend s ch m).1.maxSize = s.maxSize := by
      unfold trySend
      cases hf : s.chans.find? (·.id = ch) with
      | none => exact ⟨hids, rfl⟩
      | some c =>
        have hcid : c.id = ch := by simpa using List.find?_some hf
        simp only
        refine ⟨?_, trivial⟩
        rw [ids_map_eq]; exact hids
        intro x _
        unfold trySendBytes
        split
        · split <;> simp_all
        · rfl
    refine ⟨hch.1, ?_⟩
    rw [hch.2]
    split <;> exact hw
  | step pick =>
    simp only [runOp]
    unfold sendPacketMsg
    simp only
    have hcs : (s.chans.map fun c => (isSendPending c).1).map (·.id) = ids := by
      rw [ids_map_eq]; exact hids
      intro x _; exact (isSendPending_props s.maxSize x).1
    generalize (s.chans.map fun c => (isSendPending c).1) = cs at *
    cases hp : cs.filter (·.sending.isSome) with
    | nil => exact ⟨hcs, hw⟩
    | cons c0 pend' =>
      simp only
      generalize (if (c0 :: pend').any (·.id = pick) then pick else c0.id) = id
      cases hf : cs.find? (·.id = id) with
      | none => exact ⟨hcs, hw⟩
      | some c =>
        have hcm : c ∈ cs := List.mem_of_find?_eq_some hf
        have hcid : c.id = id := by simpa using List.find?_some hf
        obtain ⟨g1, g2, g3⟩ := nextPacketMsg_gen s.maxSize c
        simp only
        refine ⟨?_, ?_⟩
        · rw [ids_map_eq]; exact hcs
          intro x _; split
          · rename_i hx; rw [g3]; omega
          · rfl
        · intro p hp
          simp only [List.mem_append, List.mem_singleton] at hp
          rcases hp with hp | rfl
          · exact hw p hp
          · refine ⟨g2, c.id, ?_, g1⟩
            rw [← hcs]
            exact List.mem_map.mpr ⟨c, hcm, rfl⟩

theorem runOps_inv (ids : List Nat) (ops : List SOp) :
    ∀ (s : Sender) (t : Trace), 0 < s.maxSize → SInv s t → WInv ids s t →
      SInv (runOps s t ops).1 (runOps s t ops).2 ∧ WInv ids (runOps s t ops).1 (runOps s t ops).2 ∧
      (runOps s t ops).1.maxSize = s.maxSize := by
  induction ops with
  | nil => intro s t _ h1 h2; exact ⟨h1, h2, rfl⟩
  | cons op ops ih =>
    intro s t hmx h1 h2
    simp only [runOps]
    have hstep : SInv (runOp s t op).1 (runOp s t op).2 ∧ (runOp s t op).1.maxSize = s.maxSize := by
      cases op with
      | send ch m => exact trySend_inv s t ch m h1
      | step pick => exact sendPacketMsg_inv s t pick hmx h1
    obtain ⟨a, b, c⟩ := ih _ _ (by rw [hstep.2]; exact hmx) hstep.1 (runOp_winv ids s t op h2)
    exact ⟨a, b, by rw [c, hstep.2]⟩

theorem new_inv (mx : Nat) (ds : List Desc) (hnd : (ds.map (·.id)).Nodup) :
    SInv (Sender.new mx ds) {} ∧ WInv (ds.map (·.id)) (Sender.new mx ds) {} := by
  have hids : (Sender.new mx ds).chans.map (·.id) = ds.map (·.id) := by
    simp [Sender.new, SChan.new, List.map_map, Function.comp_def]
  refine ⟨⟨by rw [hids]; exact hnd, ?_⟩, hids, by simp⟩
  intro c hc
  simp [Sender.new, SChan.new] at hc
  obtain ⟨d, _, rfl⟩ := hc
  simp [proj, rest, delivered]

/-- the sender owes the wire nothing -/
def idle (s : Sender) : Prop := ∀ c ∈ s.chans, rest s.maxSize c = []


/-- when `sendPacketMsg` finds nothing to send the sender owes nothing -/
theorem none_imp_idle (s : Sender) (pick : Nat) (hn : (s.chans.map (·.id)).Nodup)
    (h : (sendPacketMsg s pick).2 = none) : idle s := by
  unfold sendPacketMsg at h
  simp only at h
  generalize hcs : (s.chans.map fun c => (isSendPending c).1) = cs at *
  cases hp : cs.filter (·.sending.isSome) with
  | nil =>
    intro c hc
    have hmem : (isSendPending c).1 ∈ cs := by rw [← hcs]; exact List.mem_map.mpr ⟨c, hc, rfl⟩
    have : ¬ ((isSendPending c).1.sending.isSome = true) := by
      intro hs
      have : (isSendPending c).1 ∈ cs.filter (·.sending.isSome) := List.mem_filter.mpr ⟨hmem, hs⟩
      rw [hp] at this; cases this
    have hnone : (isSendPending c).1.sending = none := by
      cases hh : (isSendPending c).1.sending with
      | none => rfl
      | some b => rw [hh] at this; simp at this
    exact (isSendPending_props s.maxSize c).2.2 hnone
  | cons c0 pend' =>
    rw [hp] at h
    simp only at h
    generalize hid : (if (c0 :: pend').any (·.id = pick) then pick else c0.id) = id at h
    cases hf : cs.find? (·.id = id) with
    | some c => rw [hf] at h; simp at h
    | none =>
      exfalso
      have hmem : ∀ y ∈ (c0 :: pend'), y ∈ cs := by
        intro y hy
        rw [← hp] at hy
        exact (List.mem_filter.mp hy).1
      have hex : ∃ y ∈ cs, y.id = id := by
        by_cases ha : (c0 :: pend').any (·.id = pick) = true
        · rw [if_pos ha] at hid
          obtain ⟨y, hy, hyp⟩ := List.any_eq_true.mp ha
          exact ⟨y, hmem y hy, by rw [← hid]; simpa using hyp⟩
        · rw [if_neg ha] at hid
          exact ⟨c0, hmem c0 (by simp), hid⟩
      obtain ⟨y, hy, hyid⟩ := hex
      have := List.find?_eq_none.mp hf y hy
      simp [hyid] at this

/-- sender and receiver joined: whatever the interleaving of `TrySend` calls and `sendPacketMsg`
picks, once the sender owes nothing, the receive loop fed with the emitted packets has delivered,
per channel, exactly the accepted messages in order -/
theorem end_to_end (mx : Nat) (hmx : 0 < mx) (ds : List Desc) (hnd : (ds.map (·.id)).Nodup)
    (hbyte : ∀ d ∈ ds, d.id ≤ 255) (ops : List SOp)
    (hidle : idle (runOps (Sender.new mx ds) {} ops).1)
    (hcap : ∀ d ∈ ds, ∀ m ∈ delivered d.id (runOps (Sender.new mx ds) {} ops).2.acc,
      m.length ≤ d.fillDefaults.recvMessageCapacity) :
    (recvAll (Receiver.new mx ds) (msgFrames (fun p => packetSize p.chId.toNat p.eof p.data.length)
        (runOps (Sender.new mx ds) {} ops).2.wire)).1.stopped = none ∧
    ∀ d ∈ ds,
      delivered d.id (recvAll (Receiver.new mx ds) (msgFrames (fun p => packetSize p.chId.toNat p.eof p.data.length)
        (runOps (Sender.new mx ds) {} ops).2.wire)).2 =
      delivered d.id (runOps (Sender.new mx ds) {} ops).2.acc := by
  obtain ⟨hs0, hw0⟩ := new_inv mx ds hnd
  obtain ⟨hS, hW, hM⟩ := runOps_inv (ds.map (·.id)) ops (Sender.new mx ds) {} hmx hs0 hw0
  generalize runOps (Sender.new mx ds) {} ops = st at *
  have hmax : st.1.maxSize = mx := hM
  -- per-channel projection of the wire
  have hproj : ∀ d ∈ ds, proj d.id st.2.wire = (delivered d.id st.2.acc).flatMap (packetize mx) := by
    intro d hd
    have : d.id ∈ st.1.chans.map (·.id) := by rw [hW.1]; exact List.mem_map.mpr ⟨d, hd, rfl⟩
    obtain ⟨c, hc, hcid⟩ := List.mem_map.mp this
    have h1 := hS.2 c hc
    rw [hidle c hc, List.append_nil, hmax, hcid] at h1
    exact h1
  -- lookups in the fresh receiver
  have hlook : ∀ id c, (Receiver.new mx ds).chans.find? (·.id = id) = some c →
      ∃ d ∈ ds, d.id = id ∧ c.recving = [] ∧ c.cap = d.fillDefaults.recvMessageCapacity := by
    intro id c hc
    have hm := List.mem_of_find?_eq_some hc
    have hi : c.id = id := by simpa using List.find?_some hc
    simp only [Receiver.new, List.mem_map] at hm
    obtain ⟨d, hd, rfl⟩ := hm
    exact ⟨d, hd, hi, rfl, rfl⟩
  have hsome : ∀ d ∈ ds, ((Receiver.new mx ds).chans.find? (·.id = d.id)).isSome := by
    intro d hd
    rw [List.find?_isSome]
    exact ⟨RChan.new d, by simp only [Receiver.new]; exact List.mem_map.mpr ⟨d, hd, rfl⟩, by simp [RChan.new]⟩
  have hspec := recvAll_spec (fun p => packetSize p.chId.toNat p.eof p.data.length) st.2.wire
    (Receiver.new mx ds) rfl
    (by
      intro p hp
      obtain ⟨hlen, i, hi, hpi⟩ := hW.2 p hp
      obtain ⟨d, hd, rfl⟩ := List.mem_map.mp hi
      have hb := hbyte d hd
      refine ⟨?_, by omega, by omega, ?_⟩
      · show _ ≤ maxPacketMsgSize mx
        apply packetSize_le
        · rw [hpi]; simpa using hb
        · rw [hmax] at hlen; exact hlen
      · rw [hpi]; simpa using hsome d hd)
    (by
      intro id c hc
      obtain ⟨d, hd, rfl, hr, hcp⟩ := hlook id c hc
      rw [hr, hcp, hproj d hd]
      exact fits_flatMap_packetize mx _ hmx _ (hcap d hd))
  refine ⟨hspec.1, ?_⟩
  intro d hd
  obtain ⟨c, hc⟩ := Option.isSome_iff_exists.mp (hsome d hd)
  obtain ⟨d', hd', hid', hr, _⟩ := hlook d.id c hc
  have := (hspec.2 d.id c hc).1
  rw [this, hr, hproj d hd, reasm_flatMap_packetize mx hmx]


/-! ### fairness of the send routine -/

/-- a pending channel that is picked is served: `sendPacketMsg` with `pick = c.id` emits a packet
of channel `c` whenever `c` still owes the wire something -/
theorem step_pick_serves (s : Sender) (t : Trace) (h : SInv s t) (c : SChan) (hc : c ∈ s.chans)
    (hne : rest s.maxSize c ≠ []) :
    ∃ p, (sendPacketMsg s c.id).2 = some p ∧ p.chId = (c.id : Int) := by
  have h1 := pending_inv s t h
  obtain ⟨hn, _⟩ := h1
  simp only at hn
  unfold sendPacketMsg
  simp only
  generalize hcs : (s.chans.map fun c => (isSendPending c).1) = cs at *
  -- the image of c after the isSendPending pass is pending
  have hc' : (isSendPending c).1 ∈ cs := by rw [← hcs]; exact List.mem_map.mpr ⟨c, hc, rfl⟩
  obtain ⟨hid, _, hnone⟩ := isSendPending_props s.maxSize c
  have hsome : (isSendPending c).1.sending.isSome = true := by
    cases hh : (isSendPending c).1.sending with
    | some b => rfl
    | none => exact absurd (hnone hh) hne
  have hpend : (isSendPending c).1 ∈ cs.filter (·.sending.isSome) := List.mem_filter.mpr ⟨hc', hsome⟩
  cases hp : cs.filter (·.sending.isSome) with
  | nil => rw [hp] at hpend; cases hpend
  | cons c0 pend' =>
    simp only
    have hany : (c0 :: pend').any (·.id = c.id) = true := by
      rw [← hp]
      exact List.any_eq_true.mpr ⟨_, hpend, by simp [hid]⟩
    rw [if_pos hany]
    have hf : cs.find? (·.id = c.id) = some (isSendPending c).1 := by
      cases hfind : cs.find? (·.id = c.id) with
      | none =>
        have := List.find?_eq_none.mp hfind _ hc'
        simp [hid] at this
      | some y =>
        have hym := List.mem_of_find?_eq_some hfind
        have hyid : y.id = c.id := by simpa using List.find?_some hfind
        rw [eq_of_id cs hn y hym _ hc' (by omega)]
    rw [hf]
    simp only
    obtain ⟨g1, _, _⟩ := nextPacketMsg_gen s.maxSize (isSendPending c).1
    exact ⟨_, rfl, by rw [g1, hid]⟩


/-- how often the send routine's choice falls on channel `id` in an op sequence -/
def picksOf (id : Nat) : List SOp → Nat
  | [] => 0
  | .step p :: ops => (if p = id then 1 else 0) + picksOf id ops
  | .send _ _ :: ops => picksOf id ops

theorem prefix_of_append {α : Type} (a b L m : List α) (h : a ++ b = L ++ m) (hl : L.length ≤ a.length) :
    ∃ e, a = L ++ e := by
  rcases List.append_eq_append_iff.mp h with ⟨a', h1, _⟩ | ⟨c', h1, _⟩
  · have : a'.length = 0 := by
      have := congrArg List.length h1; simp at this; omega
    have : a' = [] := List.eq_nil_of_length_eq_zero this
    subst this
    exact ⟨[], by simpa using h1.symm⟩
  · exact ⟨c', h1⟩

/-- one op only appends to the wire and to the accepted log -/
theorem runOp_extends (s : Sender) (t : Trace) (op : SOp) (id : Nat) :
    (∃ ew, proj id (runOp s t op).2.wire = proj id t.wire ++ ew) ∧
    (∃ ea, delivered id (runOp s t op).2.acc = delivered id t.acc ++ ea) := by
  cases op with
  | send ch m =>
    simp only [runOp]
    split
    · exact ⟨⟨[], by simp⟩, ⟨_, delivered_append id ch m t.acc⟩⟩
    · exact ⟨⟨[], by simp⟩, ⟨[], by simp⟩⟩
  | step pick =>
    simp only [runOp]
    split
    · rename_i p _
      exact ⟨⟨_, proj_append id p t.wire⟩, ⟨[], by simp⟩⟩
    · exact ⟨⟨[], by simp⟩, ⟨[], by simp⟩⟩

theorem fair_core (ids : List Nat) (id : Nat) (L : List (Bool × Bytes)) (mx : Nat) (hmx : 0 < mx) :
    ∀ (ops : List SOp) (s : Sender) (t : Trace), s.maxSize = mx → SInv s t → WInv ids s t → id ∈ ids →
      (∃ more, (delivered id t.acc).flatMap (packetize mx) = L ++ more) →
      L.length ≤ (proj id t.wire).length + picksOf id ops →
      L.length ≤ (proj id (runOps s t ops).2.wire).length ∧
      (∃ more, (delivered id (runOps s t ops).2.acc).flatMap (packetize mx) = L ++ more) ∧
      SInv (runOps s t ops).1 (runOps s t ops).2 ∧ (runOps s t ops).1.maxSize = mx ∧
      WInv ids (runOps s t ops).1 (runOps s t ops).2 := by
  intro ops
  induction ops with
  | nil =>
    intro s t hm hS hW _ hacc hlen
    simp only [picksOf, Nat.add_zero] at hlen
    exact ⟨hlen, hacc, hS, hm, hW⟩
  | cons op ops ih =>
    intro s t hm hS hW hid hacc hlen
    simp only [runOps]
    have hstep : SInv (runOp s t op).1 (runOp s t op).2 ∧ (runOp s t op).1.maxSize = s.maxSize := by
      cases op with
      | send ch m => exact trySend_inv s t ch m hS
      | step pick => exact sendPacketMsg_inv s t pick (by omega) hS
    have hW' := runOp_winv ids s t op hW
    obtain ⟨⟨ew, hew⟩, ⟨ea, hea⟩⟩ := runOp_extends s t op id
    obtain ⟨more, hmore⟩ := hacc
    have hacc' : ∃ more', (delivered id (runOp s t op).2.acc).flatMap (packetize mx) = L ++ more' :=
      ⟨more ++ ea.flatMap (packetize mx), by rw [hea, List.flatMap_append, hmore, List.append_assoc]⟩
    apply ih _ _ (by rw [hstep.2, hm]) hstep.1 hW' hid hacc'
    -- the length bookkeeping
    cases op with
    | send ch m =>
      simp only [picksOf] at hlen
      rw [hew, List.length_append]; omega
    | step pick =>
      simp only [picksOf] at hlen
      by_cases hp : pick = id
      · subst hp
        simp only [if_true] at hlen
        by_cases hdone : L.length ≤ (proj pick t.wire).length
        · rw [hew, List.length_append]; omega
        · -- the channel still owes part of L: it is served
          have hin : pick ∈ s.chans.map (·.id) := by rw [hW.1]; exact hid
          obtain ⟨c, hc, hcid⟩ := List.mem_map.mp hin
          have hinv := hS.2 c hc
          rw [hcid, hm, hmore] at hinv
          have hne : rest s.maxSize c ≠ [] := by
            intro hnil
            rw [hm] at hnil
            rw [hnil, List.append_nil] at hinv
            have := congrArg List.length hinv
            simp at this; omega
          obtain ⟨p, hp1, hp2⟩ := step_pick_serves s t hS c hc hne
          rw [hcid] at hp1 hp2
          have : proj pick (runOp s t (.step pick)).2.wire = proj pick t.wire ++ [(p.eof, p.data)] := by
            simp only [runOp, hp1]
            rw [proj_append, if_pos hp2]
          rw [this, List.length_append]; simp; omega
      · simp only [hp, if_false, Nat.zero_add] at hlen
        rw [hew, List.length_append]; omega


/-- every message accepted on channel `c` before `ops2` is completely on the wire after `ops2`,
provided the send routine's choice falls on `c` at least as often as `c` owed packets -/
theorem fair_pick_transmits_lemma (mx : Nat) (hmx : 0 < mx) (ds : List Desc) (hnd : (ds.map (·.id)).Nodup)
    (ops1 ops2 : List SOp) (c : SChan)
    (hc : c ∈ (runOps (Sender.new mx ds) {} ops1).1.chans)
    (hfair : (rest mx c).length ≤ picksOf c.id ops2) :
    ∃ extra, proj c.id (runOps (runOps (Sender.new mx ds) {} ops1).1 (runOps (Sender.new mx ds) {} ops1).2 ops2).2.wire =
      (delivered c.id (runOps (Sender.new mx ds) {} ops1).2.acc).flatMap (packetize mx) ++ extra := by
  obtain ⟨hs0, hw0⟩ := new_inv mx ds hnd
  obtain ⟨hS, hW, hM⟩ := runOps_inv (ds.map (·.id)) ops1 (Sender.new mx ds) {} hmx hs0 hw0
  generalize runOps (Sender.new mx ds) {} ops1 = st1 at *
  have hm : st1.1.maxSize = mx := hM
  have hinv := hS.2 c hc
  rw [hm] at hinv
  have hid : c.id ∈ ds.map (·.id) := by rw [← hW.1]; exact List.mem_map.mpr ⟨c, hc, rfl⟩
  have hlen : ((delivered c.id st1.2.acc).flatMap (packetize mx)).length ≤
      (proj c.id st1.2.wire).length + picksOf c.id ops2 := by
    rw [← hinv, List.length_append]; omega
  obtain ⟨h1, ⟨more, h2⟩, h3, h4, h5⟩ := fair_core (ds.map (·.id)) c.id _ mx hmx ops2 st1.1 st1.2 hm hS hW hid
    ⟨[], by simp⟩ hlen
  generalize runOps st1.1 st1.2 ops2 = st2 at *
  have hin : c.id ∈ st2.1.chans.map (·.id) := by rw [h5.1]; exact hid
  obtain ⟨c2, hc2, hc2id⟩ := List.mem_map.mp hin
  have hinv2 := h3.2 c2 hc2
  rw [hc2id, h4, h2] at hinv2
  exact prefix_of_append _ _ _ _ hinv2 h1

/-! ### peer level -/

/-- what a switch's reactor sees: every arriving `(peer, bytes)` decoded by a function of THOSE
bytes (a fresh message object per delivery) -/
def hubDeliver {α : Type} (decode : Bytes → α) (arrivals : List (Nat × Bytes)) : List (Nat × α) :=
  arrivals.map fun a => (a.1, decode a.2)

/-! ### the least-ratio choice -/

theorem frac_step (a p b q c r : Nat) (hp : 0 < p) (hq : 0 < q)
    (h1 : b * p ≤ a * q) (h2 : c * q < b * r) : c * p < a * r := by
  have e1 : c * q * p < b * r * p := (Nat.mul_lt_mul_right hp).mpr h2
  have e2 : b * p * r ≤ a * q * r := Nat.mul_le_mul_right r h1
  have e3 : c * p * q < a * r * q := by
    have : c * p * q = c * q * p := by rw [Nat.mul_right_comm]
    have : b * r * p = b * p * r := by rw [Nat.mul_right_comm]
    have : a * q * r = a * r * q := by rw [Nat.mul_right_comm]
    omega
  exact (Nat.mul_lt_mul_right hq).mp e3

/-- what `pickLeast` returns is a pending channel that no pending channel beats strictly -/
theorem pickLeast_spec :
    ∀ (l : List PCh) (init : Option PCh) (seen : List PCh),
      (∀ x ∈ l, 0 < x.prio) → (∀ x ∈ seen, 0 < x.prio) →
      (∀ b, init = some b → b ∈ seen ∧ ∀ x ∈ seen, ¬ better x b = true) →
      (init = none → seen = []) →
      ∀ d, l.foldl (fun best ch =>
          match best with
          | none => some ch
          | some b => if better ch b then some ch else some b) init = some d →
        d ∈ seen ++ l ∧ ∀ x ∈ seen ++ l, ¬ better x d = true := by
  intro l
  induction l with
  | nil =>
    intro init seen _ _ hinv _ d hd
    simp only [List.foldl_nil] at hd
    simpa using hinv d hd
  | cons ch l ih =>
    intro init seen hl hs hinv hnone d hd
    simp only [List.foldl_cons] at hd
    have hch : 0 < ch.prio := hl ch (by simp)
    have hl' : ∀ x ∈ l, 0 < x.prio := fun x hx => hl x (by simp [hx])
    have hs' : ∀ x ∈ seen ++ [ch], 0 < x.prio := by
      intro x hx
      rcases List.mem_append.mp hx with h | h
      · exact hs x h
      · simp at h; subst h; exact hch
    have irr : ¬ better ch ch = true := by simp [better]
    cases init with
    | none =>
      have hse := hnone rfl
      subst hse
      have := ih (some ch) [ch] hl' (by simpa using hch)
        (by intro b hb; cases hb; exact ⟨by simp, by intro x hx; simp at hx; subst hx; exact irr⟩)
        (by intro h; cases h) d hd
      simpa using this
    | some b =>
      obtain ⟨hbm, hbmin⟩ := hinv b rfl
      have hbp : 0 < b.prio := hs b hbm
      by_cases hb : better ch b = true
      · simp only [hb, if_true] at hd
        have := ih (some ch) (seen ++ [ch]) hl' hs'
          (by
            intro b' hb'; cases hb'
            refine ⟨by simp, ?_⟩
            intro x hx
            rcases List.mem_append.mp hx with h | h
            · have hxb := hbmin x h
              have hxp := hs x h
              simp only [better, decide_eq_true_eq, Nat.not_lt] at hxb hb ⊢
              exact Nat.le_of_lt (frac_step x.recentlySent x.prio b.recentlySent b.prio ch.recentlySent ch.prio hxp hbp hxb hb)
            · simp at h; subst h; exact irr)
          (by intro h; cases h) d hd
        simpa [List.append_assoc] using this
      · simp only [hb, if_false] at hd
        have := ih (some b) (seen ++ [ch]) hl' hs'
          (by
            intro b' hb'; cases hb'
            refine ⟨by simp [hbm], ?_⟩
            intro x hx
            rcases List.mem_append.mp hx with h | h
            · exact hbmin x h
            · simp at h; subst h; exact hb)
          (by intro h; cases h) d hd
        simpa [List.append_assoc] using this


/-- how many more times channel `x` can be chosen before `c`: `x` is chosen ahead of `c` only while
`ratio_x ≤ ratio_c`, i.e. `x.recentlySent ≤ c.recentlySent * x.prio / c.prio`, and every choice
adds at least one byte to `x.recentlySent` -/
def owe (c x : PCh) : Nat :=
  if x.id = c.id then 0 else c.recentlySent * x.prio / c.prio + 1 - x.recentlySent

/-- bound on the number of send steps a pending channel `c` can be passed over -/
def waitBound (c : PCh) (chans : List PCh) : Nat := (chans.map (owe c)).sum

/-- the channels chosen by a run of send steps -/
def picks : List PCh → List ((Nat → Bool) × Nat) → List (Option Nat)
  | _, [] => []
  | chans, s :: rest => (schedStep chans s.1 s.2).2 :: picks (schedStep chans s.1 s.2).1 rest

theorem sum_map_lt {α : Type} (f g : α → Nat) : ∀ (l : List α), (∀ x ∈ l, g x ≤ f x) →
    (∃ d ∈ l, g d + 1 ≤ f d) → (l.map g).sum + 1 ≤ (l.map f).sum := by
  intro l
  induction l with
  | nil => intro _ h; obtain ⟨d, hd, _⟩ := h; cases hd
  | cons a as ih =>
    intro hle hex
    simp only [List.map_cons, List.sum_cons]
    have ha := hle a (by simp)
    have hrest : ∀ x ∈ as, g x ≤ f x := fun x hx => hle x (by simp [hx])
    have hsum : (as.map g).sum ≤ (as.map f).sum := by
      clear ih hex
      induction as with
      | nil => simp
      | cons b bs ihb =>
        simp only [List.map_cons, List.sum_cons]
        have := hrest b (by simp)
        have := ihb (fun x hx => hle x (by simp at hx ⊢; rcases hx with h | h <;> simp [h]))
          (fun x hx => hrest x (by simp [hx]))
        omega
    obtain ⟨d, hd, hlt⟩ := hex
    rcases List.mem_cons.mp hd with h | h
    · subst h; omega
    · have := ih hrest ⟨d, h, hlt⟩; omega

theorem pickLeast_spec' (l : List PCh) (hl : ∀ x ∈ l, 0 < x.prio) (d : PCh) (h : pickLeast l = some d) :
    d ∈ l ∧ ∀ x ∈ l, ¬ better x d = true := by
  have := pickLeast_spec l none [] hl (by simp) (by intro b hb; cases hb) (fun _ => rfl) d h
  simpa using this

theorem pickLeast_none (l : List PCh) (h : pickLeast l = none) : l = [] := by
  cases l with
  | nil => rfl
  | cons a as =>
    exfalso
    unfold pickLeast at h
    simp only [List.foldl_cons] at h
    -- once `some`, the fold stays `some`
    have key : ∀ (as : List PCh) (b : PCh), ∃ d, as.foldl (fun best ch =>
        match best with
        | none => some ch
        | some b => if better ch b then some ch else some b) (some b) = some d := by
      intro as
      induction as with
      | nil => intro b; exact ⟨b, rfl⟩
      | cons x xs ih =>
        intro b
        simp only [List.foldl_cons]
        split
        · exact ih x
        · exact ih b
    obtain ⟨d, hd⟩ := key as a
    exact absurd (hd.symm.trans h) (by simp)

/-- one send step that passes over the pending channel `c` lowers `waitBound` -/
theorem step_lowers_bound (chans : List PCh) (c : PCh) (hc : c ∈ chans) (hprio : ∀ x ∈ chans, 0 < x.prio)
    (pending : Nat → Bool) (n : Nat) (hp : pending c.id = true) (hn : 1 ≤ n) :
    (schedStep chans pending n).2 = some c.id ∨
    (waitBound c (schedStep chans pending n).1 + 1 ≤ waitBound c chans ∧
      c ∈ (schedStep chans pending n).1 ∧ (∀ x ∈ (schedStep chans pending n).1, 0 < x.prio)) := by
  unfold schedStep
  have hcf : c ∈ chans.filter fun x => pending x.id := List.mem_filter.mpr ⟨hc, hp⟩
  cases hpk : pickLeast (chans.filter fun x => pending x.id) with
  | none => rw [pickLeast_none _ hpk] at hcf; cases hcf
  | some d =>
    simp only
    by_cases hdc : d.id = c.id
    · left; rw [hdc]
    · right
      obtain ⟨hdm, hmin⟩ := pickLeast_spec' _ (fun x hx => hprio x (List.mem_filter.mp hx).1) d hpk
      have hdchans : d ∈ chans := (List.mem_filter.mp hdm).1
      have hcd := hmin c hcf
      simp only [better, decide_eq_true_eq, Nat.not_lt] at hcd
      have hcp := hprio c hc
      have hle : d.recentlySent ≤ c.recentlySent * d.prio / c.prio :=
        (Nat.le_div_iff_mul_le hcp).mpr hcd
      refine ⟨?_, ?_, ?_⟩
      · unfold waitBound creditSent
        rw [List.map_map]
        apply sum_map_lt
        · intro x _
          simp only [Function.comp]
          split
          · unfold owe; simp only; split <;> omega
          · exact Nat.le_refl _
        · refine ⟨d, hdchans, ?_⟩
          simp only [Function.comp, if_true]
          unfold owe
          simp only [hdc, if_false]
          omega
      · unfold creditSent
        refine List.mem_map.mpr ⟨c, hc, ?_⟩
        have : ¬ c.id = d.id := fun h => hdc h.symm
        simp [this]
      · intro x hx
        unfold creditSent at hx
        obtain ⟨y, hy, rfl⟩ := List.mem_map.mp hx
        split
        · exact hprio y hy
        · exact hprio y hy

/-- `sendPacketMsg`'s least-ratio rule is FAIR with a computable bound: a channel `c` that stays
pending is chosen within `waitBound c chans + 1` send steps, whatever the other channels have
pending and however large their packets are -/
theorem bounded_wait (c : PCh) : ∀ (steps : List ((Nat → Bool) × Nat)) (chans : List PCh),
    c ∈ chans → (∀ x ∈ chans, 0 < x.prio) → (∀ s ∈ steps, s.1 c.id = true ∧ 1 ≤ s.2) →
    some c.id ∉ picks chans steps → steps.length ≤ waitBound c chans := by
  intro steps
  induction steps with
  | nil => intro _ _ _ _ _; simp
  | cons s rest ih =>
    intro chans hc hprio hst hno
    simp only [picks, List.mem_cons, not_or] at hno
    obtain ⟨hp, hn⟩ := hst s (by simp)
    rcases step_lowers_bound chans c hc hprio s.1 s.2 hp hn with h | ⟨h1, h2, h3⟩
    · exact absurd h.symm hno.1
    · have := ih _ h2 h3 (fun t ht => hst t (by simp [ht])) hno.2
      simp only [List.length_cons]
      omega


/-! ### a prefix of the wire -/

theorem reasm_append : ∀ (xs ys : List (Bool × Bytes)) (buf : Bytes),
    reasm buf (xs ++ ys) =
      ((reasm buf xs).1 ++ (reasm (reasm buf xs).2 ys).1, (reasm (reasm buf xs).2 ys).2) := by
  intro xs
  induction xs with
  | nil => intro ys buf; simp [reasm]
  | cons x xs ih =>
    intro ys buf
    obtain ⟨eof, d⟩ := x
    cases eof
    · simp only [List.cons_append, reasm, Bool.false_eq_true, if_false]
      exact ih ys (buf ++ d)
    · simp only [List.cons_append, reasm, if_true]
      rw [ih ys []]

theorem fits_append_left (cap : Nat) : ∀ (xs ys : List (Bool × Bytes)) (buf : Bytes),
    fits cap buf (xs ++ ys) → fits cap buf xs := by
  intro xs
  induction xs with
  | nil => intro _ _ _; trivial
  | cons x xs ih =>
    intro ys buf h
    obtain ⟨eof, d⟩ := x
    simp only [List.cons_append, fits] at h ⊢
    exact ⟨h.1, ih ys _ h.2⟩

theorem proj_app (id : Nat) (a b : List PacketMsg) : proj id (a ++ b) = proj id a ++ proj id b := by
  simp [proj, List.filter_append, List.map_append]

/-- the receive loop fed with ANY PREFIX of what the sender put on the wire (the link may have
been cut anywhere) is still up and has delivered, per channel, a prefix of the accepted messages:
nothing altered, nothing out of order, nothing twice -/
theorem prefix_delivery (mx : Nat) (hmx : 0 < mx) (ds : List Desc) (hnd : (ds.map (·.id)).Nodup)
    (hbyte : ∀ d ∈ ds, d.id ≤ 255) (ops : List SOp) (got rest : List PacketMsg)
    (hpre : (runOps (Sender.new mx ds) {} ops).2.wire = got ++ rest)
    (hcap : ∀ d ∈ ds, ∀ m ∈ delivered d.id (runOps (Sender.new mx ds) {} ops).2.acc,
      m.length ≤ d.fillDefaults.recvMessageCapacity) :
    (recvAll (Receiver.new mx ds) (msgFrames (fun p => packetSize p.chId.toNat p.eof p.data.length) got)).1.stopped = none ∧
    ∀ d ∈ ds, ∃ more,
      delivered d.id (runOps (Sender.new mx ds) {} ops).2.acc =
        delivered d.id (recvAll (Receiver.new mx ds) (msgFrames (fun p => packetSize p.chId.toNat p.eof p.data.length) got)).2 ++ more := by
  obtain ⟨hs0, hw0⟩ := new_inv mx ds hnd
  obtain ⟨hS, hW, hM⟩ := runOps_inv (ds.map (·.id)) ops (Sender.new mx ds) {} hmx hs0 hw0
  generalize runOps (Sender.new mx ds) {} ops = st at *
  have hmax : st.1.maxSize = mx := hM
  -- per channel: the projection of `got` is the head of the packetisation of the accepted messages
  have hproj : ∀ d ∈ ds, ∃ tail, proj d.id got ++ tail = (delivered d.id st.2.acc).flatMap (packetize mx) := by
    intro d hd
    have : d.id ∈ st.1.chans.map (·.id) := by rw [hW.1]; exact List.mem_map.mpr ⟨d, hd, rfl⟩
    obtain ⟨c, hc, hcid⟩ := List.mem_map.mp this
    have h1 := hS.2 c hc
    rw [hmax, hcid, hpre, proj_app, List.append_assoc] at h1
    exact ⟨_, h1⟩
  have hlook : ∀ id c, (Receiver.new mx ds).chans.find? (·.id = id) = some c →
      ∃ d ∈ ds, d.id = id ∧ c.recving = [] ∧ c.cap = d.fillDefaults.recvMessageCapacity := by
    intro id c hc
    have hm := List.mem_of_find?_eq_some hc
    have hi : c.id = id := by simpa using List.find?_some hc
    simp only [Receiver.new, List.mem_map] at hm
    obtain ⟨d, hd, rfl⟩ := hm
    exact ⟨d, hd, hi, rfl, rfl⟩
  have hsome : ∀ d ∈ ds, ((Receiver.new mx ds).chans.find? (·.id = d.id)).isSome := by
    intro d hd
    rw [List.find?_isSome]
    exact ⟨RChan.new d, by simp only [Receiver.new]; exact List.mem_map.mpr ⟨d, hd, rfl⟩, by simp [RChan.new]⟩
  have hspec := recvAll_spec (fun p => packetSize p.chId.toNat p.eof p.data.length) got
    (Receiver.new mx ds) rfl
    (by
      intro p hp
      obtain ⟨hlen, i, hi, hpi⟩ := hW.2 p (by rw [hpre]; simp [hp])
      obtain ⟨d, hd, rfl⟩ := List.mem_map.mp hi
      have hb := hbyte d hd
      refine ⟨?_, by omega, by omega, ?_⟩
      · show _ ≤ maxPacketMsgSize mx
        apply packetSize_le
        · rw [hpi]; simpa using hb
        · rw [hmax] at hlen; exact hlen
      · rw [hpi]; simpa using hsome d hd)
    (by
      intro id c hc
      obtain ⟨d, hd, rfl, hr, hcp⟩ := hlook id c hc
      obtain ⟨tail, ht⟩ := hproj d hd
      rw [hr, hcp]
      apply fits_append_left _ _ tail
      rw [ht]
      exact fits_flatMap_packetize mx _ hmx _ (hcap d hd))
  refine ⟨hspec.1, ?_⟩
  intro d hd
  obtain ⟨c, hc⟩ := Option.isSome_iff_exists.mp (hsome d hd)
  obtain ⟨d', hd', hid', hr, _⟩ := hlook d.id c hc
  obtain ⟨tail, ht⟩ := hproj d hd
  have h1 := (hspec.2 d.id c hc).1
  rw [hr] at h1
  have h2 := reasm_flatMap_packetize mx hmx (delivered d.id st.2.acc)
  rw [← ht, reasm_append] at h2
  have h3 := congrArg Prod.fst h2
  simp only at h3
  exact ⟨_, by rw [h1]; exact h3.symm⟩

/-! ### frames in a byte stream -/

/-- what the composition needs of the frame codec (uvarint length prefix + protobuf in the code):
a frame followed by anything splits off exactly that frame; a strict prefix of a frame (the
stream was cut inside it) is not a frame yet -/
structure Framing (encF : PacketMsg → Bytes) (splitF : Bytes → Option (PacketMsg × Bytes)) : Prop where
  split_enc : ∀ p rest, splitF (encF p ++ rest) = some (p, rest)
  split_short : ∀ p b, b <+: encF p → b ≠ encF p → splitF b = none
  enc_nonempty : ∀ p, encF p ≠ []

/-- the frames `recvRoutine` gets out of the bytes it could read -/
def parseFrames (splitF : Bytes → Option (PacketMsg × Bytes)) : Nat → Bytes → List PacketMsg
  | 0, _ => []
  | f+1, b =>
    match splitF b with
    | none => []
    | some (p, rest) => p :: parseFrames splitF f rest

theorem parse_prefix (encF : PacketMsg → Bytes) (splitF : Bytes → Option (PacketMsg × Bytes))
    (hf : Framing encF splitF) :
    ∀ (W : List PacketMsg) (b : Bytes) (fuel : Nat), b.length < fuel → b <+: W.flatMap encF →
      ∃ rest, W = parseFrames splitF fuel b ++ rest := by
  intro W
  induction W with
  | nil =>
    intro b fuel hfuel hb
    simp only [List.flatMap_nil, List.prefix_nil] at hb
    subst hb
    cases fuel with
    | zero => omega
    | succ f =>
      -- `[]` is a strict prefix of any frame
      have : splitF [] = none :=
        hf.split_short ⟨0, false, []⟩ [] (List.nil_prefix) (fun h => hf.enc_nonempty _ h.symm)
      exact ⟨[], by simp [parseFrames, this]⟩
  | cons p W ih =>
    intro b fuel hfuel hb
    cases fuel with
    | zero => omega
    | succ f =>
      rw [List.flatMap_cons] at hb
      by_cases hlen : b.length < (encF p).length
      · -- cut inside the first frame
        have hpre : b <+: encF p := by
          obtain ⟨t, ht⟩ := hb
          have := List.prefix_of_prefix_length_le (l₁ := b) (l₂ := encF p) (l₃ := encF p ++ W.flatMap encF)
            ⟨t, ht⟩ (List.prefix_append _ _) (Nat.le_of_lt hlen)
          exact this
        have hne : b ≠ encF p := fun h => by rw [h] at hlen; omega
        exact ⟨p :: W, by simp [parseFrames, hf.split_short p b hpre hne]⟩
      · -- the first frame is complete
        obtain ⟨t, ht⟩ := hb
        have hpre : encF p <+: b := by
          have := List.prefix_of_prefix_length_le (l₁ := encF p) (l₂ := b) (l₃ := encF p ++ W.flatMap encF)
            (List.prefix_append _ _) ⟨t, ht⟩ (by omega)
          exact this
        obtain ⟨b', hb'⟩ := hpre
        subst hb'
        have hb2 : b' <+: W.flatMap encF := by
          rw [List.append_assoc] at ht
          exact ⟨t, List.append_cancel_left ht⟩
        have hne := hf.enc_nonempty p
        have hl : 0 < (encF p).length := List.length_pos_iff.mpr hne
        obtain ⟨rest, hr⟩ := ih b' f (by simp only [List.length_append] at hfuel; omega) hb2
        refine ⟨rest, ?_⟩
        simp only [parseFrames, hf.split_enc p b', List.cons_append]
        rw [← hr]


theorem parse_full (encF : PacketMsg → Bytes) (splitF : Bytes → Option (PacketMsg × Bytes))
    (hf : Framing encF splitF) :
    ∀ (W : List PacketMsg) (fuel : Nat), (W.flatMap encF).length < fuel →
      parseFrames splitF fuel (W.flatMap encF) = W := by
  intro W
  induction W with
  | nil =>
    intro fuel hfuel
    cases fuel with
    | zero => omega
    | succ f =>
      have : splitF [] = none :=
        hf.split_short ⟨0, false, []⟩ [] (List.nil_prefix) (fun h => hf.enc_nonempty _ h.symm)
      simp [parseFrames, this]
  | cons p W ih =>
    intro fuel hfuel
    cases fuel with
    | zero => omega
    | succ f =>
      have hl : 0 < (encF p).length := List.length_pos_iff.mpr (hf.enc_nonempty p)
      rw [List.flatMap_cons] at hfuel ⊢
      simp only [parseFrames, hf.split_enc p]
      rw [ih f (by simp only [List.length_append] at hfuel; omega)]

/-! a concrete frame codec satisfying `Framing` (unary length prefix; for non-vacuity only) -/

def natU (n : Nat) : Bytes := List.replicate n 1 ++ [0]

def readU : Bytes → Option (Nat × Bytes)
  | [] => none
  | b :: r => if b = 0 then some (0, r) else if b = 1 then (readU r).map fun x => (x.1 + 1, x.2) else none

theorem readU_natU (n : Nat) (r : Bytes) : readU (natU n ++ r) = some (n, r) := by
  induction n with
  | zero => simp [natU, readU]
  | succ k ih =>
    have : natU (k + 1) ++ r = 1 :: (natU k ++ r) := by simp [natU, List.replicate_succ]
    rw [this]
    simp [readU, ih]

theorem readU_cut (n : Nat) : ∀ (b : Bytes), b <+: natU n → b ≠ natU n → readU b = none := by
  induction n with
  | zero =>
    intro b hb hne
    cases b with
    | nil => rfl
    | cons x xs =>
      exfalso
      simp only [natU, List.replicate_zero, List.nil_append] at hb hne
      obtain ⟨t, ht⟩ := hb
      cases xs with
      | nil => simp at ht; exact hne (by simp [ht.1])
      | cons y ys => simp at ht
  | succ k ih =>
    intro b hb hne
    have hk : natU (k + 1) = 1 :: natU k := by simp [natU, List.replicate_succ]
    rw [hk] at hb hne
    cases b with
    | nil => rfl
    | cons x xs =>
      obtain ⟨t, ht⟩ := hb
      simp only [List.cons_append, List.cons.injEq] at ht
      obtain ⟨rfl, ht2⟩ := ht
      have := ih xs ⟨t, ht2⟩ (fun h => hne (by rw [h]))
      simp [readU, this]

def payloadOf (p : PacketMsg) : Bytes :=
  natU (if p.chId < 0 then 1 else 0) ++ natU p.chId.natAbs ++ natU (if p.eof then 1 else 0) ++ p.data

def decPayload (b : Bytes) : Option PacketMsg := do
  let (s, r1) ← readU b
  let (a, r2) ← readU r1
  let (e, r3) ← readU r2
  pure { chId := if s = 1 then -(a : Int) else (a : Int), eof := e = 1, data := r3 }

theorem decPayload_payloadOf (p : PacketMsg) : decPayload (payloadOf p) = some p := by
  obtain ⟨ch, eof, data⟩ := p
  unfold decPayload payloadOf
  simp only [List.append_assoc]
  by_cases h : ch < 0
  · cases eof <;> simp [h, readU_natU] <;> omega
  · cases eof <;> simp [h, readU_natU] <;> omega

def toyEncF (p : PacketMsg) : Bytes := natU (payloadOf p).length ++ payloadOf p

def toySplitF (b : Bytes) : Option (PacketMsg × Bytes) :=
  match readU b with
  | none => none
  | some (n, r) =>
    if r.length < n then none
    else (decPayload (r.take n)).map fun p => (p, r.drop n)

theorem toy_framing : Framing toyEncF toySplitF := by
  refine ⟨?_, ?_, ?_⟩
  · intro p rest
    unfold toySplitF toyEncF
    rw [List.append_assoc, readU_natU]
    simp [decPayload_payloadOf]
  · intro p b hb hne
    unfold toySplitF
    unfold toyEncF at hb hne
    by_cases hlen : b.length < (natU (payloadOf p).length).length
    · -- cut inside the length prefix
      have hpre : b <+: natU (payloadOf p).length :=
        List.prefix_of_prefix_length_le hb (List.prefix_append _ _) (Nat.le_of_lt hlen)
      have : b ≠ natU (payloadOf p).length := fun h => by rw [h] at hlen; omega
      rw [readU_cut _ b hpre this]
    · have hpre : natU (payloadOf p).length <+: b :=
        List.prefix_of_prefix_length_le (List.prefix_append _ _) hb (by omega)
      obtain ⟨r, hr⟩ := hpre
      subst hr
      rw [readU_natU]
      simp only
      obtain ⟨t, ht⟩ := hb
      rw [List.append_assoc] at ht
      have ht2 := List.append_cancel_left ht
      have hlt : r.length < (payloadOf p).length := by
        have := congrArg List.length ht2
        simp only [List.length_append] at this
        have hne2 : t ≠ [] := by
          intro h; subst h
          simp only [List.append_nil] at ht2
          exact hne (by rw [ht2])
        have : 0 < t.length := List.length_pos_iff.mpr hne2
        omega
      simp [hlt]
  · intro p h
    unfold toyEncF natU at h
    simp at h


end Tmv.MConn
