import Tmv.Model.MConn
/-! Lemmas about the multiplexed-connection model: packetisation vs reassembly, the receive loop,
the sender invariant. Core-only. -/
namespace Tmv.MConn

/-! ### specification-level functions -/

/-- reassembly of ONE channel's packet stream starting from buffer `buf`: delivered messages and
the remaining partial buffer -/
def reasm : Bytes → List (Bool × Bytes) → List Bytes × Bytes
  | buf, [] => ([], buf)
  | buf, (eof, d) :: ps =>
    if eof then ((buf ++ d) :: (reasm [] ps).1, (reasm [] ps).2) else reasm (buf ++ d) ps

/-- the running buffer of one channel never exceeds `cap` -/
def fits (cap : Nat) : Bytes → List (Bool × Bytes) → Prop
  | _, [] => True
  | buf, (eof, d) :: ps =>
    buf.length + d.length ≤ cap ∧ fits cap (if eof then [] else buf ++ d) ps

/-- the packets of channel `id` in a wire sequence, in wire order -/
def proj (id : Nat) (wire : List PacketMsg) : List (Bool × Bytes) :=
  (wire.filter fun p => p.chId = (id : Int)).map fun p => (p.eof, p.data)

/-- the messages delivered on channel `id` in an `onReceive` log, in order -/
def delivered (id : Nat) (log : List (Nat × Bytes)) : List Bytes :=
  (log.filter fun e => e.1 = id).map (·.2)

/-! ### packetize -/

theorem packetizeF_fuel (mx : Nat) (hmx : 0 < mx) :
    ∀ (f1 f2 : Nat) (b : Bytes), b.length ≤ f1 → b.length ≤ f2 →
      packetizeF mx f1 b = packetizeF mx f2 b := by
  intro f1
  induction f1 with
  | zero =>
    intro f2 b h1 _
    have hb : b = [] := List.eq_nil_of_length_eq_zero (by omega)
    subst hb
    cases f2 <;> simp [packetizeF]
  | succ n ih =>
    intro f2 b h1 h2
    cases f2 with
    | zero =>
      have hb : b = [] := List.eq_nil_of_length_eq_zero (by omega)
      subst hb
      simp [packetizeF]
    | succ m =>
      simp only [packetizeF]
      split
      · rfl
      · rename_i hgt
        have hd : (b.drop mx).length ≤ n := by simp [List.length_drop]; omega
        have hd2 : (b.drop mx).length ≤ m := by simp [List.length_drop]; omega
        rw [ih m _ hd hd2]

/-- one unfolding of `packetize` (what `nextPacketMsg` does) -/
theorem packetize_unfold (mx : Nat) (hmx : 0 < mx) (b : Bytes) :
    packetize mx b =
      if b.length ≤ mx then [(true, b)]
      else (false, b.take mx) :: packetize mx (b.drop mx) := by
  unfold packetize
  generalize hn : b.length = n
  cases n with
  | zero =>
    have : b = [] := List.eq_nil_of_length_eq_zero hn
    subst this
    simp [packetizeF]
  | succ n =>
    simp only [packetizeF, hn]
    split
    · rfl
    · rename_i hgt
      congr 1
      apply packetizeF_fuel mx hmx <;> simp [List.length_drop] <;> omega

theorem reasm_packetizeF (mx : Nat) (hmx : 0 < mx) :
    ∀ (f : Nat) (m buf : Bytes) (rest : List (Bool × Bytes)), m.length ≤ f →
      reasm buf (packetizeF mx f m ++ rest) = ((buf ++ m) :: (reasm [] rest).1, (reasm [] rest).2) := by
  intro f
  induction f with
  | zero =>
    intro m buf rest h
    have : m = [] := List.eq_nil_of_length_eq_zero (by omega)
    subst this
    simp [packetizeF, reasm]
  | succ n ih =>
    intro m buf rest h
    simp only [packetizeF]
    split
    · simp [reasm]
    · rename_i hgt
      have hd : (m.drop mx).length ≤ n := by simp [List.length_drop]; omega
      simp only [List.cons_append, reasm, Bool.false_eq_true, if_false]
      rw [ih _ _ _ hd, List.append_assoc, List.take_append_drop]

theorem reasm_packetize (mx : Nat) (hmx : 0 < mx) (m buf : Bytes) (rest : List (Bool × Bytes)) :
    reasm buf (packetize mx m ++ rest) = ((buf ++ m) :: (reasm [] rest).1, (reasm [] rest).2) :=
  reasm_packetizeF mx hmx _ m buf rest (Nat.le_refl _)

/-- reassembling the packetisation of a message list gives the list back, nothing left over -/
theorem reasm_flatMap_packetize (mx : Nat) (hmx : 0 < mx) (msgs : List Bytes) :
    reasm [] (msgs.flatMap (packetize mx)) = (msgs, []) := by
  induction msgs with
  | nil => simp [reasm]
  | cons m ms ih =>
    rw [List.flatMap_cons, reasm_packetize mx hmx, ih]
    simp

theorem fits_packetizeF (mx cap : Nat) (hmx : 0 < mx) :
    ∀ (f : Nat) (m buf : Bytes) (rest : List (Bool × Bytes)), m.length ≤ f →
      buf.length + m.length ≤ cap → fits cap [] rest →
      fits cap buf (packetizeF mx f m ++ rest) := by
  intro f
  induction f with
  | zero =>
    intro m buf rest h hc hr
    have : m = [] := List.eq_nil_of_length_eq_zero (by omega)
    subst this
    simp [packetizeF, fits, hr]
    simpa using hc
  | succ n ih =>
    intro m buf rest h hc hr
    simp only [packetizeF]
    split
    · simp [fits, hr, hc]
    · rename_i hgt
      have hd : (m.drop mx).length ≤ n := by simp [List.length_drop]; omega
      simp only [List.cons_append, fits, Bool.false_eq_true, if_false]
      refine ⟨by simp [List.length_take]; omega, ih _ _ _ hd ?_ hr⟩
      simp [List.length_take, List.length_drop]; omega

theorem fits_flatMap_packetize (mx cap : Nat) (hmx : 0 < mx) (msgs : List Bytes)
    (h : ∀ m ∈ msgs, m.length ≤ cap) : fits cap [] (msgs.flatMap (packetize mx)) := by
  induction msgs with
  | nil => simp [fits]
  | cons m ms ih =>
    rw [List.flatMap_cons]
    exact fits_packetizeF mx cap hmx _ m [] _ (Nat.le_refl _)
      (by simpa using h m (by simp)) (ih fun x hx => h x (by simp [hx]))

/-! ### receive loop -/

theorem rfind_upd (l : List RChan) (c' : RChan) (i j : Nat) (hi : c'.id = i) :
    (l.map fun x => if x.id = i then c' else x).find? (·.id = j) =
      if j = i then (l.find? (·.id = i)).map (fun _ => c') else l.find? (·.id = j) := by
  induction l with
  | nil => simp
  | cons x xs ih =>
    rw [List.map_cons, List.find?_cons, List.find?_cons, List.find?_cons, ih]
    by_cases hx : x.id = i
    · by_cases hj : j = i
      · subst hj; simp [hx, hi]
      · have h2 : ¬ i = j := fun h => hj h.symm
        have h3 : ¬ x.id = j := by omega
        simp [hx, hj, hi, h2]
    · by_cases hj : j = i
      · subst hj; simp [hx]
      · by_cases hxj : x.id = j <;> simp [hx, hj, hxj]

theorem proj_cons_eq (id : Nat) (p : PacketMsg) (ps : List PacketMsg) (h : p.chId = (id : Int)) :
    proj id (p :: ps) = (p.eof, p.data) :: proj id ps := by
  simp [proj, h]

theorem proj_cons_ne (id : Nat) (p : PacketMsg) (ps : List PacketMsg) (h : p.chId ≠ (id : Int)) :
    proj id (p :: ps) = proj id ps := by
  simp [proj, h]

theorem recvFrame_msg (r : Receiver) (p : PacketMsg) (len : Nat) (c : RChan)
    (hs : r.stopped = none) (hl : len ≤ r.maxPacket) (h0 : 0 ≤ p.chId) (h1 : p.chId ≤ 255)
    (hf : r.chans.find? (·.id = p.chId.toNat) = some c)
    (hcap : c.recving.length + p.data.length ≤ c.cap) :
    recvFrame r { len := len, pkt := .msg p } =
      ({ r with chans := r.chans.map fun x =>
            if x.id = c.id then { c with recving := if p.eof then [] else c.recving ++ p.data } else x },
       if p.eof then .deliver c.id (c.recving ++ p.data) else .nothing) := by
  unfold recvFrame
  have hl' : ¬ len > r.maxPacket := by omega
  have hr : ¬ (p.chId < 0 ∨ p.chId > 255) := by omega
  have hc : ¬ c.cap < c.recving.length + p.data.length := by omega
  simp only [hs, Option.isSome_none, Bool.false_eq_true, if_false, hl', hr, hf, recvPacketMsg, hc]
  cases p.eof <;> simp


/-- frames carrying the packets of `wire`, with frame lengths given by `lens` -/
def msgFrames (lens : PacketMsg → Nat) (wire : List PacketMsg) : List Frame :=
  wire.map fun p => { len := lens p, pkt := .msg p }

theorem recvAll_cons (r : Receiver) (f : Frame) (fs : List Frame) :
    recvAll r (f :: fs) =
      ((recvAll (recvFrame r f).1 fs).1,
        match (recvFrame r f).2 with
        | .deliver ch m => (ch, m) :: (recvAll (recvFrame r f).1 fs).2
        | _ => (recvAll (recvFrame r f).1 fs).2) := by
  simp only [recvAll]
  split <;> simp_all

theorem delivered_cons_eq (id : Nat) (m : Bytes) (log : List (Nat × Bytes)) :
    delivered id ((id, m) :: log) = m :: delivered id log := by
  simp [delivered]

theorem delivered_cons_ne (id j : Nat) (m : Bytes) (log : List (Nat × Bytes)) (h : j ≠ id) :
    delivered id ((j, m) :: log) = delivered id log := by
  simp [delivered, h]

theorem recvAll_spec (lens : PacketMsg → Nat) :
    ∀ (wire : List PacketMsg) (r : Receiver),
      r.stopped = none →
      (∀ p ∈ wire, lens p ≤ r.maxPacket ∧ 0 ≤ p.chId ∧ p.chId ≤ 255 ∧
        (r.chans.find? (·.id = p.chId.toNat)).isSome) →
      (∀ id c, r.chans.find? (·.id = id) = some c → fits c.cap c.recving (proj id wire)) →
      (recvAll r (msgFrames lens wire)).1.stopped = none ∧
      ∀ id c, r.chans.find? (·.id = id) = some c →
        delivered id (recvAll r (msgFrames lens wire)).2 = (reasm c.recving (proj id wire)).1 ∧
        ∃ c', (recvAll r (msgFrames lens wire)).1.chans.find? (·.id = id) = some c' ∧
          c'.recving = (reasm c.recving (proj id wire)).2 ∧ c'.cap = c.cap := by
  intro wire
  induction wire with
  | nil =>
    intro r hs _ _
    refine ⟨by simpa [msgFrames, recvAll] using hs, ?_⟩
    intro id c hc
    simp [msgFrames, recvAll, delivered, proj, reasm, hc]
  | cons p ps ih =>
    intro r hs hw hfit
    obtain ⟨hl, h0, h1, hsome⟩ := hw p (by simp)
    obtain ⟨c0, hc0⟩ := Option.isSome_iff_exists.mp hsome
    have hid : c0.id = p.chId.toNat := by
      have := List.find?_some hc0; simpa using this
    have hpid : p.chId = (c0.id : Int) := by rw [hid]; omega
    have hfit0 := hfit c0.id c0 (by rw [hid]; exact hc0)
    rw [proj_cons_eq _ _ _ hpid] at hfit0
    obtain ⟨hcap, hfit0'⟩ := hfit0
    have hstep := recvFrame_msg r p (lens p) c0 hs hl h0 h1 hc0 hcap
    -- the state after the first frame
    generalize hr1 : (recvFrame r { len := lens p, pkt := .msg p }).1 = r1 at *
    have hr1' : r1 = { r with chans := r.chans.map fun x =>
            if x.id = c0.id then { c0 with recving := if p.eof then [] else c0.recving ++ p.data } else x } := by
      rw [← hr1, hstep]
    have hlook : ∀ j, r1.chans.find? (·.id = j) =
        if j = c0.id then some { c0 with recving := if p.eof then [] else c0.recving ++ p.data }
        else r.chans.find? (·.id = j) := by
      intro j
      rw [hr1']
      simp only
      rw [rfind_upd r.chans { c0 with recving := if p.eof then [] else c0.recving ++ p.data } c0.id j rfl]
      split
      · rw [hid, hc0]; rfl
      · rfl
    have hs1 : r1.stopped = none := by rw [hr1']; exact hs
    have hmp : r1.maxPacket = r.maxPacket := by rw [hr1']
    have hw1 : ∀ q ∈ ps, lens q ≤ r1.maxPacket ∧ 0 ≤ q.chId ∧ q.chId ≤ 255 ∧
        (r1.chans.find? (·.id = q.chId.toNat)).isSome := by
      intro q hq
      obtain ⟨a, b, c, d⟩ := hw q (by simp [hq])
      refine ⟨by omega, b, c, ?_⟩
      rw [hlook]
      split
      · simp
      · exact d
    have hfit1 : ∀ id c, r1.chans.find? (·.id = id) = some c → fits c.cap c.recving (proj id ps) := by
      intro id c hc
      rw [hlook] at hc
      split at hc
      · rename_i hj
        subst hj
        cases hc
        simpa using hfit0'
      · rename_i hj
        have := hfit id c hc
        rwa [proj_cons_ne _ _ _ (by rw [hpid]; omega)] at this
    obtain ⟨ihs, ihc⟩ := ih r1 hs1 hw1 hfit1
    have hall : recvAll r (msgFrames lens (p :: ps)) =
        ((recvAll r1 (msgFrames lens ps)).1,
          if p.eof then (c0.id, c0.recving ++ p.data) :: (recvAll r1 (msgFrames lens ps)).2
          else (recvAll r1 (msgFrames lens ps)).2) := by
      show recvAll r ({ len := lens p, pkt := .msg p } :: msgFrames lens ps) = _
      rw [recvAll_cons, hr1, hstep]
      cases p.eof <;> simp
    rw [hall]
    refine ⟨ihs, ?_⟩
    intro id c hc
    by_cases hj : id = c0.id
    · subst hj
      have hcc : c = c0 := by
        rw [hid, hc0] at hc; exact (Option.some.inj hc).symm
      subst hcc
      obtain ⟨d1, c', e1, e2, e3⟩ := ihc c.id { c with recving := if p.eof then [] else c.recving ++ p.data } (by rw [hlook]; simp)
      rw [proj_cons_eq _ _ _ hpid]
      cases hpe : p.eof
      · simp only [hpe, Bool.false_eq_true, if_false, reasm] at d1 e2 ⊢
        exact ⟨d1, c', e1, e2, by simpa using e3⟩
      · simp only [hpe, if_true, reasm] at d1 e2 ⊢
        rw [delivered_cons_eq]
        exact ⟨by rw [d1], c', e1, e2, by simpa using e3⟩
    · obtain ⟨d1, c', e1, e2, e3⟩ := ihc id c (by rw [hlook]; simp [hj, hc])
      rw [proj_cons_ne _ _ _ (by rw [hpid]; omega)]
      refine ⟨?_, c', e1, e2, e3⟩
      cases hpe : p.eof
      · simpa [hpe] using d1
      · simp only [if_true]
        rw [delivered_cons_ne _ _ _ _ (fun h => hj h.symm)]
        exact d1


/-- all receive buffers within their capacity -/
def bounded (r : Receiver) : Prop := ∀ c ∈ r.chans, c.recving.length ≤ c.cap

theorem recvPacketMsg_some (c c' : RChan) (eof : Bool) (d : Bytes) (del : Option Bytes)
    (h : recvPacketMsg c eof d = some (c', del)) :
    c'.recving.length ≤ c'.cap ∧ c'.id = c.id ∧ c'.cap = c.cap ∧
      c.recving.length + d.length ≤ c.cap := by
  unfold recvPacketMsg at h
  split at h
  · cases h
  · rename_i hcap
    cases eof
    · simp at h
      obtain ⟨rfl, _⟩ := h
      simp; omega
    · simp at h
      obtain ⟨rfl, _⟩ := h
      simp; omega

theorem recvFrame_bounded (r : Receiver) (f : Frame) (h : bounded r) : bounded (recvFrame r f).1 := by
  unfold recvFrame
  split
  · exact h
  split
  · exact h
  split <;> try exact h
  rename_i p _
  split
  · exact h
  split
  · exact h
  · rename_i c hc
    cases hp : recvPacketMsg c p.eof p.data with
    | none => exact h
    | some res =>
      obtain ⟨c', del⟩ := res
      obtain ⟨hb, _, _, _⟩ := recvPacketMsg_some _ _ _ _ _ hp
      have : bounded { r with chans := r.chans.map fun x => if x.id = c.id then c' else x } := by
        intro x hx
        simp only [List.mem_map] at hx
        obtain ⟨y, hy, rfl⟩ := hx
        split
        · exact hb
        · exact h y hy
      cases del <;> simpa using this

theorem recvAll_bounded (fs : List Frame) : ∀ (r : Receiver), bounded r → bounded (recvAll r fs).1 := by
  induction fs with
  | nil => intro r h; simpa [recvAll] using h
  | cons f fs ih =>
    intro r h
    rw [recvAll_cons]
    exact ih _ (recvFrame_bounded r f h)

theorem new_bounded (mx : Nat) (ds : List Desc) : bounded (Receiver.new mx ds) := by
  intro c hc
  simp [Receiver.new, RChan.new] at hc
  obtain ⟨d, _, rfl⟩ := hc
  simp

/-- a stopped receive loop ignores everything -/
theorem recvAll_stopped (fs : List Frame) (r : Receiver) (h : r.stopped.isSome) :
    recvAll r fs = (r, []) := by
  induction fs with
  | nil => simp [recvAll]
  | cons f fs ih =>
    rw [recvAll_cons]
    have : recvFrame r f = (r, .closed) := by simp [recvFrame, h]
    rw [this]
    simp [ih]


/-! ### sender -/

/-- the packets channel `c` still owes the wire: the rest of the message in progress, then the
queued messages -/
def rest (mx : Nat) (c : SChan) : List (Bool × Bytes) :=
  (match c.sending with
    | none => []
    | some b => packetize mx b) ++ c.queue.flatMap (packetize mx)

/-- operations on the sending side: `TrySend` by any goroutine, one `sendPacketMsg` of the send
routine with an arbitrary pick -/
inductive SOp
  | send (ch : Nat) (m : Bytes)
  | step (pick : Nat)
deriving Repr

/-- what an observer records: packets put on the wire, messages accepted for sending -/
structure Trace where
  wire : List PacketMsg := []
  acc : List (Nat × Bytes) := []
deriving Repr

def runOp (s : Sender) (t : Trace) : SOp → Sender × Trace
  | .send ch m =>
    ((trySend s ch m).1, if (trySend s ch m).2 then { t with acc := t.acc ++ [(ch, m)] } else t)
  | .step pick =>
    ((sendPacketMsg s pick).1,
      match (sendPacketMsg s pick).2 with
      | some p => { t with wire := t.wire ++ [p] }
      | none => t)

def runOps : Sender → Trace → List SOp → Sender × Trace
  | s, t, [] => (s, t)
  | s, t, op :: ops => runOps (runOp s t op).1 (runOp s t op).2 ops

/-- per channel: wire so far ++ what is still owed = packetisation of the accepted messages -/
def SInv (s : Sender) (t : Trace) : Prop :=
  (s.chans.map (·.id)).Nodup ∧
  ∀ c ∈ s.chans, proj c.id t.wire ++ rest s.maxSize c =
    (delivered c.id t.acc).flatMap (packetize s.maxSize)

theorem eq_of_id (l : List SChan) (hn : (l.map (·.id)).Nodup) :
    ∀ x ∈ l, ∀ y ∈ l, x.id = y.id → x = y := by
  induction l with
  | nil => intro x hx; cases hx
  | cons a as ih =>
    simp only [List.map_cons, List.nodup_cons, List.mem_map, not_exists, not_and] at hn
    intro x hx y hy hxy
    simp only [List.mem_cons] at hx hy
    rcases hx with rfl | hx <;> rcases hy with rfl | hy
    · rfl
    · exact absurd hxy.symm (hn.1 y hy)
    · exact absurd hxy (hn.1 x hx)
    · exact ih hn.2 x hx y hy hxy

theorem isSendPending_props (mx : Nat) (c : SChan) :
    (isSendPending c).1.id = c.id ∧ rest mx (isSendPending c).1 = rest mx c ∧
    ((isSendPending c).1.sending = none → rest mx c = []) := by
  unfold isSendPending
  cases hs : c.sending with
  | some b => simp [hs]
  | none =>
    cases hq : c.queue with
    | nil => simp [rest, hs, hq]
    | cons m q => simp [rest, hs, hq]

theorem nextPacketMsg_props (mx : Nat) (hmx : 0 < mx) (c : SChan) (b : Bytes) (hb : c.sending = some b) :
    (nextPacketMsg mx c).1.id = c.id ∧ (nextPacketMsg mx c).2.chId = (c.id : Int) ∧
    rest mx c = ((nextPacketMsg mx c).2.eof, (nextPacketMsg mx c).2.data) :: rest mx (nextPacketMsg mx c).1 ∧
    (nextPacketMsg mx c).2.data.length ≤ mx := by
  unfold nextPacketMsg
  simp only [hb, Option.getD_some]
  split
  · rename_i hle
    have : min mx b.length = b.length := by omega
    simp [rest, hb, this, packetize_unfold mx hmx b, hle]
  · rename_i hgt
    have : min mx b.length = mx := by omega
    simp [rest, hb, this, packetize_unfold mx hmx b, hgt]


theorem delivered_append (id ch : Nat) (m : Bytes) (acc : List (Nat × Bytes)) :
    delivered id (acc ++ [(ch, m)]) = delivered id acc ++ (if ch = id then [m] else []) := by
  unfold delivered
  rw [List.filter_append, List.map_append]
  by_cases h : ch = id <;> simp [h]

theorem proj_append (id : Nat) (p : PacketMsg) (wire : List PacketMsg) :
    proj id (wire ++ [p]) = proj id wire ++ (if p.chId = (id : Int) then [(p.eof, p.data)] else []) := by
  unfold proj
  rw [List.filter_append, List.map_append]
  by_cases h : p.chId = (id : Int) <;> simp [h]

theorem ids_map_eq (l : List SChan) (f : SChan → SChan) (hf : ∀ x ∈ l, (f x).id = x.id) :
    (l.map f).map (·.id) = l.map (·.id) := by
  rw [List.map_map]
  apply List.map_congr_left
  intro x hx
  exact hf x hx

theorem trySend_inv (s : Sender) (t : Trace) (ch : Nat) (m : Bytes) (h : SInv s t) :
    SInv (runOp s t (.send ch m)).1 (runOp s t (.send ch m)).2 ∧
    (runOp s t (.send ch m)).1.maxSize = s.maxSize := by
  obtain ⟨hn, hinv⟩ := h
  simp only [runOp]
  unfold trySend
  cases hf : s.chans.find? (·.id = ch) with
  | none => simp only; exact ⟨⟨hn, by simpa using hinv⟩, trivial⟩
  | some c =>
    have hcm : c ∈ s.chans := List.mem_of_find?_eq_some hf
    have hcid : c.id = ch := by simpa using List.find?_some hf
    simp only
    unfold trySendBytes
    split
    · -- accepted
      rename_i hroom
      refine ⟨⟨?_, ?_⟩, trivial⟩
      · simp only
        rw [ids_map_eq]; exact hn
        intro x _; split <;> simp_all
      · intro x hx
        simp only [List.mem_map] at hx
        obtain ⟨y, hy, rfl⟩ := hx
        simp only [if_true]
        split
        · rename_i hyid
          have : y = c := eq_of_id _ hn y hy c hcm (by omega)
          subst this
          have := hinv y hy
          subst hcid
          simp only [delivered_append, if_true, List.flatMap_append, ← this]
          simp [rest, List.flatMap_append, List.append_assoc]
        · rename_i hyid
          have := hinv y hy
          have hne : ¬ ch = y.id := fun e => hyid e.symm
          simp only [delivered_append, hne, if_false, List.append_nil]
          exact this
    · -- queue full
      refine ⟨⟨?_, ?_⟩, trivial⟩
      · simp only
        rw [ids_map_eq]; exact hn
        intro x _; split <;> simp_all
      · intro x hx
        simp only [List.mem_map] at hx
        obtain ⟨y, hy, rfl⟩ := hx
        simp only [Bool.false_eq_true, if_false]
        split
        · rename_i hyid
          have : y = c := eq_of_id _ hn y hy c hcm (by omega)
          subst this
          exact hinv y hy
        · exact hinv y hy


theorem pending_inv (s : Sender) (t : Trace) (h : SInv s t) :
    SInv { s with chans := s.chans.map fun c => (isSendPending c).1 } t := by
  obtain ⟨hn, hinv⟩ := h
  refine ⟨?_, ?_⟩
  · simp only
    rw [ids_map_eq]; exact hn
    intro x _; exact (isSendPending_props s.maxSize x).1
  · intro x hx
    simp only [List.mem_map] at hx
    obtain ⟨y, hy, rfl⟩ := hx
    obtain ⟨h1, h2, _⟩ := isSendPending_props s.maxSize y
    simp only [h1, h2]
    exact hinv y hy

/-- `sendPacketMsg` in terms of the state after the `isSendPending` pass -/
theorem sendPacketMsg_inv (s : Sender) (t : Trace) (pick : Nat) (hmx : 0 < s.maxSize) (h : SInv s t) :
    SInv (runOp s t (.step pick)).1 (runOp s t (.step pick)).2 ∧
    (runOp s t (.step pick)).1.maxSize = s.maxSize := by
  have h1 := pending_inv s t h
  simp only [runOp]
  unfold sendPacketMsg
  simp only
  generalize hcs : (s.chans.map fun c => (isSendPending c).1) = cs at *
  cases hp : cs.filter (·.sending.isSome) with
  | nil => exact ⟨h1, rfl⟩
  | cons c0 pend' =>
    simp only
    generalize hid : (if (c0 :: pend').any (·.id = pick) then pick else c0.id) = id
    cases hf : cs.find? (·.id = id) with
    | none => exact ⟨h1, rfl⟩
    | some c =>
      obtain ⟨hn, hinv⟩ := h1
      simp only at hn hinv
      have hcm : c ∈ cs := List.mem_of_find?_eq_some hf
      have hcid : c.id = id := by simpa using List.find?_some hf
      -- some pending channel has this id, hence it is `c`
      have hex : ∃ y ∈ cs, y.sending.isSome ∧ y.id = id := by
        have hmem : ∀ y ∈ (c0 :: pend'), y ∈ cs ∧ y.sending.isSome := by
          intro y hy
          rw [← hp] at hy
          simpa [List.mem_filter] using hy
        by_cases ha : (c0 :: pend').any (·.id = pick) = true
        · rw [if_pos ha] at hid
          obtain ⟨y, hy, hyp⟩ := List.any_eq_true.mp ha
          exact ⟨y, (hmem y hy).1, (hmem y hy).2, by rw [← hid]; simpa using hyp⟩
        · rw [if_neg ha] at hid
          exact ⟨c0, (hmem c0 (by simp)).1, (hmem c0 (by simp)).2, hid⟩
      obtain ⟨y, hy, hys, hyid⟩ := hex
      have hyc : y = c := eq_of_id _ hn y hy c hcm (by omega)
      subst hyc
      obtain ⟨b, hb⟩ := Option.isSome_iff_exists.mp hys
      obtain ⟨n1, n2, n3, _⟩ := nextPacketMsg_props s.maxSize hmx y b hb
      simp only
      refine ⟨⟨?_, ?_⟩, trivial⟩
      · simp only
        rw [ids_map_eq]; exact hn
        intro x _; split
        · rename_i hx; rw [n1]; omega
        · rfl
      · intro x hx
        simp only [List.mem_map] at hx
        obtain ⟨z, hz, rfl⟩ := hx
        simp only
        split
        · rename_i hzid
          have : z = y := eq_of_id _ hn z hz y hcm (by omega)
          subst this
          have := hinv z hz
          rw [n3] at this
          rw [n1, proj_append, if_pos n2, List.append_assoc]
          simpa using this
        · rename_i hzid
          have hne : ¬ (nextPacketMsg s.maxSize y).2.chId = (z.id : Int) := by
            rw [n2]; omega
          rw [proj_append, if_neg hne, List.append_nil]
          exact hinv z hz


/-! ### packet sizes -/

theorem varintLenF_mono : ∀ (f a b : Nat), a ≤ b → varintLenF f a ≤ varintLenF f b := by
  intro f
  induction f with
  | zero => intro a b _; simp [varintLenF]
  | succ n ih =>
    intro a b hab
    simp only [varintLenF]
    by_cases ha : a < 128
    · simp only [ha, if_true]
      split <;> omega
    · have hb : ¬ b < 128 := by omega
      simp only [ha, hb, if_false]
      have := ih (a / 128) (b / 128) (Nat.div_le_div_right hab)
      omega

theorem varintLen_mono (a b : Nat) (h : a ≤ b) : varintLen a ≤ varintLen b :=
  varintLenF_mono 10 a b h

theorem varintLen_byte (ch : Nat) (h : ch ≤ 255) : varintLen ch ≤ 2 := by
  unfold varintLen
  simp only [varintLenF]
  split
  · omega
  · split <;> omega

theorem varintLen_255 : varintLen 255 = 2 := by decide

/-- every packet the sender can build (channel id a byte, at most `mx` data bytes) fits the
receiver's frame limit -/
theorem packetSize_le (ch : Nat) (eof : Bool) (n mx : Nat) (hch : ch ≤ 255) (hn : n ≤ mx) :
    packetSize ch eof n ≤ maxPacketMsgSize mx := by
  unfold maxPacketMsgSize packetSize
  simp only [varintLen_255]
  have h1 : (if ch = 0 then 0 else 1 + varintLen ch) ≤ 3 := by
    split
    · omega
    · have := varintLen_byte ch hch; omega
  have h2 : (if eof = true then 2 else 0) ≤ 2 := by split <;> omega
  have h3 : (if n = 0 then 0 else 1 + varintLen n + n) ≤ (if mx = 0 then 0 else 1 + varintLen mx + mx) := by
    have := varintLen_mono n mx hn
    split <;> split <;> omega
  have key : ∀ A B, A ≤ B → 1 + varintLen A + A ≤ 1 + varintLen B + B := fun A B h => by
    have := varintLen_mono A B h; omega
  apply key
  have e1 : (if (255 : Nat) = 0 then 0 else 1 + 2) = 3 := by decide
  rw [e1, if_pos trivial]
  omega


/-! ### runs of the sender -/

/-- wire facts: channel ids are stable, every packet carries at most `maxSize` bytes and the id of
one of the connection's channels -/
def WInv (ids : List Nat) (s : Sender) (t : Trace) : Prop :=
  s.chans.map (·.id) = ids ∧
  ∀ p ∈ t.wire, p.data.length ≤ s.maxSize ∧ ∃ i ∈ ids, p.chId = (i : Int)

theorem nextPacketMsg_gen (mx : Nat) (c : SChan) :
    (nextPacketMsg mx c).2.chId = (c.id : Int) ∧ (nextPacketMsg mx c).2.data.length ≤ mx ∧
    (nextPacketMsg mx c).1.id = c.id := by
  unfold nextPacketMsg
  simp only
  split <;> simp [List.length_take] <;> omega

theorem runOp_winv (ids : List Nat) (s : Sender) (t : Trace) (op : SOp) (h : WInv ids s t) :
    WInv ids (runOp s t op).1 (runOp s t op).2 := by
  obtain ⟨hids, hw⟩ := h
  cases op with
  | send ch m =>
    simp only [runOp]
    have hch : (trySend s ch m).1.chans.map (·.id) = ids ∧ (trySend s ch m).1.maxSize = s.maxSize := by
      unfold trySend
      cases hf : s.chans.find? (·.id = ch) with
      | none => exact ⟨hids, rfl⟩
      | some c =>
        have hcid : c.id = ch := by simpa using List.find?_some hf
        simp only
        refine ⟨?_, trivial⟩
        rw [ids_map_eq]; exact hids
        intro x _
        unfold trySendBytes
        split
        · split <;> simp_all
        · rfl
    refine ⟨hch.1, ?_⟩
    rw [hch.2]
    split <;> exact hw
  | step pick =>
    simp only [runOp]
    unfold sendPacketMsg
    simp only
    have hcs : (s.chans.map fun c => (isSendPending c).1).map (·.id) = ids := by
      rw [ids_map_eq]; exact hids
      intro x _; exact (isSendPending_props s.maxSize x).1
    generalize (s.chans.map fun c => (isSendPending c).1) = cs at *
    cases hp : cs.filter (·.sending.isSome) with
    | nil => exact ⟨hcs, hw⟩
    | cons c0 pend' =>
      simp only
      generalize (if (c0 :: pend').any (·.id = pick) then pick else c0.id) = id
      cases hf : cs.find? (·.id = id) with
      | none => exact ⟨hcs, hw⟩
      | some c =>
        have hcm : c ∈ cs := List.mem_of_find?_eq_some hf
        have hcid : c.id = id := by simpa using List.find?_some hf
        obtain ⟨g1, g2, g3⟩ := nextPacketMsg_gen s.maxSize c
        simp only
        refine ⟨?_, ?_⟩
        · rw [ids_map_eq]; exact hcs
          intro x _; split
          · rename_i hx; rw [g3]; omega
          · rfl
        · intro p hp
          simp only [List.mem_append, List.mem_singleton] at hp
          rcases hp with hp | rfl
          · exact hw p hp
          · refine ⟨g2, c.id, ?_, g1⟩
            rw [← hcs]
            exact List.mem_map.mpr ⟨c, hcm, rfl⟩

theorem runOps_inv (ids : List Nat) (ops : List SOp) :
    ∀ (s : Sender) (t : Trace), 0 < s.maxSize → SInv s t → WInv ids s t →
      SInv (runOps s t ops).1 (runOps s t ops).2 ∧ WInv ids (runOps s t ops).1 (runOps s t ops).2 ∧
      (runOps s t ops).1.maxSize = s.maxSize := by
  induction ops with
  | nil => intro s t _ h1 h2; exact ⟨h1, h2, rfl⟩
  | cons op ops ih =>
    intro s t hmx h1 h2
    simp only [runOps]
    have hstep : SInv (runOp s t op).1 (runOp s t op).2 ∧ (runOp s t op).1.maxSize = s.maxSize := by
      cases op with
      | send ch m => exact trySend_inv s t ch m h1
      | step pick => exact sendPacketMsg_inv s t pick hmx h1
    obtain ⟨a, b, c⟩ := ih _ _ (by rw [hstep.2]; exact hmx) hstep.1 (runOp_winv ids s t op h2)
    exact ⟨a, b, by rw [c, hstep.2]⟩

theorem new_inv (mx : Nat) (ds : List Desc) (hnd : (ds.map (·.id)).Nodup) :
    SInv (Sender.new mx ds) {} ∧ WInv (ds.map (·.id)) (Sender.new mx ds) {} := by
  have hids : (Sender.new mx ds).chans.map (·.id) = ds.map (·.id) := by
    simp [Sender.new, SChan.new, List.map_map, Function.comp_def]
  refine ⟨⟨by rw [hids]; exact hnd, ?_⟩, hids, by simp⟩
  intro c hc
  simp [Sender.new, SChan.new] at hc
  obtain ⟨d, _, rfl⟩ := hc
  simp [proj, rest, delivered]

/-- the sender owes the wire nothing -/
def idle (s : Sender) : Prop := ∀ c ∈ s.chans, rest s.maxSize c = []


/-- when `sendPacketMsg` finds nothing to send the sender owes nothing -/
theorem none_imp_idle (s : Sender) (pick : Nat) (hn : (s.chans.map (·.id)).Nodup)
    (h : (sendPacketMsg s pick).2 = none) : idle s := by
  unfold sendPacketMsg at h
  simp only at h
  generalize hcs : (s.chans.map fun c => (isSendPending c).1) = cs at *
  cases hp : cs.filter (·.sending.isSome) with
  | nil =>
    intro c hc
    have hmem : (isSendPending c).1 ∈ cs := by rw [← hcs]; exact List.mem_map.mpr ⟨c, hc, rfl⟩
    have : ¬ ((isSendPending c).1.sending.isSome = true) := by
      intro hs
      have : (isSendPending c).1 ∈ cs.filter (·.sending.isSome) := List.mem_filter.mpr ⟨hmem, hs⟩
      rw [hp] at this; cases this
    have hnone : (isSendPending c).1.sending = none := by
      cases hh : (isSendPending c).1.sending with
      | none => rfl
      | some b => rw [hh] at this; simp at this
    exact (isSendPending_props s.maxSize c).2.2 hnone
  | cons c0 pend' =>
    rw [hp] at h
    simp only at h
    generalize hid : (if (c0 :: pend').any (·.id = pick) then pick else c0.id) = id at h
    cases hf : cs.find? (·.id = id) with
    | some c => rw [hf] at h; simp at h
    | none =>
      exfalso
      have hmem : ∀ y ∈ (c0 :: pend'), y ∈ cs := by
        intro y hy
        rw [← hp] at hy
        exact (List.mem_filter.mp hy).1
      have hex : ∃ y ∈ cs, y.id = id := by
        by_cases ha : (c0 :: pend').any (·.id = pick) = true
        · rw [if_pos ha] at hid
          obtain ⟨y, hy, hyp⟩ := List.any_eq_true.mp ha
          exact ⟨y, hmem y hy, by rw [← hid]; simpa using hyp⟩
        · rw [if_neg ha] at hid
          exact ⟨c0, hmem c0 (by simp), hid⟩
      obtain ⟨y, hy, hyid⟩ := hex
      have := List.find?_eq_none.mp hf y hy
      simp [hyid] at this

/-- sender and receiver joined: whatever the interleaving of `TrySend` calls and `sendPacketMsg`
picks, once the sender owes nothing, the receive loop fed with the emitted packets has delivered,
per channel, exactly the accepted messages in order -/
theorem end_to_end (mx : Nat) (hmx : 0 < mx) (ds : List Desc) (hnd : (ds.map (·.id)).Nodup)
    (hbyte : ∀ d ∈ ds, d.id ≤ 255) (ops : List SOp)
    (hidle : idle (runOps (Sender.new mx ds) {} ops).1)
    (hcap : ∀ d ∈ ds, ∀ m ∈ delivered d.id (runOps (Sender.new mx ds) {} ops).2.acc,
      m.length ≤ d.fillDefaults.recvMessageCapacity) :
    (recvAll (Receiver.new mx ds) (msgFrames (fun p => packetSize p.chId.toNat p.eof p.data.length)
        (runOps (Sender.new mx ds) {} ops).2.wire)).1.stopped = none ∧
    ∀ d ∈ ds,
      delivered d.id (recvAll (Receiver.new mx ds) (msgFrames (fun p => packetSize p.chId.toNat p.eof p.data.length)
        (runOps (Sender.new mx ds) {} ops).2.wire)).2 =
      delivered d.id (runOps (Sender.new mx ds) {} ops).2.acc := by
  obtain ⟨hs0, hw0⟩ := new_inv mx ds hnd
  obtain ⟨hS, hW, hM⟩ := runOps_inv (ds.map (·.id)) ops (Sender.new mx ds) {} hmx hs0 hw0
  generalize runOps (Sender.new mx ds) {} ops = st at *
  have hmax : st.1.maxSize = mx := hM
  -- per-channel projection of the wire
  have hproj : ∀ d ∈ ds, proj d.id st.2.wire = (delivered d.id st.2.acc).flatMap (packetize mx) := by
    intro d hd
    have : d.id ∈ st.1.chans.map (·.id) := by rw [hW.1]; exact List.mem_map.mpr ⟨d, hd, rfl⟩
    obtain ⟨c, hc, hcid⟩ := List.mem_map.mp this
    have h1 := hS.2 c hc
    rw [hidle c hc, List.append_nil, hmax, hcid] at h1
    exact h1
  -- lookups in the fresh receiver
  have hlook : ∀ id c, (Receiver.new mx ds).chans.find? (·.id = id) = some c →
      ∃ d ∈ ds, d.id = id ∧ c.recving = [] ∧ c.cap = d.fillDefaults.recvMessageCapacity := by
    intro id c hc
    have hm := List.mem_of_find?_eq_some hc
    have hi : c.id = id := by simpa using List.find?_some hc
    simp only [Receiver.new, List.mem_map] at hm
    obtain ⟨d, hd, rfl⟩ := hm
    exact ⟨d, hd, hi, rfl, rfl⟩
  have hsome : ∀ d ∈ ds, ((Receiver.new mx ds).chans.find? (·.id = d.id)).isSome := by
    intro d hd
    rw [List.find?_isSome]
    exact ⟨RChan.new d, by simp only [Receiver.new]; exact List.mem_map.mpr ⟨d, hd, rfl⟩, by simp [RChan.new]⟩
  have hspec := recvAll_spec (fun p => packetSize p.chId.toNat p.eof p.data.length) st.2.wire
    (Receiver.new mx ds) rfl
    (by
      intro p hp
      obtain ⟨hlen, i, hi, hpi⟩ := hW.2 p hp
      obtain ⟨d, hd, rfl⟩ := List.mem_map.mp hi
      have hb := hbyte d hd
      refine ⟨?_, by omega, by omega, ?_⟩
      · show _ ≤ maxPacketMsgSize mx
        apply packetSize_le
        · rw [hpi]; simpa using hb
        · rw [hmax] at hlen; exact hlen
      · rw [hpi]; simpa using hsome d hd)
    (by
      intro id c hc
      obtain ⟨d, hd, rfl, hr, hcp⟩ := hlook id c hc
      rw [hr, hcp, hproj d hd]
      exact fits_flatMap_packetize mx _ hmx _ (hcap d hd))
  refine ⟨hspec.1, ?_⟩
  intro d hd
  obtain ⟨c, hc⟩ := Option.isSome_iff_exists.mp (hsome d hd)
  obtain ⟨d', hd', hid', hr, _⟩ := hlook d.id c hc
  have := (hspec.2 d.id c hc).1
  rw [this, hr, hproj d hd, reasm_flatMap_packetize mx hmx]


/-! ### fairness of the send routine -/

/-- a pending channel that is picked is served: `sendPacketMsg` with `pick = c.id` emits a packet
of channel `c` whenever `c` still owes the wire something -/
theorem step_pick_serves (s : Sender) (t : Trace) (h : SInv s t) (c : SChan) (hc : c ∈ s.chans)
    (hne : rest s.maxSize c ≠ []) :
    ∃ p, (sendPacketMsg s c.id).2 = some p ∧ p.chId = (c.id : Int) := by
  have h1 := pending_inv s t h
  obtain ⟨hn, _⟩ := h1
  simp only at hn
  unfold sendPacketMsg
  simp only
  generalize hcs : (s.chans.map fun c => (isSendPending c).1) = cs at *
  -- the image of c after the isSendPending pass is pending
  have hc' : (isSendPending c).1 ∈ cs := by rw [← hcs]; exact List.mem_map.mpr ⟨c, hc, rfl⟩
  obtain ⟨hid, _, hnone⟩ := isSendPending_props s.maxSize c
  have hsome : (isSendPending c).1.sending.isSome = true := by
    cases hh : (isSendPending c).1.sending with
    | some b => rfl
    | none => exact absurd (hnone hh) hne
  have hpend : (isSendPending c).1 ∈ cs.filter (·.sending.isSome) := List.mem_filter.mpr ⟨hc', hsome⟩
  cases hp : cs.filter (·.sending.isSome) with
  | nil => rw [hp] at hpend; cases hpend
  | cons c0 pend' =>
    simp only
    have hany : (c0 :: pend').any (·.id = c.id) = true := by
      rw [← hp]
      exact List.any_eq_true.mpr ⟨_, hpend, by simp [hid]⟩
    rw [if_pos hany]
    have hf : cs.find? (·.id = c.id) = some (isSendPending c).1 := by
      cases hfind : cs.find? (·.id = c.id) with
      | none =>
        have := List.find?_eq_none.mp hfind _ hc'
        simp [hid] at this
      | some y =>
        have hym := List.mem_of_find?_eq_some hfind
        have hyid : y.id = c.id := by simpa using List.find?_some hfind
        rw [eq_of_id cs hn y hym _ hc' (by omega)]
    rw [hf]
    simp only
    obtain ⟨g1, _, _⟩ := nextPacketMsg_gen s.maxSize (isSendPending c).1
    exact ⟨_, rfl, by rw [g1, hid]⟩


/-- how often the send routine's choice falls on channel `id` in an op sequence -/
def picksOf (id : Nat) : List SOp → Nat
  | [] => 0
  | .step p :: ops => (if p = id then 1 else 0) + picksOf id ops
  | .send _ _ :: ops => picksOf id ops

theorem prefix_of_append {α : Type} (a b L m : List α) (h : a ++ b = L ++ m) (hl : L.length ≤ a.length) :
    ∃ e, a = L ++ e := by
  rcases List.append_eq_append_iff.mp h with ⟨a', h1, _⟩ | ⟨c', h1, _⟩
  · have : a'.length = 0 := by
      have := congrArg List.length h1; simp at this; omega
    have : a' = [] := List.eq_nil_of_length_eq_zero this
    subst this
    exact ⟨[], by simpa using h1.symm⟩
  · exact ⟨c', h1⟩

/-- one op only appends to the wire and to the accepted log -/
theorem runOp_extends (s : Sender) (t : Trace) (op : SOp) (id : Nat) :
    (∃ ew, proj id (runOp s t op).2.wire = proj id t.wire ++ ew) ∧
    (∃ ea, delivered id (runOp s t op).2.acc = delivered id t.acc ++ ea) := by
  cases op with
  | send ch m =>
    simp only [runOp]
    split
    · exact ⟨⟨[], by simp⟩, ⟨_, delivered_append id ch m t.acc⟩⟩
    · exact ⟨⟨[], by simp⟩, ⟨[], by simp⟩⟩
  | step pick =>
    simp only [runOp]
    split
    · rename_i p _
      exact ⟨⟨_, proj_append id p t.wire⟩, ⟨[], by simp⟩⟩
    · exact ⟨⟨[], by simp⟩, ⟨[], by simp⟩⟩

theorem fair_core (ids : List Nat) (id : Nat) (L : List (Bool × Bytes)) (mx : Nat) (hmx : 0 < mx) :
    ∀ (ops : List SOp) (s : Sender) (t : Trace), s.maxSize = mx → SInv s t → WInv ids s t → id ∈ ids →
      (∃ more, (delivered id t.acc).flatMap (packetize mx) = L ++ more) →
      L.length ≤ (proj id t.wire).length + picksOf id ops →
      L.length ≤ (proj id (runOps s t ops).2.wire).length ∧
      (∃ more, (delivered id (runOps s t ops).2.acc).flatMap (packetize mx) = L ++ more) ∧
      SInv (runOps s t ops).1 (runOps s t ops).2 ∧ (runOps s t ops).1.maxSize = mx ∧
      WInv ids (runOps s t ops).1 (runOps s t ops).2 := by
  intro ops
  induction ops with
  | nil =>
    intro s t hm hS hW _ hacc hlen
    simp only [picksOf, Nat.add_zero] at hlen
    exact ⟨hlen, hacc, hS, hm, hW⟩
  | cons op ops ih =>
    intro s t hm hS hW hid hacc hlen
    simp only [runOps]
    have hstep : SInv (runOp s t op).1 (runOp s t op).2 ∧ (runOp s t op).1.maxSize = s.maxSize := by
      cases op with
      | send ch m => exact trySend_inv s t ch m hS
      | step pick => exact sendPacketMsg_inv s t pick (by omega) hS
    have hW' := runOp_winv ids s t op hW
    obtain ⟨⟨ew, hew⟩, ⟨ea, hea⟩⟩ := runOp_extends s t op id
    obtain ⟨more, hmore⟩ := hacc
    have hacc' : ∃ more', (delivered id (runOp s t op).2.acc).flatMap (packetize mx) = L ++ more' :=
      ⟨more ++ ea.flatMap (packetize mx), by rw [hea, List.flatMap_append, hmore, List.append_assoc]⟩
    apply ih _ _ (by rw [hstep.2, hm]) hstep.1 hW' hid hacc'
    -- the length bookkeeping
    cases op with
    | send ch m =>
      simp only [picksOf] at hlen
      rw [hew, List.length_append]; omega
    | step pick =>
      simp only [picksOf] at hlen
      by_cases hp : pick = id
      · subst hp
        simp only [if_true] at hlen
        by_cases hdone : L.length ≤ (proj pick t.wire).length
        · rw [hew, List.length_append]; omega
        · -- the channel still owes part of L: it is served
          have hin : pick ∈ s.chans.map (·.id) := by rw [hW.1]; exact hid
          obtain ⟨c, hc, hcid⟩ := List.mem_map.mp hin
          have hinv := hS.2 c hc
          rw [hcid, hm, hmore] at hinv
          have hne : rest s.maxSize c ≠ [] := by
            intro hnil
            rw [hm] at hnil
            rw [hnil, List.append_nil] at hinv
            have := congrArg List.length hinv
            simp at this; omega
          obtain ⟨p, hp1, hp2⟩ := step_pick_serves s t hS c hc hne
          rw [hcid] at hp1 hp2
          have : proj pick (runOp s t (.step pick)).2.wire = proj pick t.wire ++ [(p.eof, p.data)] := by
            simp only [runOp, hp1]
            rw [proj_append, if_pos hp2]
          rw [this, List.length_append]; simp; omega
      · simp only [hp, if_false, Nat.zero_add] at hlen
        rw [hew, List.length_append]; omega


/-- every message accepted on channel `c` before `ops2` is completely on the wire after `ops2`,
provided the send routine's choice falls on `c` at least as often as `c` owed packets -/
theorem fair_pick_transmits_lemma (mx : Nat) (hmx : 0 < mx) (ds : List Desc) (hnd : (ds.map (·.id)).Nodup)
    (ops1 ops2 : List SOp) (c : SChan)
    (hc : c ∈ (runOps (Sender.new mx ds) {} ops1).1.chans)
    (hfair : (rest mx c).length ≤ picksOf c.id ops2) :
    ∃ extra, proj c.id (runOps (runOps (Sender.new mx ds) {} ops1).1 (runOps (Sender.new mx ds) {} ops1).2 ops2).2.wire =
      (delivered c.id (runOps (Sender.new mx ds) {} ops1).2.acc).flatMap (packetize mx) ++ extra := by
  obtain ⟨hs0, hw0⟩ := new_inv mx ds hnd
  obtain ⟨hS, hW, hM⟩ := runOps_inv (ds.map (·.id)) ops1 (Sender.new mx ds) {} hmx hs0 hw0
  generalize runOps (Sender.new mx ds) {} ops1 = st1 at *
  have hm : st1.1.maxSize = mx := hM
  have hinv := hS.2 c hc
  rw [hm] at hinv
  have hid : c.id ∈ ds.map (·.id) := by rw [← hW.1]; exact List.mem_map.mpr ⟨c, hc, rfl⟩
  have hlen : ((delivered c.id st1.2.acc).flatMap (packetize mx)).length ≤
      (proj c.id st1.2.wire).length + picksOf c.id ops2 := by
    rw [← hinv, List.length_append]; omega
  obtain ⟨h1, ⟨more, h2⟩, h3, h4, h5⟩ := fair_core (ds.map (·.id)) c.id _ mx hmx ops2 st1.1 st1.2 hm hS hW hid
    ⟨[], by simp⟩ hlen
  generalize runOps st1.1 st1.2 ops2 = st2 at *
  have hin : c.id ∈ st2.1.chans.map (·.id) := by rw [h5.1]; exact hid
  obtain ⟨c2, hc2, hc2id⟩ := List.mem_map.mp hin
  have hinv2 := h3.2 c2 hc2
  rw [hc2id, h4, h2] at hinv2
  exact prefix_of_append _ _ _ _ hinv2 h1

/-! ### peer level -/

/-- what a switch's reactor sees: every arriving `(peer, bytes)` decoded by a function of THOSE
bytes (a fresh message object per delivery) -/
def hubDeliver {α : Type} (decode : Bytes → α) (arrivals : List (Nat × Bytes)) : List (Nat × α) :=
  arrivals.map fun a => (a.1, decode a.2)

end Tmv.MConn
