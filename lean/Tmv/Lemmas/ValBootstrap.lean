import Tmv.Lemmas.ValRollback
/-! A store started by `store.Bootstrap` (state sync) at an arbitrary height satisfies the store
invariant, so `load_exact` also covers chains continued from a bootstrapped store. -/
namespace Tmv.ValStore
open Tmv.ValSet

/-- what state sync hands to `Bootstrap`: a state at height `LastBlockHeight ≥ 1` with the three
sets of heights `LastBlockHeight`, `+1`, `+2` and `LastHeightValidatorsChanged` = the height of
`NextValidators` (as `statesync/stateprovider.go` sets it) -/
structure Bootable (st : State) : Prop where
  lbh : 1 ≤ st.lastBlockHeight
  ih : 1 ≤ st.initialHeight
  lhvc : st.lhvc = st.lastBlockHeight + 2
  last : Full st.lastValidators
  cur : Full st.validators
  next : Full st.nextValidators

/-- the system right after `Bootstrap`: the recorded sets are the three sets of the state -/
def Sys.ofBootstrap (st : State) : Option Sys :=
  match bootstrap st with
  | none => none
  | some db =>
    some ⟨db, st, fun k => if k = st.lastBlockHeight then some st.lastValidators
                           else if k = st.lastBlockHeight + 1 then some st.validators
                           else if k = st.lastBlockHeight + 2 then some st.nextValidators else none,
          st.lastBlockHeight, true⟩

theorem saveValidatorsInfo_self (t : Tbl Info) (h : Int) (v : VSet) (hf : Full v) :
    saveValidatorsInfo t h h v = some (t.put h ⟨h, some v⟩) := by
  unfold saveValidatorsInfo
  have : ¬ h > h := by omega
  simp [this, toProto_full v hf]

theorem inv_ofBootstrap (st : State) (hb : Bootable st) (s0 : Sys)
    (h : Sys.ofBootstrap st = some s0) : Inv s0 := by
  unfold Sys.ofBootstrap at h
  split at h
  · cases h
  · rename_i db hdb
    simp only [Option.some.injEq] at h
    subst h
    generalize hn : st.lastBlockHeight = n at *
    have hn1 := hb.lbh
    rw [hn] at hn1
    have hlhvc := hb.lhvc
    rw [hn] at hlhvc
    -- the table
    unfold bootstrap at hdb
    rw [hn] at hdb
    have e0 : ¬ n + 1 = 1 := by omega
    have hne : st.lastValidators.vals ≠ [] := hb.last.1
    have hgt : n + 1 > 1 := by omega
    simp only [e0, if_false, hgt, hne, ne_eq, not_false_eq_true, and_self, if_true] at hdb
    have e1 : n + 1 - 1 = n := by omega
    have e2 : n + 1 + 1 = n + 2 := by omega
    rw [e1, e2, saveValidatorsInfo_self _ _ _ hb.last] at hdb
    simp only at hdb
    rw [saveValidatorsInfo_self _ _ _ hb.cur] at hdb
    simp only at hdb
    rw [saveValidatorsInfo_self _ _ _ hb.next] at hdb
    simp only [Option.some.injEq] at hdb
    have hget : ∀ k, db.vals.get k =
        if k = n + 2 then some ⟨n + 2, some st.nextValidators⟩
        else if k = n + 1 then some ⟨n + 1, some st.validators⟩
        else if k = n then some ⟨n, some st.lastValidators⟩ else none := by
      intro k
      rw [← hdb]
      simp only [Tbl.get_put]
      simp [Tbl.get]
    have htip : tip st = n + 2 := by
      unfold tip blockHeight; rw [hn]
      have : ¬ n = 0 := by omega
      simp only [this, if_false]; omega
    -- every record is a full record of its own height
    have hrec : ∀ k info, db.vals.get k = some info →
        (k = n ∨ k = n + 1 ∨ k = n + 2) ∧ info.lhc = k ∧
        ∃ p, info.set = some p ∧ Full p ∧
          (if k = n then some st.lastValidators else if k = n + 1 then some st.validators
           else if k = n + 2 then some st.nextValidators else none) = some p := by
      intro k info hk
      rw [hget] at hk
      by_cases h2 : k = n + 2
      · subst h2; simp at hk; subst hk
        have a1 : ¬ n + 2 = n := by omega
        have a2 : ¬ n + 2 = n + 1 := by omega
        exact ⟨by omega, rfl, _, rfl, hb.next, by simp [a1, a2]⟩
      · by_cases h1 : k = n + 1
        · subst h1; simp [h2] at hk; subst hk
          have a1 : ¬ n + 1 = n := by omega
          exact ⟨by omega, rfl, _, rfl, hb.cur, by simp [a1]⟩
        · by_cases h0 : k = n
          · subst h0; simp [h2, h1] at hk; subst hk
            exact ⟨by omega, rfl, _, rfl, hb.last, by simp⟩
          · simp [h2, h1, h0] at hk
    refine ⟨by show 1 ≤ n; omega, by show n ≤ tip st; rw [htip]; omega, hb.ih,
      by show 0 ≤ st.lastBlockHeight; omega, hb.next, ?_, ?_, ?_, ?_, ?_, hb.cur, fun _ => hb.last, ?_, ?_⟩
    · show (if tip st = n then _ else _) = some st.nextValidators
      rw [htip]
      have a1 : ¬ n + 2 = n := by omega
      have a2 : ¬ n + 2 = n + 1 := by omega
      simp [a1, a2]
    · intro info hinfo
      have hinfo' : db.vals.get (tip st) = some info := hinfo
      rw [htip] at hinfo'
      obtain ⟨_, hl, _⟩ := hrec _ _ hinfo'
      show info.lhc = st.lhvc
      rw [hl, hlhvc]
    · intro k hk1 hk2
      have hk1' : n ≤ k := hk1
      have hk2' : k ≤ tip st := hk2
      rw [htip] at hk2'
      have hex : ∃ info, db.vals.get k = some info := by
        rw [hget]
        by_cases h2 : k = n + 2
        · simp [h2]
        · by_cases h1 : k = n + 1
          · simp [h1]
          · have h0 : k = n := by omega
            subst h0
            have b2 : ¬ k = k + 2 := by omega
            have b1 : ¬ k = k + 1 := by omega
            simp [b2, b1]
      obtain ⟨info, hinfo⟩ := hex
      obtain ⟨_, _, p, hp, hfull, htr⟩ := hrec k info hinfo
      refine ⟨info, hinfo, ?_, ?_⟩
      · intro q hq
        rw [hp] at hq; cases hq
        exact ⟨htr, hfull⟩
      · intro hnone; rw [hp] at hnone; cases hnone
    · intro k info _ hk
      have hk' : db.vals.get k = some info := hk
      obtain ⟨hkk, hl, p, hp, _, _⟩ := hrec k info hk'
      refine ⟨by omega, by omega, ?_, ?_⟩
      · rw [hp, hl]; simp
      · intro k2 i2 hk2 _ hg2
        obtain ⟨_, hl2, _⟩ := hrec k2 i2 hg2
        rw [hl, hl2]
        exact ⟨hk2, fun h => by omega⟩
    · intro _ k hk
      have hk' : tip st < k := hk
      rw [htip] at hk'
      show db.vals.get k = none
      rw [hget]
      have a2 : ¬ k = n + 2 := by omega
      have a1 : ¬ k = n + 1 := by omega
      have a0 : ¬ k = n := by omega
      simp [a2, a1, a0]
    · intro _
      show (if tip st - 1 = n then _ else _) = some st.validators
      rw [htip]
      have a2 : n + 2 - 1 = n + 1 := by omega
      have a1 : ¬ n + 1 = n := by omega
      rw [a2]
      simp [a1]
    · intro _ _
      show (if tip st - 2 = n then _ else _) = some st.lastValidators
      rw [htip]
      have a1 : n + 2 - 2 = n := by omega
      simp [a1]

theorem ofBootstrap_clean (st : State) (s0 : Sys) (h : Sys.ofBootstrap st = some s0) :
    s0.clean = true := by
  unfold Sys.ofBootstrap at h
  split at h
  · cases h
  · cases h; rfl

end Tmv.ValStore
