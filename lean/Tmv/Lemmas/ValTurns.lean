import Tmv.Lemmas.ValUpdBound
/-! Turns are proportional to voting power: the closed form of one calm rotation (no rescale, the
centring is the identity) and the k-step accounting identity
`priority_k(a) = priority_0(a) + k·power(a) − turns_k(a)·total`. -/
namespace Tmv.ValSet

def prioOf (l : List Val) (a : Nat) : Int :=
  match findAddr l a with
  | some v => v.prio
  | none => 0

/-- centred: the sum of priorities is in `[0, n)` (true after every update and every rotation) -/
def Centred (l : List Val) : Prop := 0 ≤ prioSum l ∧ prioSum l < (l.length : Int)

/-- no rescale triggers: `computeMaxMinPriorityDiff ≤ 2·total` -/
def NoRescale (l : List Val) : Prop := prioDiff l ≤ 2 * sumPower l

theorem findAddr_map (l : List Val) (f : Val → Val) (hf : ∀ v, (f v).addr = v.addr) (a : Nat) :
    findAddr (l.map f) a = (findAddr l a).map f := by
  induction l with
  | nil => rfl
  | cons v r ih =>
    unfold findAddr at ih ⊢
    simp only [List.map_cons, List.find?_cons, hf]
    by_cases h : v.addr = a
    · simp [h]
    · simp only [h, decide_false]; exact ih

theorem setPrio_self (v : Val) : setPrio v v.prio = v := rfl

theorem map_setPrio_id (l : List Val) : l.map (fun v => setPrio v (v.prio - 0)) = l := by
  induction l with
  | nil => rfl
  | cons v r ih =>
    simp only [List.map_cons, Int.sub_zero] at ih ⊢
    rw [ih]
    cases v; rfl

/-- on a centred list within the window, `normalize` is the identity -/
theorem normalize_calm (l : List Val) (P : Int) (hne : l ≠ []) (hP : 0 ≤ P)
    (hP2 : P ≤ 3458764513820540925) (hb : PBound P l) (htot : totalPower l = sumPower l)
    (hT : 0 < sumPower l) (hc : Centred l) (hn : NoRescale l) : normalize l = l := by
  have hres : rescale l (2 * sumPower l) = l := by
    unfold rescale
    have h0 : ¬ 2 * sumPower l ≤ 0 := by omega
    have h1 : ¬ prioDiff l > 2 * sumPower l := by unfold NoRescale at hn; omega
    simp only [h0, if_false, h1]
  unfold normalize
  rw [windowFactor_eq, htot, hres]
  obtain ⟨d0, d1, d2, _⟩ := prioDiff_spec l P hne hP hP2 hb
  obtain ⟨e, _⟩ := shift_spec l P (prioDiff l) hne hP hP2 hb d2
  rw [e]
  have havg : avgPrio l = 0 := by
    unfold avgPrio
    exact Int.ediv_eq_zero_of_lt hc.1 hc.2
  rw [havg]
  exact map_setPrio_id l

/-- the closed form of one rotation in which `m` proposes -/
def rotate (l : List Val) (m : Val) (T : Int) : List Val :=
  l.map (fun v => setPrio v (v.prio + v.power - (if v.addr = m.addr then T else 0)))

/-- **one calm rotation, closed form.** On a reachable, centred set within the window,
`IncrementProposerPriority(1)` is exactly: everybody gains its power, the member `m` whose
`priority + power` is maximal (ties: lowest address) pays the total and is the proposer. -/
theorem increment_calm (s : VSet) (hr : Reach s.vals) (hc : Centred s.vals) (hn : NoRescale s.vals) :
    ∃ m, m ∈ s.vals ∧
      increment s 1 = some ⟨rotate s.vals m (sumPower s.vals),
        some (setPrio m (m.prio + m.power - sumPower s.vals))⟩ ∧
      mostPrio (s.vals.map (fun v => setPrio v (v.prio + v.power))) =
        some (setPrio m (m.prio + m.power)) := by
  have hwf := hr.wf
  have hT1 := hwf.total_pos
  have hT2 := hwf.total_le
  rw [maxTotal_eq] at hT2
  have hpos : ∀ v ∈ s.vals, 0 ≤ v.power := fun v hv => by have := hwf.pos v hv; omega
  have htot := hwf.total_eq
  have hnorm := normalize_calm s.vals prioCap hwf.ne (by unfold prioCap; omega) (by unfold prioCap; omega)
    hr.bound htot hT1 hc hn
  have hpow : ∀ v ∈ s.vals, 0 ≤ v.power ∧ v.power ≤ sumPower s.vals :=
    fun v hv => ⟨hpos v hv, power_le_sum s.vals hpos v hv⟩
  obtain ⟨io, _⟩ := incrOnce_spec' s.vals (sumPower s.vals) prioCap hwf.ne hwf.nodup
    (by unfold prioCap; omega) (by unfold prioCap; omega) (by omega) hT2 hpow hr.bound
  obtain ⟨m1, hm1, hmost, hout1, hout2⟩ := io.exact
  obtain ⟨m, hm, hm1e⟩ := mem_map_setPrio hm1
  refine ⟨m, hm, ?_, by rw [hmost, hm1e]⟩
  have hinc : increment s 1 = some ⟨(incrOnce s.vals (sumPower s.vals)).1, (incrOnce s.vals (sumPower s.vals)).2⟩ := by
    unfold increment
    have h1 : ¬ ((1 : Int) ≤ 0) := by omega
    have h2 : (1 : Int).toNat = 1 := rfl
    simp only [hwf.ne, if_false, h1, h2, hnorm, htot, incrLoop]
  rw [hinc, hout1, hout2]
  have hm1a : m1.addr = m.addr := by rw [hm1e]; rfl
  have hm1p : m1.prio = m.prio + m.power := by rw [hm1e]; rfl
  congr 2
  · unfold rotate
    rw [List.map_map]
    apply List.map_congr_left
    intro v hv
    simp only [Function.comp]
    have hva : (setPrio v (v.prio + v.power)).addr = v.addr := rfl
    rw [hva, hm1a]
    by_cases hvm : v.addr = m.addr
    · have : v = m := nodup_map_inj s.vals hwf.nodup v m hv hm hvm
      subst this
      simp only [if_true, hm1e]
      cases v; simp [setPrio]
    · simp only [hvm, if_false, Int.sub_zero]
  · rw [hm1e]; cases m; simp [setPrio]

/-- `k` single rotations (what the chain does over `k` heights / rounds without set changes) -/
def rotations : Nat → VSet → Option VSet
  | 0, s => some s
  | k+1, s =>
    match increment s 1 with
    | none => none
    | some s' => rotations k s'

/-- number of turns (times proposer) of address `a` during `k` single rotations from `s` -/
def turns (a : Nat) : Nat → VSet → Int
  | 0, _ => 0
  | k+1, s =>
    match increment s 1 with
    | none => 0
    | some s' => (if s'.proposer.map (·.addr) = some a then 1 else 0) + turns a k s'

/-- no rescale triggers at any of the `k` rotations -/
def CalmRun : Nat → VSet → Prop
  | 0, _ => True
  | k+1, s => NoRescale s.vals ∧ ∀ s', increment s 1 = some s' → CalmRun k s'

theorem calm_bound (l : List Val) (hr : Reach l) (hc : Centred l) (hn : NoRescale l) :
    PBound (2 * sumPower l) l := by
  obtain ⟨d0, d1, d2, _⟩ := prioDiff_spec l prioCap hr.wf.ne (by unfold prioCap; omega)
    (by unfold prioCap; omega) hr.bound
  have havg : avgPrio l = 0 := by
    unfold avgPrio; exact Int.ediv_eq_zero_of_lt hc.1 hc.2
  intro v hv
  obtain ⟨b1, b2⟩ := avgPrio_bounds l (v.prio - prioDiff l) (v.prio + prioDiff l) hr.wf.ne (by
    intro w hw
    have := d2 v hv w hw
    have := d2 w hw v hv
    omega)
  unfold NoRescale at hn
  omega

theorem prioOf_rotate (l : List Val) (m : Val) (T : Int) (v : Val) (hv : v ∈ l)
    (hnd : (l.map (·.addr)).Nodup) :
    prioOf (rotate l m T) v.addr = v.prio + v.power - (if v.addr = m.addr then T else 0) := by
  unfold prioOf rotate
  rw [findAddr_map l (fun v => setPrio v (v.prio + v.power - (if v.addr = m.addr then T else 0)))
    (fun _ => rfl)]
  cases hf : findAddr l v.addr with
  | none => exact absurd rfl (findAddr_none hf v hv)
  | some w =>
    obtain ⟨hw, hwa⟩ := findAddr_some hf
    have : w = v := nodup_map_inj l hnd w v hw hv hwa
    subst this
    rfl

/-- one calm rotation: the successor, its invariants and the accounting of one step -/
theorem calm_step (s : VSet) (hr : Reach s.vals) (hc : Centred s.vals) (hn : NoRescale s.vals) :
    ∃ s' m, increment s 1 = some s' ∧ m ∈ s.vals ∧ Reach s'.vals ∧ Centred s'.vals ∧
      sumPower s'.vals = sumPower s.vals ∧ PBound (3 * sumPower s.vals) s'.vals ∧
      s'.proposer.map (·.addr) = some m.addr ∧
      s'.vals = rotate s.vals m (sumPower s.vals) := by
  obtain ⟨m, hm, hinc, _⟩ := increment_calm s hr hc hn
  obtain ⟨s2, h1, h2, h3, h4, h5, h6, h7, _⟩ := increment_one_spec s hr.wf hr.bound
  rw [hinc] at h1
  cases h1
  exact ⟨_, m, hinc, hm, ⟨h2, h5⟩, ⟨h6, h7⟩, h3.sumPower, h4, rfl, rfl⟩

/-- **accounting identity.** After `k` calm single rotations:
`priority_k(a) = priority_0(a) + k·power(a) − turns_k(a)·total`, the set stays reachable, and (for
`k ≥ 1`) the priorities are within `3·total`. -/
theorem turns_identity (k : Nat) (s : VSet) (hr : Reach s.vals) (hc : Centred s.vals)
    (hcalm : CalmRun k s) :
    ∃ sk, rotations k s = some sk ∧ Reach sk.vals ∧ sumPower sk.vals = sumPower s.vals ∧
      (1 ≤ k → PBound (3 * sumPower s.vals) sk.vals) ∧
      ∀ v ∈ s.vals, prioOf sk.vals v.addr =
        v.prio + (k : Int) * v.power - turns v.addr k s * sumPower s.vals := by
  induction k generalizing s with
  | zero =>
    refine ⟨s, rfl, hr, rfl, fun h => by omega, ?_⟩
    intro v hv
    simp only [turns, Int.zero_mul, Int.natCast_zero, Int.add_zero, Int.sub_zero]
    unfold prioOf
    cases hf : findAddr s.vals v.addr with
    | none => exact absurd rfl (findAddr_none hf v hv)
    | some w =>
      obtain ⟨hw, hwa⟩ := findAddr_some hf
      have : w = v := nodup_map_inj s.vals hr.wf.nodup w v hw hv hwa
      rw [this]
  | succ k ih =>
    obtain ⟨hn, hnext⟩ := hcalm
    obtain ⟨s', m, hinc, hm, hr', hc', hT', hb', hprop, hvals⟩ := calm_step s hr hc hn
    obtain ⟨sk, hrot, hrk, hTk, hbk, hid⟩ := ih s' hr' hc' (hnext s' hinc)
    refine ⟨sk, by simp only [rotations, hinc]; exact hrot, hrk, by rw [hTk, hT'], ?_, ?_⟩
    · intro _
      cases k with
      | zero =>
        simp only [rotations, Option.some.injEq] at hrot
        rw [← hrot]; exact hb'
      | succ j => rw [← hT']; exact hbk (by omega)
    · intro v hv
      -- the image of v in s'
      have hv' : setPrio v (v.prio + v.power - (if v.addr = m.addr then sumPower s.vals else 0)) ∈ s'.vals := by
        rw [hvals]; unfold rotate
        exact List.mem_map.mpr ⟨v, hv, rfl⟩
      have := hid _ hv'
      simp only [setPrio] at this
      rw [this, hT']
      have ht : turns v.addr (k + 1) s =
          (if some m.addr = some v.addr then 1 else 0) + turns v.addr k s' := by
        rw [turns]; simp only [hinc, hprop]
      rw [ht, Int.natCast_succ, Int.add_mul, Int.add_mul, Int.one_mul]
      by_cases hvm : v.addr = m.addr
      · have h2 : some m.addr = some v.addr := by rw [hvm]
        simp only [hvm, h2, if_true, Int.one_mul]
        omega
      · have h2 : ¬ some m.addr = some v.addr := fun e => hvm (Option.some.inj e).symm
        simp only [hvm, h2, if_false, Int.zero_mul, Int.zero_add, Int.sub_zero]
        omega

/-- **turns_proportional** (no rescale in the window). In any window of `k` consecutive single
rotations without set changes in which no rescale triggers, starting from a reachable, centred
set: `|k·power_i − turns_i·total| ≤ 5·total` for every validator. -/
theorem turns_proportional_calm (k : Nat) (s : VSet) (hr : Reach s.vals) (hc : Centred s.vals)
    (hcalm : CalmRun k s) (v : Val) (hv : v ∈ s.vals) :
    -(5 * sumPower s.vals) ≤ (k : Int) * v.power - turns v.addr k s * sumPower s.vals ∧
    (k : Int) * v.power - turns v.addr k s * sumPower s.vals ≤ 5 * sumPower s.vals := by
  have hT := hr.wf.total_pos
  cases k with
  | zero => simp only [turns, Int.natCast_zero, Int.zero_mul, Int.sub_zero]; omega
  | succ j =>
    obtain ⟨sk, _, hrk, _, hbk, hid⟩ := turns_identity (j + 1) s hr hc hcalm
    have h0 := calm_bound s.vals hr hc hcalm.1 v hv
    have hk : -(3 * sumPower s.vals) ≤ prioOf sk.vals v.addr ∧ prioOf sk.vals v.addr ≤ 3 * sumPower s.vals := by
      unfold prioOf
      cases hf : findAddr sk.vals v.addr with
      | none => simp only; omega
      | some w => exact hbk (by omega) w (findAddr_some hf).1
    have := hid v hv
    omega

/-! ### windows with rescale / centre events -/

/-- `normalize` only rewrites priorities, validator by validator -/
theorem normalize_map (l : List Val) : ∃ g : Val → Int, normalize l = l.map (fun v => setPrio v (g v)) := by
  unfold normalize shiftByAvg
  generalize windowFactor * totalPower l = d
  generalize havg : avgPrio (rescale l d) = a
  unfold rescale
  by_cases h1 : d ≤ 0
  · simp only [h1, if_true]
    exact ⟨fun v => safeSubClip v.prio a, rfl⟩
  · simp only [h1, if_false]
    by_cases h2 : prioDiff l > d
    · simp only [h2, if_true, List.map_map]
      exact ⟨fun v => safeSubClip (Int.tdiv v.prio (Int.tdiv (wrap64 (wrap64 (prioDiff l + d) - 1)) d)) a, rfl⟩
    · simp only [h2, if_false]
      exact ⟨fun v => safeSubClip v.prio a, rfl⟩

/-- one rotation in general (a rescale and a non-trivial centring may happen first) -/
theorem any_step (s : VSet) (hr : Reach s.vals) :
    ∃ s' m, increment s 1 = some s' ∧ m ∈ normalize s.vals ∧ Reach s'.vals ∧
      sumPower s'.vals = sumPower s.vals ∧ PBound (3 * sumPower s.vals) s'.vals ∧
      s'.proposer.map (·.addr) = some m.addr ∧
      s'.vals = rotate (normalize s.vals) m (sumPower s.vals) ∧
      PBound (2 * sumPower s.vals) (normalize s.vals) ∧ SameAP (normalize s.vals) s.vals := by
  have hwf := hr.wf
  have hT1 := hwf.total_pos
  have hT2 := hwf.total_le
  rw [maxTotal_eq] at hT2
  have htot := hwf.total_eq
  obtain ⟨s2, h1, h2, h3, h4, h5, _, _, _, _, _, io⟩ := increment_one_spec s hwf hr.bound
  -- bounds of the normalised list
  obtain ⟨r1, r2⟩ := rescale_spec s.vals prioCap (sumPower s.vals) hwf.ne (by unfold prioCap; omega)
    (by unfold prioCap; omega) hT1 hT2 hr.bound
  have hrap := rescale_sameAP s.vals (2 * sumPower s.vals)
  have hrne : rescale s.vals (2 * sumPower s.vals) ≠ [] := by
    intro e; have := hrap.length; rw [e] at this
    exact hwf.ne (List.eq_nil_of_length_eq_zero this.symm)
  obtain ⟨_, sb, _, _⟩ := shift_spec _ prioCap (2 * sumPower s.vals) hrne (by unfold prioCap; omega)
    (by unfold prioCap; omega) r1 r2
  have hnorm : normalize s.vals = shiftByAvg (rescale s.vals (2 * sumPower s.vals)) := by
    unfold normalize; rw [windowFactor_eq, htot]
  have hnap : SameAP (normalize s.vals) s.vals := by
    rw [hnorm]; exact (shiftByAvg_sameAP _).trans hrap
  have hnnd : ((normalize s.vals).map (·.addr)).Nodup := by rw [hnap.addrs]; exact hwf.nodup
  obtain ⟨m1, hm1, hmost, hout1, hout2⟩ := io.exact
  obtain ⟨m, hm, hm1e⟩ := mem_map_setPrio hm1
  have hinc : increment s 1 = some ⟨(incrOnce (normalize s.vals) (sumPower s.vals)).1,
      (incrOnce (normalize s.vals) (sumPower s.vals)).2⟩ := by
    unfold increment
    have a1 : ¬ ((1 : Int) ≤ 0) := by omega
    have a2 : (1 : Int).toNat = 1 := rfl
    simp only [hwf.ne, if_false, a1, a2, htot, incrLoop]
  have hvals : (incrOnce (normalize s.vals) (sumPower s.vals)).1 =
      rotate (normalize s.vals) m (sumPower s.vals) := by
    rw [hout1]
    unfold rotate
    rw [List.map_map]
    apply List.map_congr_left
    intro v hv
    simp only [Function.comp]
    have hva : (setPrio v (v.prio + v.power)).addr = v.addr := rfl
    have hm1a : m1.addr = m.addr := by rw [hm1e]; rfl
    rw [hva, hm1a]
    by_cases hvm : v.addr = m.addr
    · have : v = m := nodup_map_inj _ hnnd v m hv hm hvm
      subst this
      simp only [if_true, hm1e]
      cases v; simp [setPrio]
    · simp only [hvm, if_false, Int.sub_zero]
  rw [hinc] at h1
  cases h1
  refine ⟨_, m, hinc, hm, ⟨h2, h5⟩, h3.sumPower, h4, ?_, hvals, by rw [hnorm]; exact sb, hnap⟩
  simp only [hout2, Option.map_some, hm1e]
  rfl

/-- number of rotations among the first `k` at which the normalisation changed something -/
def events : Nat → VSet → Int
  | 0, _ => 0
  | k+1, s =>
    match increment s 1 with
    | none => 0
    | some s' => (if normalize s.vals = s.vals then 0 else 1) + events k s'

/-- **turns_proportional** (general). In any window of `k` consecutive single rotations without
set changes, starting from a reachable set whose priorities are within `3·total` (every set a
rotation produces is): `|k·power_i − turns_i·total| ≤ (6 + 5·E)·total`, where `E` is the number of
rotations in the window at which a rescale or a non-trivial centring happened. -/
theorem turns_proportional (k : Nat) (s : VSet) (hr : Reach s.vals)
    (hb : PBound (3 * sumPower s.vals) s.vals) :
    ∃ sk, rotations k s = some sk ∧ Reach sk.vals ∧ sumPower sk.vals = sumPower s.vals ∧
      PBound (3 * sumPower s.vals) sk.vals ∧ 0 ≤ events k s ∧
      ∀ v ∈ s.vals,
        -(5 * sumPower s.vals * events k s) ≤
          prioOf sk.vals v.addr - (v.prio + (k : Int) * v.power - turns v.addr k s * sumPower s.vals) ∧
        prioOf sk.vals v.addr - (v.prio + (k : Int) * v.power - turns v.addr k s * sumPower s.vals) ≤
          5 * sumPower s.vals * events k s := by
  induction k generalizing s with
  | zero =>
    refine ⟨s, rfl, hr, rfl, hb, by simp [events], ?_⟩
    intro v hv
    have : prioOf s.vals v.addr = v.prio := by
      unfold prioOf
      cases hf : findAddr s.vals v.addr with
      | none => exact absurd rfl (findAddr_none hf v hv)
      | some w =>
        obtain ⟨hw, hwa⟩ := findAddr_some hf
        rw [nodup_map_inj s.vals hr.wf.nodup w v hw hv hwa]
    simp only [turns, events, this, Int.natCast_zero, Int.zero_mul, Int.mul_zero]
    omega
  | succ k ih =>
    obtain ⟨s', m, hinc, hm, hr', hT', hb', hprop, hvals, hnb, hnap⟩ := any_step s hr
    obtain ⟨sk, hrot, hrk, hTk, hbk, hek, hid⟩ := ih s' hr' (by rw [hT']; exact hb')
    obtain ⟨g, hg⟩ := normalize_map s.vals
    have hev : events (k + 1) s = (if normalize s.vals = s.vals then 0 else 1) + events k s' := by
      rw [events]; simp only [hinc]
    refine ⟨sk, by simp only [rotations, hinc]; exact hrot, hrk, by rw [hTk, hT'], by rw [← hT']; exact hbk,
      by rw [hev]; split <;> omega, ?_⟩
    intro v hv
    -- images of v under normalisation and rotation
    have hvn : setPrio v (g v) ∈ normalize s.vals := by
      rw [hg]; exact List.mem_map.mpr ⟨v, hv, rfl⟩
    have hgb := hnb _ hvn
    simp only [setPrio] at hgb
    have hvb := hb v hv
    have hv' : setPrio (setPrio v (g v)) ((setPrio v (g v)).prio + (setPrio v (g v)).power -
        (if (setPrio v (g v)).addr = m.addr then sumPower s.vals else 0)) ∈ s'.vals := by
      rw [hvals]; unfold rotate
      exact List.mem_map.mpr ⟨_, hvn, rfl⟩
    have h1 := hid _ hv'
    simp only [setPrio] at h1
    rw [hT'] at h1
    have ht : turns v.addr (k + 1) s =
        (if some m.addr = some v.addr then 1 else 0) + turns v.addr k s' := by
      rw [turns]; simp only [hinc, hprop]
    -- when nothing was normalised, g v = v.prio
    have hgid : normalize s.vals = s.vals → g v = v.prio := by
      intro e
      have hmem : setPrio v (g v) ∈ s.vals := by rw [← e]; exact hvn
      have := nodup_map_inj s.vals hr.wf.nodup _ v hmem hv rfl
      have h2 := congrArg Val.prio this
      exact h2
    rw [ht, hev, Int.natCast_succ, Int.add_mul, Int.add_mul, Int.one_mul, Int.mul_add]
    have hT := hr.wf.total_pos
    by_cases hvm : v.addr = m.addr
    · have h2 : some m.addr = some v.addr := by rw [hvm]
      simp only [hvm, h2, if_true, Int.one_mul] at h1 ⊢
      by_cases hne : normalize s.vals = s.vals
      · have := hgid hne
        simp only [hne, if_true, Int.mul_zero]
        omega
      · simp only [hne, if_false, Int.mul_one]
        omega
    · have h2 : ¬ some m.addr = some v.addr := fun e => hvm (Option.some.inj e).symm
      simp only [hvm, h2, if_false, Int.zero_mul, Int.zero_add, Int.sub_zero] at h1 ⊢
      by_cases hne : normalize s.vals = s.vals
      · have := hgid hne
        simp only [hne, if_true, Int.mul_zero]
        omega
      · simp only [hne, if_false, Int.mul_one]
        omega

end Tmv.ValSet
