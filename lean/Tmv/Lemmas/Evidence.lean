import Tmv.Model.Evidence
/-! Lemmas about the evidence-pool model: key order, the pending key space as a sorted
association list, the size counter, what each operation preserves. -/
namespace Tmv.Evidence

variable (c : Ctx)

/-! ### key order -/

theorem keyLt_irrefl (a : Key) : keyLt a a = false := by
  simp [keyLt]

theorem keyLt_trans {a b d : Key} (h1 : keyLt a b = true) (h2 : keyLt b d = true) : keyLt a d = true := by
  simp [keyLt] at *
  omega

theorem keyLt_total {a b : Key} (h1 : keyLt a b = false) (h2 : a ≠ b) : keyLt b a = true := by
  have : a.1 ≠ b.1 ∨ a.2 ≠ b.2 := by
    rcases a with ⟨a1, a2⟩; rcases b with ⟨b1, b2⟩
    simp at h2 ⊢
    by_cases h : a1 = b1
    · right; exact h2 h
    · left; exact h
  simp [keyLt] at *
  omega

theorem keyLt_ne {a b : Key} (h : keyLt a b = true) : a ≠ b := by
  intro e; subst e; simp [keyLt_irrefl] at h

theorem keyLt_height {a b : Key} (h : keyLt a b = true) : a.1 ≤ b.1 := by
  simp [keyLt] at h; omega

/-- the pending key space in key order (strictly: keys are unique) -/
def Sorted (l : List Ev) : Prop := List.Pairwise (fun a b => keyLt (key c a) (key c b) = true) l

theorem isPending_iff (p : Pool) (e : Ev) :
    isPending c p e = true ↔ ∃ x ∈ p.pending, key c x = key c e := by
  simp [isPending, List.any_eq_true]

theorem isPending_false_iff (p : Pool) (e : Ev) :
    isPending c p e = false ↔ ∀ x ∈ p.pending, key c x ≠ key c e := by
  rw [← Bool.not_eq_true, isPending_iff]; simp

theorem isCommitted_iff (p : Pool) (e : Ev) : isCommitted c p e = true ↔ key c e ∈ p.committed := by
  simp [isCommitted]

/-! ### `setPending` -/

theorem mem_setPending_self (e : Ev) (l : List Ev) : e ∈ setPending c e l := by
  induction l with
  | nil => simp [setPending]
  | cons x xs ih =>
    unfold setPending
    split
    · simp
    · split
      · simp
      · simp [ih]

theorem mem_of_mem_setPending {e x : Ev} {l : List Ev} (h : x ∈ setPending c e l) : x = e ∨ x ∈ l := by
  induction l with
  | nil => simp [setPending] at h; exact Or.inl h
  | cons y ys ih =>
    unfold setPending at h
    split at h
    · simp at h; rcases h with h | h
      · exact Or.inl h
      · exact Or.inr (by simp [h])
    · split at h
      · simp at h; rcases h with h | h | h
        · exact Or.inl h
        · exact Or.inr (by simp [h])
        · exact Or.inr (by simp [h])
      · simp at h; rcases h with h | h
        · exact Or.inr (by simp [h])
        · rcases ih h with h | h
          · exact Or.inl h
          · exact Or.inr (by simp [h])

theorem mem_setPending_of_mem {e x : Ev} {l : List Ev} (h : x ∈ l) (hk : key c x ≠ key c e) :
    x ∈ setPending c e l := by
  induction l with
  | nil => simp at h
  | cons y ys ih =>
    unfold setPending
    split
    · rename_i heq
      simp at h; rcases h with h | h
      · subst h; simp at heq; exact absurd heq hk
      · simp [h]
    · split
      · simp at h ⊢; rcases h with h | h
        · exact Or.inr (Or.inl h)
        · exact Or.inr (Or.inr h)
      · simp at h ⊢; rcases h with h | h
        · exact Or.inl h
        · exact Or.inr (ih h)

theorem setPending_sorted {e : Ev} {l : List Ev} (hs : Sorted c l) : Sorted c (setPending c e l) := by
  induction l with
  | nil => simp [setPending, Sorted]
  | cons y ys ih =>
    unfold Sorted at hs
    rw [List.pairwise_cons] at hs
    obtain ⟨hy, hys⟩ := hs
    unfold setPending
    split
    · rename_i heq
      simp at heq
      unfold Sorted
      rw [List.pairwise_cons]
      refine ⟨?_, hys⟩
      intro z hz; rw [← heq]; exact hy z hz
    · rename_i hne
      split
      · rename_i hlt
        unfold Sorted
        rw [List.pairwise_cons, List.pairwise_cons]
        refine ⟨?_, hy, hys⟩
        intro z hz
        simp at hz
        rcases hz with hz | hz
        · subst hz; exact hlt
        · exact keyLt_trans hlt (hy z hz)
      · rename_i hnlt
        have hgt : keyLt (key c y) (key c e) = true := by
          apply keyLt_total
          · simpa using hnlt
          · intro h; simp at hne; exact hne h.symm
        unfold Sorted
        rw [List.pairwise_cons]
        refine ⟨?_, ih hys⟩
        intro z hz
        rcases mem_of_mem_setPending c hz with hz | hz
        · subst hz; exact hgt
        · exact hy z hz

theorem length_setPending_new {e : Ev} {l : List Ev} (h : ∀ x ∈ l, key c x ≠ key c e) :
    (setPending c e l).length = l.length + 1 := by
  induction l with
  | nil => simp [setPending]
  | cons y ys ih =>
    unfold setPending
    have hy : key c y ≠ key c e := h y (by simp)
    split
    · rename_i heq; simp at heq; exact absurd heq hy
    · split
      · simp
      · simp; exact ih (fun x hx => h x (by simp [hx]))

/-! ### removing a key -/

theorem sorted_filter {l : List Ev} (q : Ev → Bool) (hs : Sorted c l) : Sorted c (l.filter q) :=
  List.Pairwise.filter q hs

theorem sorted_head_ne {y : Ev} {ys : List Ev} (hs : Sorted c (y :: ys)) :
    ∀ z ∈ ys, key c z ≠ key c y := by
  unfold Sorted at hs
  rw [List.pairwise_cons] at hs
  intro z hz h
  exact keyLt_ne (hs.1 z hz) h.symm

theorem sorted_tail {y : Ev} {ys : List Ev} (hs : Sorted c (y :: ys)) : Sorted c ys := by
  unfold Sorted at hs
  rw [List.pairwise_cons] at hs
  exact hs.2

theorem length_filter_key {e : Ev} {l : List Ev} (hs : Sorted c l) (h : ∃ x ∈ l, key c x = key c e) :
    (l.filter (fun x => !(key c x == key c e))).length + 1 = l.length := by
  induction l with
  | nil => simp at h
  | cons y ys ih =>
    by_cases hy : key c y = key c e
    · have hall : ∀ z ∈ ys, key c z ≠ key c e := by
        intro z hz; rw [← hy]; exact sorted_head_ne c hs z hz
      have : ys.filter (fun x => !(key c x == key c e)) = ys := by
        rw [List.filter_eq_self]; intro z hz; simp [hall z hz]
      simp [List.filter_cons, hy, this]
    · obtain ⟨x, hx, hxe⟩ := h
      simp at hx
      rcases hx with hx | hx
      · subst hx; exact absurd hxe hy
      · have := ih (sorted_tail c hs) ⟨x, hx, hxe⟩
        simp [List.filter_cons, hy]; omega

theorem filter_head {y : Ev} {ys : List Ev} (hs : Sorted c (y :: ys)) :
    (y :: ys).filter (fun x => !(key c x == key c y)) = ys := by
  have : ys.filter (fun x => !(key c x == key c y)) = ys := by
    rw [List.filter_eq_self]; intro z hz; simp [sorted_head_ne c hs z hz]
  simp [List.filter_cons, this]

/-! ### counter arithmetic -/

theorem u32_succ (n m : Nat) (h : n = u32 m) : u32 (n + 1) = u32 (m + 1) := by
  subst h; unfold u32; omega

theorem u32_pred (n m : Nat) (h : n = u32 (m + 1)) : u32 (n + 4294967295) = u32 m := by
  subst h; unfold u32; omega

/-! ### what `verify` establishes -/

/-- `VerifyDuplicateVote` as a predicate: the validator is in the set of that height, both votes are
for the same height/round/type by that validator for different blocks, powers match, both
signatures verify under the validator's key -/
def DVProves (d : DV) (vals : List Validator) : Prop :=
  ∃ val, vals.find? (fun v => v.addr = d.a.addr) = some val ∧
    d.a.height = d.b.height ∧ d.a.round = d.b.round ∧ d.a.typ = d.b.typ ∧
    d.a.addr = d.b.addr ∧ d.a.bid ≠ d.b.bid ∧ val.pkAddr = d.a.addr ∧
    val.power = d.vp ∧ totalPower vals = d.tvp ∧
    c.sigOK val.pkAddr d.a = true ∧ c.sigOK val.pkAddr d.b = true

theorem verifyDV_ok_iff (d : DV) (vals : List Validator) :
    verifyDV c d vals = .ok () ↔ DVProves c d vals := by
  unfold verifyDV DVProves
  cases h : vals.find? (fun v => v.addr = d.a.addr) with
  | none => simp
  | some val =>
    simp only [Option.some.injEq, exists_eq_left']
    repeat' split
    all_goals simp_all
    all_goals omega

def LCAProves (storeH : Int) (l : LCA) : Prop :=
  (signedHeader c storeH l.common).isSome ∧ (loadVals c storeH l.common).isSome ∧
  ((l.common ≠ l.cfh ∧ (signedHeader c storeH l.cfh).isSome) ∨ l.common = l.cfh) ∧
  lcaOK c l l.cfh = true

theorem signedHeader_latest (storeH : Int) : signedHeader c storeH storeH = none := by
  simp [signedHeader]

theorem lcaRes_ok_iff (l : LCA) (th : Int) : lcaRes c l th = .ok () ↔ lcaOK c l th = true := by
  unfold lcaRes lcaOK
  cases h : lcaVerdict c l th with
  | ok u => simp
  | error e => cases e <;> simp

theorem verifyLCA_ok_iff (storeH : Int) (l : LCA) :
    verifyLCA c storeH l = .ok () ↔ LCAProves c storeH l := by
  unfold verifyLCA LCAProves
  rw [signedHeader_latest]
  cases h1 : signedHeader c storeH l.common <;> simp
  cases h2 : loadVals c storeH l.common <;> simp
  by_cases h3 : l.common = l.cfh
  · simp [h3, lcaRes_ok_iff]
  · simp [h3]
    cases h4 : signedHeader c storeH l.cfh <;> simp [lcaRes_ok_iff]

/-- the evidence proves the misbehaviour it claims against the validator set and the block time
of its height, as far as the node's stores reach -/
def Proves (storeH : Int) (e : Ev) : Prop :=
  metaTime c storeH e.height = some e.time ∧
  match e with
  | .dv d => ∃ vs, loadVals c storeH e.height = some vs ∧ DVProves c d vs
  | .lca l => LCAProves c storeH l

theorem expired_comm (st : State) (h t : Int) :
    (decide (st.time - t > st.maxAgeDur) && decide (st.height - h > st.maxAgeBlocks)) = expired st h t := by
  unfold expired; rw [Bool.and_comm]

theorem verify_ok_iff (storeH : Int) (st : State) (e : Ev) :
    verify c storeH st e = .ok () ↔ (Proves c storeH e ∧ expired st e.height e.time = false) := by
  unfold verify Proves
  cases h1 : metaTime c storeH e.height with
  | none => simp
  | some evT =>
    by_cases h2 : e.time = evT
    · subst h2
      simp only [ne_eq, not_true_eq_false, ↓reduceIte, expired_comm]
      cases h3 : expired st e.height e.time
      · cases e with
        | dv d =>
          simp
          cases h4 : loadVals c storeH (Ev.dv d).height with
          | none => simp
          | some vs => simp [verifyDV_ok_iff]
        | lca l => simp [verifyLCA_ok_iff]
      · simp
    · simp [h2]
      intro h; exact absurd h.symm h2

theorem metaTime_mono {s1 s2 h t : Int} (hs : s1 ≤ s2) (h1 : metaTime c s1 h = some t) :
    metaTime c s2 h = some t := by
  unfold metaTime at *
  split at h1
  · rw [if_pos (by omega)]; exact h1
  · simp at h1

theorem loadVals_mono {s1 s2 h : Int} {vs : List Validator} (hs : s1 ≤ s2)
    (h1 : loadVals c s1 h = some vs) : loadVals c s2 h = some vs := by
  unfold loadVals at *
  split at h1
  · rw [if_pos (by omega)]; exact h1
  · simp at h1

theorem signedHeader_mono {s1 s2 h : Int} (hs : s1 ≤ s2)
    (h1 : (signedHeader c s1 h).isSome) : (signedHeader c s2 h).isSome := by
  unfold signedHeader at *
  split at h1
  · rw [if_pos (by omega)]
    cases h2 : metaTime c s1 h with
    | none => simp [h2] at h1
    | some t => simp [metaTime_mono c hs h2]
  · simp at h1

theorem Proves_mono {s1 s2 : Int} {e : Ev} (hs : s1 ≤ s2) (h : Proves c s1 e) : Proves c s2 e := by
  unfold Proves at *
  refine ⟨metaTime_mono c hs h.1, ?_⟩
  cases e with
  | dv d =>
    obtain ⟨vs, h1, h2⟩ := h.2
    exact ⟨vs, loadVals_mono c hs h1, h2⟩
  | lca l =>
    obtain ⟨h1, h2, h3, h4⟩ := h.2
    refine ⟨signedHeader_mono c hs h1, ?_, ?_, h4⟩
    · cases h5 : loadVals c s1 l.common with
      | none => simp [h5] at h2
      | some vs => simp [loadVals_mono c hs h5]
    · rcases h3 with ⟨h3, h6⟩ | h3
      · exact Or.inl ⟨h3, signedHeader_mono c hs h6⟩
      · exact Or.inr h3

end Tmv.Evidence
