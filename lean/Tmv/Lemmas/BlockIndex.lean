import Tmv.Model.IndexerService
import Tmv.Lemmas.Index
set_option linter.unusedSimpArgs false
set_option linter.unusedVariables false
/-! Lemmas about the block index model and the indexer service model. -/
namespace Tmv.BlockIndex
open Tmv.Query Tmv.Index

theorem mem_dbSet (db : DB) (k : BKey) (v : Nat) (row : BKey × Nat) :
    row ∈ dbSet db k v ↔ row = (k, v) ∨ (row ∈ db ∧ row.1 ≠ k) := by
  unfold dbSet
  split
  · rename_i hany
    simp only [List.mem_map]
    constructor
    · rintro ⟨p, hp, rfl⟩
      by_cases hpk : p.1 = k
      · left; simp [hpk]
      · right; simp [hpk, hp]
    · rintro (rfl | ⟨hr, hne⟩)
      · simp only [List.any_eq_true] at hany
        obtain ⟨p, hp, hpk⟩ := hany
        exact ⟨p, hp, by simp [beq_iff_eq.mp hpk]⟩
      · exact ⟨row, hr, by simp [hne]⟩
  · rename_i hany
    simp only [List.mem_append, List.mem_singleton]
    constructor
    · rintro (hr | rfl)
      · right; refine ⟨hr, ?_⟩
        intro e; apply hany
        simp only [List.any_eq_true]
        exact ⟨row, hr, by simp [e]⟩
      · left; rfl
    · rintro (rfl | ⟨hr, _⟩)
      · right; rfl
      · left; exact hr

/-- keys present and keys unique: what `dbSet` and everything built from it preserve -/
def Ext (d0 d : DB) : Prop := (d.map (·.1)).Nodup ∧ ∀ k, k ∈ d0.map (·.1) → k ∈ d.map (·.1)

theorem dbSet_keys (db : DB) (k : BKey) (v : Nat) (h : (db.map (·.1)).Nodup) :
    ((dbSet db k v).map (·.1)).Nodup ∧ (∀ k', k' ∈ db.map (·.1) → k' ∈ (dbSet db k v).map (·.1)) ∧
      k ∈ (dbSet db k v).map (·.1) := by
  unfold dbSet
  split
  · rename_i hany
    have hk : (db.map fun p => if (p.1 == k) = true then (k, v) else p).map (·.1) = db.map (·.1) := by
      rw [List.map_map]
      apply List.map_congr_left
      intro p _
      by_cases e : p.1 = k <;> simp [e]
    rw [hk]
    refine ⟨h, fun _ hk' => hk', ?_⟩
    simp only [List.any_eq_true] at hany
    obtain ⟨p, hp, hpk⟩ := hany
    exact List.mem_map.mpr ⟨p, hp, by simpa using hpk⟩
  · rename_i hany
    rw [List.map_append]
    refine ⟨?_, fun k' hk' => List.mem_append.mpr (Or.inl hk'), by simp⟩
    apply List.nodup_append.mpr
    refine ⟨h, by simp, ?_⟩
    intro a ha b hb
    simp at hb
    subst hb
    intro e; subst e
    apply hany
    simp only [List.mem_map] at ha
    obtain ⟨p, hp, hpk⟩ := ha
    simp only [List.any_eq_true]
    exact ⟨p, hp, by simp [hpk]⟩

theorem ext_refl (d : DB) (h : (d.map (·.1)).Nodup) : Ext d d := ⟨h, fun _ hk => hk⟩

theorem ext_dbSet (d0 d : DB) (k : BKey) (v : Nat) (h : Ext d0 d) : Ext d0 (dbSet d k v) := by
  obtain ⟨h1, h2, _⟩ := dbSet_keys d k v h.1
  exact ⟨h1, fun k' hk' => h2 k' (h.2 k' hk')⟩

theorem foldlM_inv {α β : Type} (P : β → Prop) (f : β → α → Option β)
    (hstep : ∀ b a b', P b → f b a = some b' → P b') (l : List α) (b r : β)
    (hb : P b) (h : l.foldlM f b = some r) : P r := by
  induction l generalizing b with
  | nil => simp [List.foldlM] at h; rw [← h]; exact hb
  | cons a rest ih =>
    simp only [List.foldlM_cons] at h
    cases hfa : f b a with
    | none => rw [hfa] at h; simp at h
    | some b' =>
      rw [hfa] at h
      simp only [Option.bind_eq_bind, Option.bind_some] at h
      exact ih b' (hstep b a b' hb hfa) h

theorem indexEvents_ext (d0 d d' : DB) (evs : List Event) (typ : Str) (h : Nat)
    (hd : Ext d0 d) (he : indexEvents d evs typ h = some d') : Ext d0 d' := by
  unfold indexEvents at he
  refine foldlM_inv (Ext d0) _ ?_ evs d d' hd he
  intro b e b' hb hfe
  unfold indexEvent at hfe
  split at hfe
  · cases hfe; exact hb
  · refine foldlM_inv (Ext d0) _ ?_ e.attrs b b' hb hfe
    intro b2 a b2' hb2 hfa
    unfold indexAttr at hfa
    by_cases h1 : a.key.isEmpty = true
    · simp only [h1, if_true, Option.some.injEq] at hfa
      rw [← hfa]; exact hb2
    · by_cases h2 : ((e.type ++ dot :: a.key) == blockHeightKey) = true
      · simp [h1, h2] at hfa
      · by_cases h3 : a.index = true
        · simp [h1, h2, h3] at hfa
          rw [← hfa]; exact ext_dbSet d0 b2 _ _ hb2
        · simp [h1, h2, h3] at hfa
          rw [← hfa]; exact hb2

/-- `Index` of an accepted block: the height is there afterwards, nothing indexed before is lost,
keys stay unique -/
theorem index_spec (db db' : DB) (h : Nat) (b e : List Event) (hn : (db.map (·.1)).Nodup)
    (hi : index db h b e = some db') :
    has db' h = true ∧ (∀ h', has db h' = true → has db' h' = true) ∧ (db'.map (·.1)).Nodup := by
  unfold index at hi
  simp only [Option.bind_eq_bind] at hi
  cases h2 : indexEvents (dbSet db (.primary h) h) b beginBlock h with
  | none => rw [h2] at hi; simp at hi
  | some d2 =>
    rw [h2] at hi
    simp only [Option.bind_some] at hi
    obtain ⟨n1, s1, m1⟩ := dbSet_keys db (.primary h) h hn
    have e1 : Ext (dbSet db (.primary h) h) (dbSet db (.primary h) h) := ext_refl _ n1
    have e2 := indexEvents_ext _ _ _ _ _ _ e1 h2
    have e3 := indexEvents_ext _ _ _ _ _ _ e2 hi
    have hasIff : ∀ (d : DB) (x : Nat), has d x = true ↔ BKey.primary x ∈ d.map (·.1) := by
      intro d x
      simp only [has, List.any_eq_true, List.mem_map]
      constructor
      · rintro ⟨p, hp, hk⟩; exact ⟨p, hp, by simpa using hk⟩
      · rintro ⟨p, hp, hk⟩; exact ⟨p, hp, by simp [hk]⟩
    refine ⟨(hasIff _ _).mpr (e3.2 _ m1), ?_, e3.1⟩
    intro h' hh'
    exact (hasIff _ _).mpr (e3.2 _ (s1 _ ((hasIff _ _).mp hh')))


theorem keys_dbSet (d : DB) (k : BKey) (v : Nat) (k' : BKey) (h : k' ∈ (dbSet d k v).map (·.1)) :
    k' ∈ d.map (·.1) ∨ k' = k := by
  simp only [List.mem_map] at h
  obtain ⟨row, hrow, rfl⟩ := h
  rcases (mem_dbSet d k v row).mp hrow with rfl | ⟨hr, _⟩
  · right; rfl
  · left; exact List.mem_map.mpr ⟨row, hr, rfl⟩

/-- event rows never add a height: primary keys after `indexEvents` were there before -/
theorem indexEvents_primary (d d' : DB) (evs : List Event) (typ : Str) (h : Nat)
    (he : indexEvents d evs typ h = some d') (x : Nat)
    (hx : BKey.primary x ∈ d'.map (·.1)) : BKey.primary x ∈ d.map (·.1) := by
  have key : ∀ d', indexEvents d evs typ h = some d' →
      (BKey.primary x ∈ d'.map (·.1) → BKey.primary x ∈ d.map (·.1)) := by
    intro d' he
    unfold indexEvents at he
    refine foldlM_inv (fun d2 => BKey.primary x ∈ d2.map (·.1) → BKey.primary x ∈ d.map (·.1)) _ ?_
      evs d d' (fun hh => hh) he
    intro b e b' hb hfe
    unfold indexEvent at hfe
    split at hfe
    · cases hfe; exact hb
    · refine foldlM_inv (fun d2 => BKey.primary x ∈ d2.map (·.1) → BKey.primary x ∈ d.map (·.1)) _ ?_
        e.attrs b b' hb hfe
      intro b2 a b2' hb2 hfa
      unfold indexAttr at hfa
      by_cases h1 : a.key.isEmpty = true
      · simp only [h1, if_true, Option.some.injEq] at hfa
        rw [← hfa]; exact hb2
      · by_cases h2 : ((e.type ++ dot :: a.key) == blockHeightKey) = true
        · simp [h1, h2] at hfa
        · by_cases h3 : a.index = true
          · simp [h1, h2, h3] at hfa
            rw [← hfa]
            intro hk
            rcases keys_dbSet _ _ _ _ hk with hk | hk
            · exact hb2 hk
            · cases hk
          · simp [h1, h2, h3] at hfa
            rw [← hfa]; exact hb2
  exact key d' he hx

theorem has_iff_key (d : DB) (x : Nat) : has d x = true ↔ BKey.primary x ∈ d.map (·.1) := by
  simp only [has, List.any_eq_true, List.mem_map]
  constructor
  · rintro ⟨p, hp, hk⟩; exact ⟨p, hp, by simpa using hk⟩
  · rintro ⟨p, hp, hk⟩; exact ⟨p, hp, by simp [hk]⟩

/-- `Has` after `Index`: exactly the heights indexed before, plus this one -/
theorem index_has_iff (db db' : DB) (h : Nat) (b e : List Event) (hn : (db.map (·.1)).Nodup)
    (hi : index db h b e = some db') (x : Nat) :
    has db' x = true ↔ has db x = true ∨ x = h := by
  constructor
  · intro hx
    unfold index at hi
    simp only [Option.bind_eq_bind] at hi
    cases h2 : indexEvents (dbSet db (.primary h) h) b beginBlock h with
    | none => rw [h2] at hi; simp at hi
    | some d2 =>
      rw [h2] at hi
      simp only [Option.bind_some] at hi
      have k1 := indexEvents_primary _ _ _ _ _ hi x ((has_iff_key _ _).mp hx)
      have k2 := indexEvents_primary _ _ _ _ _ h2 x k1
      rcases keys_dbSet _ _ _ _ k2 with hk | hk
      · left; exact (has_iff_key _ _).mpr hk
      · right; cases hk; rfl
  · obtain ⟨h1, h2, _⟩ := index_spec db db' h b e hn hi
    rintro (hx | rfl)
    · exact h2 x hx
    · exact h1

end Tmv.BlockIndex

namespace Tmv.IndexerService
open Tmv.Index

variable (H : Bytes → Bytes)

/-- every tx result the service batches over a history of committed blocks, in order -/
def allResults (bs : List Block) : List TxResult := bs.flatMap blockResults

theorem addBatch_append (db : Index.DB) (a b : List TxResult) :
    addBatch H (addBatch H db a) b = addBatch H db (a ++ b) := by
  simp [addBatch, List.foldl_append]

theorem run_db (s : State) (bs : List Block) :
    (run H s bs).db = addBatch H s.db (allResults bs) := by
  induction bs generalizing s with
  | nil => rfl
  | cons b rest ih =>
    simp only [run, List.foldl_cons, allResults, List.flatMap_cons] at ih ⊢
    rw [ih, ← addBatch_append]
    rfl

theorem run_append (s : State) (a b : List Block) : run H s (a ++ b) = run H (run H s a) b := by
  simp [run, List.foldl_append]

/-- the block index under the service: keys stay unique, indexed heights stay indexed -/
theorem step_bdb (s : State) (b : Block) (hn : (s.bdb.map (·.1)).Nodup) :
    (((step H s b).bdb).map (·.1)).Nodup ∧
    (∀ h, BlockIndex.has s.bdb h = true → BlockIndex.has (step H s b).bdb h = true) ∧
    (accepted s b = true → BlockIndex.has (step H s b).bdb b.height = true) ∧
    (accepted s b = false → (step H s b).bdb = s.bdb) := by
  unfold step accepted
  cases hi : BlockIndex.index s.bdb b.height b.beginEvents b.endEvents with
  | none => simp [hn]
  | some db' =>
    obtain ⟨h1, h2, h3⟩ := BlockIndex.index_spec _ _ _ _ _ hn hi
    simp [h1, h3]
    exact h2

theorem run_bdb (s : State) (bs : List Block) (hn : (s.bdb.map (·.1)).Nodup) :
    (((run H s bs).bdb).map (·.1)).Nodup ∧
    (∀ h, BlockIndex.has s.bdb h = true → BlockIndex.has (run H s bs).bdb h = true) := by
  induction bs generalizing s with
  | nil => exact ⟨hn, fun _ h => h⟩
  | cons b rest ih =>
    obtain ⟨n1, m1, _, _⟩ := step_bdb H s b hn
    obtain ⟨n2, m2⟩ := ih (step H s b) n1
    exact ⟨n2, fun h hh => m2 h (m1 h hh)⟩

/-- `Has` after a history of committed blocks: exactly the heights of the blocks the block index
accepted when they arrived (plus what was there at the start) -/
theorem run_has_iff (s : State) (bs : List Block) (hn : (s.bdb.map (·.1)).Nodup) (x : Nat) :
    BlockIndex.has (run H s bs).bdb x = true ↔
      BlockIndex.has s.bdb x = true ∨
      ∃ pre b post, bs = pre ++ b :: post ∧ b.height = x ∧ accepted (run H s pre) b = true := by
  induction bs generalizing s with
  | nil =>
    simp only [run, List.foldl_nil]
    constructor
    · intro h; exact Or.inl h
    · rintro (h | ⟨pre, b, post, e, _⟩)
      · exact h
      · cases pre <;> cases e
  | cons b0 rest ih =>
    obtain ⟨n1, _, _, hrej⟩ := step_bdb H s b0 hn
    have hrun : run H s (b0 :: rest) = run H (step H s b0) rest := rfl
    rw [hrun, ih (step H s b0) n1]
    have hstep : BlockIndex.has (step H s b0).bdb x = true ↔
        BlockIndex.has s.bdb x = true ∨ (accepted s b0 = true ∧ b0.height = x) := by
      cases ha : accepted s b0 with
      | false => rw [hrej ha]; simp
      | true =>
        unfold accepted at ha
        cases hi : BlockIndex.index s.bdb b0.height b0.beginEvents b0.endEvents with
        | none => rw [hi] at ha; cases ha
        | some db' =>
          have : (step H s b0).bdb = db' := by simp [step, hi]
          rw [this, BlockIndex.index_has_iff _ _ _ _ _ hn hi x]
          constructor
          · rintro (h | h)
            · exact Or.inl h
            · exact Or.inr ⟨rfl, h.symm⟩
          · rintro (h | ⟨_, h⟩)
            · exact Or.inl h
            · exact Or.inr h.symm
    rw [hstep]
    constructor
    · rintro ((h | ⟨ha, hh⟩) | ⟨pre, b, post, e, hb, hacc⟩)
      · exact Or.inl h
      · exact Or.inr ⟨[], b0, rest, rfl, hh, ha⟩
      · exact Or.inr ⟨b0 :: pre, b, post, by rw [e]; rfl, hb, hacc⟩
    · rintro (h | ⟨pre, b, post, e, hb, hacc⟩)
      · exact Or.inl (Or.inl h)
      · cases pre with
        | nil =>
          simp only [List.nil_append, List.cons.injEq] at e
          obtain ⟨rfl, rfl⟩ := e
          exact Or.inl (Or.inr ⟨hacc, hb⟩)
        | cons p pre' =>
          simp only [List.cons_append, List.cons.injEq] at e
          obtain ⟨rfl, rfl⟩ := e
          exact Or.inr ⟨pre', b, post, rfl, hb, hacc⟩

end Tmv.IndexerService
