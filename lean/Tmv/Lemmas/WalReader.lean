import Tmv.Lemmas.WalHistory
/-! Open readers (`GroupReader` kept across writes, rotations and prunes): the cursor model versus
the byte stream ahead of it (C15). -/
namespace Tmv.Wal
open Tmv

/-- files after the reader's current one, then the head file -/
def readerTail (g : Group) (i : Nat) : Bytes :=
  if i < g.maxIndex then
    ((List.range' (i + 1) (g.maxIndex - (i + 1))).map (fileAt g)).flatten ++ g.head
  else []

/-- the bytes ahead of an open reader -/
def readerStream (g : Group) (r : Reader) : Bytes :=
  (readerContent g r).drop r.off ++ readerTail g r.idx

theorem readerTail_step (g : Group) (i : Nat) (h : i < g.maxIndex) :
    readerTail g i = readerContent g { idx := i + 1 } ++ readerTail g (i + 1) := by
  unfold readerTail readerContent
  simp only [h, if_true]
  by_cases he : i + 1 = g.maxIndex
  · have hn : ¬ i + 1 < g.maxIndex := by omega
    have : g.maxIndex - (i + 1) = 0 := by omega
    simp [he, this]
  · have hl : i + 1 < g.maxIndex := by omega
    have : g.maxIndex - (i + 1) = (g.maxIndex - (i + 1 + 1)) + 1 := by omega
    simp only [he, hl, if_true, if_false]
    rw [this, List.range'_succ]
    simp [fileAt]

theorem sameDisk_readerOpen (g : Group) (j : Nat) : SameDisk g (readerOpen g j) := by
  unfold readerOpen
  split
  · split
    · exact SameDisk.refl g
    · rename_i hnone
      refine ⟨rfl, rfl, rfl, rfl, rfl, rfl, rfl, rfl, rfl, ?_⟩
      intro i
      unfold fileAt
      simp only
      rw [lookup_setFile]
      by_cases hi : i = j
      · subst hi; simp [hnone]
      · simp [hi]
  · exact SameDisk.refl g

theorem readerTail_sameDisk {g g' : Group} (sd : SameDisk g g') (i : Nat) :
    readerTail g' i = readerTail g i := by
  unfold readerTail
  rw [sd.maxIndex, sd.head]
  have : (List.range' (i + 1) (g.maxIndex - (i + 1))).map (fileAt g') =
      (List.range' (i + 1) (g.maxIndex - (i + 1))).map (fileAt g) := by
    apply List.map_congr_left; intro j _; exact sd.files j
  rw [this]

theorem readerContent_fresh_sameDisk {g g' : Group} (sd : SameDisk g g') (i : Nat) :
    readerContent g' { idx := i } = readerContent g { idx := i } := by
  unfold readerContent
  simp only
  rw [sd.maxIndex, sd.head]
  have := sd.files i
  unfold fileAt at this
  rw [this]

/-- `GroupReader.Read`: it delivers the next `need` bytes of the stream ahead (fewer, with EOF,
when the stream is shorter), leaves the rest, and changes nothing on disk but empty files it
creates. -/
theorem readerRead_spec : ∀ (fuel : Nat) (g : Group) (r : Reader) (need : Nat) (acc : Bytes),
    r.idx ≤ g.maxIndex → g.maxIndex - r.idx < fuel → 0 < need →
    ∃ r' g', readerRead fuel g r need acc =
        (acc ++ (readerStream g r).take need, decide ((readerStream g r).length < need), r', g') ∧
      SameDisk g g' ∧ r'.idx ≤ g'.maxIndex ∧ readerStream g' r' = (readerStream g r).drop need := by
  intro fuel
  induction fuel with
  | zero => intro g r need acc _ h; omega
  | succ fuel ih =>
    intro g r need acc hidx hfuel hneed
    rw [readerRead]
    simp only
    by_cases hk : min need ((readerContent g r).drop r.off).length = need
    · -- enough in the current file
      have hle : need ≤ ((readerContent g r).drop r.off).length := by omega
      simp only [hk, if_true]
      refine ⟨{ r with off := r.off + need }, g, ?_, SameDisk.refl g, hidx, ?_⟩
      · unfold readerStream
        rw [List.take_append_of_le_length hle]
        have : ¬ ((readerContent g r).drop r.off ++ readerTail g r.idx).length < need := by
          simp only [List.length_append]; omega
        rw [decide_eq_false this]
      · show (readerContent g r).drop (r.off + need) ++ readerTail g r.idx =
          ((readerContent g r).drop r.off ++ readerTail g r.idx).drop need
        rw [List.drop_append_of_le_length hle, List.drop_drop]
    · have hlt : ((readerContent g r).drop r.off).length < need := by omega
      have hmin : min need ((readerContent g r).drop r.off).length = ((readerContent g r).drop r.off).length := by omega
      have hkne : ¬ ((readerContent g r).drop r.off).length = need := by omega
      simp only [hmin, hkne, if_false, List.take_length]
      have htake : ((readerContent g r).drop r.off).take ((readerContent g r).drop r.off).length =
          (readerContent g r).drop r.off := List.take_length
      by_cases hend : r.idx + 1 > g.maxIndex
      · -- at the end of the head
        simp only [hend, if_true]
        have htail : readerTail g r.idx = [] := by
          unfold readerTail; have : ¬ r.idx < g.maxIndex := by omega
          simp [this]
        refine ⟨{ r with off := r.off + ((readerContent g r).drop r.off).length }, g, ?_,
          SameDisk.refl g, hidx, ?_⟩
        · unfold readerStream
          rw [htail, List.append_nil, List.take_of_length_le (Nat.le_of_lt hlt), decide_eq_true hlt]
        · unfold readerStream
          rw [htail]
          simp only [List.append_nil]
          have h1 : (readerContent g { r with off := r.off + ((readerContent g r).drop r.off).length }) =
              readerContent g r := rfl
          rw [h1, List.drop_of_length_le (by simp; omega), List.drop_of_length_le (by omega)]
      · simp only [hend, if_false]
        have hlt' : r.idx < g.maxIndex := by omega
        have sd := sameDisk_readerOpen g (r.idx + 1)
        obtain ⟨r', g', he, sd', hi', hs'⟩ := ih (readerOpen g (r.idx + 1)) { idx := r.idx + 1 }
          (need - ((readerContent g r).drop r.off).length)
          (acc ++ (readerContent g r).drop r.off)
          (by rw [sd.maxIndex]; exact hlt') (by rw [sd.maxIndex]; simp only; omega) (by omega)
        have hS1 : readerStream (readerOpen g (r.idx + 1)) { idx := r.idx + 1 } = readerTail g r.idx := by
          unfold readerStream
          simp only [List.drop_zero]
          rw [readerContent_fresh_sameDisk sd, readerTail_sameDisk sd, ← readerTail_step g r.idx hlt']
        rw [hS1] at he hs'
        refine ⟨r', g', ?_, sd.trans sd', hi', ?_⟩
        · rw [he]
          unfold readerStream
          rw [List.take_append, List.take_of_length_le (Nat.le_of_lt hlt)]
          have hd : decide ((readerTail g r.idx).length < need - ((readerContent g r).drop r.off).length) =
              decide (((readerContent g r).drop r.off ++ readerTail g r.idx).length < need) := by
            simp only [List.length_append, decide_eq_decide]; omega
          rw [hd, List.append_assoc]
        · rw [hs']
          unfold readerStream
          rw [List.drop_append, List.drop_of_length_le (Nat.le_of_lt hlt)]
          simp


theorem check_parts (P : Params) (c d rest rest' : Bytes) :
    (check P c d rest).1 = (check P c d rest').1 ∧ (check P c d rest).2 = rest := by
  unfold check
  split
  · exact ⟨rfl, rfl⟩
  · split <;> exact ⟨rfl, rfl⟩

theorem decodeG_short (P : Params) (s : Bytes) (hne : s.isEmpty = false) (h : s.length < 4) :
    decodeG P s = (.corrupt .crcRead, []) := by
  unfold decodeG; simp only [hne, h, if_true, if_false, Bool.false_eq_true]

theorem decodeG_lenShort (P : Params) (s : Bytes) (hne : s.isEmpty = false) (h4 : ¬ s.length < 4)
    (h8 : (s.drop 4).length < 4) : decodeG P s = (.corrupt .lenRead, []) := by
  unfold decodeG; simp only [hne, h4, h8, if_true, if_false, Bool.false_eq_true]

theorem decodeG_tooBig (P : Params) (s : Bytes) (hne : s.isEmpty = false) (h4 : ¬ s.length < 4)
    (h8 : ¬ (s.drop 4).length < 4) (hb : ofBe32 ((s.drop 4).take 4) > P.maxLen) :
    decodeG P s = (.corrupt .tooBig, (s.drop 4).drop 4) := by
  unfold decodeG; simp only [hne, h4, h8, hb, if_true, if_false, Bool.false_eq_true]

theorem decodeG_zero (P : Params) (s : Bytes) (hne : s.isEmpty = false) (h4 : ¬ s.length < 4)
    (h8 : ¬ (s.drop 4).length < 4) (_hb : ¬ ofBe32 ((s.drop 4).take 4) > P.maxLen)
    (hz : ofBe32 ((s.drop 4).take 4) = 0) :
    decodeG P s = (.corrupt .dataRead, (s.drop 4).drop 4) := by
  have hb0 : ¬ 0 > P.maxLen := by omega
  unfold decodeG; simp only [hne, h4, h8, hz, hb0, if_true, if_false, Bool.false_eq_true]

theorem decodeG_dataShort (P : Params) (s : Bytes) (hne : s.isEmpty = false) (h4 : ¬ s.length < 4)
    (h8 : ¬ (s.drop 4).length < 4) (hb : ¬ ofBe32 ((s.drop 4).take 4) > P.maxLen)
    (hz : ¬ ofBe32 ((s.drop 4).take 4) = 0)
    (hs : ((s.drop 4).drop 4).length < ofBe32 ((s.drop 4).take 4)) :
    decodeG P s = (.corrupt .dataRead, []) := by
  unfold decodeG; simp only [hne, h4, h8, hb, hz, hs, if_true, if_false, Bool.false_eq_true]

theorem decodeG_full (P : Params) (s : Bytes) (hne : s.isEmpty = false) (h4 : ¬ s.length < 4)
    (h8 : ¬ (s.drop 4).length < 4) (hb : ¬ ofBe32 ((s.drop 4).take 4) > P.maxLen)
    (hz : ¬ ofBe32 ((s.drop 4).take 4) = 0)
    (hs : ¬ ((s.drop 4).drop 4).length < ofBe32 ((s.drop 4).take 4)) :
    decodeG P s = check P (s.take 4) (((s.drop 4).drop 4).take (ofBe32 ((s.drop 4).take 4)))
      (((s.drop 4).drop 4).drop (ofBe32 ((s.drop 4).take 4))) := by
  unfold decodeG; simp only [hne, h4, h8, hb, hz, hs, if_true, if_false, Bool.false_eq_true]



theorem readerRead_spec' (fuel : Nat) (g : Group) (r : Reader) (need : Nat)
    (h1 : r.idx ≤ g.maxIndex) (h2 : g.maxIndex - r.idx < fuel) (h3 : 0 < need) :
    ∃ eof r' g', readerRead fuel g r need [] = ((readerStream g r).take need, eof, r', g') ∧
      (eof = true ↔ (readerStream g r).length < need) ∧
      SameDisk g g' ∧ r'.idx ≤ g'.maxIndex ∧ readerStream g' r' = (readerStream g r).drop need := by
  obtain ⟨r', g', he, sd, hi, hs⟩ := readerRead_spec fuel g r need [] h1 h2 h3
  rw [List.nil_append] at he
  exact ⟨_, r', g', he, by simp, sd, hi, hs⟩

theorem readerDecode3_spec (P : Params) (fuel : Nat) (c lb : Bytes) (g : Group) (r : Reader)
    (hidx : r.idx ≤ g.maxIndex) (hf : g.maxIndex < fuel) (hz : 0 < ofBe32 lb) :
    ∃ r' g', SameDisk g g' ∧ r'.idx ≤ g'.maxIndex ∧
      readerStream g' r' = (readerStream g r).drop (ofBe32 lb) ∧
      readerDecode3 P fuel c lb g r =
        ((if (readerStream g r).length < ofBe32 lb then DecRes.corrupt .dataRead
          else (check P c ((readerStream g r).take (ofBe32 lb)) []).1), r', g') := by
  obtain ⟨eof, r', g', e, he, sd, hi, hs⟩ := readerRead_spec' fuel g r (ofBe32 lb) hidx (by omega) hz
  refine ⟨r', g', sd, hi, hs, ?_⟩
  unfold readerDecode3
  rw [e]
  cases eof with
  | true => rw [if_pos (he.mp rfl)]; rfl
  | false =>
    have : ¬ (readerStream g r).length < ofBe32 lb := fun h => by simpa using he.mpr h
    rw [if_neg this]; rfl


/-- the result of the second and third read, as a function of the stream after the checksum -/
def stage2 (P : Params) (c s1 : Bytes) : DecRes × Bytes :=
  if s1.length < 4 then (.corrupt .lenRead, [])
  else if ofBe32 (s1.take 4) > P.maxLen then (.corrupt .tooBig, s1.drop 4)
  else if ofBe32 (s1.take 4) = 0 then (.corrupt .dataRead, s1.drop 4)
  else if (s1.drop 4).length < ofBe32 (s1.take 4) then (.corrupt .dataRead, [])
  else check P c ((s1.drop 4).take (ofBe32 (s1.take 4))) ((s1.drop 4).drop (ofBe32 (s1.take 4)))

theorem readerDecode2_spec (P : Params) (fuel : Nat) (c : Bytes) (g : Group) (r : Reader)
    (hidx : r.idx ≤ g.maxIndex) (hf : g.maxIndex < fuel) :
    ∃ r' g', SameDisk g g' ∧ r'.idx ≤ g'.maxIndex ∧
      readerStream g' r' = (stage2 P c (readerStream g r)).2 ∧
      readerDecode2 P fuel c g r = ((stage2 P c (readerStream g r)).1, r', g') := by
  obtain ⟨eof, r2, g2, e, he, sd, hi, hs⟩ := readerRead_spec' fuel g r 4 hidx (by omega) (by omega)
  unfold readerDecode2 stage2
  rw [e]
  cases eof with
  | true =>
    have h := he.mp rfl
    rw [if_pos h]
    exact ⟨r2, g2, sd, hi, by rw [hs, List.drop_of_length_le (by omega)], rfl⟩
  | false =>
    have h : ¬ (readerStream g r).length < 4 := fun h => by simpa using he.mpr h
    rw [if_neg h]
    by_cases hb : ofBe32 ((readerStream g r).take 4) > P.maxLen
    · rw [if_pos hb]
      refine ⟨r2, g2, sd, hi, hs, ?_⟩
      show (if false = true then _ else if ofBe32 ((readerStream g r).take 4) > P.maxLen then _ else _) = _
      rw [if_neg (by simp), if_pos hb]
    · rw [if_neg hb]
      by_cases hz : ofBe32 ((readerStream g r).take 4) = 0
      · rw [if_pos hz]
        refine ⟨r2, g2, sd, hi, hs, ?_⟩
        show (if false = true then _ else if ofBe32 ((readerStream g r).take 4) > P.maxLen then _
          else if ofBe32 ((readerStream g r).take 4) = 0 then _ else _) = _
        rw [if_neg (by simp), if_neg hb, if_pos hz]
      · rw [if_neg hz]
        obtain ⟨r3, g3, sd3, hi3, hs3, e3⟩ := readerDecode3_spec P fuel c ((readerStream g r).take 4) g2 r2 hi
          (by rw [sd.maxIndex]; exact hf) (by omega)
        rw [hs] at hs3 e3
        refine ⟨r3, g3, sd.trans sd3, hi3, ?_, ?_⟩
        · rw [hs3]
          by_cases hsh : ((readerStream g r).drop 4).length < ofBe32 ((readerStream g r).take 4)
          · rw [if_pos hsh, List.drop_of_length_le (by omega)]
          · rw [if_neg hsh, (check_parts P _ _ _ []).2]
        · show (if false = true then _ else if ofBe32 ((readerStream g r).take 4) > P.maxLen then _
            else if ofBe32 ((readerStream g r).take 4) = 0 then _ else _) = _
          rw [if_neg (by simp), if_neg hb, if_neg hz, e3]
          by_cases hsh : ((readerStream g r).drop 4).length < ofBe32 ((readerStream g r).take 4)
          · rw [if_pos hsh, if_pos hsh]
          · rw [if_neg hsh, if_neg hsh, (check_parts P _ _ [] _).1]


theorem decodeG_stage2 (P : Params) (s : Bytes) (hne : s.isEmpty = false) (h4 : ¬ s.length < 4) :
    decodeG P s = stage2 P (s.take 4) (s.drop 4) := by
  unfold decodeG stage2
  rw [if_neg (by simp [hne]), if_neg h4]

/-- `Decode` on an open reader = `decodeG` on the bytes ahead of it; the reader is left in front
of what `decodeG` leaves; nothing on disk changes but empty files the reader creates -/
theorem readerDecode_spec (P : Params) (g : Group) (r : Reader) (hidx : r.idx ≤ g.maxIndex) :
    ∃ r' g', readerDecode P g r = ((decodeG P (readerStream g r)).1, r', g') ∧ SameDisk g g' ∧
      r'.idx ≤ g'.maxIndex ∧ readerStream g' r' = (decodeG P (readerStream g r)).2 := by
  obtain ⟨eof, r1, g1, e, he, sd, hi, hs⟩ := readerRead_spec' (g.maxIndex + 2) g r 4 hidx (by omega) (by omega)
  unfold readerDecode
  rw [e]
  cases eof with
  | true =>
    have h := he.mp rfl
    refine ⟨r1, g1, ?_, sd, hi, ?_⟩
    · by_cases hem : readerStream g r = []
      · rw [hem, decodeG_nil]; rfl
      · have hne : (readerStream g r).isEmpty = false := by
          cases hq : readerStream g r with
          | nil => exact absurd hq hem
          | cons a t => rfl
        have hne2 : ((readerStream g r).take 4).isEmpty = false := by
          cases hq : readerStream g r with
          | nil => exact absurd hq hem
          | cons a t => rfl
        rw [decodeG_short P _ hne h]
        show (if true = true then ((if ((readerStream g r).take 4).isEmpty then DecRes.eof
          else DecRes.corrupt .crcRead), r1, g1) else _) = _
        rw [if_pos rfl, hne2]; rfl
    · rw [hs, List.drop_of_length_le (by omega)]
      by_cases hem : readerStream g r = []
      · rw [hem, decodeG_nil]
      · have hne : (readerStream g r).isEmpty = false := by
          cases hq : readerStream g r with
          | nil => exact absurd hq hem
          | cons a t => rfl
        rw [decodeG_short P _ hne h]
  | false =>
    have h4 : ¬ (readerStream g r).length < 4 := fun h => by simpa using he.mpr h
    have hne : (readerStream g r).isEmpty = false := by
      cases hq : readerStream g r with
      | nil => simp [hq] at h4
      | cons a t => rfl
    obtain ⟨r2, g2, sd2, hi2, hs2, e2⟩ := readerDecode2_spec P (g.maxIndex + 2) ((readerStream g r).take 4) g1 r1 hi
      (by rw [sd.maxIndex]; omega)
    rw [hs] at hs2 e2
    refine ⟨r2, g2, ?_, sd.trans sd2, hi2, ?_⟩
    · show (if false = true then _ else readerDecode2 P (g.maxIndex + 2) ((readerStream g r).take 4) g1 r1) = _
      rw [if_neg (by simp), e2, decodeG_stage2 P _ hne h4]
    · rw [hs2, decodeG_stage2 P _ hne h4]


theorem readerNext_zero (P : Params) (g : Group) (r : Reader) : readerNext P 0 g r = ([], none, r, g) := rfl

theorem readerNext_msg (P : Params) (n : Nat) (g g' : Group) (r r' : Reader) (d : Bytes)
    (h : readerDecode P g r = (.msg d, r', g')) :
    readerNext P (n + 1) g r = (d :: (readerNext P n g' r').1, (readerNext P n g' r').2.1,
      (readerNext P n g' r').2.2.1, (readerNext P n g' r').2.2.2) := by
  rw [readerNext, h]

theorem readerNext_stop (P : Params) (n : Nat) (g g' : Group) (r r' : Reader) (x : DecRes)
    (hx : x.isMsg = false) (h : readerDecode P g r = (x, r', g')) :
    readerNext P (n + 1) g r = ([], some x, r', g') := by
  rw [readerNext, h]
  cases x with
  | msg d => simp [DecRes.isMsg] at hx
  | eof => rfl
  | corrupt e => rfl

/-- **An open reader returns exactly the records ahead of it, in order.** If the bytes ahead of the
reader are the frames of the valid records `ds` followed by a torn tail `t`, then asking for `n`
records returns the first `n` of them (all of them and the reason for stopping when `n` is
larger), leaves the reader in front of the remaining ones, and changes nothing on disk except
empty files it creates. -/
theorem readerNext_frames (P : Params) (G : Good P) (t : Bytes) (ht : TornTail P t) :
    ∀ (n : Nat) (ds : List Bytes) (g : Group) (r : Reader), r.idx ≤ g.maxIndex →
      (∀ d ∈ ds, ValidRec P d) → readerStream g r = frames P ds ++ t →
      ∃ e r' g', readerNext P n g r = (ds.take n, e, r', g') ∧ SameDisk g g' ∧ r'.idx ≤ g'.maxIndex ∧
        ((n ≤ ds.length ∧ e = none ∧ readerStream g' r' = frames P (ds.drop n) ++ t) ∨
         (ds.length < n ∧ e = some (decodeG P t).1 ∧ readerStream g' r' = [])) := by
  intro n
  induction n with
  | zero =>
    intro ds g r hidx _ hs
    exact ⟨none, r, g, by rw [readerNext_zero]; rfl, SameDisk.refl g, hidx,
      Or.inl ⟨Nat.zero_le _, rfl, by simpa using hs⟩⟩
  | succ n ih =>
    intro ds g r hidx hv hs
    obtain ⟨r1, g1, e1, sd1, i1, s1⟩ := readerDecode_spec P g r hidx
    rw [hs] at e1 s1
    cases ds with
    | nil =>
      rw [frames_nil, List.nil_append] at e1 s1
      obtain ⟨hm, hr⟩ := tornTail_stop P G t ht
      refine ⟨some (decodeG P t).1, r1, g1, ?_, sd1, i1, Or.inr ⟨by simp, rfl, by rw [s1, hr]⟩⟩
      rw [readerNext_stop P n g g1 r r1 _ hm e1]; rfl
    | cons d ds' =>
      have hd : ValidRec P d := hv d (by simp)
      rw [frames_cons, List.append_assoc, decodeG_frame P G d _ hd] at e1 s1
      obtain ⟨e, r2, g2, e2, sd2, i2, hcase⟩ := ih ds' g1 r1 i1 (fun x hx => hv x (by simp [hx])) s1
      refine ⟨e, r2, g2, ?_, sd1.trans sd2, i2, ?_⟩
      · rw [readerNext_msg P n g g1 r r1 d e1, e2]; rfl
      · rcases hcase with ⟨h1, h2, h3⟩ | ⟨h1, h2, h3⟩
        · exact Or.inl ⟨by simp; omega, h2, by simpa using h3⟩
        · exact Or.inr ⟨by simp; omega, h2, h3⟩


/-- the cursor is inside the group and inside its file -/
def ReaderOK (g : Group) (r : Reader) : Prop :=
  r.idx ≤ g.maxIndex ∧ r.off ≤ (readerContent g r).length

theorem readerRead_ok : ∀ (fuel : Nat) (g : Group) (r : Reader) (need : Nat) (acc : Bytes),
    r.off ≤ (readerContent g r).length →
    (readerRead fuel g r need acc).2.2.1.off ≤
      (readerContent (readerRead fuel g r need acc).2.2.2 (readerRead fuel g r need acc).2.2.1).length := by
  intro fuel
  induction fuel with
  | zero => intro g r need acc h; exact h
  | succ fuel ih =>
    intro g r need acc h
    rw [readerRead]
    have hk : min need ((readerContent g r).drop r.off).length ≤ (readerContent g r).length - r.off := by
      simp only [List.length_drop]; exact Nat.min_le_right _ _
    have hc : ∀ k, readerContent g { r with off := r.off + k } = readerContent g r := fun _ => rfl
    split
    · show r.off + _ ≤ (readerContent g { r with off := r.off + _ }).length
      rw [hc]; omega
    · split
      · show r.off + _ ≤ (readerContent g { r with off := r.off + _ }).length
        rw [hc]; omega
      · exact ih _ _ _ _ (Nat.zero_le _)

/-- the cursor returned by a decoding step is inside its file -/
def OKres (x : DecRes × Reader × Group) : Prop := x.2.1.off ≤ (readerContent x.2.2 x.2.1).length

theorem readerDecode3_ok (P : Params) (fuel : Nat) (c lb : Bytes) (g : Group) (r : Reader)
    (h : r.off ≤ (readerContent g r).length) : OKres (readerDecode3 P fuel c lb g r) := by
  have := readerRead_ok fuel g r (ofBe32 lb) [] h
  unfold readerDecode3
  cases hr : readerRead fuel g r (ofBe32 lb) [] with
  | mk d rest =>
    obtain ⟨eof, r3, g3⟩ := rest
    rw [hr] at this
    cases eof <;> exact this

theorem readerDecode2_ok (P : Params) (fuel : Nat) (c : Bytes) (g : Group) (r : Reader)
    (h : r.off ≤ (readerContent g r).length) : OKres (readerDecode2 P fuel c g r) := by
  have := readerRead_ok fuel g r 4 [] h
  unfold readerDecode2
  cases hr : readerRead fuel g r 4 [] with
  | mk lb rest =>
    obtain ⟨eof, r2, g2⟩ := rest
    rw [hr] at this
    cases eof with
    | true => exact this
    | false =>
      show OKres (if false = true then _ else _)
      rw [if_neg (by simp)]
      by_cases hb : ofBe32 lb > P.maxLen
      · rw [if_pos hb]; exact this
      · rw [if_neg hb]
        by_cases hz : ofBe32 lb = 0
        · rw [if_pos hz]; exact this
        · rw [if_neg hz]; exact readerDecode3_ok P fuel c lb g2 r2 this

theorem readerDecode_ok (P : Params) (g : Group) (r : Reader)
    (h : r.off ≤ (readerContent g r).length) : OKres (readerDecode P g r) := by
  have := readerRead_ok (g.maxIndex + 2) g r 4 [] h
  unfold readerDecode
  cases hr : readerRead (g.maxIndex + 2) g r 4 [] with
  | mk c rest =>
    obtain ⟨eof, r1, g1⟩ := rest
    rw [hr] at this
    cases eof with
    | true => exact this
    | false =>
      show OKres (if false = true then _ else readerDecode2 P (g.maxIndex + 2) c g1 r1)
      rw [if_neg (by simp)]
      exact readerDecode2_ok P _ c g1 r1 this

theorem readerNext_ok (P : Params) : ∀ (n : Nat) (g : Group) (r : Reader),
    r.off ≤ (readerContent g r).length →
    (readerNext P n g r).2.2.1.off ≤
      (readerContent (readerNext P n g r).2.2.2 (readerNext P n g r).2.2.1).length := by
  intro n
  induction n with
  | zero => intro g r h; exact h
  | succ n ih =>
    intro g r h
    have h1 : (readerDecode P g r).2.1.off ≤
        (readerContent (readerDecode P g r).2.2 (readerDecode P g r).2.1).length := readerDecode_ok P g r h
    cases hd : readerDecode P g r with
    | mk x rest =>
      obtain ⟨r1, g1⟩ := rest
      rw [hd] at h1
      cases x with
      | msg d => rw [readerNext_msg P n g g1 r r1 d hd]; exact ih g1 r1 h1
      | eof => rw [readerNext_stop P n g g1 r r1 _ rfl hd]; exact h1
      | corrupt e => rw [readerNext_stop P n g g1 r r1 _ rfl hd]; exact h1


/-- the group's head file grew by `x` (a write that flushed, a `FlushAndSync`): an open reader
simply has `x` more ahead of it -/
theorem readerStream_grow (g g' : Group) (r : Reader) (x : Bytes) (hf : g'.files = g.files)
    (hm : g'.maxIndex = g.maxIndex) (hh : g'.head = g.head ++ x) (hok : ReaderOK g r)
    (hp : r.idx = g.maxIndex → r.pinned = none) :
    readerStream g' r = readerStream g r ++ x := by
  unfold readerStream
  by_cases he : r.idx = g.maxIndex
  · have hpn := hp he
    have hc : readerContent g r = g.head := by unfold readerContent; rw [hpn]; simp [he]
    have hc' : readerContent g' r = g.head ++ x := by unfold readerContent; rw [hpn]; simp [he, hm, hh]
    have ht : readerTail g r.idx = [] := by unfold readerTail; simp [he]
    have ht' : readerTail g' r.idx = [] := by unfold readerTail; simp [he, hm]
    have hoff : r.off ≤ g.head.length := by have := hok.2; rw [hc] at this; exact this
    rw [hc, hc', ht, ht', List.drop_append_of_le_length hoff]; simp
  · have hlt : r.idx < g.maxIndex := by have := hok.1; omega
    have hc' : readerContent g' r = readerContent g r := by
      unfold readerContent; rw [hm, hf]; simp [he]
    have ht' : readerTail g' r.idx = readerTail g r.idx ++ x := by
      unfold readerTail
      simp only [hm, hlt, if_true, hh]
      have : (List.range' (r.idx + 1) (g.maxIndex - (r.idx + 1))).map (fileAt g') =
          (List.range' (r.idx + 1) (g.maxIndex - (r.idx + 1))).map (fileAt g) := by
        apply List.map_congr_left; intro j _; exact fileAt_congr hf j
      rw [this]; simp
    rw [hc', ht']; simp

/-- a rotation does not disturb an open reader: everything it had ahead is still ahead, in the
same order, followed by what the rotation flushed -/
theorem readerStream_rotate (g : Group) (r : Reader) (hok : ReaderOK g r)
    (hp : r.idx = g.maxIndex → r.pinned = none) :
    readerStream (rotateFile g) r = readerStream g r ++ g.buf := by
  unfold readerStream
  have hmax : (rotateFile g).maxIndex = g.maxIndex + 1 := rfl
  have hhead : (rotateFile g).head = [] := rfl
  have hne : ¬ r.idx = g.maxIndex + 1 := by have := hok.1; omega
  by_cases he : r.idx = g.maxIndex
  · have hpn := hp he
    have hc : readerContent g r = g.head := by unfold readerContent; rw [hpn]; simp [he]
    have hc' : readerContent (rotateFile g) r = g.head ++ g.buf := by
      unfold readerContent
      rw [hpn]
      simp only [hmax, hne, if_false]
      have := fileAt_rotate g r.idx
      unfold fileAt at this
      rw [this]; simp [he]
    have ht : readerTail g r.idx = [] := by unfold readerTail; simp [he]
    have ht' : readerTail (rotateFile g) r.idx = [] := by
      unfold readerTail
      have : g.maxIndex + 1 - (g.maxIndex + 1) = 0 := by omega
      simp [he, hmax, hhead, this]
    have hoff : r.off ≤ g.head.length := by have := hok.2; rw [hc] at this; exact this
    rw [hc, hc', ht, ht', List.drop_append_of_le_length hoff]; simp
  · have hlt : r.idx < g.maxIndex := by have := hok.1; omega
    have hc' : readerContent (rotateFile g) r = readerContent g r := by
      unfold readerContent
      cases hpi : r.pinned with
      | some b => rfl
      | none =>
        simp only [hmax, hne, he, if_false]
        have := fileAt_rotate g r.idx
        unfold fileAt at this
        rw [this]; simp [he]
    have ht' : readerTail (rotateFile g) r.idx = readerTail g r.idx ++ g.buf := by
      unfold readerTail
      have hlt2 : r.idx < g.maxIndex + 1 := by omega
      simp only [hmax, hlt, hlt2, if_true, hhead, List.append_nil]
      have e : g.maxIndex + 1 - (r.idx + 1) = (g.maxIndex - (r.idx + 1)) + 1 := by omega
      rw [e, List.range'_concat, List.map_append, List.flatten_append]
      have hlast : r.idx + 1 + 1 * (g.maxIndex - (r.idx + 1)) = g.maxIndex := by omega
      simp only [List.map_cons, List.map_nil, List.flatten_cons, List.flatten_nil, List.append_nil, hlast]
      rw [fileAt_rotate]; simp only [if_true]
      have : (List.range' (r.idx + 1) (g.maxIndex - (r.idx + 1))).map (fileAt (rotateFile g)) =
          (List.range' (r.idx + 1) (g.maxIndex - (r.idx + 1))).map (fileAt g) := by
        apply List.map_congr_left
        intro j hj
        rw [List.mem_range'_1] at hj
        rw [fileAt_rotate]
        have : ¬ j = g.maxIndex := by omega
        simp [this]
      rw [this]; simp
    rw [hc', ht']; simp

/-- pruning under an open reader: the reader keeps the (unlinked) file it is in; of the files
ahead of it, the removed ones are gone and the others are unchanged -/
theorem reader_prune (k : Nat) (g g' : Group) (rem : List Nat) (r : Reader)
    (hr : checkTotalSizeLimit k g = (g', rem)) :
    (∀ p ∈ pinReaders g rem [("r", r)], readerContent g' p.2 = readerContent g r ∧ p.2.off = r.off ∧
      p.2.idx = r.idx) ∧
    (∀ j, fileAt g' j = if j ∈ rem then [] else fileAt g j) ∧ g'.head = g.head ∧
      g'.maxIndex = g.maxIndex := by
  obtain ⟨h1, _, _, _, h5, h6, _, _⟩ := prune_spec k g g' rem hr
  refine ⟨?_, ?_, h1, h5⟩
  · intro p hp
    simp only [pinReaders, List.map_cons, List.map_nil, List.mem_singleton] at hp
    subst hp
    split
    · rename_i hc
      obtain ⟨hn, hmem, hne⟩ := hc
      have hpn : r.pinned = none := by simpa using hn
      refine ⟨?_, rfl, rfl⟩
      unfold readerContent
      simp only [hpn, hne, if_false]
    · rename_i hc
      refine ⟨?_, rfl, rfl⟩
      unfold readerContent
      cases hpi : r.pinned with
      | some b => rfl
      | none =>
        simp only [h5, h1]
        by_cases he : r.idx = g.maxIndex
        · simp [he]
        · simp only [he, if_false]
          rw [h6 r.idx]
          have : ¬ r.idx ∈ rem := by
            intro hm
            apply hc
            exact ⟨by simp [hpi], by simpa using hm, he⟩
          simp [this]
  · intro j; unfold fileAt; rw [h6 j]; split <;> simp


/-- a reader just opened at index `i` has the bytes of `streamFrom g i` ahead of it -/
theorem readerStream_fresh (g : Group) (i : Nat) (hi : i ≤ g.maxIndex) :
    readerStream g { idx := i } = streamFrom g i := by
  unfold readerStream streamFrom
  simp only [List.drop_zero]
  by_cases he : i = g.maxIndex
  · subst he
    have : readerTail g g.maxIndex = [] := by unfold readerTail; simp
    rw [this]
    unfold readerContent
    simp
  · have hlt : i < g.maxIndex := by omega
    have e : g.maxIndex - i = (g.maxIndex - (i + 1)) + 1 := by omega
    rw [e, List.range'_succ]
    unfold readerTail readerContent
    simp [hlt, he]
    rfl

end Tmv.Wal
