import Tmv.Lemmas.SyncClosureMsgs
import Tmv.Lemmas.SyncOwn
import Tmv.Lemmas.CommitInv
import Tmv.Lemmas.PartsInv
/-! **A commit spreads** (C03, the "decision seen without its block" clause at network level): after
a converged closure, a correct node that is not an orphan and waits for block `b` decides `b` as
soon as the precommits for `b` of correct validators carrying the quorum and the block are in the
log. -/
namespace Tmv.Sync
open Tmv.Cons

theorem closure_reachable (c : SCfg) (correct : List Nat) (ops : List Op) :
    ((Net.init correct).run c ops).closure c = (Net.init correct).run c (ops ++ [.closure]) := by
  simp [Net.run, List.foldl_append, Net.op]

/-- every node of a reachable net satisfies the universal single-node invariants `KI` and `PD` -/
theorem run_KI_PD (c : SCfg) (correct : List Nat) (ops : List Op) :
    AllNodes (fun idx s => KI (nodeCfg c.cfg idx) s ∧ PD s) ((Net.init correct).run c ops) := by
  intro nd hm
  obtain ⟨is, e⟩ := nodes_are_runs c correct ops nd hm
  show KI (nodeCfg c.cfg nd.idx) nd.s ∧ PD nd.s
  rw [e]
  exact ⟨run_K is (KI.init _), run_PD is PD.init⟩

/-- **a commit spreads to every correct node that is not an orphan** -/
theorem commit_spreads (c : SCfg) (correct : List Nat) (hn : correct.Nodup) (ops : List Op)
    (hconv : ((Net.init correct).run c ops).closureConverged c)
    (i : Nat) (nd : Node) (hi : (((Net.init correct).run c ops).closure c).nodes[i]? = some nd)
    (r b : Nat) (Q : List Nat) (hQ : Q.Nodup) (hQc : ∀ u ∈ Q, u ∈ correct ∧ u < c.cfg.n)
    (hlog : ∀ u ∈ Q, Msg.vote ⟨.precommit, r, some b, u, true, u, u⟩ ∈
      (((Net.init correct).run c ops).closure c).log)
    (hp : (nodeCfg c.cfg nd.idx).quorum ≤ (Q.map (nodeCfg c.cfg nd.idx).power).sum)
    (hblock : Msg.block b ∈ (((Net.init correct).run c ops).closure c).log)
    (hh : nd.s.halted = false) (hq : nd.s.queue = [])
    (ht : (nd.s.votes.getVoteSet (r : Int) .precommit).isSome = true)
    (hnorphan : 0 ≤ nd.s.commitRound → nd.s.step = .commit)
    (hcv : ∀ b', maj23Of (nd.s.votes.getVoteSet nd.s.commitRound .precommit) = some (some b') → b' = b)
    (hparts : nd.s.proposalParts = some b) :
    nd.s.decided = some (b, nd.s.commitRound) := by
  have hm : nd ∈ ((Net.init correct).run c (ops ++ [.closure])).nodes := by
    rw [← closure_reachable]; exact List.mem_of_getElem? hi
  obtain ⟨hK, hPD⟩ := run_KI_PD c correct (ops ++ [.closure]) nd hm
  cases hd : nd.s.decided with
  | some d =>
    obtain ⟨b', r'⟩ := d
    obtain ⟨e1, e2⟩ := hK.dec b' r' hd
    rw [hcv b' e2, e1]
  | none =>
    exfalso
    have hlive : nd.s.halted = false ∧ nd.s.decided = none := ⟨hh, hd⟩
    -- the commit is known here
    have hmaj : maj23Of (nd.s.votes.getVoteSet (r : Int) .precommit) = some (some b) := by
      -- via closure_spreads_majority + only_of_logged + own_votes_recorded
      have hinv : LogInv (((Net.init correct).run c ops).closure c) :=
        closure_LogInv c _ (run_LogInv c correct hn ops)
      have hidx : (((Net.init correct).run c ops).closure c).nodes.map (·.idx) = correct :=
        (closure_idx c _).trans (run_idx c correct ops)
      have hwf : AllNodes (fun idx s => HVS.WF (nodeCfg c.cfg idx) s.votes) ((Net.init correct).run c ops) := by
        intro x hx
        obtain ⟨is, e⟩ := nodes_are_runs c correct ops x hx
        show HVS.WF (nodeCfg c.cfg x.idx) x.s.votes
        rw [e]; exact run_WF (me := x.idx) rfl is
      refine closure_spreads_majority c _ hconv hwf i nd hi r .precommit (some b) Q hQ
        (fun u hu => (hQc u hu).2) ?_ ?_ hlive ht ?_ hp
      · intro u hu _
        obtain ⟨k, hk⟩ := List.getElem?_of_mem (hlog u hu)
        exact ⟨k, hk⟩
      · intro hself
        have hsigned := hinv.signed nd (List.mem_of_getElem? hi)
          ⟨.precommit, r, some b, nd.idx, true, nd.idx, nd.idx⟩ (hlog nd.idx hself) rfl
        exact own_votes_recorded c correct hn _ nd hm (hQc nd.idx hself).2 hlive hq .precommit r (some b) hsigned
      · intro u hu
        have hmemu : u ∈ (((Net.init correct).run c ops).closure c).nodes.map (·.idx) := by
          rw [hidx]; exact (hQc u hu).1
        obtain ⟨ndu, hndu, e⟩ := List.mem_map.1 hmemu
        have := only_of_logged _ hinv nd ndu (List.mem_of_getElem? hi) hndu
          ⟨.precommit, r, some b, u, true, u, u⟩ (hlog u hu) e.symm
        rw [e] at this
        exact this
    -- the block is here
    obtain ⟨k, hk⟩ := List.getElem?_of_mem hblock
    have hdone : nd.s.partsDone = true :=
      closure_delivers_block c _ hconv (run_NHI c correct ops) i k nd b hi hk hlive hparts
    have hb : nd.s.proposalBlock = some b := by
      have := (hPD hdone).1; rw [hparts] at this; exact this
    -- so the node has decided
    obtain ⟨is, e⟩ := nodes_are_runs c correct (ops ++ [.closure]) nd hm
    have := Cons.quorum_and_block_decide (c := nodeCfg c.cfg nd.idx) is r b
      (by rw [← e]; exact hh) (by rw [← e]; exact hnorphan) (by rw [← e]; exact hmaj)
      (by rw [← e]; exact hcv) (by rw [← e]; exact hb)
    rw [← e, hd] at this
    cases this

end Tmv.Sync
