import Tmv.Lemmas.VoteReachNode
/-! The vote sets of a node after any run are a later stage (`HExt`) of its vote sets before: the
only votes added are the vote inputs of the run and the node's own signed votes. Consequences for
every run from `NodeState.init`: every vote set is well-formed (`VoteSet.WF`), recorded votes stay
recorded, and **votes carrying the quorum yield the recorded majority** whatever else was delivered
and in whatever order. -/
namespace Tmv.Cons

/-- votes that may be added to the set of (r, t): an external vote satisfying `E`, or an own vote
that was signed (appears in `outF`) -/
def AOwn (me : Nat) (outF : List Output) (E : Vote → Prop) : Int → VType → Vote → Prop :=
  fun r t w => (w.round : Int) = r ∧ w.typ = t ∧
    (E w ∨ (w.val = me ∧ Output.signVote w.typ w.round w.bid ∈ outF))

variable {c : Cfg} {me : Nat} {base : List Output} {outF : List Output} {E : Vote → Prop} {h0 : HVS}

theorem drain_succ_cons (fuel : Nat) (s : NodeState) (m : Internal) (rest : List Internal)
    (h1 : ¬ (s.halted = true ∨ s.decided.isSome = true)) (hq : s.queue = m :: rest) :
    drain c (fuel + 1) s = drain c fuel (handleInternal c { s with queue := rest } m) := by
  conv => lhs; unfold drain
  simp only [h1, if_false, hq]

theorem drain_succ_stop (fuel : Nat) (s : NodeState)
    (h1 : (s.halted = true ∨ s.decided.isSome = true) ∨ s.queue = []) : drain c (fuel + 1) s = s := by
  conv => lhs; unfold drain
  rcases h1 with h1 | h1
  · simp only [h1, if_true]
  · by_cases h2 : s.halted = true ∨ s.decided.isSome = true
    · simp only [h2, if_true]
    · simp only [h2, if_false, h1]

theorem drain_X (hc : c.self = some me) (fuel : Nat) {s : NodeState} (hn : N me base s)
    (hsub : ∀ o ∈ (drain c fuel s).out, o ∈ outF)
    (h : HExt c (AOwn me outF E) h0 s.votes) : HExt c (AOwn me outF E) h0 (drain c fuel s).votes := by
  induction fuel generalizing s with
  | zero => unfold drain; exact h
  | succ n ih =>
    by_cases h1 : s.halted = true ∨ s.decided.isSome = true
    · rw [drain_succ_stop n s (Or.inl h1)]; exact h
    · cases hq : s.queue with
      | nil => rw [drain_succ_stop n s (Or.inr hq)]; exact h
      | cons m rest =>
        rw [drain_succ_cons n s m rest h1 hq] at hsub ⊢
        have hn0 : NI me base s.round s.queue s.out := hn
        rw [hq] at hn0
        have hn' : N me base { s with queue := rest } := hn0.pop
        have hn1 := handleInternal_N hc m hn'
        apply ih hn1 hsub
        have h' : HExt c (AOwn me outF E) h0 ({ s with queue := rest } : NodeState).votes := h
        refine handleInternal_X (s := { s with queue := rest }) m ?_ h'
        intro v hv
        subst hv
        have hqi := hn0.qi v (List.mem_cons_self ..)
        -- the outputs only grow from here to the end of the drain
        have hreb : N me s.out { s with queue := rest } := by
          have := hn0.rebase.pop
          exact this
        have hext := (drain_N hc n (handleInternal_N hc (Internal.vote v) hreb)).ext
        obtain ⟨new, hnew⟩ := hext
        refine ⟨rfl, rfl, Or.inr ⟨hqi.1, hsub _ ?_⟩⟩
        rw [hnew]
        exact List.mem_append_left _ hqi.2.2

theorem step_X (hc : c.self = some me) {s : NodeState} (i : Input) (hn : N me base s)
    (hE : ∀ v peer, i = .vote v peer → E v)
    (hsub : ∀ o ∈ (step c s i).out, o ∈ outF)
    (h : HExt c (AOwn me outF E) h0 s.votes) : HExt c (AOwn me outF E) h0 (step c s i).votes := by
  unfold step at hsub ⊢
  split
  · exact h
  · rename_i hlive
    simp only [hlive, if_false] at hsub
    apply drain_X hc _ (handleInput_N hc i hn) hsub
    apply handleInput_X i _ h
    intro v peer hv
    exact ⟨rfl, rfl, Or.inl (hE v peer hv)⟩

/-- outputs only grow along a run -/
theorem run_out_ext (hc : c.self = some me) (is : List Input) {s : NodeState} (hn : N me base s) :
    N me base (run c s is) ∧ ∃ new, (run c s is).out = s.out ++ new := by
  induction is generalizing s base with
  | nil => exact ⟨by unfold run; exact hn, ⟨[], by simp [run]⟩⟩
  | cons i is ih =>
    have h1 : N me base (step c s i) := step_N hc i hn
    have h1' : N me s.out (step c s i) := step_N hc i hn.rebase
    obtain ⟨n1, e1⟩ := h1'.ext
    obtain ⟨hN, n2, e2⟩ := ih h1
    have hr : run c s (i :: is) = run c (step c s i) is := by simp [run, List.foldl]
    rw [hr]
    exact ⟨hN, n1 ++ n2, by rw [e2, e1, List.append_assoc]⟩

theorem run_X (hc : c.self = some me) (is : List Input) {s : NodeState} (hn : N me base s)
    (hE : ∀ v peer, Input.vote v peer ∈ is → E v)
    (hsub : ∀ o ∈ (run c s is).out, o ∈ outF)
    (h : HExt c (AOwn me outF E) h0 s.votes) : HExt c (AOwn me outF E) h0 (run c s is).votes := by
  induction is generalizing s with
  | nil => unfold run; exact h
  | cons i is ih =>
    have hr : run c s (i :: is) = run c (step c s i) is := by simp [run, List.foldl]
    rw [hr] at hsub ⊢
    have h1 : N me base (step c s i) := step_N hc i hn
    obtain ⟨_, new, hnew⟩ := run_out_ext hc is h1
    apply ih h1 (fun v peer hm => hE v peer (List.mem_cons_of_mem _ hm)) hsub
    apply step_X hc i hn (fun v peer hv => hE v peer (by rw [hv]; exact List.mem_cons_self ..)) _ h
    intro o ho
    apply hsub
    rw [hnew]; exact List.mem_append_left _ ho

/-! ### consequences for every run from the initial state -/

/-- every vote set a node ever holds is well-formed (no hypothesis on the inputs) -/
theorem run_WF (hc : c.self = some me) (is : List Input) : HVS.WF c (run c .init is).votes := by
  have h := run_X (E := fun _ => True) (outF := (run c .init is).out) (h0 := HVS.init) hc is (N.init me)
    (fun _ _ _ => trivial) (fun _ ho => ho) (HExt.refl c _ _)
  exact h.wf (HVS.WF.init c)

/-- **votes carrying the quorum yield the recorded majority**: after ANY run, if validators `Q`
(distinct, power at least the quorum) all have a recorded vote for `b` in the set of (r, t), no vote
input of the run carries a different value for one of them, and the node itself — if it is one of
them — signed nothing else, then that set's recorded +2/3 majority is `b`. Junk from other
validators, conflicting votes, majority claims, catch-up rounds, timeouts and the order of
everything are irrelevant. -/
theorem votes_yield_majority (hc : c.self = some me) (is : List Input) (r : Nat) (t : VType) (b : Bid)
    (Q : List Nat) (hn : Q.Nodup)
    (hq : ∀ u ∈ Q, u < c.n ∧ (run c .init is).votes.has (r : Int) t b u)
    (hin : ∀ v peer, Input.vote v peer ∈ is → v.typ = t → v.round = r → v.val ∈ Q → v.bid = b)
    (hown : me ∈ Q → ∀ x, Output.signVote t r x ∈ (run c .init is).out → x = b)
    (hp : c.quorum ≤ (Q.map c.power).sum) :
    maj23Of ((run c .init is).votes.getVoteSet (r : Int) t) = some b := by
  have h := run_X (E := fun w => ∃ peer, Input.vote w peer ∈ is) (outF := (run c .init is).out)
    (h0 := HVS.init) hc is (N.init me) (fun v peer hm => ⟨peer, hm⟩) (fun _ ho => ho) (HExt.refl c _ _)
  have hwf := h.wf (HVS.WF.init c)
  -- some member of Q exists (the quorum is positive), so the set exists
  cases hg : (run c .init is).votes.getVoteSet (r : Int) t with
  | none =>
    exfalso
    cases Q with
    | nil => simp [Cfg.quorum] at hp
    | cons u Q =>
      obtain ⟨vs, hvs, _⟩ := (hq u (List.mem_cons_self ..)).2
      rw [hg] at hvs; cases hvs
  | some vs =>
    show maj23Of (some vs) = some b
    simp only [maj23Of, Option.bind]
    apply VoteSet.quorum_majority (hwf _ _ vs hg) b Q hn _ hp
    intro u hu
    obtain ⟨hlt, vs', hvs', hhas⟩ := hq u hu
    rw [hg] at hvs'; cases hvs'
    refine ⟨hlt, hhas, ?_⟩
    have honly : (run c .init is).votes.only (r : Int) t b u := by
      apply h.only (HVS.only_init _ _ _ _)
      intro w hw
      obtain ⟨hr, ht, hsrc⟩ := hw
      by_cases hwu : w.val = u
      · right
        have hr' : w.round = r := by exact_mod_cast hr
        rcases hsrc with ⟨peer, hm⟩ | ⟨hme, hout⟩
        · exact hin w peer hm ht hr' (by rw [hwu]; exact hu)
        · have : me ∈ Q := by rw [← hme, hwu]; exact hu
          exact hown this w.bid (by rw [← ht, ← hr']; exact hout)
      · exact Or.inl hwu
    exact honly vs hg

/-- **votes for anything carrying more than 2/3 of the power yield `hasTwoThirdsAny`** -/
theorem votes_yield_any (hc : c.self = some me) (is : List Input) (r : Nat) (t : VType)
    (R : List Nat) (hn : R.Nodup)
    (hr : ∀ u ∈ R, u < c.n ∧ ∃ k, (run c .init is).votes.has (r : Int) t k u)
    (hp : c.total * 2 / 3 < (R.map c.power).sum) :
    hasAnyOf c ((run c .init is).votes.getVoteSet (r : Int) t) = true := by
  have hwf := run_WF (c := c) hc is
  cases hg : (run c .init is).votes.getVoteSet (r : Int) t with
  | none =>
    exfalso
    cases R with
    | nil => simp at hp
    | cons u R =>
      obtain ⟨_, k, vs, hvs, _⟩ := hr u (List.mem_cons_self ..)
      rw [hg] at hvs; cases hvs
  | some vs =>
    show vs.hasTwoThirdsAny c = true
    apply VoteSet.any_of_members (hwf _ _ vs hg) R hn _ hp
    intro u hu
    obtain ⟨hlt, k, vs', hvs', hhas⟩ := hr u hu
    rw [hg] at hvs'; cases hvs'
    exact ⟨hlt, k, hhas⟩

/-- **a delivered vote is recorded and stays recorded**: the input list is `pre ++ vote :: post`; when
the vote arrives the node is live and tracks the vote's round, the vote is well signed and its
validator has no conflicting vote in that set. Then the vote is in the set at the end of the run. -/
theorem delivered_vote_recorded (hc : c.self = some me) (pre post : List Input) (v : Vote) (peer : Peer)
    (hv : v.wellSigned c)
    (hlive : (run c .init pre).halted = false ∧ (run c .init pre).decided = none)
    (ht : ((run c .init pre).votes.getVoteSet (v.round : Int) v.typ).isSome = true)
    (ho : (run c .init pre).votes.only (v.round : Int) v.typ v.bid v.val) :
    (run c .init (pre ++ Input.vote v peer :: post)).votes.has (v.round : Int) v.typ v.bid v.val := by
  have hsplit : run c .init (pre ++ Input.vote v peer :: post) =
      run c (step c (run c .init pre) (.vote v peer)) post := by
    simp [run, List.foldl_append, List.foldl]
  rw [hsplit]
  let s1 := run c .init pre
  have hn1 : N me [] s1 := (run_out_ext hc pre (N.init me)).1
  have hwf1 : HVS.WF c s1.votes := run_WF hc pre
  -- the vote is recorded by `HVS.addVote` …
  have hrec : (s1.votes.addVote c v peer).1.has (v.round : Int) v.typ v.bid v.val :=
    HVS.addVote_records hwf1 v peer hv ht ho
  -- … and everything after that (rest of this step, rest of the run) only extends the vote sets
  have hl : ¬ (s1.halted = true ∨ s1.decided.isSome = true) := by
    show ¬ ((run c .init pre).halted = true ∨ (run c .init pre).decided.isSome = true)
    rw [hlive.1, hlive.2]; simp
  have e : step c s1 (.vote v peer) = drain c drainFuel (addVote c s1 v peer) := by
    unfold step; simp only [hl, if_false]; rfl
  have hstep : (step c s1 (.vote v peer)).votes.has (v.round : Int) v.typ v.bid v.val := by
    rw [e]
    have h2 : ∀ outF : List Output, HExt c (AOwn me outF (fun _ => True))
        (s1.votes.addVote c v peer).1 (addVote c s1 v peer).votes := by
      intro outF
      unfold addVote
      dsimp only
      split
      · exact HExt.refl c _ _
      · split
        · exact afterPrevote_X _ (HExt.refl c _ _)
        · exact afterPrecommit_X _ (HExt.refl c _ _)
    exact (drain_X hc _ (addVote_N hc v peer hn1) (fun _ ho => ho) (h2 _)).has hrec
  have hn2 : N me [] (step c s1 (.vote v peer)) := step_N hc _ hn1
  have hrun := run_X (E := fun _ => True) (outF := (run c (step c s1 (.vote v peer)) post).out)
    (h0 := (step c s1 (.vote v peer)).votes) hc post hn2 (fun _ _ _ => trivial) (fun _ ho => ho)
    (HExt.refl c _ _)
  exact hrun.has hstep

end Tmv.Cons
