import Tmv.Model.MempoolKeyed
import Tmv.Lemmas.MempoolList
namespace Tmv.Mempool.Keyed
open Tmv Tmv.Mempool

variable (key : Bytes → Bytes)

structure Inv (U : List Bytes) (a : Acc) : Prop where
  nodup : (a.entries.map key).Nodup
  index : a.index.Perm (a.entries.map key)
  sub : ∀ e ∈ a.entries, e ∈ U

/-- two different submitted transactions with the same key -/
def Collision (U : List Bytes) : Prop := ∃ x ∈ U, ∃ y ∈ U, x ≠ y ∧ key x = key y

theorem bytesOf_eraseP_find (l : List Bytes) (p : Bytes → Bool) (e : Bytes)
    (h : l.find? p = some e) : bytesOf (l.eraseP p) = bytesOf l - (e.length : Int) := by
  induction l with
  | nil => simp at h
  | cons a r ih =>
    by_cases hp : p a = true
    · simp [List.find?_cons, hp] at h
      subst h
      simp [List.eraseP_cons, hp, bytesOf]; omega
    · have hp' : p a = false := by simpa using hp
      simp [List.find?_cons, hp'] at h
      simp [List.eraseP_cons, hp', bytesOf, ih h]; omega

theorem find_of_mem_keys (l : List Bytes) (k : Bytes) (h : k ∈ l.map key) :
    ∃ e, l.find? (fun e => decide (key e = k)) = some e ∧ key e = k ∧ e ∈ l := by
  cases hf : l.find? (fun e => decide (key e = k)) with
  | none =>
    rw [List.find?_eq_none] at hf
    obtain ⟨e, he, hek⟩ := List.mem_map.1 h
    exact absurd (by simpa using hek) (hf e he)
  | some e =>
    exact ⟨e, rfl, by simpa using List.find?_some hf, List.mem_of_find?_eq_some hf⟩

theorem inv_admit {U : List Bytes} {a : Acc} (hi : Inv key U a) (tx : Bytes) (hu : tx ∈ U) :
    Inv key U (admitTx key a tx) := by
  unfold admitTx
  split
  · exact hi
  · rename_i hn
    have hk : key tx ∉ a.entries.map key := fun h => hn (hi.index.mem_iff.2 h)
    refine ⟨?_, ?_, ?_⟩
    · simp only [List.map_append, List.map_cons, List.map_nil]
      rw [List.nodup_append]
      refine ⟨hi.nodup, by simp, ?_⟩
      intro x hx y hy
      simp at hy; subst hy
      intro e; subst e; exact hk hx
    · simp only [List.map_append, List.map_cons, List.map_nil]
      exact hi.index.append_right _
    · intro e he
      rcases List.mem_append.1 he with he | he
      · exact hi.sub e he
      · simp at he; subst he; exact hu

theorem inv_erase {U : List Bytes} {a : Acc} (hi : Inv key U a) (tx : Bytes) (b : Int) :
    Inv key U { entries := a.entries.eraseP (fun e => decide (key e = key tx)),
                index := a.index.erase (key tx), bytes := b } := by
  have hm := map_eraseP_key key (key tx) a.entries
  refine ⟨?_, ?_, ?_⟩
  · show ((a.entries.eraseP _).map key).Nodup
    rw [hm]; exact hi.nodup.erase _
  · show (a.index.erase (key tx)).Perm ((a.entries.eraseP _).map key)
    rw [hm]; exact hi.index.erase _
  · intro e he; exact hi.sub e (List.mem_of_mem_eraseP he)

/-- v1: exact, whatever the key function -/
theorem v1_step_exact {U : List Bytes} {a : Acc} (hi : Inv key U a) (hb : a.bytes = bytesOf a.entries)
    (op : Op) (hu : op.tx ∈ U) :
    Inv key U (stepV1 key a op) ∧ (stepV1 key a op).bytes = bytesOf (stepV1 key a op).entries := by
  cases op with
  | add tx =>
    refine ⟨inv_admit key hi tx hu, ?_⟩
    show (admitTx key a tx).bytes = bytesOf (admitTx key a tx).entries
    unfold admitTx
    split
    · exact hb
    · simp only [bytesOf_append, hb]
  | remove tx =>
    show Inv key U (removeV1 key a tx) ∧ (removeV1 key a tx).bytes = bytesOf (removeV1 key a tx).entries
    unfold removeV1
    split
    · split
      · rename_i e hf
        exact ⟨inv_erase key hi tx _, by
          show a.bytes - (e.length : Int) = bytesOf (a.entries.eraseP _)
          rw [bytesOf_eraseP_find _ _ e hf, hb]⟩
      · exact ⟨hi, hb⟩
    · exact ⟨hi, hb⟩

/-- v0: exact, or two different submitted transactions share a key -/
theorem v0_step_exact_or_collision {U : List Bytes} {a : Acc} (hi : Inv key U a)
    (hb : a.bytes = bytesOf a.entries ∨ Collision key U) (op : Op) (hu : op.tx ∈ U) :
    Inv key U (stepV0 key a op) ∧
      ((stepV0 key a op).bytes = bytesOf (stepV0 key a op).entries ∨ Collision key U) := by
  cases op with
  | add tx =>
    refine ⟨inv_admit key hi tx hu, ?_⟩
    rcases hb with hb | hc
    · left
      show (admitTx key a tx).bytes = bytesOf (admitTx key a tx).entries
      unfold admitTx
      split
      · exact hb
      · simp only [bytesOf_append, hb]
    · exact Or.inr hc
  | remove tx =>
    show Inv key U (removeV0 key a tx) ∧
      ((removeV0 key a tx).bytes = bytesOf (removeV0 key a tx).entries ∨ Collision key U)
    unfold removeV0
    split
    · rename_i hk
      refine ⟨inv_erase key hi tx _, ?_⟩
      rcases hb with hb | hc
      · obtain ⟨e, hf, hek, hel⟩ := find_of_mem_keys key a.entries (key tx) (hi.index.mem_iff.1 hk)
        by_cases hee : e = tx
        · left
          show a.bytes - (tx.length : Int) = bytesOf (a.entries.eraseP _)
          rw [bytesOf_eraseP_find _ _ e hf, hb, hee]
        · right
          exact ⟨e, hi.sub e hel, tx, hu, hee, hek⟩
      · exact Or.inr hc
    · exact ⟨hi, hb⟩

def runV0 (a : Acc) (ops : List Op) : Acc := ops.foldl (stepV0 key) a
def runV1 (a : Acc) (ops : List Op) : Acc := ops.foldl (stepV1 key) a

theorem inv_empty (U : List Bytes) : Inv key U empty :=
  ⟨by simp [empty], by simp [empty], fun _ h => by cases h⟩

theorem v1_run_exact (U : List Bytes) : ∀ (ops : List Op) (a : Acc), Inv key U a →
    a.bytes = bytesOf a.entries → (∀ o ∈ ops, o.tx ∈ U) →
    (runV1 key a ops).bytes = bytesOf (runV1 key a ops).entries := by
  intro ops
  induction ops with
  | nil => intro a _ hb _; exact hb
  | cons o r ih =>
    intro a hi hb hu
    obtain ⟨h1, h2⟩ := v1_step_exact key hi hb o (hu o List.mem_cons_self)
    exact ih _ h1 h2 (fun o' ho' => hu o' (List.mem_cons_of_mem _ ho'))

theorem v0_run_exact_or_collision (U : List Bytes) : ∀ (ops : List Op) (a : Acc), Inv key U a →
    (a.bytes = bytesOf a.entries ∨ Collision key U) → (∀ o ∈ ops, o.tx ∈ U) →
    (runV0 key a ops).bytes = bytesOf (runV0 key a ops).entries ∨ Collision key U := by
  intro ops
  induction ops with
  | nil => intro a _ hb _; exact hb
  | cons o r ih =>
    intro a hi hb hu
    obtain ⟨h1, h2⟩ := v0_step_exact_or_collision key hi hb o (hu o List.mem_cons_self)
    exact ih _ h1 h2 (fun o' ho' => hu o' (List.mem_cons_of_mem _ ho'))

end Tmv.Mempool.Keyed
