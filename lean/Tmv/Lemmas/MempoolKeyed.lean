import Tmv.Model.MempoolKeyed
import Tmv.Lemmas.MempoolList
namespace Tmv.Mempool.Keyed
open Tmv Tmv.Mempool

variable (key : Bytes → Bytes)

structure Inv (U : List Bytes) (a : Acc) : Prop where
  nodup : (a.entries.map key).Nodup
  index : a.index.Perm (a.entries.map key)
  sub : ∀ e ∈ a.entries, e ∈ U

/-- two different submitted transactions with the same key -/
def Collision (U : List Bytes) : Prop := ∃ x ∈ U, ∃ y ∈ U, x ≠ y ∧ key x = key y

theorem bytesOf_eraseP_find (l : List Bytes) (p : Bytes → Bool) (e : Bytes)
    (h : l.find? p = some e) : bytesOf (l.eraseP p) = bytesOf l - (e.length : Int) := by
  induction l with
  | nil => simp at h
  | cons a r ih =>
    by_cases hp : p a = true
    · simp [List.find?_cons, hp] at h
      subst h
      simp [List.eraseP_cons, hp, bytesOf]; omega
    · have hp' : p a = false := by simpa using hp
      simp [List.find?_cons, hp'] at h
      simp [List.eraseP_cons, hp', bytesOf, ih h]; omega

theorem find_of_mem_keys (l : List Bytes) (k : Bytes) (h : k ∈ l.map key) :
    ∃ e, l.find? (fun e => decide (key e = k)) = some e ∧ key e = k ∧ e ∈ l := by
  cases hf : l.find? (fun e => decide (key e = k)) with
  | none =>
    rw [List.find?_eq_none] at hf
    obtain ⟨e, he, hek⟩ := List.mem_map.1 h
    exact absurd (by simpa using hek) (hf e he)
  | some e =>
    exact ⟨e, rfl, by simpa using List.find?_some hf, List.mem_of_find?_eq_some hf⟩

theorem inv_admit {U : List Bytes} {a : Acc} (hi : Inv key U a) (tx : Bytes) (hu : tx ∈ U) :
    Inv key U (admitTx key a tx) := by
  unfold admitTx
  split
  · exact hi
  · rename_i hn
    have hk : key tx ∉ a.entries.map key := fun h => hn (hi.index.mem_iff.2 h)
    refine ⟨?_, ?_, ?_⟩
    · simp only [List.map_append, List.map_cons, List.map_nil]
      rw [List.nodup_append]
      refine ⟨hi.nodup, by simp, ?_⟩
      intro x hx y hy
      simp at hy; subst hy
      intro e; subst e; exact hk hx
    · simp only [List.map_append, List.map_cons, List.map_nil]
      exact hi.index.append_right _
    · intro e he
      rcases List.mem_append.1 he with he | he
      · exact hi.sub e he
      · simp at he; subst he; exact hu

theorem inv_erase {U : List Bytes} {a : Acc} (hi : Inv key U a) (tx : Bytes) (b : Int) :
    Inv key U { entries := a.entries.eraseP (fun e => decide (key e = key tx)),
                index := a.index.erase (key tx), bytes := b } := by
  have hm := map_eraseP_key key (key tx) a.entries
  refine ⟨?_, ?_, ?_⟩
  · show ((a.entries.eraseP _).map key).Nodup
    rw [hm]; exact hi.nodup.erase _
  · show (a.index.erase (key tx)).Perm ((a.entries.eraseP _).map key)
    rw [hm]; exact hi.index.erase _
  · intro e he; exact hi.sub e (List.mem_of_mem_eraseP he)

/-- v1: exact, whatever the key function -/
theorem v1_step_exact {U : List Bytes} {a : Acc} (hi : Inv key U a) (hb : a.bytes = bytesOf a.entries)
    (op : Op) (hu : op.tx ∈ U) :
    Inv key U (stepV1 key a op) ∧ (stepV1 key a op).bytes = bytesOf (stepV1 key a op).entries := by
  cases op with
  | add tx =>
    refine ⟨inv_admit key hi tx hu, ?_⟩
    show (admitTx key a tx).bytes = bytesOf (admitTx key a tx).entries
    unfold admitTx
    split
    · exact hb
    · simp only [bytesOf_append, hb]
  | remove tx =>
    show Inv key U (removeV1 key a tx) ∧ (removeV1 key a tx).bytes = bytesOf (removeV1 key a tx).entries
    unfold removeV1
    split
    · split
      · rename_i e hf
        exact ⟨inv_erase key hi tx _, by
          show a.bytes - (e.length : Int) = bytesOf (a.entries.eraseP _)
          rw [bytesOf_eraseP_find _ _ e hf, hb]⟩
      · exact ⟨hi, hb⟩
    · exact ⟨hi, hb⟩

/-- v0: exact, or two different submitted transactions share a key -/
theorem v0_step_exact_or_collision {U : List Bytes} {a : Acc} (hi : Inv key U a)
    (hb : a.bytes = bytesOf a.entries ∨ Collision key U) (op : Op) (hu : op.tx ∈ U) :
    Inv key U (stepV0 key a op) ∧
      ((stepV0 key a op).bytes = bytesOf (stepV0 key a op).entries ∨ Collision key U) := by
  cases op with
  | add tx =>
    refine ⟨inv_admit key hi tx hu, ?_⟩
    rcases hb with hb | hc
    · left
      show (admitTx key a tx).bytes = bytesOf (admitTx key a tx).entries
      unfold admitTx
      split
      · exact hb
      · simp only [bytesOf_append, hb]
    · exact Or.inr hc
  | remove tx =>
    show Inv key U (removeV0 key a tx) ∧
      ((removeV0 key a tx).bytes = bytesOf (removeV0 key a tx).entries ∨ Collision key U)
    unfold removeV0
    split
    · rename_i hk
      refine ⟨inv_erase key hi tx _, ?_⟩
      rcases hb with hb | hc
      · obtain ⟨e, hf, hek, hel⟩ := find_of_mem_keys key a.entries (key tx) (hi.index.mem_iff.1 hk)
        by_cases hee : e = tx
        · left
          show a.bytes - (tx.length : Int) = bytesOf (a.entries.eraseP _)
          rw [bytesOf_eraseP_find _ _ e hf, hb, hee]
        · right
          exact ⟨e, hi.sub e hel, tx, hu, hee, hek⟩
      · exact Or.inr hc
    · exact ⟨hi, hb⟩

def runV0 (a : Acc) (ops : List Op) : Acc := ops.foldl (stepV0 key) a
def runV1 (a : Acc) (ops : List Op) : Acc := ops.foldl (stepV1 key) a

theorem inv_empty (U : List Bytes) : Inv key U empty :=
  ⟨by simp [empty], by simp [empty], fun _ h => by cases h⟩

theorem v1_run_exact (U : List Bytes) : ∀ (ops : List Op) (a : Acc), Inv key U a →
    a.bytes = bytesOf a.entries → (∀ o ∈ ops, o.tx ∈ U) →
    (runV1 key a ops).bytes = bytesOf (runV1 key a ops).entries := by
  intro ops
  induction ops with
  | nil => intro a _ hb _; exact hb
  | cons o r ih =>
    intro a hi hb hu
    obtain ⟨h1, h2⟩ := v1_step_exact key hi hb o (hu o List.mem_cons_self)
    exact ih _ h1 h2 (fun o' ho' => hu o' (List.mem_cons_of_mem _ ho'))

theorem v0_run_exact_or_collision (U : List Bytes) : ∀ (ops : List Op) (a : Acc), Inv key U a →
    (a.bytes = bytesOf a.entries ∨ Collision key U) → (∀ o ∈ ops, o.tx ∈ U) →
    (runV0 key a ops).bytes = bytesOf (runV0 key a ops).entries ∨ Collision key U := by
  intro ops
  induction ops with
  | nil => intro a _ hb _; exact hb
  | cons o r ih =>
    intro a hi hb hu
    obtain ⟨h1, h2⟩ := v0_step_exact_or_collision key hi hb o (hu o List.mem_cons_self)
    exact ih _ h1 h2 (fun o' ho' => hu o' (List.mem_cons_of_mem _ ho'))

end Tmv.Mempool.Keyed

namespace Tmv.Mempool.Keyed
open Tmv Tmv.Mempool

variable (key : Bytes → Bytes)

theorem inv_removeV1 {U : List Bytes} {a : Acc} (hi : Inv key U a) (tx : Bytes) :
    Inv key U (removeV1 key a tx) := by
  unfold removeV1
  split
  · split
    · exact inv_erase key hi tx _
    · exact hi
  · exact hi

theorem removeV1_exact_or {U : List Bytes} {a : Acc} (hi : Inv key U a)
    (hb : a.bytes = bytesOf a.entries ∨ Collision key U) (tx : Bytes) :
    (removeV1 key a tx).bytes = bytesOf (removeV1 key a tx).entries ∨ Collision key U := by
  rcases hb with hb | hc
  · left
    unfold removeV1
    split
    · split
      · rename_i e hf
        show a.bytes - (e.length : Int) = bytesOf (a.entries.eraseP _)
        rw [bytesOf_eraseP_find _ _ e hf, hb]
      · exact hb
    · exact hb
  · exact Or.inr hc

/-- after a removal by key no entry with that key is left -/
theorem no_key_after_erase {U : List Bytes} {a : Acc} (hi : Inv key U a) (tx : Bytes) :
    ∀ e ∈ a.entries.eraseP (fun e => decide (key e = key tx)), key e ≠ key tx := by
  intro e he heq
  have hm : key e ∈ (a.entries.eraseP (fun e => decide (key e = key tx))).map key :=
    List.mem_map_of_mem (f := key) he
  rw [map_eraseP_key key (key tx) a.entries, heq] at hm
  exact ((hi.nodup.mem_erase_iff).1 hm).1 rfl

theorem removeV0_no_key {U : List Bytes} {a : Acc} (hi : Inv key U a) (tx : Bytes) :
    ∀ e ∈ (removeV0 key a tx).entries, key e ≠ key tx := by
  unfold removeV0
  split
  · exact no_key_after_erase key hi tx
  · rename_i hn
    intro e he heq
    exact hn (hi.index.mem_iff.2 (heq ▸ List.mem_map_of_mem (f := key) he))

theorem removeV1_no_key {U : List Bytes} {a : Acc} (hi : Inv key U a) (tx : Bytes) :
    ∀ e ∈ (removeV1 key a tx).entries, key e ≠ key tx := by
  unfold removeV1
  split
  · rename_i hk
    obtain ⟨e0, hf, _, _⟩ := find_of_mem_keys key a.entries (key tx) (hi.index.mem_iff.1 hk)
    simp only [hf]
    exact no_key_after_erase key hi tx
  · rename_i hn
    intro e he heq
    exact hn (hi.index.mem_iff.2 (heq ▸ List.mem_map_of_mem (f := key) he))

/-- the entry the index holds for `key tx` is `tx` itself, or two submitted txs collide -/
theorem entry_is_tx_or_collision {U : List Bytes} {a : Acc} (hi : Inv key U a) (tx : Bytes)
    (hu : tx ∈ U) (hk : key tx ∈ a.index) : tx ∈ a.entries ∨ Collision key U := by
  obtain ⟨e, _, hek, hel⟩ := find_of_mem_keys key a.entries (key tx) (hi.index.mem_iff.1 hk)
  by_cases h : e = tx
  · left; exact h ▸ hel
  · right; exact ⟨e, hi.sub e hel, tx, hu, h, hek⟩

theorem kcheck_acc (p : KPool) (tx : Bytes) (peer : Nat) (adm rm : Bool) :
    (kcheck key p tx peer adm rm).acc = p.acc ∨ (kcheck key p tx peer adm rm).acc = admitTx key p.acc tx := by
  unfold kcheck recordK
  simp only
  split
  · left; split <;> rfl
  · split
    · left; rfl
    · right; split <;> rfl

theorem kdrop_acc (p : KPool) (e : Bytes) (rc : Bool) :
    (kdrop key p e rc).acc = p.acc ∨ (kdrop key p e rc).acc = removeV1 key p.acc e := by
  unfold kdrop
  split
  · right; rfl
  · left; rfl

/-- what one step of `KPool` does to the accounting core -/
theorem kstepV0_acc (p : KPool) (op : KOp) :
    (kstepV0 key p op).acc = p.acc ∨ (kstepV0 key p op).acc = admitTx key p.acc op.tx ∨
    (kstepV0 key p op).acc = removeV0 key p.acc op.tx ∨ (kstepV0 key p op).acc = removeV1 key p.acc op.tx := by
  cases op with
  | check tx peer adm rm =>
    rcases kcheck_acc key p tx peer adm rm with h | h
    · exact Or.inl h
    · exact Or.inr (Or.inl h)
  | commit tx ok keep => exact Or.inr (Or.inr (Or.inl rfl))
  | drop e rc =>
    rcases kdrop_acc key p e rc with h | h
    · exact Or.inl h
    · exact Or.inr (Or.inr (Or.inr h))

theorem kstepV1_acc (p : KPool) (op : KOp) :
    (kstepV1 key p op).acc = p.acc ∨ (kstepV1 key p op).acc = admitTx key p.acc op.tx ∨
    (kstepV1 key p op).acc = removeV1 key p.acc op.tx := by
  cases op with
  | check tx peer adm rm =>
    rcases kcheck_acc key p tx peer adm rm with h | h
    · exact Or.inl h
    · exact Or.inr (Or.inl h)
  | commit tx ok keep => exact Or.inr (Or.inr rfl)
  | drop e rc =>
    rcases kdrop_acc key p e rc with h | h
    · exact Or.inl h
    · exact Or.inr (Or.inr h)

theorem krunV0_spec (U : List Bytes) : ∀ (ops : List KOp) (p : KPool), Inv key U p.acc →
    (p.acc.bytes = bytesOf p.acc.entries ∨ Collision key U) → (∀ o ∈ ops, o.tx ∈ U) →
    Inv key U (krunV0 key p ops).acc ∧
    ((krunV0 key p ops).acc.bytes = bytesOf (krunV0 key p ops).acc.entries ∨ Collision key U) := by
  intro ops
  induction ops with
  | nil => intro p hi hb _; exact ⟨hi, hb⟩
  | cons o r ih =>
    intro p hi hb hu
    have hou := hu o List.mem_cons_self
    have hstep : Inv key U (kstepV0 key p o).acc ∧
        ((kstepV0 key p o).acc.bytes = bytesOf (kstepV0 key p o).acc.entries ∨ Collision key U) := by
      rcases kstepV0_acc key p o with h | h | h | h
      · rw [h]; exact ⟨hi, hb⟩
      · rw [h]; exact v0_step_exact_or_collision key hi hb (.add o.tx) hou
      · rw [h]; exact v0_step_exact_or_collision key hi hb (.remove o.tx) hou
      · rw [h]; exact ⟨inv_removeV1 key hi _, removeV1_exact_or key hi hb _⟩
    exact ih _ hstep.1 hstep.2 (fun o' ho' => hu o' (List.mem_cons_of_mem _ ho'))

theorem krunV1_spec (U : List Bytes) : ∀ (ops : List KOp) (p : KPool), Inv key U p.acc →
    p.acc.bytes = bytesOf p.acc.entries → (∀ o ∈ ops, o.tx ∈ U) →
    Inv key U (krunV1 key p ops).acc ∧
    (krunV1 key p ops).acc.bytes = bytesOf (krunV1 key p ops).acc.entries := by
  intro ops
  induction ops with
  | nil => intro p hi hb _; exact ⟨hi, hb⟩
  | cons o r ih =>
    intro p hi hb hu
    have hou := hu o List.mem_cons_self
    have hstep : Inv key U (kstepV1 key p o).acc ∧
        (kstepV1 key p o).acc.bytes = bytesOf (kstepV1 key p o).acc.entries := by
      rcases kstepV1_acc key p o with h | h | h
      · rw [h]; exact ⟨hi, hb⟩
      · rw [h]; exact v1_step_exact key hi hb (.add o.tx) hou
      · rw [h]; exact v1_step_exact key hi hb (.remove o.tx) hou
    exact ih _ hstep.1 hstep.2 (fun o' ho' => hu o' (List.mem_cons_of_mem _ ho'))

/-- a cached key: the submission is refused, the pooled transactions stay as they are -/
theorem kcheck_cached (p : KPool) (tx : Bytes) (peer : Nat) (adm rm : Bool)
    (h : p.cache.has (key tx) = true) : (kcheck key p tx peer adm rm).acc = p.acc := by
  unfold kcheck
  simp only [Cache.push_of_has p.cache (key tx) h]
  unfold recordK
  simp only [Bool.not_false, if_true]
  split <;> rfl

theorem sendersOf_recordK (p : KPool) (k : Bytes) (peer : Nat) (hk : k ∈ p.acc.index) :
    peer ∈ sendersOf (recordK p k peer) k := by
  unfold recordK
  simp only [hk, if_true]
  generalize sendersOf p k = old
  unfold sendersOf
  simp only [List.find?_cons, decide_true]
  by_cases h : peer ∈ old <;> simp [h]

/-- a submission that is a cache hit or is admitted leaves `peer` recorded under the tx's key
whenever the index holds that key afterwards -/
theorem kcheck_records (p : KPool) (tx : Bytes) (peer : Nat) (adm rm : Bool)
    (hadm : (p.cache.push (key tx)).2 = false ∨ adm = true)
    (hk : key tx ∈ (kcheck key p tx peer adm rm).acc.index) :
    peer ∈ sendersOf (kcheck key p tx peer adm rm) (key tx) := by
  unfold kcheck at hk ⊢
  simp only at hk ⊢
  by_cases h1 : (p.cache.push (key tx)).2 = false
  · simp only [h1, Bool.not_false, if_true] at hk ⊢
    have hk' : key tx ∈ p.acc.index := by
      unfold recordK at hk; split at hk <;> exact hk
    exact sendersOf_recordK _ _ _ hk'
  · have h1' : (p.cache.push (key tx)).2 = true := by simpa using h1
    have hadm' : adm = true := by
      rcases hadm with h | h
      · exact absurd h h1
      · exact h
    simp only [h1', hadm', Bool.not_true, Bool.false_eq_true, if_false] at hk ⊢
    have hk' : key tx ∈ (admitTx key p.acc tx).index := by
      unfold recordK at hk; split at hk <;> exact hk
    exact sendersOf_recordK _ _ _ hk'

theorem nodup_of_map_nodup {α β : Type} (f : α → β) : ∀ (l : List α), (l.map f).Nodup → l.Nodup := by
  intro l
  induction l with
  | nil => intro _; exact List.nodup_nil
  | cons a r ih =>
    intro h
    have h' := List.nodup_cons.1 h
    exact List.nodup_cons.2 ⟨fun hm => h'.1 (List.mem_map_of_mem (f := f) hm), ih h'.2⟩

end Tmv.Mempool.Keyed
