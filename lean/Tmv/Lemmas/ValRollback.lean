import Tmv.Lemmas.ValPrune
/-! `state.Rollback` and the store invariant: a rollback over heights without a recent validator
change re-saves exactly the record that is already there. -/
namespace Tmv.ValStore
open Tmv.ValSet

theorem incrTimes_full (n : Nat) (s v : VSet) (hs : Full s) (h : incrTimes n s = some v) : Full v := by
  induction n generalizing s with
  | zero => simp only [incrTimes, Option.some.injEq] at h; rw [← h]; exact hs
  | succ m ih =>
    unfold incrTimes at h
    split at h
    · cases h
    · rename_i s1 hs1
      exact ih s1 (increment_full _ _ _ hs1) h

theorem fromProto_some {p v : VSet} (h : fromProto p = some v) : Full v := by
  unfold fromProto at h
  split at h
  · cases h
  · rename_i hc
    cases h
    have h1 : ¬ p.vals = [] := fun e => hc (Or.inl e)
    have h2 : ¬ p.proposer = none := fun e => hc (Or.inr e)
    refine ⟨h1, ?_⟩
    cases hp : p.proposer with
    | none => exact absurd hp h2
    | some _ => rfl

theorem loadValidators_full (t : Tbl Info) (h : Int) (v : VSet) (hl : loadValidators t h = .ok v) :
    Full v := by
  unfold loadValidators at hl
  split at hl
  · cases hl
  · split at hl
    · split at hl
      · rename_i s hs; cases hl; exact fromProto_some hs
      · cases hl
    · simp only at hl
      split at hl
      · cases hl
      · split at hl
        · cases hl
        · split at hl
          · cases hl
          · rename_i vs hvs
            split at hl
            · cases hl
            · rename_i vs' hinc
              cases hl
              exact incrTimes_full _ _ _ (fromProto_some hvs) hinc

theorem rollback_ok (db db' : DB) (st st' : State) (h : rollback db st = .ok db' st') :
    st.initialHeight ≤ st.lastBlockHeight - 1 ∧
    ∃ prevLast, loadValidators db.vals (st.lastBlockHeight - 1) = .ok prevLast ∧
      st' = { st with lastBlockHeight := st.lastBlockHeight - 1, nextValidators := st.validators,
                      validators := st.lastValidators, lastValidators := prevLast,
                      lhvc := (if st.lhvc > st.lastBlockHeight - 1 then st.lastBlockHeight - 1 + 1 else st.lhvc),
                      lhpc := (if st.lhpc > st.lastBlockHeight - 1 then st.lastBlockHeight - 1 + 1 else st.lhpc) } ∧
      save db st' = some db' := by
  unfold rollback at h
  simp only at h
  split at h
  · cases h
  · rename_i hrh
    split at h
    · rename_i prevLast hload
      split at h
      · cases h
      · split at h
        · cases h
        · split at h
          · cases h
          · rename_i db1 hsave
            simp only [RbRes.ok.injEq] at h
            obtain ⟨e1, e2⟩ := h
            subst e1
            refine ⟨by omega, prevLast, hload, e2.symm, ?_⟩
            rw [← e2]; exact hsave
    · cases h
    · cases h

/-- a rollback is harmless when the set of height `LastBlockHeight + 1` (re-saved by `Rollback`)
last changed at or below `LastBlockHeight`, i.e. neither the rolled-back block nor its predecessor
carried validator updates, and that height is retained -/
def RollbackSafe (s : Sys) : Prop :=
  s.st.lhvc ≤ s.st.lastBlockHeight ∧ s.base ≤ tip s.st - 1

theorem inv_rollback (s : Sys) (hi : Inv s) (hsafe : RollbackSafe s) : Inv (s.step .rollback) := by
  show Inv (match rollback s.db s.st with
    | .ok db' st' => ⟨db', st', s.truth, s.base, false⟩
    | _ => s)
  cases hr : rollback s.db s.st with
  | errNoBlock => exact hi
  | errLoad => exact hi
  | errParams => exact hi
  | errSave => exact hi
  | panic => exact hi
  | ok db' st' =>
    simp only
    obtain ⟨hc, hbase⟩ := hsafe
    obtain ⟨hrh, prevLast, hload, hst', hsave⟩ := rollback_ok _ _ _ _ hr
    have hih := hi.ih_pos
    generalize hn : s.st.lastBlockHeight = n at *
    have hn2 : 2 ≤ n := by omega
    have htip : tip s.st = n + 2 := by
      unfold tip blockHeight; rw [hn]
      have : ¬ n = 0 := by omega
      simp only [this, if_false]; omega
    have hvch : (if s.st.lhvc > n - 1 then n - 1 + 1 else s.st.lhvc) = s.st.lhvc := by
      split <;> omega
    rw [hvch] at hst'
    have hlbh' : st'.lastBlockHeight = n - 1 := by rw [hst']
    have hnext' : st'.nextValidators = s.st.validators := by rw [hst']
    have hval' : st'.validators = s.st.lastValidators := by rw [hst']
    have hlast' : st'.lastValidators = prevLast := by rw [hst']
    have hlhvc' : st'.lhvc = s.st.lhvc := by rw [hst']
    have hih' : st'.initialHeight = s.st.initialHeight := by rw [hst']
    have htip' : tip st' = n + 1 := by
      unfold tip blockHeight; rw [hlbh']
      have : ¬ n - 1 = 0 := by omega
      simp only [this, if_false]; omega
    rw [htip] at hbase
    obtain ⟨hcle, hdb⟩ := save_ok s.db db' st' (by omega) (hnext' ▸ hi.cur_full) hsave
    rw [hlbh', hlhvc', hnext'] at hdb
    have e1 : n - 1 + 2 = n + 1 := by omega
    rw [e1] at hdb
    -- the record that is already at n+1
    obtain ⟨infoT, hgetT, hgT⟩ := hi.good (n + 1) (by omega) (by rw [htip]; omega)
    have hGT := hi.grec (n + 1) infoT (by rw [htip]; omega) hgetT
    obtain ⟨infoTip, hgetTip, _⟩ := hi.good (n + 2) (by omega) (by rw [htip]; omega)
    have hctip : infoTip.lhc = s.st.lhvc := hi.lhvc_tip _ (by rw [htip]; exact hgetTip)
    have hcT : infoT.lhc = s.st.lhvc := by
      have := hGT.mono (n + 2) infoTip (by omega) (by rw [htip]; omega) hgetTip
      rw [hctip] at this
      exact this.2 (by omega)
    have hrec : (⟨s.st.lhvc, if n + 1 = s.st.lhvc ∨ (n + 1) % 100000 = 0 then some s.st.validators else none⟩ : Info)
        = infoT := by
      obtain ⟨c0, set0⟩ := infoT
      simp only at hcT; subst hcT
      have hiff := hGT.set_iff
      simp only at hiff
      by_cases hcond : n + 1 = s.st.lhvc ∨ (n + 1) % 100000 = 0
      · simp only [hcond, if_true]
        cases set0 with
        | none => have := hiff.mpr hcond; simp at this
        | some p =>
          have := (hgT.stored p rfl).1
          have h2 := hi.cur_truth (by rw [htip]; omega)
          rw [htip] at h2
          have e : n + 2 - 1 = n + 1 := by omega
          rw [e, this] at h2
          cases h2; rfl
      · simp only [hcond, if_false]
        cases set0 with
        | none => rfl
        | some p => have := hiff.mp (by simp); exact absurd this hcond
    have hget_eq : ∀ k, db'.vals.get k = s.db.vals.get k := by
      intro k
      rw [hdb, Tbl.get_put, hrec]
      by_cases hk : k = n + 1
      · subst hk; simp [hgetT]
      · simp [hk]
    refine ⟨hi.base_pos, (by show s.base ≤ tip st'; rw [htip']; omega), hih' ▸ hi.ih_pos,
      (by show 0 ≤ st'.lastBlockHeight; omega), (by show Full st'.nextValidators; rw [hnext']; exact hi.cur_full),
      ?_, ?_, ?_, ?_, (by intro h; cases h),
      (by show Full st'.validators; rw [hval']; exact hi.last_full (by omega)),
      (by intro _; show Full st'.lastValidators; rw [hlast']; exact loadValidators_full _ _ _ hload), ?_, ?_⟩
    · show s.truth (tip st') = some st'.nextValidators
      rw [htip', hnext']
      have h2 := hi.cur_truth (by rw [htip]; omega)
      rw [htip] at h2
      have e : n + 2 - 1 = n + 1 := by omega
      rw [e] at h2; exact h2
    · intro info hinfo
      show info.lhc = st'.lhvc
      have hinfo' : db'.vals.get (tip st') = some info := hinfo
      rw [htip', hget_eq, hgetT] at hinfo'
      cases hinfo'
      rw [hlhvc']; exact hcT
    · intro h h1 h2
      have h2' : h ≤ tip st' := h2
      rw [htip'] at h2'
      obtain ⟨info, hget, hg⟩ := hi.good h h1 (by rw [htip]; omega)
      refine ⟨info, by show db'.vals.get h = some info; rw [hget_eq]; exact hget, ?_⟩
      exact hg.frame (fun k _ => hget_eq k) rfl
    · intro k info hkt hk
      have hkt' : k ≤ tip st' := hkt
      rw [htip'] at hkt'
      have hk' : db'.vals.get k = some info := hk
      rw [hget_eq] at hk'
      have hG := hi.grec k info (by rw [htip]; omega) hk'
      show GRec db'.vals (tip st') k info
      rw [htip']
      refine ⟨hG.pos, hG.lhc_le, hG.set_iff, ?_⟩
      intro k2 i2 hk2 hk2t hg2
      rw [hget_eq] at hg2
      exact hG.mono k2 i2 hk2 (by rw [htip]; omega) hg2
    · intro hb
      have hb' : s.base ≤ tip st' - 1 := hb
      rw [htip'] at hb'
      show s.truth (tip st' - 1) = some st'.validators
      rw [htip', hval']
      have h2 := hi.last_truth (by omega) (by rw [htip]; omega)
      rw [htip] at h2
      have e : n + 2 - 2 = n + 1 - 1 := by omega
      rw [e] at h2; exact h2
    · intro _ hb
      have hb' : s.base ≤ tip st' - 2 := hb
      rw [htip'] at hb'
      show s.truth (tip st' - 2) = some st'.lastValidators
      rw [htip', hlast']
      obtain ⟨v, hv1, hv2⟩ := load_of_inv s hi (n - 1) (by omega) (by rw [htip]; omega)
      rw [hload] at hv2
      cases hv2
      have e : n + 1 - 2 = n - 1 := by omega
      rw [e]; exact hv1

end Tmv.ValStore
