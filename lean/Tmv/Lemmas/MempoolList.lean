import Tmv.Model.MempoolCache
/-! List lemmas shared by the mempool proofs (core-only). -/
namespace Tmv.Mempool

theorem map_eraseP_key {β : Type} (f : β → Bytes) (k : Bytes) (l : List β) :
    (l.eraseP (fun e => decide (f e = k))).map f = (l.map f).erase k := by
  induction l with
  | nil => rfl
  | cons a r ih =>
    by_cases h : f a = k
    · simp [h]
    · have h' : ¬ (f a == k) = true := by simpa using h
      simp [h, ih]

theorem bytesOf_append (l : List Bytes) (k : Bytes) :
    bytesOf (l ++ [k]) = bytesOf l + (k.length : Int) := by
  induction l with
  | nil => simp [bytesOf]
  | cons a r ih => simp [bytesOf, ih]; omega

theorem bytesOf_erase (l : List Bytes) (k : Bytes) (h : k ∈ l) :
    bytesOf (l.erase k) = bytesOf l - (k.length : Int) := by
  induction l with
  | nil => cases h
  | cons a r ih =>
    by_cases e : a = k
    · subst e; simp [bytesOf]; omega
    · have h' : ¬ (a == k) = true := by simpa using e
      have hk : k ∈ r := by
        cases h with
        | head => exact absurd rfl e
        | tail _ h => exact h
      simp [h', bytesOf, ih hk]; omega

theorem bytesOf_nonneg (l : List Bytes) : 0 ≤ bytesOf l := by
  induction l with
  | nil => simp [bytesOf]
  | cons a r ih => simp [bytesOf]; omega

theorem length_erase_le (l : List Bytes) (k : Bytes) : (l.erase k).length ≤ l.length :=
  (List.erase_sublist).length_le

theorem length_erase_mem (l : List Bytes) (k : Bytes) (h : k ∈ l) :
    (l.erase k).length + 1 = l.length := by
  have := List.length_erase_of_mem h
  have hp : 0 < l.length := List.length_pos_of_mem h
  omega

/-- the cache never forgets the key just pushed (when it is a real cache) -/
theorem Cache.push_has (c : Cache) (k : Bytes) (h : c.size > 0) : (c.push k).1.has k = true := by
  unfold Cache.push Cache.has
  have h0 : ¬ c.size ≤ 0 := by omega
  simp only [h0, if_false]
  by_cases hk : k ∈ c.keys
  · simp [hk, h]
  · simp [hk, h]

theorem Cache.push_size (c : Cache) (k : Bytes) : (c.push k).1.size = c.size := by
  unfold Cache.push
  split
  · rfl
  · split <;> rfl

theorem Cache.remove_size (c : Cache) (k : Bytes) : (c.remove k).size = c.size := by
  unfold Cache.remove
  split <;> rfl

/-- a key present in the cache makes `Push` answer "already there" -/
theorem Cache.push_of_has (c : Cache) (k : Bytes) (h : c.has k = true) : (c.push k).2 = false := by
  unfold Cache.has at h
  simp at h
  unfold Cache.push
  have h0 : ¬ c.size ≤ 0 := by omega
  simp [h0, h.2]

/-- removing another key does not forget `k` -/
theorem Cache.remove_has_ne (c : Cache) (k k' : Bytes) (hne : k ≠ k') (h : c.has k = true) :
    (c.remove k').has k = true := by
  unfold Cache.has at h ⊢
  simp at h
  unfold Cache.remove
  have h0 : ¬ c.size ≤ 0 := by omega
  simp only [h0, if_false]
  simp [h.1]
  exact (List.mem_erase_of_ne hne).2 h.2

/-- the cache holds each key once and never more than its size (nothing when disabled) -/
def Cache.OK (c : Cache) : Prop :=
  c.keys.Nodup ∧ (c.size ≤ 0 → c.keys = []) ∧ (0 < c.size → (c.keys.length : Int) ≤ c.size)

theorem Cache.ok_new (n : Int) : (Cache.new n).OK := by
  refine ⟨by simp [Cache.new], fun _ => rfl, fun h => ?_⟩
  have h' : 0 < n := h
  show ((([] : List Bytes).length : Nat) : Int) ≤ n
  simp; omega

theorem Cache.ok_reset (c : Cache) : c.reset.OK := by
  refine ⟨by simp [Cache.reset], fun _ => rfl, fun h => ?_⟩
  have h' : 0 < c.size := h
  show ((([] : List Bytes).length : Nat) : Int) ≤ c.size
  simp; omega

theorem Cache.ok_remove (c : Cache) (k : Bytes) (h : c.OK) : (c.remove k).OK := by
  unfold Cache.remove
  split
  · exact h
  · rename_i h0
    refine ⟨h.1.erase _, fun h1 => absurd h1 h0, fun h1 => ?_⟩
    have := h.2.2 h1
    have := length_erase_le c.keys k
    show ((c.keys.erase k).length : Int) ≤ c.size
    omega

theorem Cache.ok_push (c : Cache) (k : Bytes) (h : c.OK) : (c.push k).1.OK := by
  unfold Cache.push
  split
  · exact h
  · rename_i h0
    have hpos : 0 < c.size := by omega
    have hlen := h.2.2 hpos
    split
    · rename_i hk
      refine ⟨?_, fun h1 => absurd h1 h0, fun _ => ?_⟩
      · show (c.keys.erase k ++ [k]).Nodup
        rw [List.nodup_append]
        refine ⟨h.1.erase _, by simp, ?_⟩
        intro a ha b hb
        simp at hb; subst hb
        intro e; subst e
        exact ((h.1.mem_erase_iff).1 ha).1 rfl
      · show ((c.keys.erase k ++ [k]).length : Int) ≤ c.size
        have := length_erase_mem c.keys k hk
        simp only [List.length_append, List.length_cons, List.length_nil]
        omega
    · rename_i hk
      refine ⟨?_, fun h1 => absurd h1 h0, fun _ => ?_⟩
      · show ((if (c.keys.length : Int) ≥ c.size then c.keys.drop 1 else c.keys) ++ [k]).Nodup
        rw [List.nodup_append]
        refine ⟨?_, by simp, ?_⟩
        · split
          · exact List.Nodup.sublist (List.drop_sublist 1 c.keys) h.1
          · exact h.1
        · intro a ha b hb
          simp at hb; subst hb
          intro e; subst e
          split at ha
          · exact hk (List.mem_of_mem_drop ha)
          · exact hk ha
      · show (((if (c.keys.length : Int) ≥ c.size then c.keys.drop 1 else c.keys) ++ [k]).length : Int) ≤ c.size
        split
        · simp only [List.length_append, List.length_drop, List.length_cons, List.length_nil]
          omega
        · simp only [List.length_append, List.length_cons, List.length_nil]
          omega

/-- … for a cache of configured size `n` -/
def Cache.OKn (n : Int) (c : Cache) : Prop := c.size = n ∧ c.OK

theorem Cache.okn_new (n : Int) : (Cache.new n).OKn n := ⟨rfl, Cache.ok_new n⟩
theorem Cache.okn_reset {n : Int} (c : Cache) (h : c.OKn n) : c.reset.OKn n := ⟨h.1, Cache.ok_reset c⟩
theorem Cache.okn_remove {n : Int} (c : Cache) (k : Bytes) (h : c.OKn n) : (c.remove k).OKn n :=
  ⟨(Cache.remove_size c k).trans h.1, Cache.ok_remove c k h.2⟩
theorem Cache.okn_push {n : Int} (c : Cache) (k : Bytes) (h : c.OKn n) : (c.push k).1.OKn n :=
  ⟨(Cache.push_size c k).trans h.1, Cache.ok_push c k h.2⟩

theorem foldl_pred {σ α : Type} (Q : σ → Prop) (g : σ → α → σ) (hg : ∀ st a, Q st → Q (g st a))
    (l : List α) : ∀ st, Q st → Q (l.foldl g st) := by
  induction l with
  | nil => intro st h; exact h
  | cons a r ih => intro st h; exact ih _ (hg st a h)

/-! ### what the LRU "remembers" -/

/-- cache operations after the push of the key under observation -/
inductive CacheOp
  | push (k : Bytes)
  | remove (k : Bytes)

def CacheOp.key : CacheOp → Bytes
  | .push k => k
  | .remove k => k

def Cache.apply (c : Cache) : CacheOp → Cache
  | .push k => (c.push k).1
  | .remove k => c.remove k

def Cache.applyAll (c : Cache) (ops : List CacheOp) : Cache := ops.foldl Cache.apply c

def pushedKeys : List CacheOp → List Bytes
  | [] => []
  | .push k :: r => k :: pushedKeys r
  | .remove _ :: r => pushedKeys r

/-- `k` sits in the list with only keys from `D` behind it (more recent than it) -/
structure Cache.Holds (c : Cache) (k : Bytes) (D : List Bytes) : Prop where
  ok : c.OK
  pos : 0 < c.size
  split : ∃ pre post, c.keys = pre ++ k :: post ∧ (∀ x ∈ post, x ∈ D)

theorem Cache.holds_push (c : Cache) (k : Bytes) (D : List Bytes) (h : c.OK) (hp : 0 < c.size) :
    (c.push k).1.Holds k D := by
  refine ⟨Cache.ok_push c k h, by rw [Cache.push_size]; exact hp, ?_⟩
  unfold Cache.push
  have h0 : ¬ c.size ≤ 0 := by omega
  simp only [h0, if_false]
  split
  · exact ⟨c.keys.erase k, [], rfl, fun _ hx => (by cases hx)⟩
  · exact ⟨(if (c.keys.length : Int) ≥ c.size then c.keys.drop 1 else c.keys), [], rfl,
      fun _ hx => (by cases hx)⟩

theorem Cache.holds_has {c : Cache} {k : Bytes} {D : List Bytes} (h : c.Holds k D) : c.has k = true := by
  obtain ⟨pre, post, hk, _⟩ := h.split
  unfold Cache.has
  have := h.pos
  simp [hk]; omega

theorem erase_split_pre {pre post : List Bytes} {k j : Bytes} (hj : j ∈ pre) :
    (pre ++ k :: post).erase j = pre.erase j ++ k :: post := List.erase_append_left _ hj

theorem erase_split_post {pre post : List Bytes} {k j : Bytes} (hj : j ∉ pre) (hne : j ≠ k) :
    (pre ++ k :: post).erase j = pre ++ k :: post.erase j := by
  rw [List.erase_append_right _ hj]
  have : ¬ (k == j) = true := by simpa using fun h : k = j => hne h.symm
  simp [List.erase_cons, this]

/-- one further operation on another key: `k` is still held, provided the keys behind it together
with a newly inserted one stay below the cache size -/
theorem Cache.holds_step {c : Cache} {k : Bytes} {D : List Bytes} (h : c.Holds k D) (op : CacheOp)
    (hne : op.key ≠ k) (hD : ∀ j, op = .push j → j ∈ D)
    (hsmall : ∀ l : List Bytes, l.Nodup → (∀ x ∈ l, x ∈ D) → k ∉ l → (l.length : Int) < c.size) :
    (c.apply op).Holds k D := by
  obtain ⟨pre, post, hk, hpost⟩ := h.split
  have hnd : c.keys.Nodup := h.ok.1
  have hnd' : (pre ++ k :: post).Nodup := hk ▸ hnd
  have hdisj := (List.nodup_append.1 hnd').2.2
  have hkpost : post.Nodup := (List.nodup_cons.1 (List.nodup_append.1 hnd').2.1).2
  have hknot : k ∉ post := (List.nodup_cons.1 (List.nodup_append.1 hnd').2.1).1
  have h0 : ¬ c.size ≤ 0 := by have := h.pos; omega
  cases op with
  | remove j =>
    have hjk : j ≠ k := hne
    refine ⟨Cache.ok_remove c j h.ok, by show (c.remove j).size > 0; rw [Cache.remove_size]; exact h.pos, ?_⟩
    show ∃ pre' post', (c.remove j).keys = pre' ++ k :: post' ∧ _
    unfold Cache.remove
    simp only [h0, if_false]
    by_cases hjp : j ∈ pre
    · exact ⟨pre.erase j, post, by rw [hk]; exact erase_split_pre hjp, hpost⟩
    · exact ⟨pre, post.erase j, by rw [hk]; exact erase_split_post hjp hjk,
        fun x hx => hpost x (List.mem_of_mem_erase hx)⟩
  | push j =>
    have hjk : j ≠ k := hne
    have hjD : j ∈ D := hD j rfl
    refine ⟨Cache.ok_push c j h.ok, by show (c.push j).1.size > 0; rw [Cache.push_size]; exact h.pos, ?_⟩
    show ∃ pre' post', (c.push j).1.keys = pre' ++ k :: post' ∧ _
    unfold Cache.push
    simp only [h0, if_false]
    by_cases hjin : j ∈ c.keys
    · simp only [hjin, if_true]
      by_cases hjp : j ∈ pre
      · refine ⟨pre.erase j, post ++ [j], ?_, ?_⟩
        · show c.keys.erase j ++ [j] = _
          rw [hk, erase_split_pre hjp]; simp
        · intro x hx
          rcases List.mem_append.1 hx with hx | hx
          · exact hpost x hx
          · simp at hx; rw [hx]; exact hjD
      · refine ⟨pre, post.erase j ++ [j], ?_, ?_⟩
        · show c.keys.erase j ++ [j] = _
          rw [hk, erase_split_post hjp hjk]; simp
        · intro x hx
          rcases List.mem_append.1 hx with hx | hx
          · exact hpost x (List.mem_of_mem_erase hx)
          · simp at hx; rw [hx]; exact hjD
    · simp only [hjin, if_false]
      have hjpost : j ∉ post := fun hm => hjin (by rw [hk]; simp [hm])
      -- the keys behind k plus the new one are few
      have hfew : ((post ++ [j]).length : Int) < c.size := by
        apply hsmall
        · rw [List.nodup_append]
          refine ⟨hkpost, by simp, ?_⟩
          intro a ha b hb
          simp at hb; subst hb
          intro e; subst e; exact hjpost ha
        · intro x hx
          rcases List.mem_append.1 hx with hx | hx
          · exact hpost x hx
          · simp at hx; rw [hx]; exact hjD
        · intro hm
          rcases List.mem_append.1 hm with hm | hm
          · exact hknot hm
          · simp at hm; exact hjk hm.symm
      by_cases hfull : (c.keys.length : Int) ≥ c.size
      · simp only [hfull, if_true]
        -- the front entry goes; it is not k
        cases pre with
        | nil =>
          rw [hk] at hfull
          simp at hfull hfew
          omega
        | cons p pre' =>
          refine ⟨pre', post ++ [j], ?_, ?_⟩
          · show c.keys.drop 1 ++ [j] = _
            rw [hk]; simp
          · intro x hx
            rcases List.mem_append.1 hx with hx | hx
            · exact hpost x hx
            · simp at hx; rw [hx]; exact hjD
      · simp only [hfull, if_false]
        refine ⟨pre, post ++ [j], ?_, ?_⟩
        · show c.keys ++ [j] = _
          rw [hk]; simp
        · intro x hx
          rcases List.mem_append.1 hx with hx | hx
          · exact hpost x hx
          · simp at hx; rw [hx]; exact hjD

theorem Cache.apply_size (c : Cache) (op : CacheOp) : (c.apply op).size = c.size := by
  cases op with
  | push j => exact Cache.push_size c j
  | remove j => exact Cache.remove_size c j

theorem Cache.holds_all (k : Bytes) (D : List Bytes) : ∀ (ops : List CacheOp) (c : Cache),
    c.Holds k D → (∀ o ∈ ops, o.key ≠ k) → (∀ j, CacheOp.push j ∈ ops → j ∈ D) →
    (∀ l : List Bytes, l.Nodup → (∀ x ∈ l, x ∈ D) → k ∉ l → (l.length : Int) < c.size) →
    (c.applyAll ops).Holds k D := by
  intro ops
  induction ops with
  | nil => intro c h _ _ _; exact h
  | cons o r ih =>
    intro c h hne hD hs
    have h1 := Cache.holds_step h o (hne o List.mem_cons_self)
      (fun j hj => hD j (hj ▸ List.mem_cons_self)) hs
    exact ih (c.apply o) h1 (fun o' ho' => hne o' (List.mem_cons_of_mem _ ho'))
      (fun j hj => hD j (List.mem_cons_of_mem _ hj)) (by rw [Cache.apply_size]; exact hs)

theorem mem_pushedKeys {ops : List CacheOp} {j : Bytes} (h : CacheOp.push j ∈ ops) : j ∈ pushedKeys ops := by
  induction ops with
  | nil => cases h
  | cons o r ih =>
    cases o with
    | push k =>
      simp only [pushedKeys]
      rcases List.mem_cons.1 h with h | h
      · cases h; exact List.mem_cons_self
      · exact List.mem_cons_of_mem _ (ih h)
    | remove k =>
      simp only [pushedKeys]
      rcases List.mem_cons.1 h with h | h
      · cases h
      · exact ih h

end Tmv.Mempool
