import Tmv.Model.MempoolCache
/-! List lemmas shared by the mempool proofs (core-only). -/
namespace Tmv.Mempool

theorem map_eraseP_key {β : Type} (f : β → Bytes) (k : Bytes) (l : List β) :
    (l.eraseP (fun e => decide (f e = k))).map f = (l.map f).erase k := by
  induction l with
  | nil => rfl
  | cons a r ih =>
    by_cases h : f a = k
    · simp [h]
    · have h' : ¬ (f a == k) = true := by simpa using h
      simp [h, ih]

theorem bytesOf_append (l : List Bytes) (k : Bytes) :
    bytesOf (l ++ [k]) = bytesOf l + (k.length : Int) := by
  induction l with
  | nil => simp [bytesOf]
  | cons a r ih => simp [bytesOf, ih]; omega

theorem bytesOf_erase (l : List Bytes) (k : Bytes) (h : k ∈ l) :
    bytesOf (l.erase k) = bytesOf l - (k.length : Int) := by
  induction l with
  | nil => cases h
  | cons a r ih =>
    by_cases e : a = k
    · subst e; simp [bytesOf]; omega
    · have h' : ¬ (a == k) = true := by simpa using e
      have hk : k ∈ r := by
        cases h with
        | head => exact absurd rfl e
        | tail _ h => exact h
      simp [h', bytesOf, ih hk]; omega

theorem bytesOf_nonneg (l : List Bytes) : 0 ≤ bytesOf l := by
  induction l with
  | nil => simp [bytesOf]
  | cons a r ih => simp [bytesOf]; omega

theorem length_erase_le (l : List Bytes) (k : Bytes) : (l.erase k).length ≤ l.length :=
  (List.erase_sublist).length_le

theorem length_erase_mem (l : List Bytes) (k : Bytes) (h : k ∈ l) :
    (l.erase k).length + 1 = l.length := by
  have := List.length_erase_of_mem h
  have hp : 0 < l.length := List.length_pos_of_mem h
  omega

/-- the cache never forgets the key just pushed (when it is a real cache) -/
theorem Cache.push_has (c : Cache) (k : Bytes) (h : c.size > 0) : (c.push k).1.has k = true := by
  unfold Cache.push Cache.has
  have h0 : ¬ c.size ≤ 0 := by omega
  simp only [h0, if_false]
  by_cases hk : k ∈ c.keys
  · simp [hk, h]
  · simp [hk, h]

theorem Cache.push_size (c : Cache) (k : Bytes) : (c.push k).1.size = c.size := by
  unfold Cache.push
  split
  · rfl
  · split <;> rfl

theorem Cache.remove_size (c : Cache) (k : Bytes) : (c.remove k).size = c.size := by
  unfold Cache.remove
  split <;> rfl

/-- a key present in the cache makes `Push` answer "already there" -/
theorem Cache.push_of_has (c : Cache) (k : Bytes) (h : c.has k = true) : (c.push k).2 = false := by
  unfold Cache.has at h
  simp at h
  unfold Cache.push
  have h0 : ¬ c.size ≤ 0 := by omega
  simp [h0, h.2]

/-- removing another key does not forget `k` -/
theorem Cache.remove_has_ne (c : Cache) (k k' : Bytes) (hne : k ≠ k') (h : c.has k = true) :
    (c.remove k').has k = true := by
  unfold Cache.has at h ⊢
  simp at h
  unfold Cache.remove
  have h0 : ¬ c.size ≤ 0 := by omega
  simp only [h0, if_false]
  simp [h.1]
  exact (List.mem_erase_of_ne hne).2 h.2

/-- the cache holds each key once and never more than its size (nothing when disabled) -/
def Cache.OK (c : Cache) : Prop :=
  c.keys.Nodup ∧ (c.size ≤ 0 → c.keys = []) ∧ (0 < c.size → (c.keys.length : Int) ≤ c.size)

theorem Cache.ok_new (n : Int) : (Cache.new n).OK := by
  refine ⟨by simp [Cache.new], fun _ => rfl, fun h => ?_⟩
  have h' : 0 < n := h
  show ((([] : List Bytes).length : Nat) : Int) ≤ n
  simp; omega

theorem Cache.ok_reset (c : Cache) : c.reset.OK := by
  refine ⟨by simp [Cache.reset], fun _ => rfl, fun h => ?_⟩
  have h' : 0 < c.size := h
  show ((([] : List Bytes).length : Nat) : Int) ≤ c.size
  simp; omega

theorem Cache.ok_remove (c : Cache) (k : Bytes) (h : c.OK) : (c.remove k).OK := by
  unfold Cache.remove
  split
  · exact h
  · rename_i h0
    refine ⟨h.1.erase _, fun h1 => absurd h1 h0, fun h1 => ?_⟩
    have := h.2.2 h1
    have := length_erase_le c.keys k
    show ((c.keys.erase k).length : Int) ≤ c.size
    omega

theorem Cache.ok_push (c : Cache) (k : Bytes) (h : c.OK) : (c.push k).1.OK := by
  unfold Cache.push
  split
  · exact h
  · rename_i h0
    have hpos : 0 < c.size := by omega
    have hlen := h.2.2 hpos
    split
    · rename_i hk
      refine ⟨?_, fun h1 => absurd h1 h0, fun _ => ?_⟩
      · show (c.keys.erase k ++ [k]).Nodup
        rw [List.nodup_append]
        refine ⟨h.1.erase _, by simp, ?_⟩
        intro a ha b hb
        simp at hb; subst hb
        intro e; subst e
        exact ((h.1.mem_erase_iff).1 ha).1 rfl
      · show ((c.keys.erase k ++ [k]).length : Int) ≤ c.size
        have := length_erase_mem c.keys k hk
        simp only [List.length_append, List.length_cons, List.length_nil]
        omega
    · rename_i hk
      refine ⟨?_, fun h1 => absurd h1 h0, fun _ => ?_⟩
      · show ((if (c.keys.length : Int) ≥ c.size then c.keys.drop 1 else c.keys) ++ [k]).Nodup
        rw [List.nodup_append]
        refine ⟨?_, by simp, ?_⟩
        · split
          · exact List.Nodup.sublist (List.drop_sublist 1 c.keys) h.1
          · exact h.1
        · intro a ha b hb
          simp at hb; subst hb
          intro e; subst e
          split at ha
          · exact hk (List.mem_of_mem_drop ha)
          · exact hk ha
      · show (((if (c.keys.length : Int) ≥ c.size then c.keys.drop 1 else c.keys) ++ [k]).length : Int) ≤ c.size
        split
        · simp only [List.length_append, List.length_drop, List.length_cons, List.length_nil]
          omega
        · simp only [List.length_append, List.length_cons, List.length_nil]
          omega

/-- … for a cache of configured size `n` -/
def Cache.OKn (n : Int) (c : Cache) : Prop := c.size = n ∧ c.OK

theorem Cache.okn_new (n : Int) : (Cache.new n).OKn n := ⟨rfl, Cache.ok_new n⟩
theorem Cache.okn_reset {n : Int} (c : Cache) (h : c.OKn n) : c.reset.OKn n := ⟨h.1, Cache.ok_reset c⟩
theorem Cache.okn_remove {n : Int} (c : Cache) (k : Bytes) (h : c.OKn n) : (c.remove k).OKn n :=
  ⟨(Cache.remove_size c k).trans h.1, Cache.ok_remove c k h.2⟩
theorem Cache.okn_push {n : Int} (c : Cache) (k : Bytes) (h : c.OKn n) : (c.push k).1.OKn n :=
  ⟨(Cache.push_size c k).trans h.1, Cache.ok_push c k h.2⟩

theorem foldl_pred {σ α : Type} (Q : σ → Prop) (g : σ → α → σ) (hg : ∀ st a, Q st → Q (g st a))
    (l : List α) : ∀ st, Q st → Q (l.foldl g st) := by
  induction l with
  | nil => intro st h; exact h
  | cons a r ih => intro st h; exact ih _ (hg st a h)

end Tmv.Mempool
