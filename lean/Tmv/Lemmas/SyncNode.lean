import Tmv.Model.Sync
import Tmv.Lemmas.NetNI
/-! Per-node progress lemmas on the functions of `Tmv.Cons` used by C03 (no network needed):
what round a node is in after `enterNewRound` and the functions it runs into, round skipping,
the unlock rule, re-proposal of the valid block, and the commit step. -/
namespace Tmv.Cons

@[simp] theorem emit_round' (s : NodeState) (o : Output) : (emit s o).round = s.round := by
  unfold emit; split <;> rfl
@[simp] theorem emit_step' (s : NodeState) (o : Output) : (emit s o).step = s.step := by
  unfold emit; split <;> rfl
@[simp] theorem emit_halted (s : NodeState) (o : Output) : (emit s o).halted = s.halted := by
  unfold emit; split <;> simp_all
@[simp] theorem emit_votes' (s : NodeState) (o : Output) : (emit s o).votes = s.votes := by
  unfold emit; split <;> rfl
@[simp] theorem emit_valRound (s : NodeState) (o : Output) : (emit s o).valRound = s.valRound := by
  unfold emit; split <;> rfl

theorem sign_round {c : Cfg} {s s' : NodeState} {r k : Nat} {p : Payload}
    (h : sign c s r k p = some s') : s'.round = s.round ∧ s'.halted = s.halted ∧ s'.step = s.step := by
  unfold sign at h
  split at h
  · cases h; exact ⟨rfl, rfl, rfl⟩
  · split at h
    · cases h; exact ⟨rfl, rfl, rfl⟩
    · repeat' split at h
      all_goals first | (cases h; exact ⟨rfl, rfl, rfl⟩) | contradiction

theorem signAddVote_round' (c : Cfg) (s : NodeState) (t : VType) (b : Bid) :
    (signAddVote c s t b).round = s.round ∧ (signAddVote c s t b).halted = s.halted ∧
      (signAddVote c s t b).step = s.step := by
  unfold signAddVote
  split
  · exact ⟨rfl, rfl, rfl⟩
  · split
    · exact ⟨rfl, rfl, rfl⟩
    · split
      · rename_i s' hs
        have := sign_round hs
        simp [this]
      · exact ⟨rfl, rfl, rfl⟩

theorem doPrevote_round' (c : Cfg) (s : NodeState) :
    (doPrevote c s).round = s.round ∧ (doPrevote c s).halted = s.halted := by
  unfold doPrevote
  split
  · exact ⟨(signAddVote_round' ..).1, (signAddVote_round' ..).2.1⟩
  · split
    · exact ⟨(signAddVote_round' ..).1, (signAddVote_round' ..).2.1⟩
    · split <;> exact ⟨(signAddVote_round' ..).1, (signAddVote_round' ..).2.1⟩

/-- `enterPrevote` leaves the node halted-or-not as it was and in round `s.round` or `round` -/
theorem enterPrevote_round (c : Cfg) (s : NodeState) (round : Nat) :
    (enterPrevote c s round).halted = s.halted ∧
    ((enterPrevote c s round).round = s.round ∨ (enterPrevote c s round).round = round) := by
  unfold enterPrevote
  split
  · exact ⟨rfl, Or.inl rfl⟩
  · split
    · exact ⟨rfl, Or.inl rfl⟩
    · exact ⟨(doPrevote_round' c s).2, Or.inr rfl⟩

theorem decideProposal_round' (c : Cfg) (s : NodeState) (round me : Nat) :
    (decideProposal c s round me).round = s.round ∧ (decideProposal c s round me).halted = s.halted := by
  unfold decideProposal
  dsimp only
  split
  · rename_i s' hs
    have := sign_round hs
    simp [this]
  · exact ⟨rfl, rfl⟩

/-- after `enterPropose` passed its guard the node is in round `round` -/
theorem enterPropose_round (c : Cfg) (s : NodeState) (round : Nat) (hh : s.halted = false)
    (hg : ¬ (round < s.round ∨ (s.round = round ∧ Step.propose.rank ≤ s.step.rank))) :
    (enterPropose c s round).round = round ∧ (enterPropose c s round).halted = false := by
  unfold enterPropose
  simp only [hh, Bool.false_eq_true, if_false, hg]
  -- the proposer branch keeps round/halted
  have key : ∀ s1 : NodeState, s1.halted = false →
      (if isProposalComplete { s1 with round := round, step := .propose } = true
        then enterPrevote c { s1 with round := round, step := .propose } round
        else { s1 with round := round, step := .propose }).round = round ∧
      (if isProposalComplete { s1 with round := round, step := .propose } = true
        then enterPrevote c { s1 with round := round, step := .propose } round
        else { s1 with round := round, step := .propose }).halted = false := by
    intro s1 h1
    split
    · have := enterPrevote_round c { s1 with round := round, step := .propose } round
      refine ⟨?_, by rw [this.1]; exact h1⟩
      rcases this.2 with h | h <;> simpa using h
    · exact ⟨rfl, h1⟩
  split
  · exact key _ (by simp [hh])
  · split
    · exact key _ (by rw [(decideProposal_round' ..).2]; simp [hh])
    · exact key _ (by simp [hh])

theorem newRoundReset_round (s : NodeState) (round : Nat) :
    (newRoundReset s round).round = round ∧ (newRoundReset s round).halted = s.halted ∧
    (newRoundReset s round).step = .newRound := by
  unfold newRoundReset
  dsimp only
  split <;> exact ⟨rfl, rfl, rfl⟩

/-- **enterNewRound reaches the round**: when its guard lets `round` through, the node ends up in
round `round` (or halts on the `SetRound` panic). -/
theorem enterNewRound_round (c : Cfg) (s : NodeState) (round : Nat) (hh : s.halted = false)
    (hg : ¬ (round < s.round ∨ (s.round = round ∧ s.step ≠ .newHeight))) :
    (enterNewRound c s round).halted = true ∨ (enterNewRound c s round).round = round := by
  unfold enterNewRound
  simp only [hh, Bool.false_eq_true, if_false, hg]
  have hr := newRoundReset_round s round
  split
  · left; unfold panicWith; simp [hr.2.1, hh]
  · right
    split
    · split
      · simp [hr.1]
      · exact hr.1
    · refine (enterPropose_round c _ round (by simp [hr.2.1, hh]) ?_).1
      simp [hr.1, hr.2.2, Step.rank]

/-- **round skipping on +2/3-any prevotes of a later round** (`State.addVote`, prevote case): a
node in round `< vr` whose round-`vr` prevote set holds more than 2/3 of the power in votes for
anything moves to round `vr`. -/
theorem round_skip_on_prevotes (c : Cfg) (s : NodeState) (vr : Nat) (hh : s.halted = false)
    (hlt : s.round < vr) (hany : hasAnyOf c (s.votes.prevotes vr) = true) :
    (prevoteTransitions c s vr).halted = true ∨ (prevoteTransitions c s vr).round = vr := by
  unfold prevoteTransitions
  simp only [hlt, hany, and_self, if_true]
  exact enterNewRound_round c s vr hh (by omega)

theorem onPolka_round (s : NodeState) (vr : Nat) (bid : Bid) :
    (onPolka s vr bid).round = s.round ∧ (onPolka s vr bid).halted = s.halted ∧
    (onPolka s vr bid).votes = s.votes := by
  unfold onPolka unlock
  dsimp only
  repeat' split
  all_goals exact ⟨rfl, rfl, rfl⟩

/-- the same at the level of `addVote`'s prevote case -/
theorem afterPrevote_round_skip (c : Cfg) (s : NodeState) (vr : Nat) (hh : s.halted = false)
    (hlt : s.round < vr) (hany : hasAnyOf c (s.votes.prevotes vr) = true) :
    (afterPrevote c s vr).halted = true ∨ (afterPrevote c s vr).round = vr := by
  unfold afterPrevote
  split
  · rename_i bid _
    have h := onPolka_round s vr bid
    exact round_skip_on_prevotes c _ vr (by rw [h.2.1]; exact hh) (by rw [h.1]; exact hlt)
      (by rw [h.2.2]; exact hany)
  · exact round_skip_on_prevotes c s vr hh hlt hany

theorem enterPrecommitWait_round (c : Cfg) (s : NodeState) (round : Nat) :
    (enterPrecommitWait c s round).halted = true ∨ (enterPrecommitWait c s round).round = s.round := by
  unfold enterPrecommitWait
  repeat' split
  all_goals first | (right; rfl) | (right; simp) | (left; unfold panicWith; split <;> simp_all)

/-- **round skipping on +2/3-any precommits of a later round** (`State.addVote`, precommit case
without a single +2/3 majority) -/
theorem round_skip_on_precommits (c : Cfg) (s : NodeState) (vr : Nat) (hh : s.halted = false)
    (hlt : s.round < vr) (hany : hasAnyOf c (s.votes.precommits vr) = true)
    (hno : maj23Of (s.votes.precommits vr) = none) :
    (afterPrecommit c s vr).halted = true ∨ (afterPrecommit c s vr).round = vr := by
  unfold afterPrecommit
  simp only [hno, hany, and_true]
  have hle : s.round ≤ vr := by omega
  simp only [hle, if_true]
  rcases enterNewRound_round c s vr hh (by omega) with h | h
  · left
    unfold enterPrecommitWait; simp [h]
  · rcases enterPrecommitWait_round c (enterNewRound c s vr) vr with h' | h'
    · exact Or.inl h'
    · exact Or.inr (by rw [h', h])

theorem onPolka_locked (s : NodeState) (vr : Nat) (bid : Bid) :
    (onPolka s vr bid).lockedBlock =
      (if s.lockedBlock.isSome ∧ s.lockedRound < (vr : Int) ∧ vr ≤ s.round ∧ !hashesTo s.lockedBlock bid
        then unlock s else s).lockedBlock ∧
    (onPolka s vr bid).lockedRound =
      (if s.lockedBlock.isSome ∧ s.lockedRound < (vr : Int) ∧ vr ≤ s.round ∧ !hashesTo s.lockedBlock bid
        then unlock s else s).lockedRound := by
  unfold onPolka
  dsimp only
  repeat' split
  all_goals exact ⟨rfl, rfl⟩

/-- **unlock on a later polka** (`State.addVote`, "There was a polka!"): a node locked in a round
before `vr` on another block than the one the round-`vr` prevotes have a +2/3 majority for (nil
included) releases its lock — provided it is in round `vr` or later when the check runs. -/
theorem unlock_on_later_polka (s : NodeState) (vr : Nat) (bid : Bid) (b : Nat)
    (hl : s.lockedBlock = some b) (hlr : s.lockedRound < (vr : Int)) (hr : vr ≤ s.round)
    (hne : bid ≠ some b) :
    (onPolka s vr bid).lockedBlock = none ∧ (onPolka s vr bid).lockedRound = -1 := by
  have hh : hashesTo s.lockedBlock bid = false := by
    unfold hashesTo; rw [hl]
    cases bid with
    | none => rfl
    | some b' =>
      simp only
      have : b ≠ b' := fun h => hne (by rw [h])
      simp [this]
  have hh' : hashesTo (some b) bid = false := by rw [← hl]; exact hh
  have h := onPolka_locked s vr bid
  rw [h.1, h.2]
  simp [hl, hlr, hr, hh', unlock]

/-- … and when the node is still in an earlier round than the polka the lock stays (the check
`vote.Round <= cs.Round` fails); it is re-run on the node's own prevote of round `vr`. -/
theorem no_unlock_before_round (s : NodeState) (vr : Nat) (bid : Bid) (hr : s.round < vr) :
    (onPolka s vr bid).lockedBlock = s.lockedBlock := by
  unfold onPolka
  have h1 : ¬ (vr ≤ s.round) := by omega
  have h2 : ¬ (vr = s.round) := by omega
  simp [h1, h2]

/-- **re-proposal of the valid block with its POL round** (`defaultDecideProposal`): a proposer
that knows a valid block proposes exactly it, with `ValidRound` as the proposal's POL round, and
puts the proposal and the block on its internal queue. -/
theorem reproposes_valid_block (c : Cfg) (s : NodeState) (round me b : Nat)
    (hh : s.halted = false) (hv : s.validBlock = some b) (hs : c.checkHRS = false) :
    (decideProposal c s round me).out = s.out ++ [.signProposal round b s.validRound] ∧
    (decideProposal c s round me).queue =
      s.queue ++ [.proposal ⟨round, b, s.validRound, me⟩, .part b] := by
  unfold decideProposal sign
  simp [hv, hs, emit, hh]

/-- without a valid block the proposer proposes the block `createProposalBlock` yields, POL -1 …
(stated for the state at the start of a height) -/
theorem proposes_own_block (c : Cfg) (s : NodeState) (round me : Nat)
    (hh : s.halted = false) (hv : s.validBlock = none) (hs : c.checkHRS = false) :
    (decideProposal c s round me).out = s.out ++ [.signProposal round c.ownBlock s.validRound] := by
  unfold decideProposal sign
  simp [hv, hs, emit, hh]

/-- `enterPrecommit` leaves the node in round `s.round` or `round`, halted or not as … (round part) -/
theorem enterPrecommit_round (c : Cfg) (s : NodeState) (round : Nat) :
    (enterPrecommit c s round).halted = true ∨ (enterPrecommit c s round).round = s.round ∨
      (enterPrecommit c s round).round = round := by
  unfold enterPrecommit
  dsimp only
  repeat' split
  all_goals first
    | (right; left; rfl)
    | (right; right; rfl)
    | (left; unfold panicWith; split <;> simp_all)

/-- **a bad round ends at the precommit-wait timeout**: a live node in round `r` that is given its
`PrecommitWait` timeout of round `r` moves on to round `r + 1` (`handleTimeout`: `enterPrecommit`,
then `enterNewRound(r+1)`) — whatever step it is in. -/
theorem precommitWait_timeout_advances (c : Cfg) (s : NodeState) (r : Nat) (hh : s.halted = false)
    (hr : s.round = r) (hst : s.step.rank ≤ Step.precommitWait.rank) :
    (handleTimeout c s r .precommitWait).halted = true ∨ (handleTimeout c s r .precommitWait).round = r + 1 := by
  unfold handleTimeout
  have hg : ¬ (r < s.round ∨ (r = s.round ∧ Step.precommitWait.rank < s.step.rank)) := by omega
  simp only [hg, if_false]
  rcases enterPrecommit_round c s r with h | h | h
  · left
    unfold enterNewRound; simp [h]
  · cases hh' : (enterPrecommit c s r).halted with
    | true => left; unfold enterNewRound; simp [hh']
    | false =>
      exact enterNewRound_round c _ (r + 1) hh' (by rw [h, hr]; omega)
  · cases hh' : (enterPrecommit c s r).halted with
    | true => left; unfold enterNewRound; simp [hh']
    | false =>
      exact enterNewRound_round c _ (r + 1) hh' (by rw [h]; omega)

/-! ### the commit step -/

theorem finalizeCommit_decides (c : Cfg) (s : NodeState) (b : Nat)
    (hh : s.halted = false) (hst : s.step = .commit)
    (hm : maj23Of (s.votes.precommits s.commitRound) = some (some b))
    (hp : s.proposalParts = some b) (hb : s.proposalBlock = some b) (hv : c.valid b = true) :
    (finalizeCommit c s).decided = some (b, s.commitRound) := by
  unfold finalizeCommit
  simp [hh, hst, hm, hp, hb, hv, hasHeader, hashesTo, emit]

theorem tryFinalizeCommit_decides (c : Cfg) (s : NodeState) (b : Nat)
    (hh : s.halted = false) (hst : s.step = .commit)
    (hm : maj23Of (s.votes.precommits s.commitRound) = some (some b))
    (hp : s.proposalParts = some b) (hb : s.proposalBlock = some b) (hv : c.valid b = true) :
    (tryFinalizeCommit c s).decided = some (b, s.commitRound) := by
  unfold tryFinalizeCommit
  simp only [hh, Bool.false_eq_true, if_false, hm, hb, hashesTo]
  simp only [decide_true, Bool.not_true, Bool.false_eq_true, if_false]
  exact finalizeCommit_decides c s b hh hst hm hp hb hv

/-- **a commit for a block the node holds is final at once** (`enterCommit` → `tryFinalizeCommit`
→ `finalizeCommit`): the node is not yet in the commit step, its round-`r` precommits have a +2/3
majority for `b`, and it holds `b` as its locked block or as its complete proposal block. -/
theorem enterCommit_decides (c : Cfg) (s : NodeState) (r b : Nat)
    (hh : s.halted = false) (hst : s.step.rank < Step.commit.rank)
    (hm : maj23Of (s.votes.precommits (r : Int)) = some (some b))
    (hb : s.lockedBlock = some b ∨ (s.proposalBlock = some b ∧ s.proposalParts = some b))
    (hv : c.valid b = true) :
    (enterCommit c s r).decided = some (b, (r : Int)) := by
  have hst' : ¬ (Step.commit.rank ≤ s.step.rank) := by omega
  rcases hb with hl | ⟨hb, hp⟩
  · simp [enterCommit, tryFinalizeCommit, finalizeCommit, hh, hst', hm, hl, hashesTo, hasHeader, hv, emit]
  · cases hlb : s.lockedBlock with
    | none =>
      simp [enterCommit, tryFinalizeCommit, finalizeCommit, hh, hst', hm, hlb, hb, hp, hashesTo, hasHeader, hv, emit]
    | some x =>
      by_cases hx : x = b
      · subst hx
        simp [enterCommit, tryFinalizeCommit, finalizeCommit, hh, hst', hm, hlb, hashesTo, hasHeader, hv, emit]
      · simp [enterCommit, tryFinalizeCommit, finalizeCommit, hh, hst', hm, hlb, hb, hp, hx, hashesTo, hasHeader,
          hv, emit]

/-- **the commit step waits for the block and keeps the commit round** (`addProposalBlockPart` →
`handleCompleteProposal` → `tryFinalizeCommit`): a node in the commit step for round `r` that was
set up to receive block `b` decides `b` in round `r` the moment the block is complete — whatever
round it is in and whatever it holds from later rounds. -/
theorem commit_step_block_arrival_decides (c : Cfg) (s : NodeState) (r b : Nat)
    (hh : s.halted = false) (hst : s.step = .commit) (hcr : s.commitRound = (r : Int))
    (hm : maj23Of (s.votes.precommits (r : Int)) = some (some b))
    (hp : s.proposalParts = some b) (hd : s.partsDone = false) (hv : c.valid b = true) :
    (addBlockPart c s b).decided = some (b, (r : Int)) := by
  unfold addBlockPart
  simp only [hp, ne_eq, not_true_eq_false, if_false, hd, Bool.false_eq_true]
  unfold handleCompleteProposal
  dsimp only
  split
  · split
    · simp [hst, Step.rank, tryFinalizeCommit, finalizeCommit, hh, hcr, hm, hashesTo, hasHeader, hv, emit, hp]
    · simp [hst, Step.rank, tryFinalizeCommit, finalizeCommit, hh, hcr, hm, hashesTo, hasHeader, hv, emit, hp]
  · simp [hst, Step.rank, tryFinalizeCommit, finalizeCommit, hh, hcr, hm, hashesTo, hasHeader, hv, emit, hp]


/-! ### the three stages of a good round, at the level of the functions `addVote` runs into -/

/-- a signer that signs anything (`MockPV`) releases the vote: it is emitted and queued -/
theorem signAddVote_mock (c : Cfg) (s : NodeState) (t : VType) (b : Bid) (me : Nat)
    (hh : s.halted = false) (hs : c.checkHRS = false) (hme : c.self = some me) :
    signAddVote c s t b =
      { s with out := s.out ++ [.signVote t s.round b], queue := s.queue ++ [.vote ⟨t, s.round, b, me, true, me, me⟩] } := by
  unfold signAddVote sign
  simp [hh, hs, hme, emit]

/-- **prevote stage** (`defaultDoPrevote`): a node that is not locked, or locked on the proposed
block itself, prevotes the complete valid proposal block -/
theorem doPrevote_votes_proposal (c : Cfg) (s : NodeState) (b me : Nat)
    (hh : s.halted = false) (hs : c.checkHRS = false) (hme : c.self = some me)
    (hl : s.lockedBlock = none ∨ s.lockedBlock = some b) (hb : s.proposalBlock = some b) (hv : c.valid b = true) :
    (doPrevote c s).out = s.out ++ [.signVote .prevote s.round (some b)] := by
  unfold doPrevote
  rcases hl with hl | hl
  · simp [hl, hb, hv, signAddVote_mock c s _ _ me hh hs hme]
  · simp [hl, signAddVote_mock c s _ _ me hh hs hme]

theorem polRound_go_ge (h : HVS) (k : Nat) (hk : (maj23Of (h.prevotes (k : Int))).isSome = true) :
    ∀ n, k < n → (k : Int) ≤ HVS.polRound.go h n := by
  intro n
  induction n with
  | zero => intro h0; omega
  | succ m ih =>
    intro hlt
    unfold HVS.polRound.go
    by_cases hm : (maj23Of (h.prevotes (m : Int))).isSome = true
    · simp only [hm, if_true]; omega
    · simp only [hm, Bool.false_eq_true, if_false]
      have : k ≠ m := by intro e; subst e; exact hm hk
      exact ih (by omega)

/-- **precommit stage** (`enterPrecommit`): a node in the prevote step of round `r` whose round-`r`
prevotes have a +2/3 majority for the block it holds as proposal block locks it and precommits it -/
theorem polka_precommits_and_locks (c : Cfg) (s : NodeState) (r b me : Nat)
    (hh : s.halted = false) (hs : c.checkHRS = false) (hme : c.self = some me)
    (hr : s.round = r) (hst : s.step.rank < Step.precommit.rank)
    (hm : maj23Of (s.votes.prevotes (r : Int)) = some (some b)) (hvr : (r : Int) ≤ s.votes.round)
    (hl : s.lockedBlock = none ∨ s.lockedBlock = some b)
    (hb : s.proposalBlock = some b) (hv : c.valid b = true) :
    (enterPrecommit c s r).lockedBlock = some b ∧ (enterPrecommit c s r).lockedRound = (r : Int) ∧
    (enterPrecommit c s r).out = s.out ++ [.signVote .precommit r (some b)] ∧
    (enterPrecommit c s r).step = .precommit := by
  have hg : ¬ (r < s.round ∨ (s.round = r ∧ Step.precommit.rank ≤ s.step.rank)) := by omega
  have hpol : ¬ (s.votes.polRound < (r : Int)) := by
    have := polRound_go_ge s.votes r (by rw [hm]; rfl) (s.votes.round + 1).toNat (by omega)
    unfold HVS.polRound; omega
  unfold enterPrecommit
  simp only [hh, Bool.false_eq_true, if_false, hg, hm, hpol]
  rcases hl with hl | hl
  · have h1 : hashesTo s.lockedBlock (some b) = false := by simp [hashesTo, hl]
    have h2 : hashesTo s.proposalBlock (some b) = true := by simp [hashesTo, hb]
    simp only [h1, Bool.false_eq_true, if_false, h2, if_true, hv, Bool.not_true]
    rw [signAddVote_mock c _ _ _ me (by simpa using hh) hs hme]
    simp [hb, hr]
  · have h1 : hashesTo s.lockedBlock (some b) = true := by simp [hashesTo, hl]
    simp only [h1, if_true]
    rw [signAddVote_mock c _ _ _ me (by simpa using hh) hs hme]
    simp [hl, hr]

/-- **commit stage** (`State.addVote`, precommit case): a node that has precommitted in round `r`
and holds block `b` decides `b` in round `r` as soon as its round-`r` precommits have a +2/3
majority for `b` -/
theorem precommit_quorum_decides (c : Cfg) (s : NodeState) (r b : Nat)
    (hh : s.halted = false) (hr : s.round = r)
    (hst : Step.precommit.rank ≤ s.step.rank ∧ s.step.rank < Step.commit.rank)
    (hm : maj23Of (s.votes.precommits (r : Int)) = some (some b))
    (hb : s.lockedBlock = some b ∨ (s.proposalBlock = some b ∧ s.proposalParts = some b))
    (hv : c.valid b = true) :
    (afterPrecommit c s r).decided = some (b, (r : Int)) := by
  have hne : s.step ≠ .newHeight := by
    intro e; rw [e] at hst; simp [Step.rank] at hst
  have h1 : enterNewRound c s r = s := by
    unfold enterNewRound; simp [hh, hr, hne]
  have h2 : enterPrecommit c s r = s := by
    unfold enterPrecommit; simp [hh, hr, hst.1]
  unfold afterPrecommit
  simp only [hm, h1, h2, Option.isSome_some, if_true]
  exact enterCommit_decides c s r b hh hst.2 hm hb hv

/-! ### the same at the level of one input of the receive routine (`Cons.step`) -/

theorem drain_decided (c : Cfg) (fuel : Nat) (s : NodeState) (h : s.decided.isSome = true) :
    drain c fuel s = s := by
  cases fuel with
  | zero => rfl
  | succ f => unfold drain; simp [h]

/-- **the precommit that completes the +2/3 majority makes the node decide**: a live node in round
`r` that has precommitted and holds block `b` receives a precommit of round `r` which its vote set
accepts and after which the round-`r` precommits have a +2/3 majority for `b` ⇒ after this input
(own messages included) the node has decided `b` in round `r`. -/
theorem step_commit_quorum_decides (c : Cfg) (s : NodeState) (v : Vote) (peer : Peer) (r b : Nat)
    (hh : s.halted = false) (hd : s.decided = none) (hr : s.round = r)
    (hst : Step.precommit.rank ≤ s.step.rank ∧ s.step.rank < Step.commit.rank)
    (hv : v.typ = .precommit ∧ v.round = r)
    (hadd : (s.votes.addVote c v peer).2 = true)
    (hm : maj23Of ((s.votes.addVote c v peer).1.precommits (r : Int)) = some (some b))
    (hb : s.lockedBlock = some b ∨ (s.proposalBlock = some b ∧ s.proposalParts = some b))
    (hval : c.valid b = true) :
    (step c s (.vote v peer)).decided = some (b, (r : Int)) := by
  have h1 : handleInput c s (.vote v peer) = afterPrecommit c { s with votes := (s.votes.addVote c v peer).1 } r := by
    show addVote c s v peer = _
    unfold addVote
    simp [hadd, hv.1, hv.2]
  have h2 := precommit_quorum_decides c { s with votes := (s.votes.addVote c v peer).1 } r b
    (by simpa using hh) (by simpa using hr) (by simpa using hst) (by simpa using hm) (by simpa using hb) hval
  unfold step
  simp only [hh, hd, Bool.false_eq_true, Option.isSome_none, or_self, if_false]
  rw [h1, drain_decided c _ _ (by rw [h2]; rfl)]
  exact h2

/-- **the block arriving in the commit step makes the node decide** (input level) -/
theorem step_block_in_commit_step_decides (c : Cfg) (s : NodeState) (r b : Nat)
    (hh : s.halted = false) (hd : s.decided = none) (hst : s.step = .commit) (hcr : s.commitRound = (r : Int))
    (hm : maj23Of (s.votes.precommits (r : Int)) = some (some b))
    (hp : s.proposalParts = some b) (hpd : s.partsDone = false) (hv : c.valid b = true) :
    (step c s (.blockComplete b)).decided = some (b, (r : Int)) := by
  have h2 := commit_step_block_arrival_decides c s r b hh hst hcr hm hp hpd hv
  unfold step
  simp only [hh, hd, Bool.false_eq_true, Option.isSome_none, or_self, if_false]
  show (drain c drainFuel (addBlockPart c s b)).decided = _
  rw [drain_decided c _ _ (by rw [h2]; rfl)]
  exact h2

/-- a node that has decided ignores every further input (`step` is the identity) -/
theorem step_decided (c : Cfg) (s : NodeState) (i : Input) (h : s.decided.isSome = true) :
    step c s i = s := by
  unfold step; simp [h]

end Tmv.Cons
