import Tmv.Lemmas.VoteReachRun
import Tmv.Lemmas.SyncNode
import Tmv.Lemmas.GoodRoundInv
/-! `good_round_decides_node`: one node, one good round. The node has just entered round `r`
(propose step, nothing received for the round yet), is unlocked or locked on `b`; it is delivered
the complete valid proposal `b` of the round's proposer and then — in ANY interleaving — the
prevotes for `b` of validators `Q1` and the precommits for `b` of validators `Q2`, where
`me :: Q1` and `me :: Q2` carry the quorum. Own messages go through the internal queue as in the
real receive routine (`Cons.step` = one input + drain). Then the node decides `b` in round `r` —
provided a precommit is left whose arrival the node notices (`hfresh`: no precommit majority of the
round is recorded yet, or the node's own precommit is not; without it the statement is false, see
`good_round_needs_fresh`). The invariant and its preservation are in `Lemmas/GoodRoundInv.lean`
(namespace `Tmv.Cons.GRI`).

(Why the proposal and the block come first: a block part that arrives before the node knows the
part-set header is dropped, and a proposal that arrives after the block — possible once a polka
made the header known — is only acted upon by the propose timeout; see
`Props.C03.block_before_header_is_lost` / `proposal_after_block_waits_for_timeout`.) -/
namespace Tmv.Cons

/-- the start of a good round at the node with validator index `me` -/
structure GoodStart (c : Cfg) (me : Nat) (s : NodeState) (r b : Nat) (Q1 Q2 : List Nat) : Prop where
  self : c.self = some me
  mock : c.checkHRS = false
  meLt : me < c.n
  live : s.halted = false ∧ s.decided = none
  round : s.round = r
  step : s.step = .propose
  noProp : s.proposal = none ∧ s.proposalBlock = none ∧ s.proposalParts = none ∧ s.partsDone = false
  queue : s.queue = []
  lock : s.lockedBlock = none ∨ s.lockedBlock = some b
  valid : c.valid b = true
  hvsRound : (r : Int) ≤ s.votes.round
  tracked : (s.votes.getVoteSet (r : Int) .prevote).isSome = true ∧
    (s.votes.getVoteSet (r : Int) .precommit).isSome = true
  wf : HVS.WF c s.votes
  notVoted : ∀ t x, Output.signVote t r x ∉ s.out
  clean1 : ∀ u, u ∈ me :: Q1 → s.votes.only (r : Int) .prevote (some b) u
  clean2 : ∀ u, u ∈ me :: Q2 → s.votes.only (r : Int) .precommit (some b) u
  q1 : (me :: Q1).Nodup ∧ (∀ u ∈ Q1, u < c.n) ∧ c.quorum ≤ ((me :: Q1).map c.power).sum
  q2 : (me :: Q2).Nodup ∧ (∀ u ∈ Q2, u < c.n) ∧ c.quorum ≤ ((me :: Q2).map c.power).sum

/-- the votes of type `t` for block `b` in round `r` of the validators `Q`, as inputs (each arrives
from the peer of its signer) -/
def goodVotes (r b : Nat) (t : VType) (Q : List Nat) : List Input :=
  Q.map fun u => Input.vote ⟨t, r, some b, u, true, u, u⟩ (1 + u)

/-! ### from the start of the round to the invariant of `Lemmas/GoodRoundInv.lean` -/
namespace GRI

theorem _root_.Tmv.Cons.GoodStart.gcfg {c : Cfg} {me : Nat} {s : NodeState} {r b : Nat} {Q1 Q2 : List Nat}
    (hs : GoodStart c me s r b Q1 Q2) : GCfg c me b Q1 Q2 :=
  ⟨hs.self, hs.mock, hs.meLt, hs.valid, hs.q1, hs.q2⟩

theorem _root_.Tmv.Cons.GoodStart.gv {c : Cfg} {me : Nat} {s : NodeState} {r b : Nat} {Q1 Q2 : List Nat}
    (hs : GoodStart c me s r b Q1 Q2) : GV c me r b Q1 Q2 s.votes :=
  ⟨hs.hvsRound, hs.tracked.1, hs.tracked.2, hs.wf, hs.clean1, hs.clean2⟩

/-- the node holds the complete proposal `b` of round `r` and is about to prevote -/
structure Ready (r b : Nat) (x : NodeState) : Prop where
  halted : x.halted = false
  undec : x.decided = none
  round : x.round = r
  step : x.step = .propose
  prop : ∃ p, x.proposal = some p ∧ p.pol < 0
  block : x.proposalBlock = some b
  parts : x.proposalParts = some b
  lock : x.lockedBlock = none ∨ x.lockedBlock = some b
  queue : x.queue = []

variable {c : Cfg} {me r b : Nat} {Q1 Q2 : List Nat}

theorem Ready.gs_of_same {x x' : NodeState} (h : Ready r b x) (e : Same x x')
    (h1 : 4 ≤ x'.step.rank) (h2 : x'.step.rank < 8) (hl : x'.lockedBlock = none ∨ x'.lockedBlock = some b) :
    GS r b x' :=
  ⟨e.halted.trans h.halted, e.decided.trans h.undec, e.round.trans h.round, h1, h2,
    by rw [e.proposal]; exact h.prop, e.block.trans h.block, e.parts.trans h.parts, hl⟩

/-- `enterPrevote` with the complete valid proposal: the prevote for `b` is signed and queued -/
theorem enterPrevote_start (g : GCfg c me b Q1 Q2) {x : NodeState} (hx : Ready r b x) :
    Same x (enterPrevote c x r) ∧ (enterPrevote c x r).step = .prevote ∧
    (enterPrevote c x r).lockedBlock = x.lockedBlock ∧
    (enterPrevote c x r).queue = [.vote (grVote .prevote r b me)] := by
  have hg : ¬ (r < x.round ∨ (x.round = r ∧ Step.prevote.rank ≤ x.step.rank)) := by
    rw [hx.round, hx.step]; simp [Step.rank]
  unfold enterPrevote
  simp only [hx.halted, Bool.false_eq_true, if_false, hg]
  unfold doPrevote
  rcases hx.lock with hl | hl
  · simp only [hl, hx.block, g.valid, if_true]
    rw [signAddVote_mock c _ _ _ me hx.halted g.mock g.self]
    refine ⟨⟨?_, ?_, ?_, ?_, ?_, ?_, ?_⟩, ?_, ?_, ?_⟩ <;> simp [hx.round, hx.queue, hl, grVote]
  · simp only [hl]
    rw [signAddVote_mock c _ _ _ me hx.halted g.mock g.self]
    refine ⟨⟨?_, ?_, ?_, ?_, ?_, ?_, ?_⟩, ?_, ?_, ?_⟩ <;> simp [hx.round, hx.queue, hl, grVote]

/-- the tail of `handleCompleteProposal`: prevote, and precommit at once if the polka is there -/
theorem ready_GR (g : GCfg c me b Q1 Q2) {x : NodeState} (hx : Ready r b x)
    (hv : GV c me r b Q1 Q2 x.votes) (hf : Fresh me r b x.votes) (m : Option Bid)
    (hm : m = maj23Of (x.votes.prevotes (r : Int))) :
    GR c me r b Q1 Q2 (fun _ _ => False)
      (if m.isSome = true then enterPrecommit c (enterPrevote c x r) r else enterPrevote c x r) ∧
    mu (if m.isSome = true then enterPrecommit c (enterPrevote c x r) r else enterPrevote c x r) ≤ 2 := by
  obtain ⟨e, e1, e2, e3⟩ := enterPrevote_start g hx
  have hs' : GS r b (enterPrevote c x r) :=
    hx.gs_of_same e (by rw [e1]; simp [Step.rank]) (by rw [e1]; simp [Step.rank]) (by rw [e2]; exact hx.lock)
  have hv' : GV c me r b Q1 Q2 (enterPrevote c x r).votes := by rw [e.votes]; exact hv
  subst hm
  cases hm : maj23Of (x.votes.prevotes (r : Int)) with
  | none =>
    simp only [Option.isSome_none, Bool.false_eq_true, if_false]
    refine ⟨⟨hs', hv', ?_, by rw [e.votes]; exact hf, ?_, ?_, ?_, fun _ _ d => d.elim⟩, ?_⟩
    · intro k hk
      rw [e.votes, hm] at hk; cases hk
    · intro y hy
      rw [e3] at hy
      exact ⟨.prevote, List.mem_singleton.mp hy⟩
    · left; rw [e3]; exact List.mem_singleton.mpr rfl
    · intro h6
      rw [e1] at h6; simp [Step.rank] at h6
    · unfold mu; rw [e3, e1]; simp [Step.rank]
  | some k =>
    have hk := hv.maj1 g k hm
    subst hk
    simp only [Option.isSome_some, if_true]
    obtain ⟨a, a1, a2, a3⟩ := enterPrecommit_polka g hs' (by rw [e1]; simp [Step.rank])
      (by rw [e.votes]; exact hm) hv'.hvsRound
    refine ⟨⟨hs'.of_same a (by rw [a1]; simp [Step.rank]) (by rw [a1]; simp [Step.rank]) (Or.inr a2),
      by rw [a.votes]; exact hv', ?_, by rw [a.votes, e.votes]; exact hf, ?_, ?_, ?_, fun _ _ d => d.elim⟩, ?_⟩
    · intro _ _; rw [a1]; simp [Step.rank]
    · intro y hy
      rw [a3, e3] at hy
      rcases List.mem_append.mp hy with hy | hy
      · exact ⟨.prevote, List.mem_singleton.mp hy⟩
      · exact ⟨.precommit, List.mem_singleton.mp hy⟩
    · left; rw [a3, e3]; exact List.mem_append_left _ (List.mem_singleton.mpr rfl)
    · intro _; left; rw [a3, e3]; exact List.mem_append_right _ (List.mem_singleton.mpr rfl)
    · unfold mu; rw [a3, e3, a1]; simp [Step.rank]

/-- the update of the valid block at the head of `handleCompleteProposal` -/
def validUpd (s : NodeState) : NodeState :=
  match maj23Of (s.votes.prevotes s.round) with
  | some (some b) =>
    if s.validRound < s.round ∧ hashesTo s.proposalBlock (some b) then
      { s with validRound := s.round, validBlock := s.proposalBlock }
    else s
  | _ => s

theorem handleCompleteProposal_eq (c : Cfg) (x : NodeState) :
    handleCompleteProposal c x =
      if (validUpd x).step.rank ≤ Step.propose.rank ∧ isProposalComplete (validUpd x) then
        if (maj23Of (x.votes.prevotes x.round)).isSome then
          enterPrecommit c (enterPrevote c (validUpd x) (validUpd x).round) (enterPrevote c (validUpd x) (validUpd x).round).round
        else enterPrevote c (validUpd x) (validUpd x).round
      else if (validUpd x).step = .commit then tryFinalizeCommit c (validUpd x)
      else validUpd x := rfl

/-- `handleCompleteProposal` at a node that has just completed the proposal block -/
theorem handleCompleteProposal_GR (g : GCfg c me b Q1 Q2) {x : NodeState} (hx : Ready r b x)
    (hv : GV c me r b Q1 Q2 x.votes) (hf : Fresh me r b x.votes) :
    GR c me r b Q1 Q2 (fun _ _ => False) (handleCompleteProposal c x) ∧ mu (handleCompleteProposal c x) ≤ 2 := by
  rw [handleCompleteProposal_eq]
  generalize hy : validUpd x = y
  have hry : Ready r b y ∧ y.votes = x.votes := by
    subst hy
    unfold validUpd
    split
    · split
      · exact ⟨⟨hx.halted, hx.undec, hx.round, hx.step, hx.prop, hx.block, hx.parts, hx.lock, hx.queue⟩, rfl⟩
      · exact ⟨hx, rfl⟩
    · exact ⟨hx, rfl⟩
  obtain ⟨hy1, hy2⟩ := hry
  have hcomp : isProposalComplete y = true := by
    obtain ⟨p, hp, hpol⟩ := hy1.prop
    unfold isProposalComplete
    rw [hp, hy1.block]
    simp [hpol]
  have hcond : y.step.rank ≤ Step.propose.rank ∧ isProposalComplete y = true := by
    rw [hy1.step]; exact ⟨Nat.le_refl _, hcomp⟩
  rw [if_pos hcond, hy1.round]
  have hr' : (enterPrevote c y r).round = r := (enterPrevote_start g hy1).1.round.trans hy1.round
  rw [hr', hx.round]
  exact ready_GR g hy1 (by rw [hy2]; exact hv) (by rw [hy2]; exact hf) _ (by rw [hy2])

/-- the node after it accepted the proposal `p` (no part-set header was known before) -/
def gotProposal (s : NodeState) (p : Proposal) : NodeState :=
  { s with proposal := some p, proposalParts := some p.bid, partsDone := false }

/-- … and after the block of `p` is complete, before `handleCompleteProposal` -/
def gotBlock (s : NodeState) (p : Proposal) : NodeState :=
  { s with proposal := some p, proposalParts := some p.bid, proposalBlock := some p.bid, partsDone := true }

end GRI
open GRI

/-- **good_round_decides_node** as it was stated first is FALSE: `GoodStart` allows a start state
whose round-`r` precommit set already holds the +2/3 majority for `b` with the precommits of ALL of
`me :: Q2` recorded. Then every precommit of the round (the node's own one included) is a duplicate,
`VoteSet.addVote` reports `added = false`, `afterPrecommit` (the only place that enters the commit
step) never runs, and the node ends in the precommit step, undecided. Counterexample (see
`good_round_needs_fresh` below): `n = 1`, power 1, `me = 0`, `Q1 = Q2 = []`, `r = 0`, `b = 5`,
start state = `NodeState.init` in step propose whose round-0 precommit set holds validator 0's
precommit for block 5.

    theorem good_round_decides_node (c : Cfg) (me : Nat) (s : NodeState) (r b : Nat) (Q1 Q2 : List Nat)
        (hs : GoodStart c me s r b Q1 Q2) (pr : Nat) (hpr : c.proposer s.valRound = pr ∧ pr < c.n)
        (votes : List Input)
        (hperm : votes.Perm (goodVotes r b .prevote Q1 ++ goodVotes r b .precommit Q2)) :
        (run c s ([Input.proposal ⟨r, b, -1, pr⟩, Input.blockComplete b] ++ votes)).decided = some (b, (r : Int))

The version proved here adds the hypothesis `hfresh`: no precommit majority of round `r` is recorded
yet, or the node's own precommit is not recorded yet (either holds in every state a node reaches by
itself: a recorded majority for a block makes it enter the commit step at once, and its own
precommit is only recorded after it was signed — `GoodStart.notVoted`). -/
theorem good_round_decides_node (c : Cfg) (me : Nat) (s : NodeState) (r b : Nat) (Q1 Q2 : List Nat)
    (hs : GoodStart c me s r b Q1 Q2) (pr : Nat) (hpr : c.proposer s.valRound = pr ∧ pr < c.n)
    (hfresh : maj23Of (s.votes.precommits (r : Int)) = none ∨ ¬ s.votes.has (r : Int) .precommit (some b) me)
    (votes : List Input)
    (hperm : votes.Perm (goodVotes r b .prevote Q1 ++ goodVotes r b .precommit Q2)) :
    (run c s ([Input.proposal ⟨r, b, -1, pr⟩, Input.blockComplete b] ++ votes)).decided = some (b, (r : Int)) := by
  have g := hs.gcfg
  have hlive : ¬ (s.halted = true ∨ s.decided.isSome = true) := by
    rw [hs.live.1, hs.live.2]; simp
  -- the proposal
  have e1 : step c s (.proposal ⟨r, b, -1, pr⟩) = gotProposal s ⟨r, b, -1, pr⟩ := by
    unfold step
    simp only [hlive, if_false]
    show drain c (63 + 1) (setProposal c s ⟨r, b, -1, pr⟩) = _
    have hset : setProposal c s ⟨r, b, -1, pr⟩ = gotProposal s ⟨r, b, -1, pr⟩ := by
      have c1 : s.proposal.isSome = false := by rw [hs.noProp.1]; rfl
      have c2 : ¬ (r ≠ s.round) := fun h => h hs.round.symm
      have c3 : ¬ ((-1 : Int) < -1 ∨ ((-1 : Int) ≥ 0 ∧ (-1 : Int) ≥ (r : Int))) := by omega
      have c4 : ¬ (pr ≠ c.proposer s.valRound ∨ pr ≥ c.n) := by omega
      have c5 : s.proposalParts.isNone = true := by rw [hs.noProp.2.2.1]; rfl
      unfold setProposal
      dsimp only
      rw [if_neg (by rw [c1]; simp), if_neg c2, if_neg c3, if_neg c4, if_pos c5]
      rfl
    rw [hset]
    exact drain_succ_stop 63 (gotProposal s ⟨r, b, -1, pr⟩) (Or.inr hs.queue)
  -- the block
  have hx : Ready r b (gotBlock s ⟨r, b, -1, pr⟩) :=
    ⟨hs.live.1, hs.live.2, hs.round, hs.step, ⟨_, rfl, (by show (-1 : Int) < 0; omega)⟩, rfl, rfl, hs.lock, hs.queue⟩
  have e2 : step c (gotProposal s ⟨r, b, -1, pr⟩) (.blockComplete b) =
      drain c drainFuel (handleCompleteProposal c (gotBlock s ⟨r, b, -1, pr⟩)) := by
    unfold step
    have hlive' : ¬ ((gotProposal s ⟨r, b, -1, pr⟩).halted = true ∨
        (gotProposal s ⟨r, b, -1, pr⟩).decided.isSome = true) := hlive
    simp only [hlive', if_false]
    show drain c drainFuel (addBlockPart c _ b) = _
    unfold addBlockPart
    simp [gotProposal, gotBlock]
  obtain ⟨h3, hmu⟩ := handleCompleteProposal_GR g hx hs.gv hfresh
  have h4 := drain_GR g drainFuel _ h3 (by unfold drainFuel; omega)
  rw [← e2, ← e1] at h4
  -- the votes
  have hrun : run c s ([Input.proposal ⟨r, b, -1, pr⟩, Input.blockComplete b] ++ votes) =
      run c (step c (step c s (.proposal ⟨r, b, -1, pr⟩)) (.blockComplete b)) votes := by
    simp [run, List.foldl]
  rw [hrun]
  have hL : ∀ i, i ∈ votes → ∃ t u, i = .vote (grVote t r b u) (1 + u) ∧ u < c.n ∧
      (t = .prevote → u ∈ me :: Q1) ∧ (t = .precommit → u ∈ me :: Q2) := by
    intro i hi
    rcases List.mem_append.mp (hperm.mem_iff.mp hi) with h | h
    · obtain ⟨u, hu, e⟩ := List.mem_map.mp h
      exact ⟨.prevote, u, e.symm, hs.q1.2.1 u hu, fun _ => List.mem_cons_of_mem _ hu, fun x => (by cases x)⟩
    · obtain ⟨u, hu, e⟩ := List.mem_map.mp h
      exact ⟨.precommit, u, e.symm, hs.q2.2.1 u hu, (fun x => by cases x), fun _ => List.mem_cons_of_mem _ hu⟩
  rcases run_GR g votes _ _ hL h4 with a | ⟨a1, a2⟩
  · exact a
  · exfalso
    apply a1.final g a2
    · intro u hu
      exact Or.inr (hperm.mem_iff.mpr (List.mem_append_left _ (List.mem_map.mpr ⟨u, hu, rfl⟩)))
    · intro u hu
      exact Or.inr (hperm.mem_iff.mpr (List.mem_append_right _ (List.mem_map.mpr ⟨u, hu, rfl⟩)))

/-! ### the counterexample to the statement without `hfresh` -/

def grCexCfg : Cfg where
  n := 1
  power := fun _ => 1
  self := some 0
  proposer := fun _ => 0
  valid := fun _ => true
  ownBlock := 0
  waitForTxs := false
  needProofBlock := false
  emptyInterval := false
  checkHRS := false

def grCexPrecommits : VoteSet := (VoteSet.empty.addVote grCexCfg ⟨.precommit, 0, some 5, 0, true, 0, 0⟩).1
def grCexVotes : HVS := ⟨0, [(0, ⟨.empty, grCexPrecommits⟩)], []⟩
def grCexStart : NodeState := { NodeState.init with step := .propose, votes := grCexVotes }

theorem grCex_run : (run grCexCfg grCexStart ([Input.proposal ⟨0, 5, -1, 0⟩, Input.blockComplete 5] ++ [])).decided = none := by
  decide

theorem grCex_get (r : Int) (t : VType) (vs : VoteSet) (h : grCexVotes.getVoteSet r t = some vs) :
    r = 0 ∧ ((t = .prevote ∧ vs = .empty) ∨ (t = .precommit ∧ vs = grCexPrecommits)) := by
  unfold HVS.getVoteSet HVS.getRound grCexVotes alookup at h
  by_cases hr : r = 0
  · subst hr
    cases t <;> simp [List.find?] at h <;> simp [h]
  · have h' : ¬ (0 : Int) = r := fun e => hr e.symm
    simp [List.find?, h'] at h
theorem grCexPrecommits_has (k : Bid) (u : Nat) (h : grCexPrecommits.has k u) : k = some 5 ∧ u = 0 := by
  rcases (VoteSet.addVote_has grCexCfg VoteSet.empty ⟨.precommit, 0, some 5, 0, true, 0, 0⟩ k u).1 h with h | h
  · obtain ⟨bv, hb, _⟩ := h
    simp [VoteSet.empty, alookup] at hb
  · exact h

theorem grCex_goodStart : GoodStart grCexCfg 0 grCexStart 0 5 [] [] where
  self := rfl
  mock := rfl
  meLt := by decide
  live := ⟨rfl, rfl⟩
  round := rfl
  step := rfl
  noProp := ⟨rfl, rfl, rfl, rfl⟩
  queue := rfl
  lock := Or.inl rfl
  valid := rfl
  hvsRound := by decide
  tracked := ⟨rfl, rfl⟩
  wf := by
    intro r t vs h
    rcases (grCex_get r t vs h).2 with ⟨_, e⟩ | ⟨_, e⟩
    · rw [e]; exact VoteSet.WF.empty _
    · rw [e]; exact (VoteSet.WF.empty _).addVote _
  notVoted := by intro t x h; cases h
  clean1 := by
    intro u _ vs h
    rcases (grCex_get _ _ vs h).2 with ⟨_, e⟩ | ⟨e, _⟩
    · rw [e]; exact VoteSet.only_empty _ _
    · cases e
  clean2 := by
    intro u _ vs h
    rcases (grCex_get _ _ vs h).2 with ⟨e, _⟩ | ⟨_, e⟩
    · cases e
    · rw [e]; intro k hk; exact (grCexPrecommits_has k u hk).1
  q1 := ⟨by simp, by simp, by decide⟩
  q2 := ⟨by simp, by simp, by decide⟩

/-- **the statement without `hfresh` is false** (the start state already holds the node's own precommit,
which alone is the +2/3 majority: nothing ever makes the node look at the precommits again) -/
theorem good_round_needs_fresh :
    ¬ ∀ (c : Cfg) (me : Nat) (s : NodeState) (r b : Nat) (Q1 Q2 : List Nat), GoodStart c me s r b Q1 Q2 →
      ∀ (pr : Nat), c.proposer s.valRound = pr ∧ pr < c.n → ∀ (votes : List Input),
      votes.Perm (goodVotes r b .prevote Q1 ++ goodVotes r b .precommit Q2) →
      (run c s ([Input.proposal ⟨r, b, -1, pr⟩, Input.blockComplete b] ++ votes)).decided = some (b, (r : Int)) := by
  intro h
  have := h grCexCfg 0 grCexStart 0 5 [] [] grCex_goodStart 0 ⟨rfl, by decide⟩ [] (List.Perm.refl _)
  rw [grCex_run] at this
  cases this

end Tmv.Cons
