import Tmv.Model.VoteLog
namespace Tmv.VoteLog

theorem wtUpTo_inter (power : Nat → Nat) (p q : Nat → Bool) (k : Nat) :
    wtUpTo power p k + wtUpTo power q k ≤
      wtUpTo power (fun _ => true) k + wtUpTo power (fun v => p v && q v) k := by
  induction k with
  | zero => simp [wtUpTo]
  | succ k ih =>
    simp only [wtUpTo]
    by_cases hp : p k = true <;> by_cases hq : q k = true <;> simp [hp, hq] <;> omega

theorem wtUpTo_split (power : Nat → Nat) (p f : Nat → Bool) (k : Nat) :
    wtUpTo power p k ≤ wtUpTo power (fun v => p v && !f v) k + wtUpTo power f k := by
  induction k with
  | zero => simp [wtUpTo]
  | succ k ih =>
    simp only [wtUpTo]
    by_cases hp : p k = true <;> by_cases hf : f k = true <;> simp [hp, hf] <;> omega

theorem wtUpTo_pos (power : Nat → Nat) (p : Nat → Bool) (k : Nat)
    (h : 0 < wtUpTo power p k) : ∃ v, v < k ∧ p v = true := by
  induction k with
  | zero => simp [wtUpTo] at h
  | succ k ih =>
    simp only [wtUpTo] at h
    by_cases hp : p k = true
    · exact ⟨k, by omega, hp⟩
    · simp [hp] at h
      obtain ⟨v, hv, hpv⟩ := ih h
      exact ⟨v, by omega, hpv⟩

/-- Two sets each holding more than two thirds of the power share a validator outside any set
holding less than one third. -/
theorem quorum_intersection (P : Powers) (p q f : Nat → Bool)
    (hp : 3 * P.wt p > 2 * P.total) (hq : 3 * P.wt q > 2 * P.total)
    (hf : 3 * P.wt f < P.total) :
    ∃ v, v < P.n ∧ p v = true ∧ q v = true ∧ f v = false := by
  have h1 := wtUpTo_inter P.power p q P.n
  have h2 := wtUpTo_split P.power (fun v => p v && q v) f P.n
  unfold Powers.wt Powers.total Powers.wt at *
  have : 0 < wtUpTo P.power (fun v => (p v && q v) && !f v) P.n := by omega
  obtain ⟨v, hv, hpv⟩ := wtUpTo_pos _ _ _ this
  simp at hpv
  exact ⟨v, hv, hpv.1.1, hpv.1.2, hpv.2⟩

theorem voted_iff (log : Log) (pc : Bool) (r : Nat) (x : Option Nat) (v : Nat) :
    voted log pc r x v = true ↔
      ∃ i, ∃ hi : i < log.length, log[i].sender = v ∧ log[i].isPrecommit = pc ∧
        log[i].round = r ∧ log[i].value = x := by
  unfold voted
  rw [List.any_eq_true]
  constructor
  · rintro ⟨m, hm, hc⟩
    obtain ⟨i, hi, rfl⟩ := List.getElem_of_mem hm
    simp at hc
    exact ⟨i, hi, hc.1.1.1, hc.1.1.2, hc.1.2, hc.2⟩
  · rintro ⟨i, hi, h1, h2, h3, h4⟩
    exact ⟨log[i], List.getElem_mem hi, by simp [h1, h2, h3, h4]⟩

theorem voted_take (log : Log) (k : Nat) (pc : Bool) (r : Nat) (x : Option Nat) (v : Nat)
    (h : voted (log.take k) pc r x v = true) :
    ∃ i, ∃ hi : i < log.length, i < k ∧ log[i].sender = v ∧ log[i].isPrecommit = pc ∧
        log[i].round = r ∧ log[i].value = x := by
  obtain ⟨i, hi, h1, h2, h3, h4⟩ := (voted_iff _ _ _ _ _).mp h
  have hi' : i < k ∧ i < log.length := by
    have := hi; simp only [List.length_take] at this; omega
  simp only [List.getElem_take] at h1 h2 h3 h4
  exact ⟨i, hi'.2, hi'.1, h1, h2, h3, h4⟩

/-- Core of the safety argument: once more than two thirds precommitted `b` in round `r`, no
correct member of that quorum ever prevotes anything else in a later round. Induction on the log
position of the offending prevote ("first in time"). -/
theorem locked_quorum_stays (P : Powers) (faulty : Nat → Bool) (log : Log)
    (hb : Behaved P faulty log) (hf : 3 * P.wt faulty < P.total)
    (r b : Nat) (hdec : decidable P log r b) :
    ∀ j (hj : j < log.length), faulty log[j].sender = false →
      voted log true r (some b) log[j].sender = true → log[j].isPrecommit = false →
      r < log[j].round → log[j].value = some b := by
  intro j
  induction j using Nat.strongRecOn with
  | ind j ih =>
    intro hj hcor hq hpv hr
    apply Classical.byContradiction
    intro hne
    obtain ⟨i, hi, hs, hpc, hri, hvi⟩ := (voted_iff _ _ _ _ _).mp hq
    have hlr := hb.lockRule i j hi hj b (by rw [hs]; exact hcor) hs hpc hvi hpv (by rw [hri]; exact hr) hne
    obtain ⟨r'', y, hr1, _, hy, hpolka⟩ := hlr
    obtain ⟨v, _, hv1, hv2, hv3⟩ := quorum_intersection P _ _ faulty hpolka hdec hf
    obtain ⟨j', hj', hlt, h1, h2, h3, h4⟩ := voted_take _ _ _ _ _ _ hv1
    have := ih j' hlt hj' (by rw [h1]; exact hv3) (by rw [h1]; exact hv2) h2 (by rw [h3, ← hri]; exact hr1)
    rw [h4] at this
    exact hy this

theorem agreement_le (P : Powers) (faulty : Nat → Bool) (log : Log)
    (hb : Behaved P faulty log) (hf : 3 * P.wt faulty < P.total)
    (r b r' b' : Nat) (hle : r ≤ r')
    (h1 : decidable P log r b) (h2 : decidable P log r' b') : b = b' := by
  rcases Nat.eq_or_lt_of_le hle with heq | hlt
  · subst heq
    obtain ⟨v, _, hv1, hv2, hv3⟩ := quorum_intersection P _ _ faulty h1 h2 hf
    obtain ⟨i, hi, a1, a2, a3, a4⟩ := (voted_iff _ _ _ _ _).mp hv1
    obtain ⟨j, hj, b1, b2, b3, b4⟩ := (voted_iff _ _ _ _ _).mp hv2
    have := hb.onePrecommit i j hi hj (by rw [a1]; exact hv3) (by rw [a1, b1]) a2 b2 (by rw [a3, b3])
    rw [a4, b4] at this
    exact Option.some.inj this
  · -- a correct member of the later quorum precommitted b' at r', so a polka (r', b') precedes it
    obtain ⟨v', _, hv1, _, hv3⟩ := quorum_intersection P _ _ faulty h2 h2 hf
    obtain ⟨i', hi', a1, a2, a3, a4⟩ := (voted_iff _ _ _ _ _).mp hv1
    have hpolka := hb.justified i' hi' b' (by rw [a1]; exact hv3) a2 a4
    rw [a3] at hpolka
    obtain ⟨c, _, hc1, hc2, hc3⟩ := quorum_intersection P _ _ faulty hpolka h1 hf
    obtain ⟨j, hj, _, c1, c2, c3, c4⟩ := voted_take _ _ _ _ _ _ hc1
    have := locked_quorum_stays P faulty log hb hf r b h1 j hj (by rw [c1]; exact hc3)
      (by rw [c1]; exact hc2) c2 (by rw [c3]; exact hlt)
    rw [c4] at this
    exact (Option.some.inj this).symm

end Tmv.VoteLog
