import Tmv.Lemmas.NetW
import Tmv.Lemmas.NetNI
import Tmv.Lemmas.ConsGuard
import Tmv.Model.VoteLog



/-! Per-node step specification for the network lift (C01): what one `step` of a correct node adds
to the vote log, position by position, from the C02 invariants (G, A, T, J), the vote-set invariant
(W) and the output bookkeeping (N). -/
namespace Tmv.Cons
open Tmv.VoteLog

def ownVote (me : Nat) : Output → Option VoteMsg
  | .signVote t r x => some ⟨me, t == VType.precommit, r, x⟩
  | _ => none

/-- the votes among a node's outputs, as vote-log entries -/
def ownVotes (me : Nat) (outs : List Output) : Log := outs.filterMap (ownVote me)

theorem ownVotes_append (me : Nat) (a b : List Output) : ownVotes me (a ++ b) = ownVotes me a ++ ownVotes me b := by
  unfold ownVotes; exact List.filterMap_append

/-- "validator v's vote (t, r, k) is in the log L" as the predicate `E` of (W) -/
def EL (L : Log) : VType → Int → Bid → Nat → Bool :=
  fun t r k v => decide (0 ≤ r) && voted L (t == VType.precommit) r.toNat k v

theorem voted_append_left (L L' : Log) (pc : Bool) (r : Nat) (x : Option Nat) (v : Nat)
    (h : voted L pc r x v = true) : voted (L ++ L') pc r x v = true := by
  unfold voted at h ⊢; rw [List.any_append, h]; rfl

theorem voted_append_right (L L' : Log) (pc : Bool) (r : Nat) (x : Option Nat) (v : Nat)
    (h : voted L' pc r x v = true) : voted (L ++ L') pc r x v = true := by
  unfold voted at h ⊢; rw [List.any_append, h]; simp

theorem voted_of_mem (L : Log) (m : VoteMsg) (h : m ∈ L) : voted L m.isPrecommit m.round m.value m.sender = true := by
  unfold voted; rw [List.any_eq_true]; exact ⟨m, h, by simp⟩

theorem voted_mem {L : Log} {pc : Bool} {r : Nat} {x : Option Nat} {v : Nat} (h : voted L pc r x v = true) :
    (⟨v, pc, r, x⟩ : VoteMsg) ∈ L := by
  unfold voted at h; rw [List.any_eq_true] at h
  obtain ⟨m, hm, hc⟩ := h
  simp at hc
  obtain ⟨⟨⟨a, b⟩, c⟩, d⟩ := hc
  cases m; simp_all

theorem EL_mono (L L' : Log) (t : VType) (r : Int) (k : Bid) (v : Nat) (h : EL L t r k v = true) :
    EL (L ++ L') t r k v = true := by
  unfold EL at h ⊢
  simp only [Bool.and_eq_true] at h ⊢
  exact ⟨h.1, voted_append_left _ _ _ _ _ _ h.2⟩

theorem EL_nat (L : Log) (t : VType) (r : Nat) (k : Bid) (v : Nat) :
    EL L t (r : Int) k v = voted L (t == VType.precommit) r k v := by
  unfold EL; simp

/-- a recorded prevote majority is carried by votes that exist according to `E` -/
theorem maj23_wt {c : Cfg} {E : VType → Int → Bid → Nat → Bool} {s : NodeState} (hw : W c E s) (r : Int) (y : Bid)
    (hm : maj23Of (s.votes.prevotes r) = some y) :
    2 * c.total < 3 * wtUpTo c.power (E .prevote r y) c.n := by
  cases hv : s.votes.prevotes r with
  | none => rw [hv] at hm; simp [maj23Of] at hm
  | some vs =>
    rw [hv] at hm
    have hm' : vs.maj23 = some y := by simpa [maj23Of] using hm
    have hq := (quorum_iff c _).1 (hw.q.getVoteSet (t := .prevote) hv _ hm')
    have hb := hw.m.blockSum_le (t := .prevote) hv y
    omega

/-- what the network needs to know about a vote `(t, r, x)` a node signs, relative to the vote log
`pre` and the node's own outputs `outpre` before it -/
structure GoodOut (c : Cfg) (pre : Log) (outpre : List Output) (t : VType) (r : Nat) (x : Bid) : Prop where
  o : ∀ t' r' x', Output.signVote t' r' x' ∈ outpre → r' ≤ r
  u : t = .precommit → ∀ x', Output.signVote .precommit r x' ∈ outpre → x' = x
  j : t = .precommit → ∀ b, x = some b → 2 * c.total < 3 * wtUpTo c.power (voted pre false r (some b)) c.n
  l : t = .prevote → ∀ r₀ b, Output.signVote .precommit r₀ (some b) ∈ outpre → r₀ < r → x ≠ some b →
        ∃ (r'' : Nat) (y : Bid), r₀ < r'' ∧ r'' ≤ r ∧ y ≠ some b ∧
          2 * c.total < 3 * wtUpTo c.power (voted pre false r'' y) c.n

theorem GoodOut.mono {c pre pre' outpre t r x} (h : GoodOut c pre outpre t r x)
    (hp : ∀ pc r x v, voted pre pc r x v = true → voted pre' pc r x v = true) : GoodOut c pre' outpre t r x := by
  refine ⟨h.o, h.u, ?_, ?_⟩
  · intro ht b hb
    have := h.j ht b hb
    have := wtUpTo_mono c.power _ _ c.n (hp false r (some b))
    omega
  · intro ht r₀ b h1 h2 h3
    obtain ⟨r'', y, a1, a2, a3, a4⟩ := h.l ht r₀ b h1 h2 h3
    refine ⟨r'', y, a1, a2, a3, ?_⟩
    have := wtUpTo_mono c.power _ _ c.n (hp false r'' y)
    omega

/-- the invariants one node carries between the items it handles -/
structure MInv (c : Cfg) (me : Nat) (L : Log) (s : NodeState) : Prop where
  g : G s
  a : A s
  t : T s
  j : JI s.out s.votes
  w : W c (EL L) s
  n : N me s.out s
  own : ∀ t r x, Output.signVote t r x ∈ s.out → voted L (t == VType.precommit) r x me = true

/-- one item (an external input or a message from the internal queue) handled by `f`: every
invariant is kept, the outputs grow, and every new vote is good relative to the log `L` the item was
handled against and the outputs before it -/
theorem micro {c : Cfg} {me : Nat} (hc : c.self = some me) {L : Log} {s : NodeState} (f : NodeState → NodeState)
    (hG : G s → G (f s)) (hA : A s → A (f s)) (hT : A s → T s → T (f s))
    (hJ : JI s.out s.votes → JI (f s).out (f s).votes)
    (hW : W c (EL L) s → W c (EL L) (f s))
    (hN : N me s.out s → N me s.out (f s))
    (h : MInv c me L s) :
    ∃ new, (f s).out = s.out ++ new ∧
      G (f s) ∧ A (f s) ∧ T (f s) ∧ JI (f s).out (f s).votes ∧ W c (EL L) (f s) ∧ N me (f s).out (f s) ∧
      ∀ k (hk : k < new.length) t r x, new[k] = Output.signVote t r x →
        GoodOut c L (s.out ++ new.take k) t r x := by
  have g2 := hG h.g
  have a2 := hA h.a
  have t2 := hT h.a h.t
  have j2 := hJ h.j
  have w2 := hW h.w
  have n2 := hN h.n
  obtain ⟨new, hnew⟩ := n2.ext
  refine ⟨new, hnew, g2, a2, t2, j2, w2, n2.rebase, ?_⟩
  intro k hk t r x hx
  have hmem : Output.signVote t r x ∈ (f s).out := by
    rw [hnew]; exact List.mem_append_right _ (hx ▸ List.getElem_mem hk)
  have hsub : ∀ o, o ∈ s.out ++ new.take k → o ∈ (f s).out := by
    intro o ho
    rw [hnew]
    rcases List.mem_append.1 ho with a | a
    · exact List.mem_append_left _ a
    · exact List.mem_append_right _ (List.mem_of_mem_take a)
  refine ⟨?_, ?_, ?_, ?_⟩
  · -- earlier votes have smaller or equal rounds
    intro t' r' x' hm
    have hs := n2.sorted
    rw [hnew, List.pairwise_iff_getElem] at hs
    -- position of the earlier vote
    have : ∃ i, ∃ hi : i < (s.out ++ new).length, i < s.out.length + k ∧ (s.out ++ new)[i] = Output.signVote t' r' x' := by
      rcases List.mem_append.1 hm with a | a
      · obtain ⟨i, hi, e⟩ := List.mem_iff_getElem.1 a
        exact ⟨i, by simp; omega, by omega, by rw [List.getElem_append_left hi]; exact e⟩
      · obtain ⟨i, hi, e⟩ := List.mem_iff_getElem.1 a
        have hi' : i < k ∧ i < new.length := by
          have := hi; simp only [List.length_take] at this; omega
        rw [List.getElem_take] at e
        exact ⟨s.out.length + i, by simp; omega, by omega,
          by rw [List.getElem_append_right (by omega)]; simp [e]⟩
    obtain ⟨i, hi, hlt, e⟩ := this
    have hj : s.out.length + k < (s.out ++ new).length := by simp; omega
    have := hs i (s.out.length + k) hi hj hlt
    rw [e, List.getElem_append_right (by omega)] at this
    simp only [Nat.add_sub_cancel_left] at this
    exact this t' r' x' t r x rfl hx
  · -- one precommit per round
    intro ht x' hm
    subst ht
    have := g2.uniq _ (hsub _ hm) _ hmem 6 rfl rfl rfl
    cases this; rfl
  · -- a block precommit has its polka in the log
    intro ht b hb
    subst ht; subst hb
    have hm := j2 r b hmem
    have := maj23_wt w2 (r : Int) (some b) hm
    rw [show EL L VType.prevote (r : Int) (some b) = voted L false r (some b) from by
      funext v; rw [EL_nat]; rfl] at this
    exact this
  · -- a prevote against an earlier block precommit has a polka for something else in between
    intro ht r₀ b h1 h2 h3
    subst ht
    obtain ⟨r'', y, a1, a2, a3, a4⟩ := t2.p r₀ b r x (hsub _ h1) hmem h2 h3
    refine ⟨r'', y, by omega, a2, a3, ?_⟩
    have := maj23_wt w2 (r'' : Int) y a4
    rw [show EL L VType.prevote (r'' : Int) y = voted L false r'' y from by
      funext v; rw [EL_nat]; rfl] at this
    exact this


theorem voted_ownVotes (me : Nat) (outs : List Output) (t : VType) (r : Nat) (x : Bid)
    (h : Output.signVote t r x ∈ outs) : voted (ownVotes me outs) (t == VType.precommit) r x me = true := by
  have : (⟨me, t == VType.precommit, r, x⟩ : VoteMsg) ∈ ownVotes me outs := by
    unfold ownVotes
    rw [List.mem_filterMap]
    exact ⟨_, h, rfl⟩
  exact voted_of_mem _ _ this


/-- step-level invariant: `base` are the outputs and `L0` the vote log when the step began -/
structure SInv (c : Cfg) (me : Nat) (L0 : Log) (base : List Output) (s : NodeState) : Prop where
  ext : ∃ new, s.out = base ++ new
  mi : MInv c me (L0 ++ ownVotes me (s.out.drop base.length)) s
  hist : ∀ k (hk : k < s.out.length), base.length ≤ k → ∀ t r x, s.out[k] = Output.signVote t r x →
      GoodOut c (L0 ++ ownVotes me ((s.out.take k).drop base.length)) (s.out.take k) t r x

theorem SInv.start {c : Cfg} {me : Nat} {L0 : Log} {s : NodeState} (h : MInv c me L0 s) : SInv c me L0 s.out s := by
  refine ⟨⟨[], by simp⟩, ?_, ?_⟩
  · simpa [ownVotes] using h
  · intro k hk hle; omega

/-- handling one item keeps the step-level invariant -/
theorem SInv.micro {c : Cfg} {me : Nat} (hc : c.self = some me) {L0 : Log} {base : List Output} {s : NodeState}
    (f : NodeState → NodeState)
    (hG : G s → G (f s)) (hA : A s → A (f s)) (hT : A s → T s → T (f s))
    (hJ : JI s.out s.votes → JI (f s).out (f s).votes)
    (hW : W c (EL (L0 ++ ownVotes me (s.out.drop base.length))) s →
          W c (EL (L0 ++ ownVotes me (s.out.drop base.length))) (f s))
    (hN : N me s.out s → N me s.out (f s))
    (h : SInv c me L0 base s) : SInv c me L0 base (f s) := by
  obtain ⟨new0, h0⟩ := h.ext
  obtain ⟨new, hnew, g2, a2, t2, j2, w2, n2, good⟩ := Tmv.Cons.micro hc f hG hA hT hJ hW hN h.mi
  have hlen : base.length ≤ s.out.length := by rw [h0]; simp
  have hdrop : (f s).out.drop base.length = s.out.drop base.length ++ new := by
    rw [hnew, List.drop_append_of_le_length hlen]
  refine ⟨⟨new0 ++ new, by rw [hnew, h0, List.append_assoc]⟩, ?_, ?_⟩
  · refine ⟨g2, a2, t2, j2, ?_, n2, ?_⟩
    · rw [hdrop, ownVotes_append, ← List.append_assoc]
      exact WI.mono (fun t r k v hv => EL_mono _ _ t r k v hv) w2
    · intro t r x hm
      rw [hdrop, ownVotes_append, ← List.append_assoc]
      rw [hnew] at hm
      rcases List.mem_append.1 hm with a | a
      · exact voted_append_left _ _ _ _ _ _ (h.mi.own t r x a)
      · exact voted_append_right _ _ _ _ _ _ (voted_ownVotes me new t r x a)
  · intro k hk hle t r x hx
    by_cases hks : k < s.out.length
    · have e1 : (f s).out.take k = s.out.take k := by
        rw [hnew, List.take_append_of_le_length (by omega)]
      have e2 : (f s).out[k] = s.out[k] := by
        simp only [hnew]; rw [List.getElem_append_left hks]
      rw [e1]
      exact h.hist k hks hle t r x (by rw [← e2]; exact hx)
    · have hk' : k - s.out.length < new.length := by
        have := hk; rw [hnew] at this; simp at this; omega
      have e1 : (f s).out.take k = s.out ++ new.take (k - s.out.length) := by
        rw [hnew, List.take_append, List.take_of_length_le (by omega)]
      have e2 : new[k - s.out.length] = Output.signVote t r x := by
        rw [← hx]; simp only [hnew]; rw [List.getElem_append_right (by omega)]
      have := good (k - s.out.length) hk' t r x e2
      rw [e1, List.drop_append_of_le_length hlen, ownVotes_append, ← List.append_assoc]
      exact this.mono (fun pc r x v hv => voted_append_left _ _ _ _ _ _ hv)

theorem NI.eraseIdx {me base r q out} (k : Nat) (h : NI me base r q out) : NI me base r (q.eraseIdx k) out :=
  ⟨h.ext, h.a4, h.sorted, h.sched, fun v hv => h.qi v (List.mem_of_mem_eraseIdx hv)⟩

/-- what follows from `SInv` over one item, in the form the network lift uses -/
theorem SInv.spec {c : Cfg} {me : Nat} {L0 : Log} {s s' : NodeState} (key : SInv c me L0 s.out s') :
    ∃ new, s'.out = s.out ++ new ∧ MInv c me (L0 ++ ownVotes me new) s' ∧
      ∀ k (hk : k < new.length) t r x, new[k] = Output.signVote t r x →
        GoodOut c (L0 ++ ownVotes me (new.take k)) (s.out ++ new.take k) t r x := by
  obtain ⟨new, hnew⟩ := key.ext
  have hd : s'.out.drop s.out.length = new := by rw [hnew]; simp
  refine ⟨new, hnew, ?_, ?_⟩
  · have := key.mi; rw [hd] at this; exact this
  · intro k hk t r x hx
    have hk2 : s.out.length + k < s'.out.length := by rw [hnew]; simp; omega
    have e : s'.out[s.out.length + k] = Output.signVote t r x := by
      rw [← hx]; simp only [hnew]; rw [List.getElem_append_right (by omega)]; simp
    have := key.hist (s.out.length + k) hk2 (by omega) t r x e
    have e1 : s'.out.take (s.out.length + k) = s.out ++ new.take k := by
      rw [hnew, List.take_append, List.take_of_length_le (by omega)]; simp
    rw [e1, List.drop_append_of_le_length (Nat.le_refl _)] at this
    simpa using this

/-- **item specification**: what a correct node adds to the log when it handles ONE item — an external
input (a timeout for a round reached; a correctly signed vote must come from the log), or any one of
its own queued messages -/
theorem ext_spec {c : Cfg} {me : Nat} (hc : c.self = some me) (L0 : Log) (s : NodeState) (i : Input)
    (h : MInv c me L0 s) (hi : i.notFuture s)
    (hin : ∀ v peer, i = .vote v peer → v.val < c.n → v.sigOK = true →
      voted L0 (v.typ == VType.precommit) v.round v.bid v.val = true) :
    ∃ new, (handleInput c s i).out = s.out ++ new ∧ MInv c me (L0 ++ ownVotes me new) (handleInput c s i) ∧
      ∀ k (hk : k < new.length) t r x, new[k] = Output.signVote t r x →
        GoodOut c (L0 ++ ownVotes me (new.take k)) (s.out ++ new.take k) t r x := by
  apply SInv.spec
  refine SInv.micro hc (fun t => handleInput c t i)
    (handleInput_G i hi) (handleInput_A i) (fun hA hT => handleInput_T i hi hA hT)
    (handleInput_J i hi) ?_ (handleInput_N hc i) (SInv.start h)
  intro hw
  apply handleInput_W i _ hw
  intro v peer hv h1 h2
  rw [EL_nat]
  exact voted_append_left _ _ _ _ _ _ (hin v peer hv h1 h2)

theorem own_spec {c : Cfg} {me : Nat} (hc : c.self = some me) (L0 : Log) (s : NodeState) (k : Nat) (m : Internal)
    (hk : s.queue[k]? = some m) (h : MInv c me L0 s) :
    let s' := handleInternal c { s with queue := s.queue.eraseIdx k } m
    ∃ new, s'.out = s.out ++ new ∧ MInv c me (L0 ++ ownVotes me new) s' ∧
      ∀ j (hj : j < new.length) t r x, new[j] = Output.signVote t r x →
        GoodOut c (L0 ++ ownVotes me (new.take j)) (s.out ++ new.take j) t r x := by
  intro s'
  have h' : MInv c me L0 { s with queue := s.queue.eraseIdx k } :=
    ⟨h.g, h.a, h.t, h.j, h.w, by
      have hn : NI me s.out s.round s.queue s.out := h.n
      exact hn.eraseIdx k, h.own⟩
  have hmem : m ∈ s.queue := List.mem_of_getElem? hk
  have key : SInv c me L0 s.out s' := by
    refine SInv.micro hc (fun t => handleInternal c t m)
      (handleInternal_G m) (handleInternal_A m) (fun hA hT => handleInternal_T m hA hT)
      (handleInternal_J m) ?_ (handleInternal_N hc m) (SInv.start h')
    intro hw
    apply handleInternal_W m _ hw
    intro v hv _ _
    subst hv
    obtain ⟨q1, _, q3⟩ := h.n.qi v hmem
    rw [EL_nat]
    have := h.own v.typ v.round v.bid q3
    rw [q1]
    exact voted_append_left _ _ _ _ _ _ this
  exact SInv.spec key

end Tmv.Cons
