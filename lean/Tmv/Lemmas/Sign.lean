import Tmv.Model.Sign
/-! Invariant of the signer machine (`Tmv.Sign.step`) and its preservation by every event
(request, micro-step, crash). Used by `Tmv.Props.C04`. -/
namespace Tmv.Sign

variable {Sig : Type}

/-! ### order lemmas -/
theorem hrsLt_irrefl (a : Int × Int × Int) : ¬ hrsLt a a := by
  unfold hrsLt; omega

theorem hrsLt_trans {a b c : Int × Int × Int} (h1 : hrsLt a b) (h2 : hrsLt b c) : hrsLt a c := by
  unfold hrsLt at *; omega

theorem hrsLe_refl (a : Int × Int × Int) : hrsLe a a := Or.inr rfl

theorem hrsLe_of_lt {a b : Int × Int × Int} (h : hrsLt a b) : hrsLe a b := Or.inl h

theorem hrsLe_lt_trans {a b c : Int × Int × Int} (h1 : hrsLe a b) (h2 : hrsLt b c) : hrsLt a c := by
  rcases h1 with h | h
  · exact hrsLt_trans h h2
  · subst h; exact h2

theorem hrsLe_trans {a b c : Int × Int × Int} (h1 : hrsLe a b) (h2 : hrsLe b c) : hrsLe a c := by
  rcases h2 with h | h
  · exact Or.inl (hrsLe_lt_trans h1 h)
  · subst h; exact h1

theorem hrsLt_ne {a b : Int × Int × Int} (h : hrsLt a b) : a ≠ b := by
  intro e; subst e; exact hrsLt_irrefl _ h

/-- the order is total (trichotomy) -/
theorem hrs_trichotomy (a b : Int × Int × Int) : hrsLt a b ∨ a = b ∨ hrsLt b a := by
  obtain ⟨a1, a2, a3⟩ := a
  obtain ⟨b1, b2, b3⟩ := b
  unfold hrsLt
  simp only [Prod.mk.injEq]
  omega

/-! ### pure parts -/

theorem stepOfTyp_proposal : stepOfTyp proposalType = stepPropose := by decide

/-- the sign bytes of a request carry the request's height, round and step -/
theorem hrsOf_signBytes {q : Req} {st : Int} {sb : SB} (h1 : reqStep q = some st)
    (h2 : signBytes q = some sb) : hrsOf sb = (q.h, q.r, st) := by
  unfold signBytes at h2
  unfold reqStep at h1
  split at h2
  · cases hk : q.kind <;> simp only [hk] at h1 h2
    · -- vote
      injection h2 with h2; subst h2
      simp only [hrsOf, stepOfTyp]
      split at h1
      · injection h1 with h1; subst h1; simp [*]
      · rename_i hn
        split at h1
        · rename_i hp
          injection h1 with h1; subst h1
          have hne : ¬ precommitType = prevoteType := fun hh => hn (hp.trans hh)
          simp [hp, hne]
        · cases h1
    · injection h2 with h2; subst h2
      injection h1 with h1; subst h1
      simp only [hrsOf, stepOfTyp_proposal]
  · cases h2

theorem checkHRS_fresh {l : LSS Sig} {h r st : Int} (hc : checkHRS l h r st = .fresh) :
    hrsLt (lssHRS l) (h, r, st) := by
  unfold checkHRS at hc
  unfold hrsLt lssHRS
  simp only
  repeat' split at hc
  all_goals first | (cases hc; done) | omega

theorem checkHRS_same {l : LSS Sig} {h r st : Int} (hc : checkHRS l h r st = .same) :
    lssHRS l = (h, r, st) ∧ ∃ s g, l.sb = some s ∧ l.sig = some g := by
  unfold checkHRS at hc
  unfold lssHRS
  repeat' split at hc
  all_goals first | (cases hc; done) | skip
  refine ⟨?_, _, _, ‹_›, ‹_›⟩
  simp only [Prod.mk.injEq]
  omega

/-- regression: a request strictly below the last sign state is refused -/
theorem checkHRS_regression {l : LSS Sig} {h r st : Int} (hlt : hrsLt (h, r, st) (lssHRS l)) :
    ∃ e, checkHRS l h r st = .err e := by
  unfold hrsLt lssHRS at hlt
  simp only at hlt
  unfold checkHRS
  repeat' split
  all_goals first | exact ⟨_, rfl⟩ | omega

theorem eqModTs_refl (a : SB) : eqModTs a a = true := by simp [eqModTs]

theorem eqModTs_symm {a b : SB} (h : eqModTs a b = true) : eqModTs b a = true := by
  simp only [eqModTs, decide_eq_true_eq] at *
  exact h.symm

theorem eqModTs_trans {a b c : SB} (h1 : eqModTs a b = true) (h2 : eqModTs b c = true) :
    eqModTs a c = true := by
  simp only [eqModTs, decide_eq_true_eq] at *
  exact h1.trans h2

/-- equal modulo timestamp: all other fields equal (in particular the block id) -/
theorem eqModTs_fields {a b : SB} (h : eqModTs a b = true) :
    a.typ = b.typ ∧ a.h = b.h ∧ a.r = b.r ∧ a.pol = b.pol ∧ a.bid = b.bid ∧ a.chain = b.chain := by
  simp only [eqModTs, decide_eq_true_eq] at h
  injection h with h1 h2 h3 h4 h5 _ h7
  exact ⟨h1, h2, h3, h4, h5, h7⟩

theorem eqModTs_hrs {a b : SB} (h : eqModTs a b = true) : hrsOf a = hrsOf b := by
  obtain ⟨h1, h2, h3, _⟩ := eqModTs_fields h
  simp [hrsOf, h1, h2, h3]

/-! ### the invariant -/

/-- the stored sign bytes belong to the stored height/round/step -/
def WF (l : LSS Sig) : Prop := ∀ s, l.sb = some s → hrsOf s = lssHRS l

def PcInv (disk mem : LSS Sig) : Pc Sig → Prop
  | .idle => mem = disk
  | .checked q h r st sb =>
    mem = disk ∧ hrsLt (lssHRS disk) (h, r, st) ∧ hrsOf sb = (h, r, st) ∧ q = sb
  | .inflight .sigDone q h r st sb _ =>
    mem = disk ∧ hrsLt (lssHRS disk) (h, r, st) ∧ hrsOf sb = (h, r, st) ∧ q = sb
  | .inflight .memSet q h r st sb sig =>
    mem = ⟨h, r, st, some sig, some sb⟩ ∧ hrsLt (lssHRS disk) (h, r, st) ∧ hrsOf sb = (h, r, st) ∧ q = sb
  | .inflight .tmpWritten q h r st sb sig =>
    mem = ⟨h, r, st, some sig, some sb⟩ ∧ hrsLt (lssHRS disk) (h, r, st) ∧ hrsOf sb = (h, r, st) ∧ q = sb
  | .inflight .renamed q h r st sb sig =>
    mem = disk ∧ disk = ⟨h, r, st, some sig, some sb⟩ ∧ hrsOf sb = (h, r, st) ∧ q = sb
  | .reusing q sb sig =>
    mem = disk ∧ disk.sb = some sb ∧ disk.sig = some sig ∧ eqModTs sb q = true

/-- every released answer is dominated by the state file -/
def RelInv (disk : LSS Sig) (rel : List (Rel Sig)) : Prop :=
  ∀ e ∈ rel, hrsLe (hrsOf e.sb) (lssHRS disk) ∧
    (hrsOf e.sb = lssHRS disk → disk.sb = some e.sb ∧ disk.sig = some e.sig) ∧
    eqModTs e.sb e.req = true

/-- released answers for one height/round/step are identical -/
def Consistent (rel : List (Rel Sig)) : Prop :=
  ∀ e1 ∈ rel, ∀ e2 ∈ rel, hrsOf e1.sb = hrsOf e2.sb → e1.sb = e2.sb ∧ e1.sig = e2.sig

/-- the journal (newest first) never goes back in height/round/step -/
def Monotone (rel : List (Rel Sig)) : Prop :=
  rel.Pairwise (fun newer older => hrsLe (hrsOf older.sb) (hrsOf newer.sb))

structure Inv (c : Cfg Sig) : Prop where
  wf : WF c.disk
  rel : RelInv c.disk c.rel
  pc : PcInv c.disk c.mem c.pc
  cons : Consistent c.rel
  mono : Monotone c.rel

theorem inv_init {l : LSS Sig} (h : WF l) : Inv (init l) :=
  { wf := h, rel := (by intro e he; cases he), pc := rfl,
    cons := (by intro e he; cases he), mono := List.Pairwise.nil }

/-- what the first micro-step of a call can do: refuse (error / panic, nothing changes), start a
fresh signature (only strictly above the last sign state), or decide to reuse the stored one -/
theorem begin_spec (c : Cfg Sig) (q : Req) :
    ((begin c q).1 = c ∧ ((∃ e, (begin c q).2 = .err e) ∨ (begin c q).2 = .panic)) ∨
    (∃ st sb, reqStep q = some st ∧ signBytes q = some sb ∧ checkHRS c.mem q.h q.r st = .fresh ∧
      begin c q = ({ c with pc := .checked sb q.h q.r st sb }, .none)) ∨
    (∃ st sb lsb lsig, reqStep q = some st ∧ signBytes q = some sb ∧
      checkHRS c.mem q.h q.r st = .same ∧ c.mem.sb = some lsb ∧ c.mem.sig = some lsig ∧
      eqModTs lsb sb = true ∧ begin c q = ({ c with pc := .reusing sb lsb lsig }, .none)) := by
  unfold begin
  split
  · exact Or.inl ⟨rfl, Or.inr rfl⟩
  · rename_i st hst
    simp only
    split
    · exact Or.inl ⟨rfl, Or.inl ⟨_, rfl⟩⟩
    · exact Or.inl ⟨rfl, Or.inr rfl⟩
    · rename_i hchk
      split
      · exact Or.inl ⟨rfl, Or.inr rfl⟩
      · rename_i sb hsb
        split
        · rename_i lsb lsig hlsb hlsig
          split
          · rename_i heq
            refine Or.inr (Or.inr ⟨st, sb, lsb, lsig, hst, hsb, hchk, hlsb, hlsig, ?_, rfl⟩)
            subst heq; exact eqModTs_refl _
          · split
            · rename_i hts
              exact Or.inr (Or.inr ⟨st, sb, lsb, lsig, hst, hsb, hchk, hlsb, hlsig, hts, rfl⟩)
            · exact Or.inl ⟨rfl, Or.inl ⟨_, rfl⟩⟩
        · exact Or.inl ⟨rfl, Or.inr rfl⟩
    · rename_i hchk
      split
      · exact Or.inl ⟨rfl, Or.inr rfl⟩
      · rename_i sb hsb
        exact Or.inr (Or.inl ⟨st, sb, hst, hsb, hchk, rfl⟩)

/-- adding a release that the state file holds keeps the journal invariants -/
theorem release_ok {disk : LSS Sig} {rel : List (Rel Sig)} {q sb : SB} {sig : Sig}
    (hwf : WF disk) (hrel : RelInv disk rel) (hcons : Consistent rel) (hmono : Monotone rel)
    (hsb : disk.sb = some sb) (hsig : disk.sig = some sig) (hq : eqModTs sb q = true) :
    RelInv disk (⟨q, sb, sig⟩ :: rel) ∧ Consistent (⟨q, sb, sig⟩ :: rel) ∧
      Monotone (⟨q, sb, sig⟩ :: rel) := by
  have hh : hrsOf sb = lssHRS disk := hwf sb hsb
  refine ⟨?_, ?_, ?_⟩
  · intro e he
    rcases List.mem_cons.1 he with rfl | he
    · exact ⟨hh ▸ hrsLe_refl _, fun _ => ⟨hsb, hsig⟩, hq⟩
    · exact hrel e he
  · intro e1 h1 e2 h2 heq
    rcases List.mem_cons.1 h1 with rfl | h1 <;> rcases List.mem_cons.1 h2 with rfl | h2
    · exact ⟨rfl, rfl⟩
    · have := (hrel e2 h2).2.1 (by rw [← heq]; exact hh)
      rw [hsb, hsig] at this
      exact ⟨Option.some.inj this.1, Option.some.inj this.2⟩
    · have := (hrel e1 h1).2.1 (by rw [heq]; exact hh)
      rw [hsb, hsig] at this
      exact ⟨(Option.some.inj this.1).symm, (Option.some.inj this.2).symm⟩
    · exact hcons e1 h1 e2 h2 heq
  · refine List.Pairwise.cons ?_ hmono
    intro e he
    show hrsLe (hrsOf e.sb) (hrsOf sb)
    rw [hh]; exact (hrel e he).1

theorem inv_step (sigOf : SB → Sig) {c : Cfg Sig} (hi : Inv c) (e : Ev) : Inv (step sigOf c e).1 := by
  obtain ⟨disk, mem, pc, rel⟩ := c
  obtain ⟨hwf, hrel, hpc, hcons, hmono⟩ := hi
  simp only at hwf hrel hpc hcons hmono
  cases e with
  | crash => exact ⟨hwf, hrel, rfl, hcons, hmono⟩
  | req q =>
    cases pc with
    | idle =>
      simp only [step]
      have hmd : mem = disk := hpc
      subst hmd
      rcases begin_spec (Sig := Sig) ⟨mem, mem, .idle, rel⟩ q with ⟨h, _⟩ | ⟨st, sb, hst, hsb, hchk, h⟩ |
          ⟨st, sb, lsb, lsig, hst, hsb, hchk, hlsb, hlsig, hts, h⟩
      · rw [h]; exact ⟨hwf, hrel, rfl, hcons, hmono⟩
      · rw [h]
        exact ⟨hwf, hrel, ⟨rfl, checkHRS_fresh hchk, hrsOf_signBytes hst hsb, rfl⟩, hcons, hmono⟩
      · rw [h]
        exact ⟨hwf, hrel, ⟨rfl, hlsb, hlsig, hts⟩, hcons, hmono⟩
    | checked => exact ⟨hwf, hrel, hpc, hcons, hmono⟩
    | inflight => exact ⟨hwf, hrel, hpc, hcons, hmono⟩
    | reusing => exact ⟨hwf, hrel, hpc, hcons, hmono⟩
  | tick =>
    cases pc with
    | idle => exact ⟨hwf, hrel, hpc, hcons, hmono⟩
    | checked q h r st sb =>
      obtain ⟨h1, h2, h3, h4⟩ := hpc
      exact ⟨hwf, hrel, ⟨h1, h2, h3, h4⟩, hcons, hmono⟩
    | reusing q sb sig =>
      obtain ⟨h1, h2, h3, h4⟩ := hpc
      obtain ⟨r1, r2, r3⟩ := release_ok hwf hrel hcons hmono h2 h3 h4
      exact ⟨hwf, r1, h1, r2, r3⟩
    | inflight stg q h r st sb sig =>
      cases stg with
      | sigDone =>
        obtain ⟨h1, h2, h3, h4⟩ := hpc
        exact ⟨hwf, hrel, ⟨rfl, h2, h3, h4⟩, hcons, hmono⟩
      | memSet =>
        obtain ⟨h1, h2, h3, h4⟩ := hpc
        exact ⟨hwf, hrel, ⟨h1, h2, h3, h4⟩, hcons, hmono⟩
      | tmpWritten =>
        obtain ⟨h1, h2, h3, h4⟩ := hpc
        subst h1
        refine ⟨?_, ?_, ⟨rfl, rfl, h3, h4⟩, hcons, hmono⟩
        · intro s hs
          have hs' : some sb = some s := hs
          injection hs' with hs'; subst hs'
          exact h3
        · intro e he
          obtain ⟨e1, _, e3⟩ := hrel e he
          have hlt : hrsLt (hrsOf e.sb) (h, r, st) := hrsLe_lt_trans e1 h2
          exact ⟨hrsLe_of_lt hlt, fun heq => absurd heq (hrsLt_ne hlt), e3⟩
      | renamed =>
        obtain ⟨h1, h2, h3, h4⟩ := hpc
        subst h4
        have hsb : disk.sb = some q := by rw [h2]
        have hsig : disk.sig = some sig := by rw [h2]
        obtain ⟨r1, r2, r3⟩ := release_ok hwf hrel hcons hmono hsb hsig (eqModTs_refl _)
        exact ⟨hwf, r1, h1, r2, r3⟩

theorem inv_run (sigOf : SB → Sig) {c : Cfg Sig} (hi : Inv c) (es : List Ev) : Inv (run sigOf c es) := by
  induction es generalizing c with
  | nil => exact hi
  | cons e es ih => exact ih (inv_step sigOf hi e)

/-! ### second invariant: every released signature is the key's signature of the released message
(needs an honest state file to start from) -/

/-- the stored signature is the signature of the stored sign bytes -/
def SigOK (sigOf : SB → Sig) (l : LSS Sig) : Prop :=
  ∀ s g, l.sb = some s → l.sig = some g → g = sigOf s

def PcSig (sigOf : SB → Sig) : Pc Sig → Prop
  | .inflight _ _ _ _ _ sb sig => sig = sigOf sb
  | .reusing _ sb sig => sig = sigOf sb
  | _ => True

structure SInv (sigOf : SB → Sig) (c : Cfg Sig) : Prop where
  disk : SigOK sigOf c.disk
  mem : SigOK sigOf c.mem
  pc : PcSig sigOf c.pc
  rel : ∀ e ∈ c.rel, e.sig = sigOf e.sb

theorem sinv_init (sigOf : SB → Sig) {l : LSS Sig} (h : SigOK sigOf l) : SInv sigOf (init l) :=
  { disk := h, mem := h, pc := trivial, rel := (by intro e he; cases he) }

theorem sinv_step (sigOf : SB → Sig) {c : Cfg Sig} (hi : SInv sigOf c) (e : Ev) :
    SInv sigOf (step sigOf c e).1 := by
  obtain ⟨disk, mem, pc, rel⟩ := c
  obtain ⟨hd, hm, hp, hr⟩ := hi
  simp only at hd hm hp hr
  cases e with
  | crash => exact ⟨hd, hd, trivial, hr⟩
  | req q =>
    cases pc with
    | idle =>
      simp only [step]
      rcases begin_spec (Sig := Sig) ⟨disk, mem, .idle, rel⟩ q with ⟨h, _⟩ | ⟨st, sb, _, _, _, h⟩ |
          ⟨st, sb, lsb, lsig, _, _, _, hlsb, hlsig, _, h⟩
      · rw [h]; exact ⟨hd, hm, trivial, hr⟩
      · rw [h]; exact ⟨hd, hm, trivial, hr⟩
      · rw [h]; exact ⟨hd, hm, hm lsb lsig hlsb hlsig, hr⟩
    | checked => exact ⟨hd, hm, hp, hr⟩
    | inflight => exact ⟨hd, hm, hp, hr⟩
    | reusing => exact ⟨hd, hm, hp, hr⟩
  | tick =>
    cases pc with
    | idle => exact ⟨hd, hm, hp, hr⟩
    | checked q h r st sb => exact ⟨hd, hm, rfl, hr⟩
    | reusing q sb sig =>
      refine ⟨hd, hm, trivial, ?_⟩
      intro e he
      rcases List.mem_cons.1 he with rfl | he
      · exact hp
      · exact hr e he
    | inflight stg q h r st sb sig =>
      have hp' : sig = sigOf sb := hp
      cases stg with
      | sigDone =>
        refine ⟨hd, ?_, hp', hr⟩
        intro s g hs hg
        have hs' : some sb = some s := hs
        have hg' : some sig = some g := hg
        injection hs' with hs'; injection hg' with hg'
        subst hs'; subst hg'; exact hp'
      | memSet => exact ⟨hd, hm, hp', hr⟩
      | tmpWritten => exact ⟨hm, hm, hp', hr⟩
      | renamed =>
        refine ⟨hd, hm, trivial, ?_⟩
        intro e he
        rcases List.mem_cons.1 he with rfl | he
        · exact hp'
        · exact hr e he

theorem sinv_run (sigOf : SB → Sig) {c : Cfg Sig} (hi : SInv sigOf c) (es : List Ev) :
    SInv sigOf (run sigOf c es) := by
  induction es generalizing c with
  | nil => exact hi
  | cons e es ih => exact ih (sinv_step sigOf hi e)

/-- the disk never goes back -/
theorem disk_step_le (sigOf : SB → Sig) {c : Cfg Sig} (hi : Inv c) (e : Ev) :
    hrsLe (lssHRS c.disk) (lssHRS (step sigOf c e).1.disk) := by
  obtain ⟨disk, mem, pc, rel⟩ := c
  cases e with
  | crash => exact hrsLe_refl _
  | req q =>
    cases pc with
    | idle =>
      simp only [step]
      rcases begin_spec (Sig := Sig) ⟨disk, mem, .idle, rel⟩ q with ⟨h, _⟩ | ⟨st, sb, _, _, _, h⟩ |
          ⟨st, sb, lsb, lsig, _, _, _, _, _, _, h⟩ <;> rw [h] <;> exact hrsLe_refl _
    | checked => exact hrsLe_refl _
    | inflight => exact hrsLe_refl _
    | reusing => exact hrsLe_refl _
  | tick =>
    cases pc with
    | idle => exact hrsLe_refl _
    | checked => exact hrsLe_refl _
    | reusing => exact hrsLe_refl _
    | inflight stg q h r st sb sig =>
      cases stg with
      | sigDone => exact hrsLe_refl _
      | memSet => exact hrsLe_refl _
      | renamed => exact hrsLe_refl _
      | tmpWritten =>
        obtain ⟨h1, h2, _, _⟩ := hi.pc
        simp only at h1 h2
        subst h1
        exact hrsLe_of_lt h2

theorem checkHRS_eq_same {l : LSS Sig} {h r st : Int} {s : SB} {g : Sig}
    (hh : lssHRS l = (h, r, st)) (hs : l.sb = some s) (hg : l.sig = some g) :
    checkHRS l h r st = .same := by
  unfold lssHRS at hh
  simp only [Prod.mk.injEq] at hh
  obtain ⟨h1, h2, h3⟩ := hh
  unfold checkHRS
  simp [h1, h2, h3, hs, hg]

theorem run_append (sigOf : SB → Sig) (c : Cfg Sig) (es es' : List Ev) :
    run sigOf c (es ++ es') = run sigOf (run sigOf c es) es' := by
  induction es generalizing c with
  | nil => rfl
  | cons e es ih => exact ih _

theorem ticks_idle (sigOf : SB → Sig) (n : Nat) (disk mem : LSS Sig) (rel : List (Rel Sig)) (o : Out Sig) :
    ticks sigOf n ⟨disk, mem, .idle, rel⟩ o = (⟨disk, mem, .idle, rel⟩, o) := by
  cases n <;> rfl

theorem ticks_is_run (sigOf : SB → Sig) (n : Nat) (c : Cfg Sig) (o : Out Sig) :
    ∃ es, (ticks sigOf n c o).1 = run sigOf c es := by
  induction n generalizing c o with
  | zero => exact ⟨[], rfl⟩
  | succ n ih =>
    unfold ticks
    split
    · exact ⟨[], rfl⟩
    · obtain ⟨es, h⟩ := ih (step sigOf c .tick).1 (step sigOf c .tick).2
      exact ⟨.tick :: es, h⟩

theorem ticksHold_is_run (sigOf : SB → Sig) (n : Nat) (c : Cfg Sig) :
    ∃ es, ticksHold sigOf n c = run sigOf c es := by
  induction n generalizing c with
  | zero => exact ⟨[], rfl⟩
  | succ n ih =>
    unfold ticksHold
    split
    · exact ⟨[], rfl⟩
    · exact ⟨[], rfl⟩
    · exact ⟨[], rfl⟩
    · obtain ⟨es, h⟩ := ih (step sigOf c .tick).1
      exact ⟨.tick :: es, h⟩

end Tmv.Sign
