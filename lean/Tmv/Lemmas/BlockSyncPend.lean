import Tmv.Lemmas.BlockSyncWF
/-! `numPending` equals the number of requesters without a block — an invariant of every
operation (C13): the counter that gates `makeRequestersRoutine` does not drift. -/
namespace Tmv.BlockSync

def isWaiting (r : Requester) : Bool := r.block.isNone

def waiting (l : List Requester) : Int := (l.countP isWaiting : Nat)

/-- the pool's `numPending` is the number of requesters still waiting for their block -/
def PendOK (p : Pool) : Prop := p.numPending = waiting p.requesters

theorem waiting_le (l : List Requester) : waiting l ≤ l.length := by
  unfold waiting; exact_mod_cast List.countP_le_length

theorem waiting_map (l : List Requester) (g : Requester → Requester) (hg : SamePB g) :
    waiting (l.map g) = waiting l := by
  unfold waiting
  rw [List.countP_map]
  congr 2
  funext r
  simp [isWaiting, Function.comp, (hg r).2]

theorem waiting_set (l : List Requester) : ∀ (k : Nat) (r r' : Requester), l[k]? = some r →
    waiting (l.set k r') + (if isWaiting r then 1 else 0) = waiting l + (if isWaiting r' then 1 else 0) := by
  induction l with
  | nil => intro k r r' h; simp at h
  | cons a t ih =>
    intro k r r' h
    cases k with
    | zero =>
      simp only [List.getElem?_cons_zero, Option.some.injEq] at h
      subst h
      simp only [List.set_cons_zero, waiting, List.countP_cons]
      split <;> split <;> push_cast <;> omega
    | succ j =>
      simp only [List.getElem?_cons_succ] at h
      have := ih j r r' h
      simp only [List.set_cons_succ, waiting, List.countP_cons] at this ⊢
      split <;> push_cast <;> omega

theorem waiting_append_fresh (l : List Requester) :
    waiting (l ++ [Requester.fresh]) = waiting l + 1 := by
  unfold waiting
  rw [List.countP_append]
  simp [isWaiting, Requester.fresh]

/-- `setReq` where a requester exists: how the count moves -/
theorem setReq_waiting (p : Pool) (h : Int) (r r' : Requester) (hr : p.req? h = some r) :
    waiting (p.setReq h r').requesters + (if isWaiting r then 1 else 0) =
      waiting p.requesters + (if isWaiting r' then 1 else 0) ∧
    (p.setReq h r').numPending = p.numPending := by
  obtain ⟨i, hi, rfl⟩ := req?_mem p h r hr
  have hk : i < p.requesters.length := (List.getElem?_eq_some_iff.mp hi).1
  rw [setReq_add p i r' hk]
  exact ⟨waiting_set _ i r r' hi, rfl⟩

theorem pend_removePeer (p : Pool) (w : Nat) (hp : PendOK p) : PendOK (p.removePeer w) := by
  unfold PendOK
  rw [(removePeer_reqs p w).1, waiting_map _ _ (samePB_mark w)]
  have : (p.removePeer w).numPending = p.numPending := by unfold Pool.removePeer; split <;> rfl
  rw [this]; exact hp

theorem pend_stopPeer (n : Node) (w : Nat) (hp : PendOK n.pool) : PendOK (n.stopPeer w).pool := by
  unfold Node.stopPeer; split
  · exact pend_removePeer _ _ hp
  · exact hp

theorem pend_resetReq (p : Pool) (h : Int) (r : Requester) (hr : p.req? h = some r) (hp : PendOK p) :
    PendOK (p.resetReq h r) := by
  unfold Pool.resetReq PendOK
  have hr' : ({ p with numPending := if r.block.isSome then p.numPending + 1 else p.numPending } : Pool).req? h = some r := hr
  obtain ⟨a, b⟩ := setReq_waiting _ h r { r with peer := none, block := none } hr'
  rw [b]
  simp only [isWaiting, Option.isNone_none, if_true] at a
  unfold PendOK at hp
  simp only
  cases hb : r.block with
  | none => simp [hb] at a ⊢; omega
  | some x => simp [hb] at a ⊢; omega

variable (sigOK : Nat → SignBytes → Nat → Bool)

theorem pend_redoStop (n : Node) (h : Int) (hp : PendOK n.pool) : PendOK (n.redoStop h).1.pool := by
  unfold Node.redoStop Pool.redoRequest
  cases hq : n.pool.req? h with
  | none => simpa using hp
  | some r =>
    cases hpe : r.peer with
    | none => simpa [hpe] using hp
    | some id =>
      simp only [hpe]
      exact pend_stopPeer _ id (pend_removePeer _ id hp)

theorem pend_apply (n : Node) (op : Op) (hp : PendOK n.pool) : PendOK (n.apply sigOK op).pool := by
  cases op with
  | connect id => simp only [Node.apply, Node.connect]; split <;> exact hp
  | disconnect id =>
    simp only [Node.apply, Node.disconnect]; split
    · exact pend_removePeer _ _ hp
    · exact hp
  | status id b h =>
    simp only [Node.apply, Node.recvStatus]
    split; · exact hp
    split
    · exact pend_stopPeer n id hp
    · exact hp
  | block id b =>
    simp only [Node.apply, Node.recvBlock]
    split; · exact hp
    split; · exact pend_stopPeer n id hp
    have hadd : PendOK (n.pool.addBlock id b).1 := by
      unfold Pool.addBlock
      cases hq : n.pool.req? b.height with
      | none => simpa using hp
      | some r =>
        simp only
        split
        · exact hp
        · rename_i hcond
          have hblk : r.block = none := by
            cases hb : r.block with
            | none => rfl
            | some x => exact absurd (Or.inl (by simp [hb])) hcond
          have hr' : ({ n.pool with numPending := n.pool.numPending - 1, peers := n.pool.peers.map (Peer.decrIf id) } : Pool).req? b.height = some r := hq
          obtain ⟨a, c⟩ := setReq_waiting _ b.height r { r with block := some b } hr'
          unfold PendOK at hp ⊢
          rw [c]
          simp [isWaiting, hblk] at a
          simp only
          omega
    have hadd' : PendOK ({ n with pool := (n.pool.addBlock id b).1 } : Node).pool := hadd
    generalize (n.pool.addBlock id b).snd = res
    cases res <;> first | exact hadd | exact pend_stopPeer _ id hadd'
  | mkreq =>
    simp only [Node.apply]
    unfold Pool.routineStep
    split; · exact hp
    split; · exact hp
    unfold Pool.makeNextRequester
    split
    · exact hp
    · unfold PendOK at hp ⊢
      simp only [waiting_append_fresh]
      omega
  | pick h w =>
    simp only [Node.apply]
    unfold Pool.pick
    cases hq : n.pool.req? h with
    | none => exact hp
    | some r =>
      simp only
      split; · exact hp
      split
      · split
        · have hr' : ({ n.pool with peers := n.pool.peers.map (Peer.incrIf w) } : Pool).req? h = some r := hq
          obtain ⟨a, c⟩ := setReq_waiting _ h r { r with peer := some w } hr'
          unfold PendOK at hp ⊢
          rw [c]
          dsimp only
          cases hb : r.block <;> simp [isWaiting, hb] at a <;> omega
        · split <;> exact hp
      · split <;> exact hp
  | rstep h =>
    simp only [Node.apply]
    unfold Pool.rstep
    cases hq : n.pool.req? h with
    | none => exact hp
    | some r =>
      simp only
      split; · exact hp
      cases hd : r.redo with
      | none => exact hp
      | some id =>
        simp only
        split
        · have hq' : n.pool.req? h = some r := hq
          -- the requester written back differs from `r` in `redo` only
          unfold Pool.resetReq PendOK
          have hr' : ({ n.pool with numPending := if ({ r with redo := none } : Requester).block.isSome then n.pool.numPending + 1 else n.pool.numPending } : Pool).req? h = some r := hq
          obtain ⟨a, c⟩ := setReq_waiting _ h r
            { ({ r with redo := none } : Requester) with peer := none, block := none } hr'
          rw [c]
          simp only [isWaiting, Option.isNone_none, if_true] at a
          unfold PendOK at hp
          simp only
          cases hb : r.block with
          | none => simp [hb] at a ⊢; omega
          | some x => simp [hb] at a ⊢; omega
        · obtain ⟨a, c⟩ := setReq_waiting n.pool h r { r with redo := none } hq
          unfold PendOK at hp ⊢
          show (n.pool.setReq h { r with redo := none }).numPending = waiting (n.pool.setReq h { r with redo := none }).requesters
          rw [c]
          cases hb : r.block <;> simp [isWaiting, hb] at a <;> omega
  | rtimeout h =>
    simp only [Node.apply]
    unfold Pool.rtimeout
    cases hq : n.pool.req? h with
    | none => exact hp
    | some r =>
      simp only
      split
      · exact hp
      · exact pend_resetReq _ h r hq hp
  | peerTimeout id =>
    simp only [Node.apply, Node.peerTimeout]
    split
    · exact pend_stopPeer _ id (pend_removePeer _ id hp)
    · exact hp
  | restart =>
    simp only [Node.apply, Node.restart]
    split <;> split <;> first | exact hp | (simp [PendOK, Node.new, Pool.new, waiting])
  | process =>
    simp only [Node.apply]
    unfold Node.processStep
    split
    · rename_i first second hpk
      split
      · rw [redoBoth_eq]
        exact pend_redoStop _ _ (pend_redoStop _ _ hp)
      · split
        · rename_i p hpop
          unfold Pool.pop at hpop
          cases hreq : n.pool.requesters with
          | nil => simp [hreq] at hpop
          | cons a l =>
            simp only [hreq, Option.some.injEq] at hpop
            subst hpop
            have hhead : a.block = some first := by
              unfold Pool.peekTwo at hpk
              have e0 : n.pool.height = n.pool.height + ((0 : Nat) : Int) := by simp
              have : (n.pool.req? n.pool.height).bind (·.block) = some first := by
                have := congrArg Prod.fst hpk; simpa using this
              rw [e0, req?_add, hreq] at this
              simpa using this
            unfold PendOK at hp ⊢
            rw [hreq] at hp
            simp only [waiting, List.countP_cons, isWaiting, hhead] at hp
            simp only [waiting, isWaiting]
            simpa using hp
        · exact hp
    · exact hp

theorem pend_run (n : Node) (ops : List Op) (hp : PendOK n.pool) : PendOK (n.run sigOK ops).pool := by
  induction ops generalizing n with
  | nil => exact hp
  | cons op rest ih =>
    simp only [Node.run, List.foldl_cons]
    exact ih _ (pend_apply sigOK n op hp)

theorem fairRun_reaches (st0 : St) (chain : Int → Block) (start tip : Int) (w : Nat) (base : Int)
    (hc : HonestChain sigOK st0 chain start tip) (hb0 : 0 ≤ base) (hbs : base ≤ start) :
    ∀ (segs : List (List Op)) (n : Node) (k : Nat), WF n → PendOK n.pool → Canon st0 chain start k n →
      tip - (start + k) ≤ segs.length →
      ∃ k', Canon st0 chain start k' (fairRun sigOK w base tip chain segs n) ∧ tip ≤ start + k' ∧
        WF (fairRun sigOK w base tip chain segs n) ∧ PendOK (fairRun sigOK w base tip chain segs n).pool := by
  intro segs
  induction segs with
  | nil =>
    intro n k hw hp hk hlen
    exact ⟨k, hk, by simp at hlen; omega, hw, hp⟩
  | cons A rest ih =>
    intro n k hw hp hk hlen
    simp only [fairRun]
    have hw1 := wf_run sigOK n A hw
    have hp1 := pend_run sigOK n A hp
    obtain ⟨k1, hk1, c1⟩ := canon_run sigOK st0 chain start tip hc A n k hw hk
    generalize n.run sigOK A = n1 at *
    by_cases hlt : n1.pool.height < tip
    · simp only [hlt, if_true]
      have hnp1 : n1.pool.numPending ≤ n1.pool.requesters.length := by
        rw [hp1]; exact waiting_le _
      have hsave := fairRound_saves sigOK n1 hw1 hnp1 w base tip (chain n1.pool.height) (chain (n1.pool.height + 1))
        hb0 (by rw [c1.2]; omega) hlt (hc.heights _) (hc.heights _) (hc.wellFormed _) (hc.wellFormed _)
        (by
          have := hc.pairOK k1 (by rw [← c1.2]; exact hlt)
          rw [c1.1, c1.2]; exact this)
      obtain ⟨_, s2, s3⟩ := hsave
      have hw2 := wf_run sigOK n1 (fairRound n1.pool.height w base tip (chain n1.pool.height)
        (chain (n1.pool.height + 1))) hw1
      have hp2 := pend_run sigOK n1 (fairRound n1.pool.height w base tip (chain n1.pool.height)
        (chain (n1.pool.height + 1))) hp1
      generalize n1.run sigOK (fairRound n1.pool.height w base tip (chain n1.pool.height)
        (chain (n1.pool.height + 1))) = n2 at *
      have c2 : Canon st0 chain start (k1 + 1) n2 := by
        refine ⟨?_, by rw [s3, c1.2]; push_cast; omega⟩
        rw [s2, c1.1, c1.2]; rfl
      exact ih n2 (k1 + 1) hw2 hp2 c2 (by simp at hlen; push_cast; omega)
    · simp only [hlt, if_false]
      exact ih n1 k1 hw1 hp1 c1 (by have := c1.2; simp at hlen; omega)


end Tmv.BlockSync
