import Tmv.Lemmas.ValSet
/-! A successful `updateWithChangeSet` yields a well-formed set. -/
namespace Tmv.ValSet

/-- what the receiver of an update must satisfy (the empty set of `NewValidatorSet` included) -/
structure PreWF (l : List Val) : Prop where
  nodup : (l.map (·.addr)).Nodup
  pos : ∀ v ∈ l, 0 < v.power

/-- the clauses of the property for a validator list -/
structure WF (l : List Val) : Prop where
  nodup : (l.map (·.addr)).Nodup
  pos : ∀ v ∈ l, 0 < v.power
  sorted : l.Pairwise (fun a b => lePower a b = true)
  ne : l ≠ []
  total_le : sumPower l ≤ maxTotal
  total_pos : 0 < sumPower l

theorem WF.pre {l : List Val} (h : WF l) : PreWF l := ⟨h.nodup, h.pos⟩

theorem perm_sumPower {l1 l2 : List Val} (hp : l1.Perm l2) : sumPower l1 = sumPower l2 := by
  induction hp with
  | nil => rfl
  | cons x _ ih => simp only [sumPower, List.map_cons, List.sum_cons] at ih ⊢; omega
  | swap x y l => simp only [sumPower, List.map_cons, List.sum_cons]; omega
  | trans _ _ ih1 ih2 => omega

theorem SameAP.sumPower {a b : List Val} (h : SameAP a b) : sumPower a = sumPower b := by
  unfold Tmv.ValSet.sumPower; rw [h.powers]

theorem SameAP.mem {a b : List Val} (h : SameAP a b) :
    ∀ x ∈ a, ∃ y ∈ b, y.addr = x.addr ∧ y.power = x.power := by
  intro x hx
  have : (x.addr, x.power) ∈ a.map (fun v => (v.addr, v.power)) := List.mem_map.mpr ⟨x, hx, rfl⟩
  rw [h] at this
  obtain ⟨y, hy, e⟩ := List.mem_map.mp this
  simp only [Prod.mk.injEq] at e
  exact ⟨y, hy, e.1, e.2⟩

theorem SameAP.length {a b : List Val} (h : SameAP a b) : a.length = b.length := by
  have := congrArg List.length h
  simpa using this

theorem sAddr_of_addrs_eq {a b : List Val} (h : a.map (·.addr) = b.map (·.addr)) (hb : SAddr b) :
    SAddr a := by
  unfold SAddr at *
  have hb' : (b.map (·.addr)).Pairwise (· < ·) := List.pairwise_map.mpr hb
  rw [← h] at hb'
  exact List.pairwise_map.mp hb'

theorem computeNewPriorities_sameAP (u vals : List Val) (tvp : Int) :
    SameAP (computeNewPriorities u vals tvp) u := by
  have : computeNewPriorities u vals tvp =
      u.map (fun x => setPrio x (match findAddr vals x.addr with
        | none => -(tvp + tvp / 8) | some v => v.prio)) := by
    unfold computeNewPriorities
    apply List.map_congr_left
    intro x _
    cases findAddr vals x.addr <;> rfl
  rw [this]
  exact sameAP_map_setPrio u _

theorem sumPower_pos {l : List Val} (hne : l ≠ []) (hp : ∀ v ∈ l, 0 < v.power) : 0 < sumPower l := by
  induction l with
  | nil => exact absurd rfl hne
  | cons v r ih =>
    simp only [sumPower, List.map_cons, List.sum_cons]
    have hv := hp v List.mem_cons_self
    cases r with
    | nil => simp; exact hv
    | cons w r' =>
      have := ih (by simp) (fun x hx => hp x (List.mem_cons_of_mem _ hx))
      simp only [sumPower] at this
      omega

/-- everything after `processChanges`: the list `v2` left by `applyUpdates`/`applyRemovals` -/
theorem updateCore_decomp (s s' : VSet) (u d : List Val) (allow : Bool)
    (hpre : PreWF s.vals) (hu : SAddr u) (hd : SAddr d)
    (hup : ∀ v ∈ u, 0 < v.power) (hdisj : ∀ y ∈ u, ∀ z ∈ d, y.addr ≠ z.addr)
    (h : updateCore s u d allow = (s', none)) :
    ∃ removed tvp v2, verifyRemovals s.vals d 0 = some removed ∧
      verifyUpdates u s.vals removed = some tvp ∧ totalPanics v2 = false ∧
      s'.vals = sortBy lePower (shiftByAvg (rescale v2 (windowFactor * totalPower v2))) ∧
      SAddr v2 ∧ v2 ≠ [] ∧ (∀ x ∈ v2, 0 < x.power) ∧
      (∀ x ∈ v2, x ∈ computeNewPriorities u s.vals tvp ∨ x ∈ s.vals) ∧
      (∀ x, x ∈ v2 ↔
        ((x ∈ computeNewPriorities u s.vals tvp ∨
          (x ∈ s.vals ∧ ∀ w ∈ computeNewPriorities u s.vals tvp, w.addr ≠ x.addr)) ∧
         ∀ z ∈ d, z.addr ≠ x.addr)) := by
  unfold updateCore at h
  split at h
  · cases h
  · split at h
    · cases h
    · rename_i hnonempty
      split at h
      · cases h
      · rename_i removed hrem
        split at h
        · cases h
        · rename_i tvp hver
          simp only at h
          split at h
          · cases h
          · rename_i hnp
            simp only [Prod.mk.injEq, and_true] at h
            subst h
            simp only
            -- names
            generalize hu'def : computeNewPriorities u s.vals tvp = u' at *
            have hu'ap : SameAP u' u := hu'def ▸ computeNewPriorities_sameAP u s.vals tvp
            have hu's : SAddr u' := sAddr_of_addrs_eq hu'ap.addrs hu
            have hes : SAddr (sortBy leAddr s.vals) := by
              apply sAddr_of_sorted_nodup _ (sortBy_pairwise leAddr leAddr_total leAddr_trans _)
              exact (List.Perm.map _ (sortBy_perm leAddr s.vals)).nodup_iff.mpr hpre.nodup
            have hesmem : ∀ x, x ∈ sortBy leAddr s.vals ↔ x ∈ s.vals := fun x =>
              (sortBy_perm leAddr s.vals).mem_iff
            generalize hv1def : applyUpdates s.vals u' = v1 at *
            obtain ⟨m1, m2, m3, m4⟩ := mergeUpd_spec _ _ _ (Nat.le_refl _) hes hu's
            have hv1 : v1 = mergeUpd ((sortBy leAddr s.vals).length + u'.length) (sortBy leAddr s.vals) u' := by
              rw [← hv1def]; rfl
            rw [← hv1] at m1 m2 m3 m4
            -- every old or updated address is present in v1
            have haddr : ∀ a, (∃ e ∈ s.vals, e.addr = a) → ∃ x ∈ v1, x.addr = a := by
              intro a ⟨e, he, hea⟩
              by_cases hw : ∃ w ∈ u', w.addr = a
              · obtain ⟨w, hw1, hw2⟩ := hw
                exact ⟨w, m3 w hw1, hw2⟩
              · refine ⟨e, m4 e ((hesmem e).mpr he) ?_, hea⟩
                intro w hw1 hw2
                exact hw ⟨w, hw1, by rw [hw2, hea]⟩
            have hsub : ∀ z ∈ d, ∃ e ∈ v1, e.addr = z.addr := by
              intro z hz
              exact haddr _ (verifyRemovals_some _ _ _ _ hrem z hz)
            have hspec := applyRemovals_spec v1 d m1 hd hsub
            generalize hv2def : applyRemovals v1 d = v2 at *
            have hv2sub : v2.Sublist v1 := hv2def ▸ applyRemovals_sublist v1 d
            have hv2s : SAddr v2 := List.Pairwise.sublist hv2sub m1
            have hv1pos : ∀ x ∈ v1, 0 < x.power := by
              intro x hx
              rcases m2 x hx with h1 | ⟨h1, _⟩
              · obtain ⟨y, hy, _, hyp⟩ := hu'ap.mem x h1
                rw [← hyp]; exact hup y hy
              · exact hpre.pos x ((hesmem x).mp h1)
            have hv2pos : ∀ x ∈ v2, 0 < x.power := fun x hx => hv1pos x (hv2sub.subset hx)
            -- never empty
            have hv2ne : v2 ≠ [] := by
              have hwit : ∃ x ∈ v1, ∀ z ∈ d, z.addr ≠ x.addr := by
                by_cases hnew : numNewValidators u s.vals = 0
                · have hlen : ¬ s.vals.length = d.length := fun e => hnonempty ⟨hnew, e⟩
                  -- pigeonhole: some old validator is not deleted
                  have hex : ∃ e ∈ s.vals, ∀ z ∈ d, z.addr ≠ e.addr := by
                    apply Classical.byContradiction
                    intro hcon
                    have h1 : (s.vals.map (·.addr)) ⊆ (d.map (·.addr)) := by
                      intro a ha
                      obtain ⟨e, he, hea⟩ := List.mem_map.mp ha
                      apply Classical.byContradiction
                      intro hna
                      apply hcon
                      refine ⟨e, he, ?_⟩
                      intro z hz hze
                      apply hna
                      exact List.mem_map.mpr ⟨z, hz, by rw [hze, hea]⟩
                    have h2 : (d.map (·.addr)) ⊆ (s.vals.map (·.addr)) := by
                      intro a ha
                      obtain ⟨z, hz, hza⟩ := List.mem_map.mp ha
                      obtain ⟨e, he, hez⟩ := verifyRemovals_some _ _ _ _ hrem z hz
                      exact List.mem_map.mpr ⟨e, he, by rw [hez, hza]⟩
                    have l1 := List.Nodup.length_le_of_subset hpre.nodup h1
                    have l2 := List.Nodup.length_le_of_subset hd.nodup h2
                    simp only [List.length_map] at l1 l2
                    omega
                  obtain ⟨e, he, hez⟩ := hex
                  obtain ⟨x, hx, hxa⟩ := haddr e.addr ⟨e, he, rfl⟩
                  exact ⟨x, hx, fun z hz => by rw [hxa]; exact hez z hz⟩
                · -- a new validator survives
                  unfold numNewValidators at hnew
                  have : (u.filter (fun x => !hasAddr s.vals x.addr)) ≠ [] := by
                    intro e; rw [e] at hnew; exact hnew rfl
                  obtain ⟨y, hy⟩ := List.exists_mem_of_ne_nil _ this
                  have hyu : y ∈ u := (List.mem_filter.mp hy).1
                  have : (y.addr, y.power) ∈ u'.map (fun v => (v.addr, v.power)) := by
                    rw [hu'ap]; exact List.mem_map.mpr ⟨y, hyu, rfl⟩
                  obtain ⟨y', hy', hye⟩ := List.mem_map.mp this
                  simp only [Prod.mk.injEq] at hye
                  refine ⟨y', m3 y' hy', ?_⟩
                  intro z hz hze
                  exact hdisj y hyu z hz (by rw [hze, hye.1])
              obtain ⟨x, hx, hxz⟩ := hwit
              have : x ∈ v2 := hv2def ▸ (hspec x hx).mpr hxz
              intro e; rw [e] at this; cases this
            refine ⟨removed, tvp, v2, hrem, hver, by simpa using hnp, ?_, hv2s, hv2ne, hv2pos, ?_, ?_⟩
            · rw [← hv2def, ← hv1def]
            · intro x hx
              rcases m2 x (hv2sub.subset hx) with h1 | ⟨h1, _⟩
              · left; rw [hu'def]; exact h1
              · right; exact (hesmem x).mp h1
            · intro x
              rw [hu'def]
              constructor
              · intro hx
                have hx1 := hv2sub.subset hx
                refine ⟨?_, (hspec x hx1).mp hx⟩
                rcases m2 x hx1 with h1 | ⟨h1, h2⟩
                · left; exact h1
                · right; exact ⟨(hesmem x).mp h1, h2⟩
              · intro ⟨hmem, hnd⟩
                have hx1 : x ∈ v1 := by
                  rcases hmem with h1 | ⟨h1, h2⟩
                  · exact m3 x h1
                  · exact m4 x ((hesmem x).mpr h1) h2
                exact (hspec x hx1).mpr hnd

/-- everything after `processChanges` yields a well-formed list -/
theorem updateCore_wf (s s' : VSet) (u d : List Val) (allow : Bool)
    (hpre : PreWF s.vals) (hu : SAddr u) (hd : SAddr d)
    (hup : ∀ v ∈ u, 0 < v.power) (hdisj : ∀ y ∈ u, ∀ z ∈ d, y.addr ≠ z.addr)
    (h : updateCore s u d allow = (s', none)) : WF s'.vals := by
  obtain ⟨removed, tvp, v2, _, _, hnp, hvals, hv2s, hv2ne, hv2pos, _, _⟩ :=
    updateCore_decomp s s' u d allow hpre hu hd hup hdisj h
  rw [hvals]
  -- the remaining steps keep addresses and powers
  have hap4 : SameAP (shiftByAvg (rescale v2 (windowFactor * totalPower v2))) v2 :=
    (shiftByAvg_sameAP _).trans (rescale_sameAP _ _)
  generalize hv4def : shiftByAvg (rescale v2 (windowFactor * totalPower v2)) = v4 at *
  have hperm := sortBy_perm lePower v4
  have hnp' : totalPanicsFrom 0 v2 = false := hnp
  have htot := totalFrom_noclip v2 0 (by omega) (by rw [maxTotal_eq]; omega)
    (fun x hx => by have := hv2pos x hx; omega) hnp'
  have hsum : sumPower (sortBy lePower v4) = sumPower v2 := by
    rw [perm_sumPower hperm, hap4.sumPower]
  have hposF : ∀ x ∈ sortBy lePower v4, 0 < x.power := by
    intro x hx
    obtain ⟨y, hy, _, hyp⟩ := hap4.mem x (hperm.mem_iff.mp hx)
    rw [← hyp]; exact hv2pos y hy
  have hneF : sortBy lePower v4 ≠ [] := by
    intro e
    have := hperm.length_eq
    rw [e, hap4.length] at this
    exact hv2ne (List.eq_nil_of_length_eq_zero this.symm)
  refine ⟨?_, hposF, sortBy_pairwise lePower lePower_total lePower_trans v4, hneF, ?_,
    sumPower_pos hneF hposF⟩
  · have := (List.Perm.map (·.addr) hperm).nodup_iff.mpr
    apply this
    rw [hap4.addrs]; exact hv2s.nodup
  · rw [hsum]; have := htot.2; omega

end Tmv.ValSet
