import Tmv.Lemmas.ConsSched
/-! "Holds that block": whatever block the node has as proposal / locked / valid block, queues as its own
block part, or precommits, was delivered to it complete or is the block it creates itself. Also the
shape lemmas of the signing primitives. -/
namespace Tmv.Cons

/-! ### what the primitives do to the state, exactly -/

theorem emit_shape (s : NodeState) (o : Output) : emit s o = s ∨ emit s o = { s with out := s.out ++ [o] } := by
  unfold emit; split
  · left; rfl
  · right; rfl

theorem sign_shape {c : Cfg} {s s' : NodeState} {r cd : Nat} {p : Payload} (h : sign c s r cd p = some s') :
    ∃ l, s' = { s with lss := l } := by
  unfold sign at h
  repeat' split at h
  all_goals first | (cases h; exact ⟨_, rfl⟩) | simp at h

/-- `signAddVote` either does nothing, or appends exactly the vote to the outputs and to the queue -/
theorem signAddVote_shape (c : Cfg) (s : NodeState) (t : VType) (bid : Bid) :
    signAddVote c s t bid = s ∨ ∃ l me, c.self = some me ∧ signAddVote c s t bid =
      { s with lss := l, out := s.out ++ [.signVote t s.round bid],
               queue := s.queue ++ [.vote ⟨t, s.round, bid, me, true, me, me⟩] } := by
  unfold signAddVote
  split
  · left; rfl
  · rename_i hh
    split
    · left; rfl
    · rename_i me hme
      split
      · rename_i s' hs
        obtain ⟨l, rfl⟩ := sign_shape hs
        right
        refine ⟨l, me, hme, ?_⟩
        simp only []
        unfold emit
        simp [hh]
      · left; rfl

/-- `decideProposal` either does nothing, or queues the proposal and its block part (and, unless
halted, records the signature) -/
theorem decideProposal_shape (c : Cfg) (s : NodeState) (r me : Nat) :
    decideProposal c s r me = s ∨ ∃ l o, (o = s.out ∨ o = s.out ++ [.signProposal r (s.validBlock.getD c.ownBlock) s.validRound]) ∧
      decideProposal c s r me = { s with lss := l, out := o, queue := s.queue ++ [.proposal ⟨r, s.validBlock.getD c.ownBlock, s.validRound, me⟩, .part (s.validBlock.getD c.ownBlock)] } := by
  unfold decideProposal
  simp only []
  split
  · rename_i s' hs
    obtain ⟨l, rfl⟩ := sign_shape hs
    right
    rcases emit_shape { s with lss := l } (.signProposal r (s.validBlock.getD c.ownBlock) s.validRound) with e | e
    · exact ⟨l, s.out, Or.inl rfl, by rw [e]⟩
    · exact ⟨l, _, Or.inr rfl, by rw [e]⟩
  · left; rfl

theorem panicWith_shape (s : NodeState) (w : String) :
    panicWith s w = s ∨ panicWith s w = { s with out := s.out ++ [.panic w], halted := true } := by
  unfold panicWith; split
  · left; rfl
  · right; rfl

attribute [local irreducible] emit panicWith sign signAddVote decideProposal doPrevote enterPrevote enterPropose
  enterNewRound newRoundReset enterPrevoteWait unlock enterPrecommit enterPrecommitWait finalizeCommit tryFinalizeCommit
  enterCommit setProposal handleCompleteProposal addBlockPart addVote onPolka prevoteTransitions afterPrevote
  afterPrecommit handleInternal handleTimeout
  handleTxsAvailable handleInput drain step run HVS.addVote HVS.setRound HVS.setPeerMaj23 HVS.polRound
  isProposalComplete maj23Of hasAnyOf hashesTo hasHeader

/-- block `b` was delivered complete, or is the block the node creates itself -/
def Held (c : Cfg) (past : List Input) (b : Nat) : Prop := Input.blockComplete b ∈ past ∨ b = c.ownBlock

theorem Held.mono {c : Cfg} {past : List Input} {b : Nat} (h : Held c past b) (i : Input) : Held c (past ++ [i]) b :=
  h.imp (fun m => List.mem_append_left _ m) id

/-- (H): every block the node refers to as its own is held -/
structure HI (c : Cfg) (past : List Input) (pb lb vb : Option Nat) (queue : List Internal) (out : List Output) : Prop where
  pb : ∀ b, pb = some b → Held c past b
  lb : ∀ b, lb = some b → Held c past b
  vb : ∀ b, vb = some b → Held c past b
  q : ∀ b, Internal.part b ∈ queue → Held c past b
  pc : ∀ r b, Output.signVote .precommit r (some b) ∈ out → Held c past b

abbrev H (c : Cfg) (past : List Input) (s : NodeState) : Prop :=
  HI c past s.proposalBlock s.lockedBlock s.validBlock s.queue s.out

theorem HI.mono {c past pb lb vb q o} (h : HI c past pb lb vb q o) (i : Input) : HI c (past ++ [i]) pb lb vb q o :=
  ⟨fun b e => (h.pb b e).mono i, fun b e => (h.lb b e).mono i, fun b e => (h.vb b e).mono i,
   fun b e => (h.q b e).mono i, fun r b e => (h.pc r b e).mono i⟩

theorem HI.push_out {c past pb lb vb q o} (h : HI c past pb lb vb q o) (x : Output)
    (hx : ∀ r b, x = .signVote .precommit r (some b) → Held c past b) : HI c past pb lb vb q (o ++ [x]) :=
  ⟨h.pb, h.lb, h.vb, h.q, fun r b hm => by
    rcases List.mem_append.1 hm with a | a
    · exact h.pc r b a
    · simp at a; exact hx r b a.symm⟩

variable {c : Cfg} {past : List Input}

syntax "hinv_step" : tactic
macro_rules | `(tactic| hinv_step) => `(tactic| assumption)
macro_rules | `(tactic| hinv_step) => `(tactic| (intro _ _ e; cases e))
macro "hinv" : tactic => `(tactic| repeat' (first | hinv_step | (dsimp only; hinv_step)))

theorem emit_H {s : NodeState} (o : Output) (ho : ∀ r b, o = .signVote .precommit r (some b) → Held c past b)
    (h : H c past s) : H c past (emit s o) := by
  rcases emit_shape s o with e | e <;> rw [e]
  · exact h
  · exact h.push_out o ho
macro_rules | `(tactic| hinv_step) => `(tactic| apply emit_H)

theorem panicWith_H {s : NodeState} (w : String) (h : H c past s) : H c past (panicWith s w) := by
  rcases panicWith_shape s w with e | e <;> rw [e]
  · exact h
  · exact h.push_out _ (by intro _ _ e; cases e)
macro_rules | `(tactic| hinv_step) => `(tactic| apply panicWith_H)

theorem signAddVote_H {s : NodeState} (t : VType) (bid : Bid)
    (hb : t = .precommit → ∀ b, bid = some b → Held c past b) (h : H c past s) : H c past (signAddVote c s t bid) := by
  rcases signAddVote_shape c s t bid with e | ⟨l, me, _, e⟩ <;> rw [e]
  · exact h
  · show HI _ _ _ _ _ _ _
    dsimp only
    refine ⟨h.pb, h.lb, h.vb, ?_, ?_⟩
    · intro b hm
      rcases List.mem_append.1 hm with a | a
      · exact h.q b a
      · simp at a
    · intro r b hm
      rcases List.mem_append.1 hm with a | a
      · exact h.pc r b a
      · simp at a
        obtain ⟨rfl, _, rfl⟩ := a
        exact hb rfl b rfl

theorem signAddVote_prevote_H {s : NodeState} (bid : Bid) (h : H c past s) : H c past (signAddVote c s .prevote bid) :=
  signAddVote_H _ _ (fun e => by cases e) h
macro_rules | `(tactic| hinv_step) => `(tactic| apply signAddVote_prevote_H)
theorem signAddVote_nil_H {s : NodeState} (t : VType) (h : H c past s) : H c past (signAddVote c s t none) :=
  signAddVote_H _ _ (fun _ b e => by cases e) h
macro_rules | `(tactic| hinv_step) => `(tactic| apply signAddVote_nil_H)

theorem decideProposal_H {s : NodeState} (r me : Nat) (h : H c past s) : H c past (decideProposal c s r me) := by
  rcases decideProposal_shape c s r me with e | ⟨l, o, ho, e⟩ <;> rw [e]
  · exact h
  · show HI _ _ _ _ _ _ _
    dsimp only
    refine ⟨h.pb, h.lb, h.vb, ?_, ?_⟩
    · intro b hm
      rcases List.mem_append.1 hm with a | a
      · exact h.q b a
      · simp at a
        subst a
        cases hv : s.validBlock with
        | none => right; simp
        | some x => simp; exact h.vb x hv
    · intro r' b hm
      rcases ho with rfl | rfl
      · exact h.pc r' b hm
      · rcases List.mem_append.1 hm with a | a
        · exact h.pc r' b a
        · simp at a
macro_rules | `(tactic| hinv_step) => `(tactic| apply decideProposal_H)

theorem doPrevote_H {s : NodeState} (h : H c past s) : H c past (doPrevote c s) := by
  unfold doPrevote; (try simp only []); repeat' split
  all_goals hinv
macro_rules | `(tactic| hinv_step) => `(tactic| apply doPrevote_H)

theorem enterPrevote_H {s : NodeState} (r : Nat) (h : H c past s) : H c past (enterPrevote c s r) := by
  unfold enterPrevote; (try simp only []); repeat' split
  all_goals hinv
macro_rules | `(tactic| hinv_step) => `(tactic| apply enterPrevote_H)

theorem enterPropose_H {s : NodeState} (r : Nat) (h : H c past s) : H c past (enterPropose c s r) := by
  unfold enterPropose; (try simp only []); repeat' split
  all_goals hinv
macro_rules | `(tactic| hinv_step) => `(tactic| apply enterPropose_H)

theorem newRoundReset_H {s : NodeState} (r : Nat) (h : H c past s) : H c past (newRoundReset s r) := by
  unfold newRoundReset; simp only []; split
  · exact h
  · exact ⟨(by intro b e; cases e), h.lb, h.vb, h.q, h.pc⟩
macro_rules | `(tactic| hinv_step) => `(tactic| apply newRoundReset_H)

theorem enterNewRound_H {s : NodeState} (r : Nat) (h : H c past s) : H c past (enterNewRound c s r) := by
  unfold enterNewRound; (try simp only []); repeat' split
  all_goals hinv
macro_rules | `(tactic| hinv_step) => `(tactic| apply enterNewRound_H)

theorem enterPrevoteWait_H {s : NodeState} (r : Nat) (h : H c past s) : H c past (enterPrevoteWait c s r) := by
  unfold enterPrevoteWait; (try simp only []); repeat' split
  all_goals hinv
macro_rules | `(tactic| hinv_step) => `(tactic| apply enterPrevoteWait_H)

theorem unlock_H {s : NodeState} (h : H c past s) : H c past (unlock s) := by
  unfold unlock
  exact ⟨h.pb, (by intro b e; cases e), h.vb, h.q, h.pc⟩
macro_rules | `(tactic| hinv_step) => `(tactic| apply unlock_H)

theorem enterPrecommit_H {s : NodeState} (round : Nat) (h : H c past s) : H c past (enterPrecommit c s round) := by
  unfold enterPrecommit
  split
  · exact h
  · split
    · exact h
    · simp only []
      split
      · hinv
      · split
        · hinv
        · split
          · split <;> hinv
          · rename_i b
            split
            · rename_i hl
              have hlb := hashesTo_some hl
              show HI _ _ _ _ _ _ _
              dsimp only
              apply signAddVote_H _ _ (fun _ b' e => by cases e; exact h.lb _ hlb)
              exact h
            · split
              · rename_i hp
                have hpb := hashesTo_some hp
                split
                · hinv
                · show HI _ _ _ _ _ _ _
                  dsimp only
                  apply signAddVote_H _ _ (fun _ b' e => by cases e; exact h.pb _ hpb)
                  exact ⟨h.pb, h.pb, h.vb, h.q, h.pc⟩
              · have hU := unlock_H h
                split
                · show HI _ _ _ _ _ _ _
                  dsimp only
                  apply signAddVote_nil_H
                  exact ⟨(by intro b e; cases e), hU.lb, hU.vb, hU.q, hU.pc⟩
                · hinv
macro_rules | `(tactic| hinv_step) => `(tactic| apply enterPrecommit_H)

theorem enterPrecommitWait_H {s : NodeState} (r : Nat) (h : H c past s) : H c past (enterPrecommitWait c s r) := by
  unfold enterPrecommitWait; (try simp only []); repeat' split
  all_goals hinv
macro_rules | `(tactic| hinv_step) => `(tactic| apply enterPrecommitWait_H)

theorem finalizeCommit_H {s : NodeState} (h : H c past s) : H c past (finalizeCommit c s) := by
  unfold finalizeCommit; (try simp only []); repeat' split
  all_goals hinv
macro_rules | `(tactic| hinv_step) => `(tactic| apply finalizeCommit_H)

theorem tryFinalizeCommit_H {s : NodeState} (h : H c past s) : H c past (tryFinalizeCommit c s) := by
  unfold tryFinalizeCommit; (try simp only []); repeat' split
  all_goals hinv
macro_rules | `(tactic| hinv_step) => `(tactic| apply tryFinalizeCommit_H)

theorem enterCommit_H {s : NodeState} (r : Nat) (h : H c past s) : H c past (enterCommit c s r) := by
  unfold enterCommit
  split
  · exact h
  · split
    · exact h
    · split
      · hinv
      · simp only []
        apply tryFinalizeCommit_H
        show HI _ _ _ _ _ _ _
        repeat' split
        all_goals first
          | exact h
          | exact ⟨h.lb, h.lb, h.vb, h.q, h.pc⟩
          | exact ⟨(by intro b e; cases e), h.lb, h.vb, h.q, h.pc⟩
macro_rules | `(tactic| hinv_step) => `(tactic| apply enterCommit_H)

theorem setProposal_H {s : NodeState} (p : Proposal) (h : H c past s) : H c past (setProposal c s p) := by
  unfold setProposal; (try simp only []); repeat' split
  all_goals exact h
macro_rules | `(tactic| hinv_step) => `(tactic| apply setProposal_H)

theorem handleCompleteProposal_H {s : NodeState} (h : H c past s) : H c past (handleCompleteProposal c s) := by
  unfold handleCompleteProposal
  simp only []
  have h1 : H c past { s with validRound := s.round, validBlock := s.proposalBlock } :=
    ⟨h.pb, h.lb, h.pb, h.q, h.pc⟩
  repeat' split
  all_goals hinv
macro_rules | `(tactic| hinv_step) => `(tactic| apply handleCompleteProposal_H)

theorem addBlockPart_H {s : NodeState} (b : Nat) (hb : Held c past b) (h : H c past s) : H c past (addBlockPart c s b) := by
  unfold addBlockPart
  repeat' split
  all_goals first | exact h | skip
  apply handleCompleteProposal_H
  exact ⟨(by intro b' e; cases e; exact hb), h.lb, h.vb, h.q, h.pc⟩

theorem onPolka_H {s : NodeState} (vr : Nat) (bid : Bid) (h : H c past s) : H c past (onPolka s vr bid) := by
  unfold onPolka
  simp only []
  have hU := unlock_H h
  repeat' split
  all_goals first
    | exact h | exact hU
    | exact ⟨h.pb, h.lb, h.pb, h.q, h.pc⟩ | exact ⟨hU.pb, hU.lb, hU.pb, hU.q, hU.pc⟩
    | exact ⟨(by intro b e; cases e), h.lb, h.vb, h.q, h.pc⟩ | exact ⟨(by intro b e; cases e), hU.lb, hU.vb, hU.q, hU.pc⟩
macro_rules | `(tactic| hinv_step) => `(tactic| apply onPolka_H)

theorem prevoteTransitions_H {s : NodeState} (vr : Nat) (h : H c past s) : H c past (prevoteTransitions c s vr) := by
  unfold prevoteTransitions; (try simp only []); repeat' split
  all_goals hinv
macro_rules | `(tactic| hinv_step) => `(tactic| apply prevoteTransitions_H)

theorem afterPrevote_H {s : NodeState} (vr : Nat) (h : H c past s) : H c past (afterPrevote c s vr) := by
  unfold afterPrevote; (try simp only []); repeat' split
  all_goals hinv
macro_rules | `(tactic| hinv_step) => `(tactic| apply afterPrevote_H)

theorem afterPrecommit_H {s : NodeState} (vr : Nat) (h : H c past s) : H c past (afterPrecommit c s vr) := by
  unfold afterPrecommit; (try simp only []); repeat' split
  all_goals hinv
macro_rules | `(tactic| hinv_step) => `(tactic| apply afterPrecommit_H)

theorem addVote_H {s : NodeState} (v : Vote) (peer : Peer) (h : H c past s) : H c past (addVote c s v peer) := by
  unfold addVote; (try simp only []); repeat' split
  all_goals hinv
macro_rules | `(tactic| hinv_step) => `(tactic| apply addVote_H)

theorem handleInternal_H {s : NodeState} (m : Internal) (hm : ∀ b, m = .part b → Held c past b) (h : H c past s) :
    H c past (handleInternal c s m) := by
  unfold handleInternal
  cases m with
  | proposal p => exact setProposal_H p h
  | part b => exact addBlockPart_H b (hm b rfl) h
  | vote v => exact addVote_H v 0 h

theorem handleTimeout_H {s : NodeState} (r : Nat) (st : Step) (h : H c past s) : H c past (handleTimeout c s r st) := by
  unfold handleTimeout; (try simp only []); repeat' split
  all_goals hinv
macro_rules | `(tactic| hinv_step) => `(tactic| apply handleTimeout_H)

theorem handleTxsAvailable_H {s : NodeState} (h : H c past s) : H c past (handleTxsAvailable c s) := by
  unfold handleTxsAvailable; (try simp only []); repeat' split
  all_goals hinv
macro_rules | `(tactic| hinv_step) => `(tactic| apply handleTxsAvailable_H)

theorem handleInput_H {s : NodeState} (i : Input) (h : H c past s) : H c (past ++ [i]) (handleInput c s i) := by
  have h' := h.mono i
  unfold handleInput
  cases i with
  | timeout r st => exact handleTimeout_H r st h'
  | peerMaj23 r t peer bid => exact h'
  | proposal p => exact setProposal_H p h'
  | blockComplete b => exact addBlockPart_H b (Or.inl (by simp)) h'
  | vote v peer => exact addVote_H v peer h'
  | txsAvailable => exact handleTxsAvailable_H h'

theorem drain_H (fuel : Nat) {s : NodeState} (h : H c past s) : H c past (drain c fuel s) := by
  induction fuel generalizing s with
  | zero => unfold drain; exact h
  | succ n ih =>
    unfold drain; repeat' split
    all_goals first | exact h | skip
    rename_i m rest hq
    have h' : H c past { s with queue := rest } :=
      ⟨h.pb, h.lb, h.vb, fun b hm => h.q b (by rw [hq]; exact List.mem_cons_of_mem _ hm), h.pc⟩
    exact ih (handleInternal_H m (fun b e => h.q b (by rw [hq, e]; exact List.mem_cons_self ..)) h')

theorem step_H {s : NodeState} (i : Input) (h : H c past s) : H c (past ++ [i]) (step c s i) := by
  unfold step; split
  · exact h.mono i
  · exact drain_H _ (handleInput_H i h)

theorem run_H (is : List Input) {s : NodeState} {past : List Input} (h : H c past s) : H c (past ++ is) (run c s is) := by
  induction is generalizing s past with
  | nil => unfold run; simpa using h
  | cons i is ih =>
    have := ih (step_H i h)
    unfold run at this ⊢
    simpa [List.foldl, List.append_assoc] using this

theorem init_H : H c [] NodeState.init :=
  ⟨(by intro b e; cases e), (by intro b e; cases e), (by intro b e; cases e), (by intro b e; simp [NodeState.init] at e),
   (by intro r b e; simp [NodeState.init] at e)⟩

end Tmv.Cons

namespace Tmv.Cons
attribute [local irreducible] emit panicWith sign signAddVote decideProposal doPrevote enterPrevote enterPropose
  enterNewRound newRoundReset enterPrevoteWait unlock enterPrecommit enterPrecommitWait finalizeCommit tryFinalizeCommit
  enterCommit setProposal handleCompleteProposal addBlockPart addVote onPolka prevoteTransitions afterPrevote
  afterPrecommit handleInternal handleTimeout
  handleTxsAvailable handleInput drain step run HVS.addVote HVS.setRound HVS.setPeerMaj23 HVS.polRound
  isProposalComplete maj23Of hasAnyOf hashesTo hasHeader

/-- the step that emits a block precommit leaves the node locked on exactly that block, in exactly that
round, and the block was the locked block or the (complete) proposal block when `enterPrecommit` began -/
theorem enterPrecommit_locks_what_it_precommits (c : Cfg) (s : NodeState) (round : Nat) :
    ∀ r b, Output.signVote .precommit r (some b) ∈ (enterPrecommit c s round).out →
      Output.signVote .precommit r (some b) ∈ s.out ∨
      ((enterPrecommit c s round).lockedBlock = some b ∧ (enterPrecommit c s round).lockedRound = (round : Int) ∧
        (s.lockedBlock = some b ∨ s.proposalBlock = some b)) := by
  intro r b
  have key : ∀ (t : NodeState) (x : Bid), t.out = s.out →
      Output.signVote .precommit r (some b) ∈ (signAddVote c t .precommit x).out →
      Output.signVote .precommit r (some b) ∈ s.out ∨ x = some b := by
    intro t x ho hm
    rcases signAddVote_shape c t .precommit x with e | ⟨l, me, _, e⟩ <;> rw [e] at hm
    · left; rw [← ho]; exact hm
    · dsimp only at hm
      rcases List.mem_append.1 hm with a | a
      · left; rw [← ho]; exact a
      · simp at a; right; exact a.2.symm
  unfold enterPrecommit
  split
  · intro h; exact Or.inl h
  · split
    · intro h; exact Or.inl h
    · simp only []
      have pw : ∀ (t : NodeState) (w : String), t.out = s.out →
          Output.signVote .precommit r (some b) ∈ (panicWith t w).out → Output.signVote .precommit r (some b) ∈ s.out := by
        intro t w ho hm
        rcases panicWith_shape t w with e | e <;> rw [e] at hm
        · rw [← ho]; exact hm
        · dsimp only at hm
          rcases List.mem_append.1 hm with a | a
          · rw [← ho]; exact a
          · simp at a
      split
      · intro hm
        rcases key s none rfl hm with h | h
        · exact Or.inl h
        · cases h
      · split
        · intro hm; exact Or.inl (pw s _ rfl hm)
        · split
          · intro hm
            dsimp only at hm
            rcases key _ none (by split <;> simp) hm with h | h
            · exact Or.inl h
            · cases h
          · rename_i b' _
            split
            · rename_i hl
              intro hm
              dsimp only at hm ⊢
              rcases key { s with lockedRound := round } (some b') rfl hm with h | h
              · exact Or.inl h
              · cases h
                right
                rw [signAddVote_lockedBlock, signAddVote_lockedRound]
                exact ⟨hashesTo_some hl, rfl, Or.inl (hashesTo_some hl)⟩
            · split
              · rename_i hp
                split
                · intro hm; exact Or.inl (pw s _ rfl hm)
                · intro hm
                  dsimp only at hm ⊢
                  rcases key { s with lockedRound := round, lockedBlock := s.proposalBlock } (some b') rfl hm with h | h
                  · exact Or.inl h
                  · cases h
                    right
                    rw [signAddVote_lockedBlock, signAddVote_lockedRound]
                    exact ⟨hashesTo_some hp, rfl, Or.inr (hashesTo_some hp)⟩
              · intro hm
                dsimp only at hm
                rcases key _ none (by split <;> simp) hm with h | h
                · exact Or.inl h
                · cases h

end Tmv.Cons
