import Tmv.Lemmas.VoteReach
import Tmv.Lemmas.NetNI
/-! One structural lemma per function of the node model: the vote sets after the function are a
later stage (`HExt`) of the vote sets before it; only `addVote` adds votes. -/
namespace Tmv.Cons

attribute [local irreducible] emit panicWith sign signAddVote decideProposal doPrevote enterPrevote enterPropose
  enterNewRound newRoundReset enterPrevoteWait unlock enterPrecommit enterPrecommitWait finalizeCommit tryFinalizeCommit
  enterCommit setProposal handleCompleteProposal addBlockPart addVote onPolka prevoteTransitions afterPrevote
  afterPrecommit handleInternal handleTimeout
  handleTxsAvailable handleInput drain step run HVS.addVote HVS.setRound HVS.setPeerMaj23 HVS.polRound
  isProposalComplete maj23Of hasAnyOf hashesTo hasHeader

variable {c : Cfg} {A : Int → VType → Vote → Prop} {h0 : HVS}

syntax "xinv_step" : tactic
macro_rules | `(tactic| xinv_step) => `(tactic| assumption)
macro "xinv" : tactic => `(tactic| repeat' (first | xinv_step | (dsimp only; xinv_step)))

theorem emit_X {s : NodeState} (o : Output) (h : HExt c A h0 s.votes) : HExt c A h0 (emit s o).votes := by
  rw [emit_votes]; exact h
macro_rules | `(tactic| xinv_step) => `(tactic| apply emit_X)
theorem panicWith_X {s : NodeState} (w : String) (h : HExt c A h0 s.votes) : HExt c A h0 (panicWith s w).votes := by
  rw [panicWith_votes]; exact h
macro_rules | `(tactic| xinv_step) => `(tactic| apply panicWith_X)
theorem signAddVote_X {s : NodeState} (t : VType) (b : Bid) (h : HExt c A h0 s.votes) : HExt c A h0 (signAddVote c s t b).votes := by
  rw [signAddVote_votes]; exact h
macro_rules | `(tactic| xinv_step) => `(tactic| apply signAddVote_X)
theorem decideProposal_X {s : NodeState} (r me : Nat) (h : HExt c A h0 s.votes) : HExt c A h0 (decideProposal c s r me).votes := by
  rw [decideProposal_votes]; exact h
macro_rules | `(tactic| xinv_step) => `(tactic| apply decideProposal_X)
theorem doPrevote_X {s : NodeState} (h : HExt c A h0 s.votes) : HExt c A h0 (doPrevote c s).votes := by
  rw [doPrevote_votes]; exact h
macro_rules | `(tactic| xinv_step) => `(tactic| apply doPrevote_X)
theorem unlock_X {s : NodeState} (h : HExt c A h0 s.votes) : HExt c A h0 (unlock s).votes := by
  rw [unlock_votes]; exact h
macro_rules | `(tactic| xinv_step) => `(tactic| apply unlock_X)

theorem enterPrevote_X {s : NodeState} (r : Nat) (h : HExt c A h0 s.votes) : HExt c A h0 (enterPrevote c s r).votes := by
  unfold enterPrevote; (try simp only []); repeat' split
  all_goals xinv
macro_rules | `(tactic| xinv_step) => `(tactic| apply enterPrevote_X)

theorem enterPropose_X {s : NodeState} (r : Nat) (h : HExt c A h0 s.votes) : HExt c A h0 (enterPropose c s r).votes := by
  unfold enterPropose; (try simp only []); repeat' split
  all_goals xinv
macro_rules | `(tactic| xinv_step) => `(tactic| apply enterPropose_X)

theorem enterNewRound_X {s : NodeState} (r : Nat) (h : HExt c A h0 s.votes) : HExt c A h0 (enterNewRound c s r).votes := by
  unfold enterNewRound
  split
  · exact h
  · split
    · exact h
    · simp only []
      have hf := newRoundReset_fields s r
      have h' : HExt c A h0 (newRoundReset s r).votes := by rw [hf.2.1]; exact h
      split
      · xinv
      · rename_i hv hsr
        have h2 : HExt c A h0 hv := h'.trans (HExt.setRound c A _ _ _ hsr)
        repeat' split
        all_goals xinv
macro_rules | `(tactic| xinv_step) => `(tactic| apply enterNewRound_X)

theorem enterPrevoteWait_X {s : NodeState} (r : Nat) (h : HExt c A h0 s.votes) : HExt c A h0 (enterPrevoteWait c s r).votes := by
  unfold enterPrevoteWait; (try simp only []); repeat' split
  all_goals xinv
macro_rules | `(tactic| xinv_step) => `(tactic| apply enterPrevoteWait_X)

theorem enterPrecommit_X {s : NodeState} (r : Nat) (h : HExt c A h0 s.votes) : HExt c A h0 (enterPrecommit c s r).votes := by
  unfold enterPrecommit; (try simp only []); repeat' split
  all_goals xinv
macro_rules | `(tactic| xinv_step) => `(tactic| apply enterPrecommit_X)

theorem enterPrecommitWait_X {s : NodeState} (r : Nat) (h : HExt c A h0 s.votes) : HExt c A h0 (enterPrecommitWait c s r).votes := by
  unfold enterPrecommitWait; (try simp only []); repeat' split
  all_goals xinv
macro_rules | `(tactic| xinv_step) => `(tactic| apply enterPrecommitWait_X)

theorem finalizeCommit_X {s : NodeState} (h : HExt c A h0 s.votes) : HExt c A h0 (finalizeCommit c s).votes := by
  unfold finalizeCommit; (try simp only []); repeat' split
  all_goals xinv
macro_rules | `(tactic| xinv_step) => `(tactic| apply finalizeCommit_X)

theorem tryFinalizeCommit_X {s : NodeState} (h : HExt c A h0 s.votes) : HExt c A h0 (tryFinalizeCommit c s).votes := by
  unfold tryFinalizeCommit; (try simp only []); repeat' split
  all_goals xinv
macro_rules | `(tactic| xinv_step) => `(tactic| apply tryFinalizeCommit_X)

theorem enterCommit_X {s : NodeState} (r : Nat) (h : HExt c A h0 s.votes) : HExt c A h0 (enterCommit c s r).votes := by
  unfold enterCommit; (try simp only []); repeat' split
  all_goals xinv
macro_rules | `(tactic| xinv_step) => `(tactic| apply enterCommit_X)

theorem setProposal_X {s : NodeState} (p : Proposal) (h : HExt c A h0 s.votes) : HExt c A h0 (setProposal c s p).votes := by
  unfold setProposal; (try simp only []); repeat' split
  all_goals xinv
macro_rules | `(tactic| xinv_step) => `(tactic| apply setProposal_X)

theorem handleCompleteProposal_X {s : NodeState} (h : HExt c A h0 s.votes) : HExt c A h0 (handleCompleteProposal c s).votes := by
  unfold handleCompleteProposal; (try simp only []); repeat' split
  all_goals xinv
macro_rules | `(tactic| xinv_step) => `(tactic| apply handleCompleteProposal_X)

theorem addBlockPart_X {s : NodeState} (b : Nat) (h : HExt c A h0 s.votes) : HExt c A h0 (addBlockPart c s b).votes := by
  unfold addBlockPart; (try simp only []); repeat' split
  all_goals xinv
macro_rules | `(tactic| xinv_step) => `(tactic| apply addBlockPart_X)

theorem onPolka_X {s : NodeState} (vr : Nat) (bid : Bid) (h : HExt c A h0 s.votes) : HExt c A h0 (onPolka s vr bid).votes := by
  unfold onPolka; (try simp only []); repeat' split
  all_goals xinv
macro_rules | `(tactic| xinv_step) => `(tactic| apply onPolka_X)

theorem prevoteTransitions_X {s : NodeState} (vr : Nat) (h : HExt c A h0 s.votes) : HExt c A h0 (prevoteTransitions c s vr).votes := by
  unfold prevoteTransitions; (try simp only []); repeat' split
  all_goals xinv
macro_rules | `(tactic| xinv_step) => `(tactic| apply prevoteTransitions_X)

theorem afterPrevote_X {s : NodeState} (vr : Nat) (h : HExt c A h0 s.votes) : HExt c A h0 (afterPrevote c s vr).votes := by
  unfold afterPrevote; (try simp only []); repeat' split
  all_goals xinv
macro_rules | `(tactic| xinv_step) => `(tactic| apply afterPrevote_X)

theorem afterPrecommit_X {s : NodeState} (vr : Nat) (h : HExt c A h0 s.votes) : HExt c A h0 (afterPrecommit c s vr).votes := by
  unfold afterPrecommit; (try simp only []); repeat' split
  all_goals xinv
macro_rules | `(tactic| xinv_step) => `(tactic| apply afterPrecommit_X)


theorem addVote_X {s : NodeState} (v : Vote) (peer : Peer) (ha : A (v.round : Int) v.typ v)
    (h : HExt c A h0 s.votes) : HExt c A h0 (addVote c s v peer).votes := by
  have h' : HExt c A h0 (s.votes.addVote c v peer).1 := h.trans (HExt.addVote c A _ v peer ha)
  unfold addVote; simp only []; repeat' split
  all_goals xinv

theorem handleInternal_X {s : NodeState} (m : Internal) (ha : ∀ v, m = .vote v → A (v.round : Int) v.typ v)
    (h : HExt c A h0 s.votes) : HExt c A h0 (handleInternal c s m).votes := by
  unfold handleInternal
  cases m with
  | proposal p => exact setProposal_X p h
  | part b => exact addBlockPart_X b h
  | vote v => exact addVote_X v 0 (ha v rfl) h

theorem handleTimeout_X {s : NodeState} (r : Nat) (st : Step) (h : HExt c A h0 s.votes) :
    HExt c A h0 (handleTimeout c s r st).votes := by
  unfold handleTimeout; (try simp only []); repeat' split
  all_goals xinv

theorem handleTxsAvailable_X {s : NodeState} (h : HExt c A h0 s.votes) : HExt c A h0 (handleTxsAvailable c s).votes := by
  unfold handleTxsAvailable; (try simp only []); repeat' split
  all_goals xinv

theorem handleInput_X {s : NodeState} (i : Input) (ha : ∀ v peer, i = .vote v peer → A (v.round : Int) v.typ v)
    (h : HExt c A h0 s.votes) : HExt c A h0 (handleInput c s i).votes := by
  unfold handleInput
  cases i with
  | timeout r st => exact handleTimeout_X r st h
  | peerMaj23 r t peer bid => exact h.trans (HExt.setPeerMaj23 c A _ _ _ _ _)
  | proposal p => exact setProposal_X p h
  | blockComplete b => exact addBlockPart_X b h
  | vote v peer => exact addVote_X v peer (ha v peer rfl) h
  | txsAvailable => exact handleTxsAvailable_X h

end Tmv.Cons
