import Tmv.Model.Index
set_option linter.unusedSimpArgs false
/-! Lemmas shared by the tx index and the block index: the intersection loop of `Search`
(`applyScan`) and `indexer.LookForRanges`. -/
namespace Tmv.Index
open Tmv.Query

/-! ### the intersection loop -/

/-- one round of `match`/`matchRange`'s tail on the set of candidates -/
def interStep {α : Type} [BEq α] [LawfulBEq α] (st : Option (List α)) (hs : List α) : Option (List α) :=
  if st == some [] then st else applyScan st hs

def interFold {α : Type} [BEq α] [LawfulBEq α] (st : Option (List α)) (hss : List (List α)) :
    Option (List α) := hss.foldl interStep st

theorem interStep_some {α : Type} [BEq α] [LawfulBEq α] (L hs : List α) :
    ∃ L', interStep (some L) hs = some L' ∧ ∀ x, x ∈ L' ↔ x ∈ L ∧ x ∈ hs := by
  unfold interStep
  by_cases hL : L = []
  · subst hL; exact ⟨[], by simp, by simp⟩
  · have h1 : (some L == some ([] : List α)) = false := by
      cases L with
      | nil => exact absurd rfl hL
      | cons a l => simp
    have h2 : L.isEmpty = false := by cases L <;> simp_all
    simp only [h1, if_false, applyScan, h2, Bool.false_eq_true]
    by_cases hh : hs.isEmpty = true
    · have : hs = [] := by cases hs <;> simp_all
      subst this
      exact ⟨[], by simp, by simp⟩
    · simp only [hh, if_false]
      exact ⟨_, rfl, by intro x; simp [List.mem_filter]⟩

theorem interFold_some {α : Type} [BEq α] [LawfulBEq α] (hss : List (List α)) (L : List α) :
    ∃ L', interFold (some L) hss = some L' ∧ ∀ x, x ∈ L' ↔ x ∈ L ∧ ∀ hs ∈ hss, x ∈ hs := by
  induction hss generalizing L with
  | nil => exact ⟨L, rfl, by simp⟩
  | cons hs rest ih =>
    obtain ⟨L1, e1, m1⟩ := interStep_some L hs
    obtain ⟨L', e', m'⟩ := ih L1
    refine ⟨L', by simp only [interFold, List.foldl_cons, e1]; exact e', ?_⟩
    intro x
    rw [m', m1]
    simp only [List.mem_cons, forall_eq_or_imp, and_assoc]

theorem interFold_none {α : Type} [BEq α] [LawfulBEq α] (hss : List (List α)) (hne : hss ≠ []) :
    ∃ L', interFold none hss = some L' ∧ ∀ x, x ∈ L' ↔ ∀ hs ∈ hss, x ∈ hs := by
  cases hss with
  | nil => exact absurd rfl hne
  | cons hs rest =>
    have e1 : interStep (none : Option (List α)) hs = some hs.eraseDups := by
      have : ((none : Option (List α)) == some []) = false := rfl
      simp [interStep, applyScan, this]
    obtain ⟨L', e', m'⟩ := interFold_some rest hs.eraseDups
    refine ⟨L', by simp only [interFold, List.foldl_cons, e1]; exact e', ?_⟩
    intro x
    rw [m']
    simp only [List.mem_eraseDups, List.mem_cons, forall_eq_or_imp]

theorem nodup_eraseDups_aux {α : Type} [BEq α] [LawfulBEq α] (n : Nat) :
    ∀ l : List α, l.length ≤ n → l.eraseDups.Nodup := by
  induction n with
  | zero =>
    intro l hl
    have : l = [] := List.eq_nil_of_length_eq_zero (by omega)
    subst this; simp
  | succ n ih =>
    intro l hl
    cases l with
    | nil => simp
    | cons a as =>
      rw [List.eraseDups_cons]
      have hlen : (as.filter fun b => !b == a).length ≤ n := by
        have := List.length_filter_le (fun b => !b == a) as
        simp only [List.length_cons] at hl
        omega
      refine List.nodup_cons.mpr ⟨?_, ih _ hlen⟩
      intro hmem
      rw [List.mem_eraseDups, List.mem_filter] at hmem
      simp at hmem

theorem nodup_eraseDups {α : Type} [BEq α] [LawfulBEq α] (l : List α) : l.eraseDups.Nodup :=
  nodup_eraseDups_aux l.length l (Nat.le_refl _)

theorem interStep_nodup {α : Type} [BEq α] [LawfulBEq α] (L hs : List α) (hn : L.Nodup) :
    ∀ L', interStep (some L) hs = some L' → L'.Nodup := by
  intro L' h
  unfold interStep at h
  by_cases h1 : (some L == some ([] : List α)) = true
  · rw [if_pos h1] at h; cases h; exact hn
  · rw [if_neg h1] at h
    simp only [applyScan] at h
    split at h
    · cases h; exact hn
    · split at h
      · cases h; simp
      · cases h; exact hn.filter _

theorem interFold_some_nodup {α : Type} [BEq α] [LawfulBEq α] (hss : List (List α)) (L : List α)
    (hn : L.Nodup) : ∀ L', interFold (some L) hss = some L' → L'.Nodup := by
  induction hss generalizing L with
  | nil => intro L' h; simp [interFold] at h; rw [← h]; exact hn
  | cons hs rest ih =>
    intro L' h
    obtain ⟨L1, e1, _⟩ := interStep_some L hs
    simp only [interFold, List.foldl_cons, e1] at h
    exact ih L1 (interStep_nodup L hs hn L1 e1) L' h

theorem interFold_none_nodup {α : Type} [BEq α] [LawfulBEq α] (hss : List (List α)) :
    ∀ L', interFold none hss = some L' → L'.Nodup := by
  intro L' h
  cases hss with
  | nil => simp [interFold] at h
  | cons hs rest =>
    have e1 : interStep (none : Option (List α)) hs = some hs.eraseDups := by
      have : ((none : Option (List α)) == some []) = false := rfl
      simp [interStep, applyScan, this]
    simp only [interFold, List.foldl_cons, e1] at h
    exact interFold_some_nodup rest _ (nodup_eraseDups hs) L' h

theorem interFold_append {α : Type} [BEq α] [LawfulBEq α] (st : Option (List α)) (a b : List (List α)) :
    interFold (interFold st a) b = interFold st (a ++ b) := by
  simp [interFold, List.foldl_append]


/-! ### `LookForRanges` -/

/-- the interval `LookForRanges` ends up with for key `k`: the key's conditions folded in order -/
def rangeOf (cs : List Cond) (k : Str) : QRange :=
  cs.foldl (fun r c => if c.key = k then updRange c r else r) { key := k }

theorem updRange_key (c : Cond) (r : QRange) : (updRange c r).key = r.key := by
  unfold updRange; split <;> rfl

theorem rangeOf_snoc (cs : List Cond) (c : Cond) (k : Str) :
    rangeOf (cs ++ [c]) k = if c.key = k then updRange c (rangeOf cs k) else rangeOf cs k := by
  simp [rangeOf, List.foldl_append]

theorem rangeOf_key (cs : List Cond) (k : Str) : (rangeOf cs k).key = k := by
  have : ∀ (r0 : QRange), (cs.foldl (fun r c => if c.key = k then updRange c r else r) r0).key = r0.key := by
    induction cs with
    | nil => intro r0; rfl
    | cons c rest ih =>
      intro r0
      simp only [List.foldl_cons]
      rw [ih]
      split
      · exact updRange_key c r0
      · rfl
  exact this _

theorem rangeOf_fresh (cs : List Cond) (k : Str) (h : ∀ c ∈ cs, c.key ≠ k) :
    rangeOf cs k = { key := k } := by
  have : ∀ (r0 : QRange), (cs.foldl (fun r c => if c.key = k then updRange c r else r) r0) = r0 := by
    induction cs with
    | nil => intro r0; rfl
    | cons c rest ih =>
      intro r0
      simp only [List.foldl_cons, if_neg (h c List.mem_cons_self)]
      exact ih (fun c' hc' => h c' (List.mem_cons_of_mem _ hc')) r0
  exact this _

/-- what the list built by `LookForRanges` is: one interval per key that has a condition, each
the fold of its key's conditions -/
structure RangesOf (rs : List QRange) (cs : List Cond) : Prop where
  nodup : (rs.map (·.key)).Nodup
  isFold : ∀ r ∈ rs, r = rangeOf cs r.key
  covers : ∀ c ∈ cs, ∃ r ∈ rs, r.key = c.key
  onlyKeys : ∀ r ∈ rs, ∃ c ∈ cs, c.key = r.key

theorem addRange_spec (rs : List QRange) (cs : List Cond) (c : Cond) (h : RangesOf rs cs) :
    RangesOf (addRange rs c) (cs ++ [c]) := by
  unfold addRange
  by_cases hany : rs.any (·.key == c.key) = true
  · rw [if_pos hany]
    have hkeys : (rs.map fun r => if (r.key == c.key) = true then updRange c r else r).map (·.key)
        = rs.map (·.key) := by
      rw [List.map_map]
      apply List.map_congr_left
      intro r _
      simp only [Function.comp]
      split
      · exact updRange_key c r
      · rfl
    refine ⟨by rw [hkeys]; exact h.nodup, ?_, ?_, ?_⟩
    · intro r' hr'
      simp only [List.mem_map] at hr'
      obtain ⟨r, hr, rfl⟩ := hr'
      by_cases hk : r.key = c.key
      · simp only [hk, beq_self_eq_true, if_true, updRange_key]
        rw [rangeOf_snoc, if_pos rfl, ← hk, ← h.isFold r hr]
      · have hk' : ¬ c.key = r.key := fun e => hk e.symm
        simp only [beq_iff_eq, hk, if_false]
        rw [rangeOf_snoc, if_neg hk']
        exact h.isFold r hr
    · intro c' hc'
      have hmem : ∀ r ∈ rs, ∃ r' ∈ (rs.map fun r => if (r.key == c.key) = true then updRange c r else r),
          r'.key = r.key := by
        intro r hr
        refine ⟨_, List.mem_map.mpr ⟨r, hr, rfl⟩, ?_⟩
        split
        · exact updRange_key c r
        · rfl
      rcases List.mem_append.mp hc' with hc' | hc'
      · obtain ⟨r, hr, hk⟩ := h.covers c' hc'
        obtain ⟨r', hr', hk'⟩ := hmem r hr
        exact ⟨r', hr', hk'.trans hk⟩
      · simp only [List.mem_singleton] at hc'
        subst hc'
        simp only [List.any_eq_true] at hany
        obtain ⟨r, hr, hk⟩ := hany
        obtain ⟨r', hr', hk'⟩ := hmem r hr
        exact ⟨r', hr', hk'.trans (by simpa using hk)⟩
    · intro r' hr'
      simp only [List.mem_map] at hr'
      obtain ⟨r, hr, rfl⟩ := hr'
      obtain ⟨c', hc', hk⟩ := h.onlyKeys r hr
      refine ⟨c', by simp [hc'], ?_⟩
      split
      · rw [updRange_key]; exact hk
      · exact hk
  · rw [if_neg hany]
    have hno : ∀ r ∈ rs, r.key ≠ c.key := by
      intro r hr e
      apply hany
      simp only [List.any_eq_true]
      exact ⟨r, hr, by simp [e]⟩
    have hfresh : ∀ c' ∈ cs, c'.key ≠ c.key := by
      intro c' hc' e
      obtain ⟨r, hr, hk⟩ := h.covers c' hc'
      exact hno r hr (hk.trans e)
    refine ⟨?_, ?_, ?_, ?_⟩
    · rw [List.map_append]
      apply List.nodup_append.mpr
      refine ⟨h.nodup, by simp, ?_⟩
      intro a ha b hb
      simp only [List.map_cons, List.map_nil, List.mem_singleton, updRange_key] at hb
      subst hb
      simp only [List.mem_map] at ha
      obtain ⟨r, hr, rfl⟩ := ha
      exact hno r hr
    · intro r hr
      rcases List.mem_append.mp hr with hr | hr
      · have hk : ¬ c.key = r.key := fun e => hno r hr e.symm
        rw [rangeOf_snoc, if_neg hk]
        exact h.isFold r hr
      · simp only [List.mem_singleton] at hr
        subst hr
        rw [updRange_key, rangeOf_snoc, if_pos rfl, rangeOf_fresh cs c.key hfresh]
    · intro c' hc'
      rcases List.mem_append.mp hc' with hc' | hc'
      · obtain ⟨r, hr, hk⟩ := h.covers c' hc'
        exact ⟨r, by simp [hr], hk⟩
      · simp only [List.mem_singleton] at hc'
        subst hc'
        exact ⟨updRange c' { key := c'.key }, by simp, updRange_key _ _⟩
    · intro r hr
      rcases List.mem_append.mp hr with hr | hr
      · obtain ⟨c', hc', hk⟩ := h.onlyKeys r hr
        exact ⟨c', by simp [hc'], hk⟩
      · simp only [List.mem_singleton] at hr
        subst hr
        exact ⟨c, by simp, (updRange_key c { key := c.key }).symm⟩

theorem foldl_addRange_spec (cs pre : List Cond) (rs : List QRange) (h : RangesOf rs pre) :
    RangesOf (cs.foldl addRange rs) (pre ++ cs) := by
  induction cs generalizing pre rs with
  | nil => simpa using h
  | cons c rest ih =>
    have := ih (pre ++ [c]) (addRange rs c) (addRange_spec rs pre c h)
    simpa using this

theorem lookForRanges_spec (q : Query) :
    RangesOf (lookForRanges q) (q.filter fun c => isRangeOp c.op) := by
  have h0 : RangesOf [] [] := ⟨by simp, by simp, by simp, by simp⟩
  have := foldl_addRange_spec (q.filter fun c => isRangeOp c.op) [] [] h0
  simpa [lookForRanges] using this


/-! ### what the folded interval means -/

def isLower : Op → Bool
  | .gt | .ge => true
  | _ => false

def isUpper : Op → Bool
  | .lt | .le => true
  | _ => false

def inLo (r : QRange) (m : Nat) : Bool :=
  match lowerBoundValue r with | some lo => decide (lo ≤ (m : Int)) | none => true

def inHi (r : QRange) (m : Nat) : Bool :=
  match upperBoundValue r with | some hi => decide ((m : Int) ≤ hi) | none => true

/-- a range condition as a test on a number -/
def cSem (c : Cond) (m : Nat) : Bool :=
  match c.operand with
  | .int n => cmpInt c.op m n
  | _ => false

/-- well-formed range condition: numeric operand within int64; `> MaxInt64` excluded (the code's
`t + 1` wraps: known finding `exclusive-bound-overflow`) -/
def RangeCondOK (c : Cond) : Prop :=
  ∃ n, c.operand = .int n ∧ n ≤ maxInt64 ∧ (c.op = .gt → n < maxInt64)

def stepK (k : Str) (r : QRange) (c : Cond) : QRange := if c.key = k then updRange c r else r

theorem rangeOf_eq_foldl (cs : List Cond) (k : Str) : rangeOf cs k = cs.foldl (stepK k) { key := k } := rfl

theorem low_preserved_step (k : Str) (r : QRange) (c : Cond) (h : (decide (c.key = k) && isLower c.op) = false) :
    (stepK k r c).lower = r.lower ∧ (stepK k r c).incLower = r.incLower := by
  unfold stepK
  by_cases hk : c.key = k
  · simp only [hk, decide_true, Bool.true_and] at h
    rw [if_pos hk]
    unfold updRange
    cases hop : c.op <;> simp_all [isLower]
  · rw [if_neg hk]; exact ⟨rfl, rfl⟩

theorem low_preserved (k : Str) (cs : List Cond) (r : QRange)
    (h : ∀ c ∈ cs, (decide (c.key = k) && isLower c.op) = false) :
    (cs.foldl (stepK k) r).lower = r.lower ∧ (cs.foldl (stepK k) r).incLower = r.incLower := by
  induction cs generalizing r with
  | nil => exact ⟨rfl, rfl⟩
  | cons c rest ih =>
    simp only [List.foldl_cons]
    have h1 := low_preserved_step k r c (h c List.mem_cons_self)
    have h2 := ih (stepK k r c) (fun c' hc' => h c' (List.mem_cons_of_mem _ hc'))
    exact ⟨h2.1.trans h1.1, h2.2.trans h1.2⟩

theorem up_preserved_step (k : Str) (r : QRange) (c : Cond) (h : (decide (c.key = k) && isUpper c.op) = false) :
    (stepK k r c).upper = r.upper ∧ (stepK k r c).incUpper = r.incUpper := by
  unfold stepK
  by_cases hk : c.key = k
  · simp only [hk, decide_true, Bool.true_and] at h
    rw [if_pos hk]
    unfold updRange
    cases hop : c.op <;> simp_all [isUpper]
  · rw [if_neg hk]; exact ⟨rfl, rfl⟩

theorem up_preserved (k : Str) (cs : List Cond) (r : QRange)
    (h : ∀ c ∈ cs, (decide (c.key = k) && isUpper c.op) = false) :
    (cs.foldl (stepK k) r).upper = r.upper ∧ (cs.foldl (stepK k) r).incUpper = r.incUpper := by
  induction cs generalizing r with
  | nil => exact ⟨rfl, rfl⟩
  | cons c rest ih =>
    simp only [List.foldl_cons]
    have h1 := up_preserved_step k r c (h c List.mem_cons_self)
    have h2 := ih (stepK k r c) (fun c' hc' => h c' (List.mem_cons_of_mem _ hc'))
    exact ⟨h2.1.trans h1.1, h2.2.trans h1.2⟩

theorem inLo_congr (r r' : QRange) (h1 : r.lower = r'.lower) (h2 : r.incLower = r'.incLower) (m : Nat) :
    inLo r m = inLo r' m := by
  simp [inLo, lowerBoundValue, h1, h2]

theorem inHi_congr (r r' : QRange) (h1 : r.upper = r'.upper) (h2 : r.incUpper = r'.incUpper) (m : Nat) :
    inHi r m = inHi r' m := by
  simp [inHi, upperBoundValue, h1, h2]

/-- the first lower bound put on a fresh interval means what the condition says -/
theorem inLo_first (k : Str) (r : QRange) (c : Cond) (hr1 : r.lower = none) (hr2 : r.incLower = false)
    (hk : c.key = k) (hl : isLower c.op = true) (hc : RangeCondOK c) (m : Nat) :
    inLo (stepK k r c) m = cSem c m := by
  obtain ⟨n, hn, hle, hgt⟩ := hc
  unfold stepK
  rw [if_pos hk]
  cases hop : c.op <;> simp [isLower, hop] at hl
  · -- ge
    simp [inLo, updRange, hop, lowerBoundValue, hn, operandNat, cSem, cmpInt]
  · -- gt
    have hne : ¬ n = maxInt64 := by have := hgt hop; omega
    simp [inLo, updRange, hop, lowerBoundValue, hn, operandNat, cSem, cmpInt, hr2, hne]
    omega

theorem inHi_first (k : Str) (r : QRange) (c : Cond) (hr1 : r.upper = none) (hr2 : r.incUpper = false)
    (hk : c.key = k) (hl : isUpper c.op = true) (hc : RangeCondOK c) (m : Nat) :
    inHi (stepK k r c) m = cSem c m := by
  obtain ⟨n, hn, hle, _⟩ := hc
  unfold stepK
  rw [if_pos hk]
  cases hop : c.op <;> simp [isUpper, hop] at hl
  · -- le
    simp [inHi, updRange, hop, upperBoundValue, hn, operandNat, cSem, cmpInt]
  · -- lt
    simp [inHi, updRange, hop, upperBoundValue, hn, operandNat, cSem, cmpInt, hr2]
    omega

theorem inLo_fold (k : Str) (cs : List Cond) (r : QRange) (hr1 : r.lower = none) (hr2 : r.incLower = false)
    (hok : ∀ c ∈ cs, RangeCondOK c)
    (hone : (cs.filter fun c => decide (c.key = k) && isLower c.op).length ≤ 1) (m : Nat) :
    inLo (cs.foldl (stepK k) r) m = (cs.filter fun c => decide (c.key = k) && isLower c.op).all (cSem · m) := by
  induction cs generalizing r with
  | nil => simp [inLo, lowerBoundValue, hr1]
  | cons c rest ih =>
    simp only [List.foldl_cons]
    by_cases hc : (decide (c.key = k) && isLower c.op) = true
    · simp only [List.filter_cons, hc, if_true, List.length_cons] at hone ⊢
      have hrest : rest.filter (fun c => decide (c.key = k) && isLower c.op) = [] := by
        apply List.eq_nil_of_length_eq_zero; omega
      have hnone : ∀ c' ∈ rest, (decide (c'.key = k) && isLower c'.op) = false := by
        intro c' hc'
        cases h : (decide (c'.key = k) && isLower c'.op) with
        | false => rfl
        | true =>
          have : c' ∈ rest.filter (fun c => decide (c.key = k) && isLower c.op) := List.mem_filter.mpr ⟨hc', h⟩
          rw [hrest] at this; cases this
      have hp := low_preserved k rest (stepK k r c) hnone
      rw [inLo_congr _ _ hp.1 hp.2, hrest]
      simp only [Bool.and_eq_true, decide_eq_true_eq] at hc
      rw [inLo_first k r c hr1 hr2 hc.1 hc.2 (hok c List.mem_cons_self)]
      simp
    · have hc' : (decide (c.key = k) && isLower c.op) = false := by simpa using hc
      simp only [List.filter_cons, hc', Bool.false_eq_true, if_false] at hone ⊢
      have hp := low_preserved_step k r c hc'
      exact ih (stepK k r c) (hp.1.trans hr1) (hp.2.trans hr2)
        (fun c' h' => hok c' (List.mem_cons_of_mem _ h')) hone

theorem inHi_fold (k : Str) (cs : List Cond) (r : QRange) (hr1 : r.upper = none) (hr2 : r.incUpper = false)
    (hok : ∀ c ∈ cs, RangeCondOK c)
    (hone : (cs.filter fun c => decide (c.key = k) && isUpper c.op).length ≤ 1) (m : Nat) :
    inHi (cs.foldl (stepK k) r) m = (cs.filter fun c => decide (c.key = k) && isUpper c.op).all (cSem · m) := by
  induction cs generalizing r with
  | nil => simp [inHi, upperBoundValue, hr1]
  | cons c rest ih =>
    simp only [List.foldl_cons]
    by_cases hc : (decide (c.key = k) && isUpper c.op) = true
    · simp only [List.filter_cons, hc, if_true, List.length_cons] at hone ⊢
      have hrest : rest.filter (fun c => decide (c.key = k) && isUpper c.op) = [] := by
        apply List.eq_nil_of_length_eq_zero; omega
      have hnone : ∀ c' ∈ rest, (decide (c'.key = k) && isUpper c'.op) = false := by
        intro c' hc'
        cases h : (decide (c'.key = k) && isUpper c'.op) with
        | false => rfl
        | true =>
          have : c' ∈ rest.filter (fun c => decide (c.key = k) && isUpper c.op) := List.mem_filter.mpr ⟨hc', h⟩
          rw [hrest] at this; cases this
      have hp := up_preserved k rest (stepK k r c) hnone
      rw [inHi_congr _ _ hp.1 hp.2, hrest]
      simp only [Bool.and_eq_true, decide_eq_true_eq] at hc
      rw [inHi_first k r c hr1 hr2 hc.1 hc.2 (hok c List.mem_cons_self)]
      simp
    · have hc' : (decide (c.key = k) && isUpper c.op) = false := by simpa using hc
      simp only [List.filter_cons, hc', Bool.false_eq_true, if_false] at hone ⊢
      have hp := up_preserved_step k r c hc'
      exact ih (stepK k r c) (hp.1.trans hr1) (hp.2.trans hr2)
        (fun c' h' => hok c' (List.mem_cons_of_mem _ h')) hone


theorem range_lower_or_upper (op : Op) (h : isRangeOp op = true) : (isLower op || isUpper op) = true := by
  cases op <;> simp_all [isRangeOp, isLower, isUpper]

theorem all_and_congr {α : Type} (l : List α) (f g h : α → Bool)
    (hp : ∀ x ∈ l, (f x && g x) = h x) : (l.all f && l.all g) = l.all h := by
  induction l with
  | nil => rfl
  | cons x xs ih =>
    simp only [List.all_cons]
    rw [← hp x List.mem_cons_self, ← ih (fun y hy => hp y (List.mem_cons_of_mem _ hy))]
    cases f x <;> cases g x <;> cases xs.all f <;> cases xs.all g <;> rfl

/-- with at most one lower and one upper bound on `k`, the folded interval accepts exactly the
numbers every range condition on `k` accepts -/
theorem rangeOf_sem (cs : List Cond) (k : Str)
    (hrange : ∀ c ∈ cs, isRangeOp c.op = true) (hok : ∀ c ∈ cs, RangeCondOK c)
    (hlo : (cs.filter fun c => decide (c.key = k) && isLower c.op).length ≤ 1)
    (hhi : (cs.filter fun c => decide (c.key = k) && isUpper c.op).length ≤ 1) (m : Nat) :
    (inLo (rangeOf cs k) m && inHi (rangeOf cs k) m) =
      (cs.filter fun c => decide (c.key = k)).all (cSem · m) := by
  rw [rangeOf_eq_foldl, inLo_fold k cs _ rfl rfl hok hlo m, inHi_fold k cs _ rfl rfl hok hhi m]
  simp only [List.all_filter]
  apply all_and_congr
  intro c hc
  have := range_lower_or_upper c.op (hrange c hc)
  cases h1 : decide (c.key = k) <;> cases h2 : isLower c.op <;> cases h3 : isUpper c.op <;>
    cases h4 : cSem c m <;> simp_all

/-- exchanging "one value passes all tests" and "every test is passed by some value" -/
theorem exists_forall_swap {α β : Type} (ms : List α) (cs : List β) (P : β → α → Prop)
    (hne : cs ≠ []) (h : ms.length ≤ 1 ∨ cs.length ≤ 1) :
    (∃ m ∈ ms, ∀ c ∈ cs, P c m) ↔ (∀ c ∈ cs, ∃ m ∈ ms, P c m) := by
  constructor
  · rintro ⟨m, hm, hall⟩ c hc
    exact ⟨m, hm, hall c hc⟩
  · intro hall
    rcases h with h | h
    · obtain ⟨c0, hc0⟩ := List.exists_mem_of_ne_nil cs hne
      obtain ⟨m, hm, _⟩ := hall c0 hc0
      refine ⟨m, hm, ?_⟩
      intro c hc
      obtain ⟨m', hm', hp⟩ := hall c hc
      have : m' = m := by
        match ms, h, hm, hm' with
        | [a], _, hm, hm' =>
          simp only [List.mem_singleton] at hm hm'
          rw [hm, hm']
      rw [← this]; exact hp
    · match cs, hne, h with
      | [c0], _, _ =>
        obtain ⟨m, hm, hp⟩ := hall c0 (by simp)
        refine ⟨m, hm, ?_⟩
        intro c hc
        simp only [List.mem_singleton] at hc
        rw [hc]; exact hp

end Tmv.Index
