import Tmv.Model.Index
set_option linter.unusedSimpArgs false
/-! Lemmas shared by the tx index and the block index: the intersection loop of `Search`
(`applyScan`) and `indexer.LookForRanges`. -/
namespace Tmv.Index
open Tmv.Query

/-! ### the intersection loop -/

/-- one round of `match`/`matchRange`'s tail on the set of candidates -/
def interStep {α : Type} [DecidableEq α] (st : Option (List α)) (hs : List α) : Option (List α) :=
  if st = some [] then st else applyScan st hs

def interFold {α : Type} [DecidableEq α] (st : Option (List α)) (hss : List (List α)) :
    Option (List α) := hss.foldl interStep st

theorem interStep_some {α : Type} [DecidableEq α] (L hs : List α) :
    ∃ L', interStep (some L) hs = some L' ∧ ∀ x, x ∈ L' ↔ x ∈ L ∧ x ∈ hs := by
  unfold interStep
  by_cases hL : L = []
  · subst hL; exact ⟨[], by simp, by simp⟩
  · have h1 : ¬ (some L = some ([] : List α)) := by simpa using hL
    have h2 : L.isEmpty = false := by cases L <;> simp_all
    simp only [h1, if_false, applyScan, h2, Bool.false_eq_true]
    by_cases hh : hs.isEmpty = true
    · have : hs = [] := by cases hs <;> simp_all
      subst this
      exact ⟨[], by simp, by simp⟩
    · simp only [hh, if_false]
      exact ⟨_, rfl, by intro x; simp [List.mem_filter]⟩

theorem interFold_some {α : Type} [DecidableEq α] (hss : List (List α)) (L : List α) :
    ∃ L', interFold (some L) hss = some L' ∧ ∀ x, x ∈ L' ↔ x ∈ L ∧ ∀ hs ∈ hss, x ∈ hs := by
  induction hss generalizing L with
  | nil => exact ⟨L, rfl, by simp⟩
  | cons hs rest ih =>
    obtain ⟨L1, e1, m1⟩ := interStep_some L hs
    obtain ⟨L', e', m'⟩ := ih L1
    refine ⟨L', by simp only [interFold, List.foldl_cons, e1]; exact e', ?_⟩
    intro x
    rw [m', m1]
    simp only [List.mem_cons, forall_eq_or_imp, and_assoc]

theorem interFold_none {α : Type} [DecidableEq α] (hss : List (List α)) (hne : hss ≠ []) :
    ∃ L', interFold none hss = some L' ∧ ∀ x, x ∈ L' ↔ ∀ hs ∈ hss, x ∈ hs := by
  cases hss with
  | nil => exact absurd rfl hne
  | cons hs rest =>
    have e1 : interStep (none : Option (List α)) hs = some hs.eraseDups := by
      simp [interStep, applyScan]
    obtain ⟨L', e', m'⟩ := interFold_some rest hs.eraseDups
    refine ⟨L', by simp only [interFold, List.foldl_cons, e1]; exact e', ?_⟩
    intro x
    rw [m']
    simp only [List.mem_eraseDups, List.mem_cons, forall_eq_or_imp]

theorem interFold_append {α : Type} [DecidableEq α] (st : Option (List α)) (a b : List (List α)) :
    interFold (interFold st a) b = interFold st (a ++ b) := by
  simp [interFold, List.foldl_append]

end Tmv.Index
