import Tmv.Lemmas.NetVoteSet
import Tmv.Lemmas.ConsGuard
/-! (W): the vote sets of a node keep the quorum invariant `QH` and the membership invariant `MSh`
(relative to a fixed predicate `E` = "this validator's vote of this type/round/value exists in the
network"), and a decision is backed: the decided block is valid and the precommits for it in the
commit round that exist according to `E` carry more than two thirds of the power. -/
namespace Tmv.Cons

structure WI (c : Cfg) (E : VType → Int → Bid → Nat → Bool) (votes : HVS) (decided : Option (Nat × Int)) : Prop where
  q : QH c votes
  m : MSh c E votes
  d : ∀ b r, decided = some (b, r) → c.valid b = true ∧
        2 * c.total < 3 * VoteLog.wtUpTo c.power (E .precommit r (some b)) c.n

abbrev W (c : Cfg) (E : VType → Int → Bid → Nat → Bool) (s : NodeState) : Prop := WI c E s.votes s.decided

theorem wtUpTo_mono (power : Nat → Nat) (p q : Nat → Bool) (n : Nat) (h : ∀ v, p v = true → q v = true) :
    VoteLog.wtUpTo power p n ≤ VoteLog.wtUpTo power q n := by
  induction n with
  | zero => exact Nat.le_refl _
  | succ n ih =>
    unfold VoteLog.wtUpTo
    cases hp : p n with
    | false => simp only [Bool.false_eq_true, if_false]; omega
    | true => rw [h n hp]; simp only [if_true]; omega

theorem WI.mono {c : Cfg} {E E' : VType → Int → Bid → Nat → Bool} {votes : HVS} {decided : Option (Nat × Int)}
    (hE : ∀ t r k v, E t r k v = true → E' t r k v = true)
    (h : WI c E votes decided) : WI c E' votes decided := by
  refine ⟨h.q, h.m.mono hE, ?_⟩
  intro b r hd
  have := h.d b r hd
  have hm := wtUpTo_mono c.power (E .precommit r (some b)) (E' .precommit r (some b)) c.n (hE _ _ _)
  exact ⟨this.1, by omega⟩

theorem W.init (c : Cfg) (E : VType → Int → Bid → Nat → Bool) : W c E NodeState.init :=
  ⟨QH.init c, MSh.init c E, fun b r hd => by cases hd⟩

@[simp] theorem emit_decided (s : NodeState) (o : Output) : (emit s o).decided = s.decided :=
  congrArg (fun x => x.2.2.2.2.2.2.2.2.2.2.2.2.2.2) (emit_core s o)
@[simp] theorem emit_commitRound (s : NodeState) (o : Output) : (emit s o).commitRound = s.commitRound :=
  congrArg (fun x => x.2.2.2.2.2.2.2.2.2.2.1) (emit_core s o)
@[simp] theorem panicWith_decided (s : NodeState) (w : String) : (panicWith s w).decided = s.decided :=
  congrArg (fun x => x.2.2.2.2.2.2.2.2.2.2.2.2.2.2) (panicWith_core s w)
@[simp] theorem signAddVote_decided (c : Cfg) (s : NodeState) (t : VType) (b : Bid) :
    (signAddVote c s t b).decided = s.decided :=
  congrArg (fun x => x.2.2.2.2.2.2.2.2.2.2.2.2.2.2) (signAddVote_core c s t b)
@[simp] theorem decideProposal_decided (c : Cfg) (s : NodeState) (r me : Nat) :
    (decideProposal c s r me).decided = s.decided :=
  congrArg (fun x => x.2.2.2.2.2.2.2.2.2.2.2.2.2.2) (decideProposal_core c s r me)
@[simp] theorem doPrevote_decided (c : Cfg) (s : NodeState) : (doPrevote c s).decided = s.decided :=
  congrArg (fun x => x.2.2.2.2.2.2.2.2.2.2.2.2.2.2) (doPrevote_core c s)
@[simp] theorem unlock_decided (s : NodeState) : (unlock s).decided = s.decided := rfl

theorem maj23Of_some {o : Option VoteSet} {k : Bid} (h : maj23Of o = some k) :
    ∃ vs, o = some vs ∧ vs.maj23 = some k := by
  unfold maj23Of at h
  cases o with
  | none => simp at h
  | some vs => exact ⟨vs, rfl, by simpa using h⟩

/-- a recorded precommit majority for a block is backed by `E`-precommits of more than 2/3 -/
theorem WI.backed {c : Cfg} {E : VType → Int → Bid → Nat → Bool} {votes : HVS} {decided : Option (Nat × Int)}
    (h : WI c E votes decided) {r : Int} {b : Nat}
    (hm : maj23Of (votes.precommits r) = some (some b)) :
    2 * c.total < 3 * VoteLog.wtUpTo c.power (E .precommit r (some b)) c.n := by
  obtain ⟨vs, hg, hmaj⟩ := maj23Of_some hm
  have hg' : votes.getVoteSet r .precommit = some vs := hg
  have hq : c.quorum ≤ vs.blockSum (some b) := h.q.getVoteSet hg' _ hmaj
  rw [quorum_iff] at hq
  have hle := h.m.blockSum_le hg' (some b)
  omega

/-! ### every function of the node model keeps `W` -/

attribute [local irreducible] emit panicWith sign signAddVote decideProposal doPrevote enterPrevote enterPropose
  enterNewRound newRoundReset enterPrevoteWait unlock enterPrecommit enterPrecommitWait finalizeCommit tryFinalizeCommit
  enterCommit setProposal handleCompleteProposal addBlockPart addVote onPolka prevoteTransitions afterPrevote
  afterPrecommit handleInternal handleTimeout
  handleTxsAvailable handleInput drain step run HVS.addVote HVS.setRound HVS.setPeerMaj23 HVS.polRound
  isProposalComplete maj23Of hasAnyOf hashesTo hasHeader

variable {c : Cfg} {E : VType → Int → Bid → Nat → Bool}

syntax "winv_step" : tactic
macro_rules | `(tactic| winv_step) => `(tactic| assumption)
macro "winv" : tactic => `(tactic| repeat' (first | winv_step | (dsimp only; winv_step)))

theorem emit_W {s : NodeState} (o : Output) (h : W c E s) : W c E (emit s o) := by
  show WI c E (emit s o).votes (emit s o).decided
  rw [emit_votes, emit_decided]; exact h
macro_rules | `(tactic| winv_step) => `(tactic| apply emit_W)
theorem panicWith_W {s : NodeState} (w : String) (h : W c E s) : W c E (panicWith s w) := by
  show WI c E (panicWith s w).votes (panicWith s w).decided
  rw [panicWith_votes, panicWith_decided]; exact h
macro_rules | `(tactic| winv_step) => `(tactic| apply panicWith_W)
theorem signAddVote_W {s : NodeState} (t : VType) (b : Bid) (h : W c E s) : W c E (signAddVote c s t b) := by
  show WI c E (signAddVote c s t b).votes (signAddVote c s t b).decided
  rw [signAddVote_votes, signAddVote_decided]; exact h
macro_rules | `(tactic| winv_step) => `(tactic| apply signAddVote_W)
theorem decideProposal_W {s : NodeState} (r me : Nat) (h : W c E s) : W c E (decideProposal c s r me) := by
  show WI c E (decideProposal c s r me).votes (decideProposal c s r me).decided
  rw [decideProposal_votes, decideProposal_decided]; exact h
macro_rules | `(tactic| winv_step) => `(tactic| apply decideProposal_W)
theorem doPrevote_W {s : NodeState} (h : W c E s) : W c E (doPrevote c s) := by
  show WI c E (doPrevote c s).votes (doPrevote c s).decided
  rw [doPrevote_votes, doPrevote_decided]; exact h
macro_rules | `(tactic| winv_step) => `(tactic| apply doPrevote_W)
theorem unlock_W {s : NodeState} (h : W c E s) : W c E (unlock s) := by
  show WI c E (unlock s).votes (unlock s).decided
  rw [unlock_votes, unlock_decided]; exact h
macro_rules | `(tactic| winv_step) => `(tactic| apply unlock_W)

theorem enterPrevote_W {s : NodeState} (r : Nat) (h : W c E s) : W c E (enterPrevote c s r) := by
  unfold enterPrevote; (try simp only []); repeat' split
  all_goals winv
macro_rules | `(tactic| winv_step) => `(tactic| apply enterPrevote_W)

theorem enterPropose_W {s : NodeState} (r : Nat) (h : W c E s) : W c E (enterPropose c s r) := by
  unfold enterPropose; (try simp only []); repeat' split
  all_goals winv
macro_rules | `(tactic| winv_step) => `(tactic| apply enterPropose_W)

theorem enterNewRound_W {s : NodeState} (r : Nat) (h : W c E s) : W c E (enterNewRound c s r) := by
  unfold enterNewRound
  split
  · exact h
  · split
    · exact h
    · simp only []
      have hf := newRoundReset_fields s r
      have hd : (newRoundReset s r).decided = s.decided := by
        unfold newRoundReset; simp only []; split <;> rfl
      have h' : W c E (newRoundReset s r) := by
        show WI c E (newRoundReset s r).votes (newRoundReset s r).decided
        rw [hf.2.1, hd]; exact h
      split
      · winv
      · rename_i hv hsr
        have h2 : W c E { newRoundReset s r with votes := hv, triggered := false } :=
          ⟨HVS.setRound_Q c _ _ _ hsr h'.q, HVS.setRound_MS c E _ _ _ hsr h'.m, h'.d⟩
        repeat' split
        all_goals winv
macro_rules | `(tactic| winv_step) => `(tactic| apply enterNewRound_W)

theorem enterPrevoteWait_W {s : NodeState} (r : Nat) (h : W c E s) : W c E (enterPrevoteWait c s r) := by
  unfold enterPrevoteWait; (try simp only []); repeat' split
  all_goals winv
macro_rules | `(tactic| winv_step) => `(tactic| apply enterPrevoteWait_W)

theorem enterPrecommit_W {s : NodeState} (r : Nat) (h : W c E s) : W c E (enterPrecommit c s r) := by
  unfold enterPrecommit; (try simp only []); repeat' split
  all_goals winv
macro_rules | `(tactic| winv_step) => `(tactic| apply enterPrecommit_W)

theorem enterPrecommitWait_W {s : NodeState} (r : Nat) (h : W c E s) : W c E (enterPrecommitWait c s r) := by
  unfold enterPrecommitWait; (try simp only []); repeat' split
  all_goals winv
macro_rules | `(tactic| winv_step) => `(tactic| apply enterPrecommitWait_W)

theorem finalizeCommit_W {s : NodeState} (h : W c E s) : W c E (finalizeCommit c s) := by
  unfold finalizeCommit; (try simp only []); repeat' split
  all_goals first
    | (winv; done)
    | skip
  rename_i b hm _ _ hv
  show WI c E (emit s _).votes (some (b, (emit s _).commitRound))
  rw [emit_votes, emit_commitRound]
  refine ⟨h.q, h.m, ?_⟩
  intro b' r' e
  cases e
  exact ⟨by simpa using hv, h.backed hm⟩
macro_rules | `(tactic| winv_step) => `(tactic| apply finalizeCommit_W)

theorem tryFinalizeCommit_W {s : NodeState} (h : W c E s) : W c E (tryFinalizeCommit c s) := by
  unfold tryFinalizeCommit; (try simp only []); repeat' split
  all_goals winv
macro_rules | `(tactic| winv_step) => `(tactic| apply tryFinalizeCommit_W)

theorem enterCommit_W {s : NodeState} (r : Nat) (h : W c E s) : W c E (enterCommit c s r) := by
  unfold enterCommit; (try simp only []); repeat' split
  all_goals winv
macro_rules | `(tactic| winv_step) => `(tactic| apply enterCommit_W)

theorem setProposal_W {s : NodeState} (p : Proposal) (h : W c E s) : W c E (setProposal c s p) := by
  unfold setProposal; (try simp only []); repeat' split
  all_goals winv
macro_rules | `(tactic| winv_step) => `(tactic| apply setProposal_W)

theorem handleCompleteProposal_W {s : NodeState} (h : W c E s) : W c E (handleCompleteProposal c s) := by
  unfold handleCompleteProposal; (try simp only []); repeat' split
  all_goals winv
macro_rules | `(tactic| winv_step) => `(tactic| apply handleCompleteProposal_W)

theorem addBlockPart_W {s : NodeState} (b : Nat) (h : W c E s) : W c E (addBlockPart c s b) := by
  unfold addBlockPart; (try simp only []); repeat' split
  all_goals winv
macro_rules | `(tactic| winv_step) => `(tactic| apply addBlockPart_W)

theorem onPolka_W {s : NodeState} (vr : Nat) (bid : Bid) (h : W c E s) : W c E (onPolka s vr bid) := by
  unfold onPolka; (try simp only []); repeat' split
  all_goals winv
macro_rules | `(tactic| winv_step) => `(tactic| apply onPolka_W)

theorem prevoteTransitions_W {s : NodeState} (vr : Nat) (h : W c E s) : W c E (prevoteTransitions c s vr) := by
  unfold prevoteTransitions; (try simp only []); repeat' split
  all_goals winv
macro_rules | `(tactic| winv_step) => `(tactic| apply prevoteTransitions_W)

theorem afterPrevote_W {s : NodeState} (vr : Nat) (h : W c E s) : W c E (afterPrevote c s vr) := by
  unfold afterPrevote; (try simp only []); repeat' split
  all_goals winv
macro_rules | `(tactic| winv_step) => `(tactic| apply afterPrevote_W)

theorem afterPrecommit_W {s : NodeState} (vr : Nat) (h : W c E s) : W c E (afterPrecommit c s vr) := by
  unfold afterPrecommit; (try simp only []); repeat' split
  all_goals winv
macro_rules | `(tactic| winv_step) => `(tactic| apply afterPrecommit_W)

theorem addVote_W {s : NodeState} (v : Vote) (peer : Peer)
    (hv : v.val < c.n → v.sigOK = true → E v.typ (v.round : Int) v.bid v.val = true)
    (h : W c E s) : W c E (addVote c s v peer) := by
  have h' : W c E { s with votes := (s.votes.addVote c v peer).1 } :=
    ⟨HVS.addVote_Q c _ v peer h.q, HVS.addVote_MS c E _ v peer h.m hv, h.d⟩
  unfold addVote; simp only []; repeat' split
  all_goals winv

theorem handleInternal_W {s : NodeState} (m : Internal)
    (hv : ∀ v, m = .vote v → v.val < c.n → v.sigOK = true → E v.typ (v.round : Int) v.bid v.val = true)
    (h : W c E s) : W c E (handleInternal c s m) := by
  unfold handleInternal
  cases m with
  | proposal p => exact setProposal_W p h
  | part b => exact addBlockPart_W b h
  | vote v => exact addVote_W v 0 (hv v rfl) h

theorem handleTimeout_W {s : NodeState} (r : Nat) (st : Step) (h : W c E s) : W c E (handleTimeout c s r st) := by
  unfold handleTimeout; (try simp only []); repeat' split
  all_goals winv
macro_rules | `(tactic| winv_step) => `(tactic| apply handleTimeout_W)

theorem handleTxsAvailable_W {s : NodeState} (h : W c E s) : W c E (handleTxsAvailable c s) := by
  unfold handleTxsAvailable; (try simp only []); repeat' split
  all_goals winv
macro_rules | `(tactic| winv_step) => `(tactic| apply handleTxsAvailable_W)

theorem handleInput_W {s : NodeState} (i : Input)
    (hv : ∀ v peer, i = .vote v peer → v.val < c.n → v.sigOK = true → E v.typ (v.round : Int) v.bid v.val = true)
    (h : W c E s) : W c E (handleInput c s i) := by
  unfold handleInput
  cases i with
  | timeout r st => exact handleTimeout_W r st h
  | peerMaj23 r t peer bid =>
    exact ⟨HVS.setPeerMaj23_Q c _ _ _ _ _ h.q, HVS.setPeerMaj23_MS c E _ _ _ _ _ h.m, h.d⟩
  | proposal p => exact setProposal_W p h
  | blockComplete b => exact addBlockPart_W b h
  | vote v peer => exact addVote_W v peer (hv v peer rfl) h
  | txsAvailable => exact handleTxsAvailable_W h

end Tmv.Cons
