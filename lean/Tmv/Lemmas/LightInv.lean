import Tmv.Lemmas.LightReach
namespace Tmv.Light

theorem verifyLightBlock_inv {cfg : Config} {root : Hash → Prop} {c : Client} {new : LightBlock} {now : Int}
    {c' : Client} {r : Except Err Unit} (h : Inv cfg root c)
    (e : verifyLightBlock c new now = (c', r)) : Inv cfg root c' := by
  unfold verifyLightBlock at e
  split at e
  · obtain ⟨rfl, _⟩ := Prod.mk.inj e; exact h
  · rename_i latest hl
    have hrl : Reach cfg root latest := h.2.2 latest hl
    simp only at e
    generalize hp : (if new.height ≥ latest.height then
        if c.cfg.sequential = true then verifySequential c latest new now
        else verifySkippingAgainstPrimary now latest c.cfg.fuel c new
      else if new.height < c.store.firstHeight then
        match c.store.get c.store.firstHeight with
        | none => (c, Except.error (Err.msg "first"))
        | some fb => backwards c.cfg.fuel c fb new
      else
        match c.store.before new.height with
        | none => (c, Except.error (Err.msg "before"))
        | some cb =>
          if c.cfg.sequential = true then verifySequential c cb new now
          else verifySkippingAgainstPrimary now cb c.cfg.fuel c new) = p at e
    obtain ⟨c1, r1⟩ := p
    have key : SameTrust c c1 ∧ (r1 = .ok () → Reach cfg root new) := by
      split at hp
      · split at hp
        · exact verifySequential_spec cfg root h.1 hrl hp
        · exact vsap_spec cfg root now latest _ _ _ _ _ h.1 hrl hp
      · split at hp
        · split at hp
          · obtain ⟨rfl, rfl⟩ := Prod.mk.inj hp
            exact ⟨⟨rfl, rfl, rfl⟩, fun h => by cases h⟩
          · rename_i fb hfb
            exact backwards_spec cfg root _ _ _ _ _ _ (h.2.1 fb (store_get_mem hfb)) hp
        · split at hp
          · obtain ⟨rfl, rfl⟩ := Prod.mk.inj hp
            exact ⟨⟨rfl, rfl, rfl⟩, fun h => by cases h⟩
          · rename_i cb hcb
            have hrc := h.2.1 cb (store_before_mem hcb)
            split at hp
            · exact verifySequential_spec cfg root h.1 hrc hp
            · exact vsap_spec cfg root now cb _ _ _ _ _ h.1 hrc hp
    have hi1 : Inv cfg root c1 := h.of_same key.1
    simp only at e
    split at e
    · obtain ⟨rfl, _⟩ := Prod.mk.inj e; exact hi1
    · obtain ⟨rfl, _⟩ := Prod.mk.inj e
      exact updateTrusted_inv hi1 (key.2 rfl)


theorem verifyLightBlockAtHeight_inv {cfg : Config} {root : Hash → Prop} {c : Client} {height now : Int}
    {c' : Client} {r : Except Err LightBlock} (h : Inv cfg root c)
    (e : verifyLightBlockAtHeight c height now = (c', r)) : Inv cfg root c' := by
  unfold verifyLightBlockAtHeight at e
  split at e
  · obtain ⟨rfl, _⟩ := Prod.mk.inj e; exact h
  · simp only at e
    split at e
    · obtain ⟨rfl, _⟩ := Prod.mk.inj e; exact h
    · split at e
      · rename_i c1 _ hl
        obtain ⟨rfl, _⟩ := Prod.mk.inj e
        exact h.of_same (lightBlockFromPrimary_same hl)
      · rename_i c1 l hl
        have h1 := h.of_same (lightBlockFromPrimary_same hl)
        split at e
        · rename_i c2 _ hv
          obtain ⟨rfl, _⟩ := Prod.mk.inj e
          exact verifyLightBlock_inv h1 hv
        · rename_i c2 _ hv
          obtain ⟨rfl, _⟩ := Prod.mk.inj e
          exact verifyLightBlock_inv h1 hv

theorem update_inv {cfg : Config} {root : Hash → Prop} {c : Client} {now : Int}
    {c' : Client} {r : Except Err (Option LightBlock)} (h : Inv cfg root c)
    (e : update c now = (c', r)) : Inv cfg root c' := by
  unfold update at e
  simp only at e
  split at e
  · obtain ⟨rfl, _⟩ := Prod.mk.inj e; exact h
  · split at e
    · rename_i c1 _ hl
      obtain ⟨rfl, _⟩ := Prod.mk.inj e
      exact h.of_same (lightBlockFromPrimary_same hl)
    · rename_i c1 l hl
      have h1 := h.of_same (lightBlockFromPrimary_same hl)
      split at e
      · split at e
        · rename_i c2 _ hv
          obtain ⟨rfl, _⟩ := Prod.mk.inj e
          exact verifyLightBlock_inv h1 hv
        · rename_i c2 _ hv
          obtain ⟨rfl, _⟩ := Prod.mk.inj e
          exact verifyLightBlock_inv h1 hv
      · obtain ⟨rfl, _⟩ := Prod.mk.inj e; exact h1

theorem firstLoop_same (h : LightBlock) :
    ∀ (arr : List Nat) (c : Client) (rm : List Nat) (c' : Client) (r : Except Err Unit),
      firstLoop h arr c rm = (c', r) → SameTrust c c' := by
  intro arr
  induction arr with
  | nil =>
    intro c rm c' r e
    simp only [firstLoop] at e
    obtain ⟨rfl, _⟩ := Prod.mk.inj e
    split <;> exact ⟨rfl, rfl, rfl⟩
  | cons i rest ih =>
    intro c rm c' r e
    simp only [firstLoop] at e
    split at e
    · exact ih _ _ _ _ e
    · split at e
      · have h2 := ih _ _ _ _ e; exact ⟨h2.1, h2.2.1, h2.2.2⟩
      · obtain ⟨rfl, _⟩ := Prod.mk.inj e; exact ⟨rfl, rfl, rfl⟩
      · have h2 := ih _ _ _ _ e; exact ⟨h2.1, h2.2.1, h2.2.2⟩
      · have h2 := ih _ _ _ _ e; exact ⟨h2.1, h2.2.1, h2.2.2⟩

theorem compareFirst_same {c : Client} {h : LightBlock} {c' : Client} {r : Except Err Unit}
    (e : compareFirstHeaderWithWitnesses c h = (c', r)) : SameTrust c c' := by
  unfold compareFirstHeaderWithWitnesses at e
  split at e
  · obtain ⟨rfl, _⟩ := Prod.mk.inj e; exact ⟨rfl, rfl, rfl⟩
  · exact firstLoop_same _ _ _ _ _ _ e

theorem newClient_inv {cfg : Config} {primary : Prov} {witnesses : List Prov}
    {sched : List Prov → List Nat} {period height : Int} {root : Hash} {c : Client}
    (e : newClient cfg primary witnesses sched period height root = .ok c) : Inv cfg (· = root) c := by
  unfold newClient at e
  split at e
  · cases e
  · split at e
    · cases e
    · split at e
      · cases e
      · split at e
        · cases e
        · simp only at e
          split at e
          · cases e
          · rename_i c1 l hl
            have hs1 := lightBlockFromPrimary_same hl
            split at e
            · cases e
            · split at e
              · cases e
              · rename_i hhash
                simp at hhash
                split at e
                · cases e
                · split at e
                  · cases e
                  · rename_i c2 _ hc
                    have hs2 := compareFirst_same hc
                    injection e with e
                    subst e
                    have hi0 : Inv cfg (· = root) c2 := by
                      have hs := hs1.trans hs2
                      refine ⟨hs.1, ?_, ?_⟩
                      · rw [hs.2.1]; intro b hb; simp at hb
                      · rw [hs.2.2]; intro l hl; simp at hl
                    exact updateTrusted_inv hi0 (Reach.root _ hhash)

end Tmv.Light
