import Tmv.Lemmas.LightTrace
namespace Tmv.Light

theorem seqLoop_last (now : Int) (new : LightBlock) :
    ∀ (fuel : Nat) (c : Client) (verified : LightBlock) (height : Int) (trace : List LightBlock)
      (c' : Client) (tr : List LightBlock),
      seqLoop now new fuel c verified height trace = (c', .ok tr) →
      (tr = trace ∧ ¬ height ≤ new.height) ∨ tr.getLast? = some new := by
  intro fuel
  induction fuel with
  | zero =>
    intro c verified height trace c' tr e
    simp only [seqLoop] at e
    obtain ⟨_, h⟩ := Prod.mk.inj e
    cases h
  | succ f ih =>
    intro c verified height trace c' tr e
    simp only [seqLoop] at e
    split at e
    · rename_i hgt
      obtain ⟨_, h⟩ := Prod.mk.inj e
      injection h with h
      simp at hgt
      exact Or.inl ⟨h.symm, by omega⟩
    · rename_i hle
      simp at hle
      generalize hp : (if height = new.height then (c, Except.ok new) else lightBlockFromPrimary c height) = p at e
      obtain ⟨c1, ir⟩ := p
      have hnew : ∀ b, ir = .ok b → height = new.height → b = new := by
        intro b hb hh
        rw [if_pos hh] at hp
        obtain ⟨_, h2⟩ := Prod.mk.inj hp
        rw [hb] at h2
        injection h2 with h2
        exact h2.symm
      simp only at e
      split at e
      · obtain ⟨_, h⟩ := Prod.mk.inj e; cases h
      · rename_i interim
        split at e
        · rcases ih _ _ _ _ _ _ e with ⟨ht, hgt⟩ | hl
          · have : height = new.height := by omega
            have hi := hnew interim rfl this
            right
            rw [ht, hi]
            simp
          · exact Or.inr hl
        · split at e
          · split at e
            · obtain ⟨_, h⟩ := Prod.mk.inj e; cases h
            · split at e
              · obtain ⟨_, h⟩ := Prod.mk.inj e; cases h
              · split at e
                · obtain ⟨_, h⟩ := Prod.mk.inj e; cases h
                · rcases ih _ _ _ _ _ _ e with ⟨ht, hgt⟩ | hl
                  · exact absurd hle hgt
                  · exact Or.inr hl
          · obtain ⟨_, h⟩ := Prod.mk.inj e; cases h

/-- some witness of some intermediate client state answered with a block of hash `h` -/
def SomeWitnessReplied (h : Hash) : Prop := ∃ (c1 : Client) (i : Nat) (w : Prov), c1.witnesses[i]? = some w ∧ Replied w h

theorem verifySequential_confirmed {c : Client} {trusted new : LightBlock} {now : Int} {c' : Client}
    (e : verifySequential c trusted new now = (c', .ok ())) : SomeWitnessReplied new.hash := by
  unfold verifySequential at e
  split at e
  · cases e
  · rename_i c1 trace hs
    have h2 := (detectDivergence_spec e).2 rfl
    obtain ⟨hlen, h, hl, i, w, hi, hr⟩ := h2
    rcases seqLoop_last now new _ _ _ _ _ _ _ hs with ⟨ht, _⟩ | hl2
    · rw [ht] at hlen; simp at hlen
    · rw [hl2] at hl
      injection hl with hl
      subst hl
      exact ⟨c1, i, w, hi, hr⟩

theorem vsap_confirmed (now : Int) (trusted : LightBlock) :
    ∀ (fuel : Nat) (c : Client) (new : LightBlock) (c' : Client),
      verifySkippingAgainstPrimary now trusted fuel c new = (c', .ok ()) →
      SomeWitnessReplied new.hash := by
  intro fuel
  induction fuel with
  | zero =>
    intro c new c' e
    simp only [verifySkippingAgainstPrimary] at e
    obtain ⟨_, h⟩ := Prod.mk.inj e
    cases h
  | succ f ih =>
    intro c new c' e
    simp only [verifySkippingAgainstPrimary] at e
    split at e
    · rename_i trace hsk
      obtain ⟨_, h, hl, i, w, hi, hr⟩ := (detectDivergence_spec e).2 rfl
      unfold verifySkipping at hsk
      have := (skipLoop_trace c.cfg now c.primary new _ _ _ _ _ _ _ _ (by exact trivial) (by simp)
        (Prod.ext rfl rfl) trace hsk).2.1
      rw [this] at hl
      injection hl with hl
      subst hl
      exact ⟨_, i, w, hi, hr⟩
    · split at e
      · split at e
        · obtain ⟨_, h⟩ := Prod.mk.inj e; cases h
        · split at e
          · obtain ⟨_, h⟩ := Prod.mk.inj e; cases h
          · split at e
            · obtain ⟨_, h⟩ := Prod.mk.inj e; cases h
            · rename_i hne
              simp at hne
              have := ih _ _ _ e
              rw [hne] at this
              exact this
      · obtain ⟨_, h⟩ := Prod.mk.inj e; cases h
    · have := ((detectDivergence_spec e).2 rfl).1
      simp at this

end Tmv.Light
